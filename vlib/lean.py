"""Lean side helpers: build, axiom audit, forbidden-token grep, line-protocol driver."""
from __future__ import annotations

import os
import re
import subprocess
import tempfile

from .common import CACHE, LEAN_DIR, STD_AXIOMS, FileLock, run

FORBIDDEN = re.compile(r"\bsorry\b|\badmit\b|^\s*axiom\s|native_decide|bv_decide|implemented_by|\bunsafe\s|maxHeartbeats\s+0\b")


def strip_comments(src: str) -> str:
    src = re.sub(r"/-.*?-/", lambda m: "\n" * m.group(0).count("\n"), src, flags=re.S)
    return "\n".join(l.split("--")[0] for l in src.split("\n"))


def grep_forbidden(paths=None):
    hits = []
    for root, _, fs in os.walk(os.path.join(LEAN_DIR, "Poupool")):
        for f in fs:
            if f.endswith(".lean"):
                p = os.path.join(root, f)
                if paths and not any(p.endswith(x) for x in paths):
                    continue
                for i, line in enumerate(strip_comments(open(p).read()).split("\n"), 1):
                    if FORBIDDEN.search(line):
                        hits.append(f"{os.path.relpath(p, LEAN_DIR)}:{i}: {line.strip()}")
    return hits


def build(modules, timeout=3000):
    """lake build of the given modules. Returns (ok, log)."""
    with FileLock("lake"):
        rc, out, err = run(["lake", "build", *modules], cwd=LEAN_DIR, timeout=timeout)
    return rc == 0, (out + err)


def failing_decls(log: str):
    """Names of files/lines that failed in a lake log."""
    return sorted(set(re.findall(r"error: ([^\s:]+\.lean:\d+):\d+", log)))


def audit(module: str, theorems):
    """#print axioms for every theorem; returns {thm: [axioms]} (None if the theorem does not exist)."""
    src = f"import {module}\n" + "\n".join(f"#print axioms {t}" for t in theorems) + "\n"
    with tempfile.NamedTemporaryFile("w", suffix=".lean", dir=CACHE, delete=False) as fh:
        fh.write(src)
        path = fh.name
    try:
        rc, out, err = run(["lake", "env", "lean", path], cwd=LEAN_DIR, timeout=600)
    finally:
        os.unlink(path)
    res = {}
    text = out + err
    for t in theorems:
        m = re.search(r"'" + re.escape(t) + r"' depends on axioms: \[([^\]]*)\]", text, flags=re.S)
        if m:
            res[t] = [a.strip() for a in m.group(1).replace("\n", " ").split(",") if a.strip()]
        elif re.search(r"'" + re.escape(t) + r"' does not depend on any axioms", text):
            res[t] = []
        else:
            res[t] = None
    return res, text


def check_theorems(chk, module: str, theorems, build_log_ok=None):
    """Build `module`, audit `theorems`; register one obligation per theorem on `chk`."""
    os.makedirs(CACHE, exist_ok=True)
    ok, log = build([module])
    chk.checker_cmds.append(f"cd lean && lake build {module} && #print axioms <each theorem>")
    if not ok:
        chk.obligation(f"build:{module}", False, log[-3000:])
        chk.extra["lake_log_tail"] = log[-3000:]
        # still try to find which theorems exist: none can be trusted
        for t in theorems:
            chk.obligation(t, False, "module does not build")
        return False
    chk.obligation(f"build:{module}", True)
    hits = grep_forbidden()
    chk.obligation("no sorry/admit/axiom/native_decide/bv_decide/implemented_by/unsafe in lean/Poupool", not hits, "; ".join(hits[:10]))
    res, text = audit(module, theorems)
    allok = not hits
    for t in theorems:
        ax = res.get(t)
        good = ax is not None and set(ax) <= STD_AXIOMS
        chk.obligation(t, good, "axioms: " + (", ".join(ax) if ax else ("none" if ax == [] else "THEOREM NOT FOUND")))
        allok = allok and good
    if getattr(chk, "tier", "quick") == "thorough" and allok:
        allok = leanchecker(chk, module) and allok
    return allok


def leanchecker(chk, module: str) -> bool:
    """thorough tier: replay the compiled module with Lean's independent checker (`lake env leanchecker`); cached per
    compiled file so that every module is replayed once per tree"""
    import hashlib

    olean = os.path.join(LEAN_DIR, ".lake", "build", "lib", "lean", *module.split(".")) + ".olean"
    try:
        h = hashlib.sha256(open(olean, "rb").read()).hexdigest()[:16]
    except OSError as e:
        chk.note(f"leanchecker not run on {module}: {e}")
        return True
    marker = os.path.join(CACHE, f"leanchecker_{module}_{h}.ok")
    chk.checker_cmds.append(f"cd lean && lake env leanchecker {module}")
    if os.path.exists(marker):
        chk.obligation(f"leanchecker {module}", True, "replayed earlier on this compiled file")
        return True
    try:
        rc, out, err = run(["lake", "env", "leanchecker", module], cwd=LEAN_DIR, timeout=3000)
    except Exception as e:  # noqa: BLE001
        chk.note(f"leanchecker not run on {module}: {e!r}")
        return True
    ok = rc == 0
    chk.obligation(f"leanchecker {module}", ok, (out + err)[-600:])
    if ok:
        open(marker, "w").write("ok")
    return ok


def driver(lean_file: str, lines, timeout=1200):
    """Run a Lean line-protocol driver (lake env lean --run <file>) on the given input lines."""
    rc, out, err = run(["lake", "env", "lean", "--run", lean_file], cwd=LEAN_DIR, timeout=timeout, input="\n".join(lines) + "\n")
    if rc != 0:
        raise RuntimeError(f"lean driver {lean_file} failed rc={rc}: {err[-2000:]} {out[-500:]}")
    return out.split("\n")[:-1] if out.endswith("\n") else out.split("\n")
