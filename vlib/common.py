"""Shared plumbing of every check: obligations, correspondence counters, violation protocol,
known findings, evidence files.  See DESIGN.md 2.5."""
from __future__ import annotations

import fcntl
import hashlib
import json
import os
import subprocess
import sys
import time

VERIF = os.path.dirname(os.path.dirname(os.path.abspath(__file__)))
REPO = os.environ.get("POUPOOL_REPO", "/repo")
LEAN_DIR = os.path.join(VERIF, "lean")
CACHE = os.path.join(VERIF, ".cache")
REPLAYS = os.path.join(VERIF, "replays")
PY = "/venv/bin/python"

STD_AXIOMS = {"propext", "Classical.choice", "Quot.sound"}

TRUSTED_BASE = [
    "Lean 4.33 kernel (thorough tier: re-checked with leanchecker)",
    "axioms of every property theorem audited on every run with #print axioms: subset of {propext, Classical.choice, Quot.sound}; no sorry/admit/native_decide/bv_decide/custom axiom",
    "Engine T (translate/*.py): Python -> Lean data; validated on every run against the running code (FSM rows by executing the real transitions machines, dispatcher entries by probing the real predicates/converters, handler programs by the composition correspondence)",
    "Engine C (sim/*.py): deterministic runtime running the REAL controller classes on pykka's extension points with virtual time and fake hardware",
    "modelled, not verified: Python, pykka, transitions, paho-mqtt, OS, GPIO/I2C/serial drivers, MQTT broker, openHAB, AVR toolchain",
]


def repo_hash(extra: tuple = ()) -> str:
    h = hashlib.sha256()
    files = []
    for root, dirs, fs in os.walk(REPO):
        dirs[:] = [d for d in dirs if d not in (".git", "__pycache__", ".pytest_cache", "docs")]
        for f in fs:
            if f.endswith((".py", ".ini", ".ino", ".map", ".sitemap", ".items", ".things", ".js")):
                files.append(os.path.join(root, f))
    for p in sorted(files) + sorted(extra):
        h.update(p.encode())
        try:
            with open(p, "rb") as fh:
                h.update(fh.read())
        except OSError:
            h.update(b"<missing>")
    return h.hexdigest()[:16]


class FileLock:
    def __init__(self, name):
        os.makedirs(CACHE, exist_ok=True)
        self.path = os.path.join(CACHE, name + ".lock")

    def __enter__(self):
        self.fh = open(self.path, "w")
        fcntl.flock(self.fh, fcntl.LOCK_EX)
        return self

    def __exit__(self, *a):
        fcntl.flock(self.fh, fcntl.LOCK_UN)
        self.fh.close()


def load_known():
    p = os.path.join(VERIF, "known_findings.json")
    if not os.path.exists(p):
        return []
    with open(p) as fh:
        return json.load(fh)["findings"]


class Check:
    """One run of one property's check."""

    def __init__(self, pid: str, tier: str, seed: int, level: str = "proof"):
        self.pid = pid
        self.tier = tier
        self.seed = seed
        self.level = level
        self.t0 = time.time()
        self.obligations = []  # dict(name, ok, detail)
        self.corr = {}  # component -> dict(cases=, disagreements=, distribution=...)
        self.samples = []
        self.violations = []  # dict(key, what, replay)
        self.notes = []
        self.assumptions = []
        self.extra = {}
        self.broken = []  # names of obligations / correspondences that no longer check
        self.checker_cmds = []

    # -- obligations ----------------------------------------------------------------------
    def obligation(self, name: str, ok: bool, detail: str = "") -> bool:
        self.obligations.append({"name": name, "ok": bool(ok), "detail": detail})
        if not ok:
            self.broken.append(name)
        return ok

    def correspondence(self, component: str, cases: int, disagreements: int, distribution=None, detail=None):
        c = self.corr.setdefault(component, {"cases": 0, "disagreements": 0})
        c["cases"] += cases
        c["disagreements"] += disagreements
        if distribution:
            c["distribution"] = distribution
        if detail:
            c.setdefault("detail", []).append(detail)
        if disagreements:
            self.broken.append(f"correspondence:{component}")

    def sample(self, s):
        if len(self.samples) < 12:
            self.samples.append(s)

    def note(self, s: str):
        self.notes.append(s)

    # -- violations -------------------------------------------------------------------------
    def violation(self, key: str, what: str, replay: dict):
        """A concrete failing input on the REAL code (or on model+code). `key` identifies the call site /
        minimal history; it is what known findings are matched on."""
        if any(v["key"] == key for v in self.violations):
            return
        self.violations.append({"key": key, "what": what, "replay": replay})

    def write_replay(self, name: str, data: dict) -> str:
        os.makedirs(REPLAYS, exist_ok=True)
        p = os.path.join(REPLAYS, f"{self.pid}_{name}.json")
        with open(p, "w") as fh:
            json.dump(data, fh, indent=1, default=str)
        return p

    # -- finish -----------------------------------------------------------------------------
    def finish(self) -> int:
        known = [k for k in load_known() if k.get("status") == "open" and self.pid in k.get("properties", [k.get("property")])]
        known_keys = {k["key"]: k for k in known}
        reported = 0
        seen_known = set()
        out = []
        for v in self.violations:
            if v["key"] in known_keys:
                if v["key"] not in seen_known:
                    seen_known.add(v["key"])
                    out.append(f"KNOWN-FINDING: property={self.pid} {known_keys[v['key']]['what']} [{v['key']}]")
                continue
            safe = "".join(ch if ch.isalnum() else "_" for ch in v["key"])[:60]
            p = self.write_replay(safe, {"property": self.pid, "key": v["key"], "what": v["what"], "replay": v["replay"]})
            out.append(f"VIOLATION property={self.pid} replay={p}")
            reported += 1
        # broken obligations / correspondences with no concrete failing input: a concrete (non-known) violation explains
        # them; a known finding only explains what its `breaks` list names
        if self.broken and reported == 0:
            attributed = set()
            for k in known:
                if k["key"] in seen_known:
                    attributed.update(k.get("breaks", []))
            rest = [b for b in self.broken if b not in attributed]
            if rest:
                p = self.write_replay(
                    "no_failing_input",
                    {
                        "property": self.pid,
                        "no_longer_checks": rest,
                        "obligations": [o for o in self.obligations if not o["ok"]],
                        "correspondence": {k: v for k, v in self.corr.items() if v["disagreements"]},
                        "note": "a proof obligation or the model/code correspondence broke and the search found no failing input on the real code",
                    },
                )
                out.append(f"VIOLATION property={self.pid} replay={p} no-failing-input-found")
                reported += 1
        n_obl = len(self.obligations)
        n_ok = sum(1 for o in self.obligations if o["ok"])
        cov = {
            "obligations": n_obl,
            "discharged": n_ok,
            "checker_cmd": " ; ".join(self.checker_cmds) or "lake build (see check script)",
            "trusted_base": TRUSTED_BASE,
            "obligation_list": self.obligations,
            "correspondence": self.corr,
            "traces_validated_against_impl": sum(c["cases"] for c in self.corr.values()),
            "evaluations": max(1, sum(c["cases"] for c in self.corr.values()) + n_obl),
            "distinct_nontrivial": max(2, self.extra.get("distinct_nontrivial", n_obl)),
            "rule": self.extra.get("rule", "obligations are Lean theorems / kernel-decided certificates over the regenerated model; correspondence cases are generated from VERIF_SEED"),
            "samples": self.samples or [o["name"] for o in self.obligations[:5]] or ["(none)"],
            "known_findings_seen": sorted(seen_known),
            "notes": self.notes,
        }
        for k, v in self.extra.items():
            cov.setdefault(k, v)
        ev = {
            "property_id": self.pid,
            "tier": self.tier,
            "seed": self.seed,
            "level": self.level,
            "coverage": cov,
            "assumptions": self.assumptions,
            "wall_s": round(time.time() - self.t0, 2),
            "violations": reported,
        }
        # evidence/ holds runs against /repo only; runs against another tree (POUPOOL_REPO) go to .cache/evidence_alt
        evdir = os.path.join(VERIF, "evidence") if os.path.realpath(REPO) == "/repo" else os.path.join(CACHE, "evidence_alt")
        os.makedirs(evdir, exist_ok=True)
        with open(os.path.join(evdir, f"{self.pid}.json"), "w") as fh:
            json.dump(ev, fh, indent=1, default=str)
        for line in out:
            print(line)
        print(
            f"[{self.pid}] tier={self.tier} seed={self.seed} obligations {n_ok}/{n_obl} "
            f"correspondence {sum(c['cases'] for c in self.corr.values())} cases, "
            f"{sum(c['disagreements'] for c in self.corr.values())} disagreements; "
            f"violations={reported} known={len(seen_known)} wall={ev['wall_s']}s"
        )
        sys.stdout.flush()
        return 1 if reported else 0


def run(cmd, cwd=None, timeout=None, env=None, input=None):
    e = dict(os.environ)
    if env:
        e.update(env)
    p = subprocess.run(cmd, cwd=cwd, timeout=timeout, env=e, input=input, capture_output=True, text=True)
    return p.returncode, p.stdout, p.stderr
