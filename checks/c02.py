"""C02: per-actor certificates + glue (see lean/Poupool/Properties/C02.lean and checks/actors_common.py)."""
from checks import actors_common as ac

THEOREMS = ['Poupool.C02.filtration_dosing_interlock', 'Poupool.C02.disinfection_runs_pwm_only_when_running', 'Poupool.C01.glue_disinfection', 'Poupool.C01.glue_pwm', 'Poupool.C01.pwm_on_only_while_armed']
COMPOSE = ['Poupool.ComposeProps.only_master_starts', 'Poupool.ComposeProps.filtDis_discipline', 'Poupool.ComposeProps.filtDis_halted_when_served', 'Poupool.ComposeProps.filtration_no_treatment', 'Poupool.ComposeProps.filtDis_composed_no_treatment', 'Poupool.ComposeProps.disPwm_discipline', 'Poupool.ComposeProps.disPwm_off_when_served', 'Poupool.ComposeProps.disPwm_composed_halt', 'Poupool.ComposeProps.disPwmCl_discipline', 'Poupool.ComposeProps.disPwmCl_composed_halt']
MODULE = "Poupool.Properties.C02"


def run(chk):
    from vlib import lean as _lean
    ac.run_actor_property(chk, MODULE, THEOREMS, monitor_pids=["C02"], extra=globals().get("extra"))
    ac.dispatch_facts(chk, ['C14_fact_routing', 'C14_fact_modes', 'C14_fact_speed_eco', 'C14_fact_speed_standby', 'C14_fact_speed_overflow'])
    from checks import main_wiring as _mw
    _mw.run(chk, [chk.pid])
    _lean.check_theorems(chk, "Poupool.Properties.Compose", COMPOSE)
    # the per-actor model of the PWM treats util.Timer / PController as pure helpers: their statement shape is checked
    from checks import pwm_common as _pc
    _pc.regenerate(chk)
    # the chain Filtration -> Disinfection -> PWM in ONE composed system (both pair theorems apply to the same state)
    _lean.check_theorems(chk, "Poupool.Properties.Compose3", ["Poupool.Compose3Props." + t for t in ("chain_halt_ph", "chain_halt_cl", "chain_no_treatment_ph", "chain_no_treatment_cl", "chain_off_when_served_ph", "chain_off_when_served_cl", "chain_hypotheses_needed_ph", "chain_hypotheses_needed_cl", "chainPh_demo_halt", "chainPh_demo_wash", "chainCl_demo_halt", "chainCl_demo_wash")])


def search(chk):
    from checks import range_search as _rs
    _rs.search(chk, [chk.pid])
    res = ac.exploration(chk)
    for k, f in sorted(res["findings"].items()):
        if f["property"] == "C02":
            chk.violation(f["key"], f["what"], {"kind": "scenario", "scenario": f["scenario"], "step": f["step"]})


def replay(path):
    return ac.replay(path)


def extra(chk, info, res):
    if res is not None:
        ac.check_intervals(chk, res, ['Disinfection', 'PWM', 'PWM2'])
