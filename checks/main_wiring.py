"""Wiring of the controllers: the simulator's PoolSystem reproduces the body of poupool.main(); this is checked, not assumed.

(1) structural: the sequence of `<Class>.start(<args>)`, `dispatcher.register(...)` and initial `.defer()` calls of poupool.main()
    (AST, names normalised) equals the one in sim/system.py; the pin registration of setup_gpio() is read from the AST too.
(2) behavioural: the REAL poupool.py is run as __main__ (sim/mainrun.py, --fake-devices) through a tour of modes with snapshots of
    the pin levels and controller phases; per-property pin predicates are decided on these snapshots (a violation found here has
    the main-run spec as its replay), and the same tour on the simulator's PoolSystem must give the same levels and phases."""
from __future__ import annotations

import ast
import configparser
import json
import os
import subprocess

from vlib.common import REPO, VERIF

TOUR = {
    "commands": [
        [5, "/settings/mode", "eco"],
        [70, "/settings/mode", "halt"], [72, "/settings/heater/setpoint", "30"], [75, "/settings/mode", "wintering"],
        [110, "/settings/mode", "halt"], [112, "/settings/heating/enable", "OFF"], [115, "/settings/mode", "eco"],
        [140, "/settings/mode", "standby"], [520, "/settings/swim/mode", "continuous"],
        [540, "/settings/mode", "comfort"], [580, "/settings/mode", "overflow"], [960, "/settings/mode", "eco"],
        [1100, "/settings/light/mode", "on"], [1110, "/settings/mode", "halt"],
    ],
    "snapshots": [60, 100, 108, 135, 200, 515, 535, 575, 640, 955, 1090, 1105, 1130],
    "sigterm_at": 1200, "max_s": 1300,
}


def _desc(node, env):
    """rename-invariant description of an argument expression: what object it denotes"""
    import re

    if isinstance(node, ast.Name):
        return env.get(node.id, "name:" + node.id)
    if isinstance(node, ast.Attribute) and isinstance(node.value, ast.Name) and node.value.id == "self":
        return env.get("self." + node.attr, "name:" + node.attr)
    if isinstance(node, ast.Attribute) and isinstance(node.value, ast.Name) and node.value.id == "args":
        return "arg:" + node.attr
    if isinstance(node, (ast.List, ast.Tuple)):
        return "[" + ", ".join(_desc(e, env) for e in node.elts) + "]"
    if isinstance(node, ast.ListComp):
        # [reg.get_sensor(k) for k in ("a", "b")]
        try:
            gen = node.generators[0]
            if isinstance(gen.iter, (ast.Tuple, ast.List)) and isinstance(node.elt, ast.Call) and isinstance(node.elt.func, ast.Attribute):
                return "[" + ", ".join(f"{node.elt.func.attr}({e.value!r})" for e in gen.iter.elts) + "]"
        except Exception:  # noqa: BLE001
            pass
        return "listcomp:" + ast.unparse(node)
    if isinstance(node, ast.Call):
        f = node.func
        if isinstance(f, ast.Attribute) and f.attr == "proxy" and isinstance(f.value, ast.Call):
            return _desc(f.value, env)
        if isinstance(f, ast.Attribute) and f.attr == "start" and isinstance(f.value, ast.Name):
            return "actor:" + f.value.id
        if isinstance(f, ast.Attribute) and f.attr in ("get_valve", "get_sensor", "get_pump", "get_device") and node.args and isinstance(node.args[0], ast.Constant):
            return f"{f.attr}({node.args[0].value!r})"
        if isinstance(f, ast.Name) and f.id[0].isupper():
            return "obj:" + f.id
    if isinstance(node, ast.Constant):
        return repr(node.value)
    s = ast.unparse(node)
    return "expr:" + re.sub(r"\bself\.", "", s)


def _construction(fn, devices_names=("devices", "reg"), skip=("Mqtt", "Lcd", "FakeMqtt", "FakeLcd")):
    """{class: [argument descriptions]} of the actor constructions, the dispatcher registration (as a set) and the initial
    defers of a function body, with local names resolved to what they denote (insensitive to renaming and to the order of
    independent statements)"""
    env = {n: "devices" for n in devices_names}
    env["no_disinfection"] = "arg:no_disinfection"
    starts, register, defers = {}, None, set()
    for st in fn.body:
        for node in ast.walk(st):
            if isinstance(node, ast.Call) and isinstance(node.func, ast.Attribute):
                f = node.func
                if f.attr == "start" and isinstance(f.value, ast.Name) and f.value.id[0].isupper() and f.value.id not in skip:
                    starts[f.value.id] = [_desc(a, env) for a in node.args]
                elif f.attr == "register":
                    register = sorted(_desc(a, env) for a in node.args)
                elif f.attr == "defer" and isinstance(f.value, ast.Attribute) and f.value.attr in ("do_read", "do_write"):
                    defers.add(_desc(f.value.value, env) + "." + f.value.attr)
        if isinstance(st, ast.Assign) and len(st.targets) == 1:
            t = st.targets[0]
            key = t.id if isinstance(t, ast.Name) else ("self." + t.attr if isinstance(t, ast.Attribute) and isinstance(t.value, ast.Name) and t.value.id == "self" else None)
            if key is not None and key not in devices_names:
                d = _desc(st.value, env)
                if d.startswith("obj:Encoder"):
                    d = "encoder"
                env[key] = d
    return {"starts": starts, "register": register, "defers": sorted(defers)}


def structural(chk):
    main_src = open(os.path.join(REPO, "poupool.py")).read()
    sim_src = open(os.path.join(VERIF, "sim", "system.py")).read()
    main_fn = [n for n in ast.walk(ast.parse(main_src)) if isinstance(n, ast.FunctionDef) and n.name == "main"][0]
    sim_cls = [n for n in ast.walk(ast.parse(sim_src)) if isinstance(n, ast.ClassDef) and n.name == "PoolSystem"][0]
    sim_fn = [n for n in sim_cls.body if isinstance(n, ast.FunctionDef) and n.name == "__init__"][0]
    a, b = _construction(main_fn), _construction(sim_fn)
    diff = []
    for c in sorted(set(a["starts"]) | set(b["starts"])):
        if a["starts"].get(c) != b["starts"].get(c):
            diff.append({"class": c, "main": a["starts"].get(c), "simulator": b["starts"].get(c)})
    if a["register"] != b["register"]:
        diff.append({"register": a["register"], "simulator": b["register"]})
    if a["defers"] != b["defers"]:
        diff.append({"defers": a["defers"], "simulator": b["defers"]})
    n = len(a["starts"]) + 2
    chk.correspondence("wiring: what every controller is constructed with, the dispatcher registration and the initial defers of poupool.main() (AST, local names resolved to the objects they denote) vs the simulator's PoolSystem", n, len(diff), detail=diff[:6] or None)
    return not diff


def _mainrun(spec, timeout=900):
    from vlib.common import CACHE, repo_hash
    import hashlib

    key = repo_hash((os.path.join(VERIF, "sim", "mainrun.py"), os.path.join(VERIF, "sim", "runtime.py"))) + "_" + hashlib.sha1(json.dumps(spec, sort_keys=True).encode()).hexdigest()[:10]
    path = os.path.join(CACHE, f"mainrun_{key}.json")
    if os.path.exists(path):
        try:
            return json.load(open(path))
        except Exception:  # noqa: BLE001
            pass
    res = _mainrun_nocache(spec, timeout)
    try:
        json.dump(res, open(path, "w"))
    except Exception:  # noqa: BLE001
        pass
    return res


def _mainrun_nocache(spec, timeout=900):
    p = subprocess.run(["/venv/bin/python", "-m", "sim.mainrun", json.dumps(spec)], cwd=VERIF, capture_output=True, text=True, timeout=timeout, env={**os.environ, "POUPOOL_REPO": REPO})
    for line in p.stdout.split("\n"):
        if line.startswith("RESULT "):
            return json.loads(line[7:])
    raise RuntimeError("mainrun failed: " + (p.stdout + p.stderr)[-800:])


def pin_table():
    c = configparser.ConfigParser()
    c.read(os.path.join(REPO, "config.ini"))
    return {k: [int(x) for x in v.split(",")] for k, v in c["pins"].items()}


def _on(levels, pins, name):
    return any(levels.get(str(p), True) is False for p in pins[name])


def predicates(snap, pins):
    """(property, key, what) for every pin predicate that fails on this snapshot of the REAL main-wired system"""
    lv, st = snap["levels"], snap["states"]
    out = []
    var = pins["variable"]
    speed_on = [i for i, p in enumerate(var) if lv.get(str(p), True) is False]
    pump = len(speed_on) == 1 and speed_on[0] > 0
    f = st.get("Filtration")
    outs = [n for n in ("boost", "swim", "ph", "cl", "gravity", "backwash", "tank", "drain", "heating") if _on(lv, pins, n)]
    if f == "halt" and (pump or outs):
        out.append(("C01", "main:halt-with-output", f"real main(): Filtration in halt with outputs {outs} pump={pump}"))
    if _on(lv, pins, "heating") and not (pump and f in ("heating_running", "comfort")):
        out.append(("C06", "main:heat-without-flow", f"real main(): heat-pump enable on with Filtration in {f}, pump running={pump} (Heating {st.get('Heating')}, Heater {st.get('Heater')})"))
    if (_on(lv, pins, "ph") or _on(lv, pins, "cl")) and not pump:
        out.append(("C02", "main:dosing-without-flow", f"real main(): dosing relay on with the circulation pump stopped (Filtration {f})"))
    if _on(lv, pins, "swim") and f in ("halt", "eco_normal", "eco_waiting", "eco_tank", "eco_compute", "closing", "heating_running"):
        out.append(("C13", "main:swim-on-outside-open-modes", f"real main(): swim relay on with Filtration in {f}"))
    return out


def behavioural(chk, pids):
    """tour of the REAL __main__ with snapshots; pin predicates of `pids`"""
    try:
        res = _mainrun(TOUR)
    except Exception as e:  # noqa: BLE001
        chk.obligation("main-run tour (real poupool.py as __main__ on the simulator)", False, repr(e)[:500])
        return
    pins = pin_table()
    snaps = res.get("snapshots", [])
    phases = sorted({s["states"].get("Filtration") for s in snaps})
    bad = []
    for s in snaps:
        for (pid, key, what) in predicates(s, pins):
            bad.append((pid, key, what, s["t"]))
    chk.correspondence("pin predicates (halt: all off; heat-pump only with flow in heating/comfort; dosing only with flow; swim only in open modes) on snapshots of the REAL poupool.py __main__ through a tour of modes", len(snaps), len({b[3] for b in bad if b[0] in pids}),
                       distribution={"filtration_phases_seen": phases, "exit": res.get("exit"), "error": res.get("error")})
    if res.get("error") or len(snaps) < len(TOUR["snapshots"]):
        chk.obligation("main-run tour completed", False, f"error={res.get('error')} snapshots={len(snaps)} dead={res.get('dead')}")
    seen = set()
    for (pid, key, what, t) in bad:
        if pid in pids and (pid, key) not in seen:
            seen.add((pid, key))
            chk.violation(key, what + f" at t={t} s of the tour", {"kind": "mainrun", "spec": TOUR, "snapshot_t": t})


def run(chk, pids):
    structural(chk)
    behavioural(chk, pids)


def replay(data):
    rp = data.get("replay", data)
    res = _mainrun_nocache(rp["spec"])
    pins = pin_table()
    rc = 0
    for sn in res.get("snapshots", []):
        for (pid, key, what) in predicates(sn, pins):
            print(json.dumps({"property": pid, "key": key, "what": what, "t": sn["t"]}))
            if data.get("property") in (None, pid):
                rc = 1
    print("exit", res.get("exit"), "error", res.get("error"))
    return rc
