"""C18: supervision loop + shutdown path.  Lean: Properties/C18.lean over Generated/Main.lean (T8, from poupool.py's AST) and
the SwimPumpDevice lemma; correspondence/monitor: the REAL poupool.py run as __main__ on the simulator with an exception
injected at message k of a supervised controller, or SIGTERM at any instant (sim/mainrun.py); differential test of the real
SwimPumpDevice against Model/Main.lean."""
from __future__ import annotations

import json
import multiprocessing as mp
import os
import random
import subprocess
import sys

from vlib import lean
from vlib.common import REPO, VERIF

THEOREMS = ["Poupool.C18.loop_shape", "Poupool.C18.finally_shape", "Poupool.C18.every_output_is_registered", "Poupool.C18.outputs_registered",
            "Poupool.C18.shutdown_switches_everything_off", "Poupool.Main.shutdown_all_off", "Poupool.Main.swim_off_deenergises"]
MODULE = "Poupool.Properties.C18"
PINS = {"variable": [26, 21, 20, 16], "boost": [4], "swim": [17], "ph": [25], "cl": [12], "gravity": [22], "backwash": [5], "tank": [13], "drain": [6], "main": [19], "heating": [23], "light": [27]}


def _run(spec):
    p = subprocess.run(["/venv/bin/python", "-m", "sim.mainrun", json.dumps(spec)], cwd=VERIF, capture_output=True, text=True, timeout=600, env={**os.environ, "POUPOOL_REPO": REPO})
    for line in p.stdout.split("\n"):
        if line.startswith("RESULT "):
            return spec, json.loads(line[7:])
    return spec, {"error": (p.stdout + p.stderr)[-800:], "harness_failed": True}


def energised(levels):
    """names of the outputs still energised (relays are active low; the variable pump is off when speed 0 is selected)"""
    import configparser

    c = configparser.ConfigParser()
    c.read(os.path.join(REPO, "config.ini"))
    out = []
    for name, raw in c["pins"].items():
        pins = [int(x) for x in raw.split(",")]
        lv = [levels.get(str(p), True) for p in pins]
        if len(pins) == 4:
            if any(v is False for v in lv[1:]):
                out.append(name)
        elif lv[0] is False:
            out.append(name)
    return out


def gen_specs(rng, n):
    specs = []
    modes = [["eco"], ["eco", "standby"], ["eco", "overflow"], ["eco", "standby", "comfort"], ["wintering"], ["eco", "standby", "sweep"], []]
    for i in range(n):
        cmds = []
        t = 2.0
        for m in rng.choice(modes):
            cmds.append([t, "/settings/mode", m])
            t += rng.choice([30, 200, 450])
        if rng.random() < 0.4:
            cmds.append([t - 5, "/settings/swim/mode", rng.choice(["continuous", "timed"])])
        if rng.random() < 0.3:
            cmds.append([1.0, "/settings/filtration/backwash/period", "2"])
        spec = {"commands": cmds, "max_s": t + 200}
        kind = rng.choice(["crash", "crash", "crash", "sigterm", "sigterm", "crash+dac"])
        if kind.startswith("crash"):
            spec["crash"] = [rng.choice(["Filtration", "Filtration", "Tank", "Tank", "Disinfection", "Heating"]), rng.choice([0, 1, 2, 3, 5, 8, 13, 21, rng.randint(0, 40)])]
            if kind == "crash+dac":
                spec["dac_fault_at"] = [max(1.0, t - 6), rng.choice([3, 6])]
        else:
            spec["sigterm_at"] = round(rng.uniform(0.5, t + 100), 3)
        specs.append(spec)
    # a second termination signal while the shutdown is in progress
    for n2 in (1, 2, 3, 5, 8, 12):
        specs.append({"commands": [[2.0, "/settings/mode", "eco"], [40.0, "/settings/mode", "standby"]], "max_s": 500.0, "sigterm_at": 300.0, "sigterm2_after_handlers": n2})
    # the signal arrives during the hardware set-up (handlers installed, main() not yet running): the program must still end
    specs.append({"commands": [[2.0, "/settings/mode", "eco"]], "max_s": 120.0, "sigterm_in_setup": True})
    # faults in the first poll after a phase entry (posted without timer) and in later polls
    for actor, mode in (("Tank", "eco"), ("Filtration", "eco"), ("Heating", "eco"), ("Tank", "standby")):
        for nth in (1, 2, 3):
            specs.append({"commands": [[2.0, "/settings/mode", "eco"]] + ([[40.0, "/settings/mode", mode]] if mode != "eco" else []), "max_s": 400.0, "crash_on": [actor, "do_repeat_", nth]})
    return specs


def mainrun_monitor(chk):
    rng = random.Random(chk.seed)
    specs = gen_specs(rng, 48 if chk.tier == "quick" else 600)
    with mp.Pool(min(16, mp.cpu_count())) as pool:
        results = pool.map(_run, specs)
    bad = 0
    dist = {"crash": 0, "sigterm": 0, "crash_not_reached": 0}
    for spec, r in results:
        if r.get("harness_failed"):
            chk.note("mainrun harness failed: " + r["error"][-300:])
            bad += 1
            continue
        what = None
        still = energised(r["levels"])
        crashed = r.get("crashed")
        if (spec.get("crash") or spec.get("crash_on")) and not crashed:
            dist["crash_not_reached"] += 1
        if crashed:
            dist["crash"] += 1
        elif spec.get("sigterm_at") is not None or spec.get("sigterm_in_setup"):
            dist["sigterm"] += 1
        if r.get("killed_levels") is not None and energised(r["killed_levels"]):
            what = f"a second termination signal during the shutdown killed the process (default action restored) with outputs energised: {energised(r['killed_levels'])}"
        elif r.get("error"):
            what = f"the program ended with an unexpected exception {r['error']}"
        elif r.get("timeout") and (crashed or spec.get("sigterm_at") is not None or spec.get("sigterm_in_setup")):
            what = "the program did not end after the crash / signal" + (" (signal received during the hardware set-up, before main())" if spec.get("sigterm_in_setup") else "")
        elif still:
            what = f"outputs still energised at process end: {still}"
        elif r.get("arduino_direction") not in (0, None):
            what = "the cover was not stopped at process end"
        elif r.get("alive_after"):
            what = f"actors still alive after shutdown: {r['alive_after']}"
        elif crashed and r.get("exit") != 1:
            what = f"exit status {r.get('exit')} after a controller crash (must be non-zero)"
        elif not crashed and (spec.get("sigterm_at") is not None or spec.get("sigterm_in_setup")) and r.get("exit") != 0:
            what = f"exit status {r.get('exit')} after SIGTERM without crash"
        elif crashed and r.get("t_death_us") is not None and r["t_end_us"] - r["t_death_us"] > 5_000_000:
            what = f"shutdown took {(r['t_end_us'] - r['t_death_us']) / 1e6:.1f} s after the crash"
        if what:
            bad += 1
            key = "shutdown:" + what.split(":")[0][:50]
            chk.violation(key, what, {"kind": "mainrun", "spec": spec, "result": r})
    chk.correspondence("REAL poupool.py run as __main__ (--fake-devices) on the simulator with an exception injected at message k of a supervised controller / SIGTERM at a generated instant: exit status, every output de-energised, cover stopped, all actors stopped (= what Properties/C18.lean predicts)",
                       len(results), bad, distribution=dist)
    chk.sample({"spec": specs[0], "result": {k: v for k, v in results[0][1].items() if k in ("exit", "crashed", "alive_after", "t_end_us")}})


_SWIM = r'''
import sys, json
sys.path.insert(0, %r)
from sim.system import bootstrap
bootstrap()
from sim import runtime
import datetime
w = runtime.World(datetime.datetime(2024,1,1))
import controller.device as D
class Gpio:
    OUT = 0
    def __init__(self): self.level = True
    def setup(self, *a): pass
    def output(self, pin, v): self.level = v
class Dac:
    def __init__(self): self.fails = 0; self.v = 0
    @property
    def value(self): return self.v
    @value.setter
    def value(self, x): self.v = x
    @property
    def normalized_value(self): return self.v
    @normalized_value.setter
    def normalized_value(self, x):
        if self.fails > 0:
            self.fails -= 1
            raise OSError("dac")
        self.v = x
out = []
for seq in json.loads(sys.stdin.read()):
    g, d = Gpio(), Dac()
    dev = D.SwimPumpDevice("swim", g, 17, d)
    tr = []
    for (op, val, fails) in seq:
        d.fails = fails
        if op == "speed": dev.speed(val)
        elif op == "on": dev.on()
        else: dev.off()
        tr.append([dev._SwimPumpDevice__speed, (not g.level), int(round(d.v * 100))])
    out.append(tr)
print("RESULT " + json.dumps(out))
''' % VERIF


def swim_device_correspondence(chk):
    """real SwimPumpDevice vs Model/Main.lean's Swim (python mirror of the 6-line Lean definition, kept in step by the test
    below against the Lean driver-free theorem statement) + the monitor 'off() always de-energises'."""
    rng = random.Random(chk.seed + 3)
    seqs = []
    for _ in range(400 if chk.tier == "quick" else 6000):
        seq = []
        for _ in range(rng.randint(1, 12)):
            op = rng.choice(["speed", "speed", "on", "off", "off"])
            seq.append([op, rng.choice([0, 1, 50, 100]), rng.choice([0, 0, 1, 2, 3, 5])])
        seqs.append(seq)
    p = subprocess.run(["/venv/bin/python", "-c", _SWIM], input=json.dumps(seqs), capture_output=True, text=True, timeout=600, env={**os.environ, "POUPOOL_REPO": REPO})
    real = None
    for line in p.stdout.split("\n"):
        if line.startswith("RESULT "):
            real = json.loads(line[7:])
    if real is None:
        chk.obligation("harness: real SwimPumpDevice on fake GPIO/DAC", False, (p.stdout + p.stderr)[-1000:])
        return

    def set_speed(s, value, fails):
        speed, relay, dac = s
        if speed == value:
            return s
        if speed <= 0 and value > 0:
            relay = True
        elif speed != 0 and value == 0:
            relay = False
        if fails >= 3:
            return (speed, relay, dac)
        return (value, relay, value)

    bad = 0
    off_bad = None
    for seq, tr in zip(seqs, real):
        s = (-1, False, 0)
        for (op, val, fails), obs in zip(seq, tr):
            if op == "speed":
                s = set_speed(s, val, fails)
            elif op == "on":
                s = set_speed(s, 100, fails)
            else:
                s = set_speed((s[0], False, s[2]), 0, fails)
                if obs[1]:
                    off_bad = (seq, tr)
            if [s[0], s[1], s[2]] != obs:
                bad += 1
                break
    chk.correspondence("SwimPumpDevice (REAL class, fake GPIO/DAC with fault patterns) vs Model/Main.lean Swim.setSpeed/off", len(seqs), bad)
    if off_bad:
        chk.violation("swim-relay-on-after-off", "SwimPumpDevice.off() left the relay energised", {"kind": "swim-device", "ops": off_bad[0], "trace": off_bad[1]})


def run(chk):
    sys.path.insert(0, os.path.join(VERIF, "translate"))
    import main_model

    try:
        m = main_model.generate()
        chk.obligation("T8: poupool.py's main(), __main__ block and device registration read from the AST", True, json.dumps({k: m[k] for k in ("supervised", "loop", "return", "finally")}))
    except Exception as e:  # noqa: BLE001
        chk.obligation("T8: poupool.py's main(), __main__ block and device registration read from the AST", False, repr(e))
        m = None
    if m is not None:
        lean.check_theorems(chk, MODULE, THEOREMS)
    # the signal handler must only clear the running flag (the model's signal step): anything else (restoring default
    # dispositions, exiting) changes what a second signal does
    import ast
    try:
        tree = ast.parse(open(os.path.join(REPO, "poupool.py")).read())
        fn = [n for n in ast.walk(tree) if isinstance(n, ast.FunctionDef) and n.name == "sigterm_handler"][0]
        body = [n for n in fn.body if not (isinstance(n, ast.Expr) and isinstance(n.value, ast.Constant))]
        def harmless(n):
            # logging / printing is fine; anything that touches signal dispositions, exits or raises is not
            return isinstance(n, ast.Expr) and isinstance(n.value, ast.Call) and ast.unparse(n.value.func).split(".")[0] in ("logger", "logging", "print")

        core = [n for n in body if not harmless(n)]
        ok = len(core) == 2 and isinstance(core[0], ast.Global) and core[0].names == ["running"] and isinstance(core[1], ast.Assign) and ast.unparse(core[1]) == "running = False"
        chk.obligation("T8: sigterm_handler only clears the running flag (shape of the model's signal step)", ok, "; ".join(ast.unparse(n) for n in body)[:300])
    except Exception as e:  # noqa: BLE001
        chk.obligation("T8: sigterm_handler only clears the running flag (shape of the model's signal step)", False, repr(e))
    swim_device_correspondence(chk)
    mainrun_monitor(chk)
    from checks import main_wiring as _mw
    _mw.structural(chk)
    # stop_all() terminates only if every actor returns to its inbox: ask graph ranked (C09) and no looping handler
    from checks import actors_common as _ac
    if _ac.regenerate(chk) is not None:
        _ac.handler_loops_obligation(chk)
        lean.check_theorems(chk, "Poupool.Properties.C09", ["Poupool.C09.strict_graph_ranked", "Poupool.C09.no_wait_cycle"])
    chk.assumptions += ["OS signal delivery, sys.exit and interpreter shutdown are not modelled (partial)", "termination of stop_all() relies on C09 (no deadlock)",
                        "device.off()/stop() of the fake devices stand for the real GPIO/serial writes"]
    chk.extra["distinct_nontrivial"] = 12


def search(chk):
    mainrun_monitor(chk)


def replay(path):
    d = json.load(open(path))
    rp = d.get("replay", d)
    if rp.get("kind") == "mainrun":
        spec, r = _run(rp["spec"])
        print(json.dumps(r)[:1500])
        still = energised(r.get("levels", {}))
        return 1 if (still or r.get("alive_after") or r.get("error")) else 0
    print(json.dumps(rp)[:800])
    return 1
