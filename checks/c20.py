"""C20  Dosing duty has the right sign and bounds and the PWM reproduces it.

Proof: Poupool/Properties/C20.lean over Model/Pwm.lean + regenerated constants.  Tie: (1) the duties that the REAL
Disinfection.on_enter_running_adjusting writes into the two REAL PWM actors vs Model phDuty/orpDuty (Lean driver) on a
dyadic grid (exact) and on random floats (tolerance band); (2) tick-level correspondence of the real PWM with the Lean
driver.  Monitors on real behaviour decide the statement: duty in [0,1], sign, monotone, disabled => 0; duty 0 => never
on; pulses >= min_runtime unless cut by cancel (or by the security cap); on-fraction over n whole periods at constant
duty within two ticks per period of the rounded duty.  The on-fraction clause is PROVED (Proofs/PwmFraction.lean:
c20_phase_lengths, c20_cycles, c20_cycle_fraction, c20_on_fraction, c20_zero_on, c20_full_on); the monitor keeps deciding
the property's statement on real traces and additionally compares every real constant-duty trace with what those
theorems predict (phase lengths, |onTime - n*dutyOn'| <= n*dt)."""
from __future__ import annotations

import json
import random
from fractions import Fraction

from vlib import lean

from . import pwm_common as pc

THEOREMS = [
    "Poupool.C20.c20_compute_bounds",
    "Poupool.C20.c20_duty_bounds",
    "Poupool.C20.c20_disabled_zero",
    "Poupool.C20.c20_ph_zero",
    "Poupool.C20.c20_ph_mono",
    "Poupool.C20.c20_orp_zero",
    "Poupool.C20.c20_orp_mono",
    "Poupool.C20.c20_dutyOn_rounding",
    "Poupool.C20.c20_dutyOn_range",
    "Poupool.C20.c20_zero_never_on",
    "Poupool.C20.c20_pulse_min_runtime",
    "Poupool.C20.c20_on_fraction_partial",
    "Poupool.C20.c20_fresh_boundary",
    "Poupool.C20.c20_phase_lengths",
    "Poupool.C20.c20_cycles",
    "Poupool.C20.c20_cycle_fraction",
    "Poupool.C20.c20_on_fraction",
    "Poupool.C20.c20_zero_on",
    "Poupool.C20.c20_full_on",
    "Poupool.C20.c20_boundary_again",
    "Poupool.C20.c20_no_cap_of_budget",
    "Poupool.C20.c20_on_fraction_without_cap_hypothesis_counterexample",
]

ASSUMPTIONS = [
    "binary64 arithmetic is modelled by exact rationals (Rat); correspondence inputs are dyadic (tick instants multiples of 1/64 s, duties k/1024, integer periods) so that the real arithmetic is exact, plus random floats for the P-controller compared within 1e-12 (ORP scale 0.005 is not dyadic)",
    "gains in their accepted ranges: user pterm >= 0 (dispatcher 0..10), pH pterm stored negated by Disinfection.ph_pterm; ORP scale 0.005 > 0",
    "0 <= min_runtime <= period (dispatcher/constructor: periods 10..600 s, min_runtime 3 s); with min_runtime > period the PWM never switches off by itself",
    "time.time() and datetime.now() read within one do_run are the same instant; ticks every 1 s with jitter <= 0.5 s (dt <= 1.5 s) where a tick bound is used",
    "a pulse cut by the security cap (C03) may be shorter than min_runtime: exempted like a halt, counted in the evidence",
    "on-fraction: PROVED for every duty in [0,1], period > 0, 0 <= min_runtime <= period, every tick-gap sequence with gaps in [0, dt] (the property's 0.5..1.5 s is a special case; no side condition relating dt to the phase lengths), at constant value/period/min_runtime, no do_cancel during the window, from a cycle boundary (= the first do_run after construction or after do_cancel + do_run, c20_fresh_boundary; or any do_run that switched the pump off, c20_boundary_again), while no do_run finds the security timer elapsed (C03 takes precedence over the duty; sufficient budget condition c20_no_cap_of_budget): every completed pulse lasts in [dutyOn', dutyOn'+dt), every completed pause in [period-dutyOn', period-dutyOn'+dt) (c20_phase_lengths); over n completed cycles n*dutyOn' <= onTime < n*(dutyOn'+dt) and n*period <= elapsed < n*(period+2dt) (c20_cycles) and |onTime/elapsed - dutyOn'/period| < dt/period (c20_cycle_fraction); over the wall-clock window [first do_run, first do_run + n*period] |onTime - n*dutyOn'| <= n*dt, all duties incl. 0 and 100 % (c20_on_fraction) -- one maximal tick gap per period, the property allows two; dutyOn' = 0 never on (c20_zero_on), dutyOn' = period on from the second do_run for ever (c20_full_on)",
    "reading of 'over any whole number of PWM periods ... from a fresh start': windows that start at the first do_run of the fresh start (the first phase of the PWM is an OFF pause of length period-dutyOn' measured from that do_run) and last n*period wall-clock (c20_on_fraction), or contain n completed (pause, pulse) cycles (c20_cycles / c20_cycle_fraction); windows starting at an arbitrary instant inside a phase are not covered by a theorem",
    "the proved statements are about the exact-rational model; the real class is tied to it by the tick-level correspondence and by the prediction monitor (every real constant-duty trace is compared with the phase-length and n*dt bounds of the theorems); binary64 rounding of non-dyadic inputs is outside the proof",
]

DMAX_US = 1_500_000
TOL = Fraction(1, 10**12)


def plan(chk):
    rng = random.Random(chk.seed)
    mult = 10 if chk.tier == "thorough" else 1
    pl = []
    for i in range(150 * mult):
        pl.append(("const", rng.choice([300, 600, 1500])))
    for i in range(16 * mult):
        pl.append(("edge", 600))
    for i in range(120 * mult):
        pl.append(("changes", rng.choice([300, 600, 1500])))
    for i in range(40 * mult):
        pl.append(("restart", rng.choice([200, 600])))
    for i in range(20 * mult):
        pl.append(("cap", rng.choice([200, 400])))
    return rng, pl


# ---------------------------------------------------------------------------------------------------------
def pc_cases(rng, n_grid, n_rand):
    """(enable_ph, enable_orp, ph_pterm, ph_sp, ph, orp_pterm, orp_sp, orp, exact?)"""
    cases = []
    for _ in range(n_grid):
        cases.append((
            rng.random() < 0.9, rng.random() < 0.9,
            Fraction(rng.randint(0, 160), 16), Fraction(rng.randint(6 * 16, 8 * 16), 16), Fraction(rng.randint(0, 14 * 32), 32),
            Fraction(rng.randint(0, 160), 16), Fraction(rng.randint(500, 800)), Fraction(rng.randint(0, 1000 * 4), 4),
            True))
    for _ in range(n_rand):
        cases.append((
            rng.random() < 0.9, rng.random() < 0.9,
            Fraction(rng.uniform(0, 10)), Fraction(rng.uniform(6, 8)), Fraction(rng.uniform(0, 14)),
            Fraction(rng.uniform(0, 10)), Fraction(rng.uniform(500, 800)), Fraction(rng.uniform(0, 1000)),
            False))
    # boundaries
    for sp, cur in [(7, 7), (6, 0), (8, 14), (7, Fraction(7) + Fraction(1, 2**20))]:
        cases.append((True, True, Fraction(10), Fraction(sp), Fraction(cur), Fraction(10), Fraction(600), Fraction(600), True))
    return cases


def pcontroller(chk, rng, use_lean):
    n_grid, n_rand = (1500, 1500) if chk.tier == "quick" else (15000, 15000)
    cases = pc_cases(rng, n_grid, n_rand)
    d = pc.RealDisinfection()
    real = []
    viol = []
    try:
        for (eph, eorp, kp, sp, ph, ko, so, orp, exact) in cases:
            d.d.ph_enable(eph)
            d.d.orp_enable(eorp)
            d.d.ph_pterm(float(kp))
            d.d.ph_setpoint(float(sp))
            d.d.orp_pterm(float(ko))
            d.d.orp_setpoint(float(so))
            a, b = d.adjust(float(ph), float(orp))
            real.append((Fraction(a), Fraction(b)))
            # monitor: the statement, directly on the real values
            case = {"ph_enable": eph, "orp_enable": eorp, "ph_pterm": pc.frs(kp), "ph_setpoint": pc.frs(sp), "ph": pc.frs(ph),
                    "orp_pterm": pc.frs(ko), "orp_setpoint": pc.frs(so), "orp": pc.frs(orp)}
            if not (0 <= a <= 1 and 0 <= b <= 1):
                viol.append(("pc-out-of-range", f"duty outside [0,1]: ph {a} cl {b}", case))
            if (not eph and a != 0) or (not eorp and b != 0):
                viol.append(("pc-disabled-nonzero", f"regulation disabled but duty ph {a} cl {b}", case))
            if ph <= sp and a != 0:
                viol.append(("pc-sign-ph", f"pH {float(ph)} <= setpoint {float(sp)} but pH-minus duty {a}", case))
            if orp >= so and b != 0:
                viol.append(("pc-sign-orp", f"ORP {float(orp)} >= setpoint {float(so)} but chlorine duty {b}", case))
            # monotone: a second reading with a larger error must not give a smaller duty
            if eph and eorp:
                ph2 = ph + Fraction(rng.randint(0, 64), 32)
                orp2 = orp - Fraction(rng.randint(0, 400), 4)
                a2, b2 = d.adjust(float(ph2), float(orp2))
                if a2 < a or b2 < b:
                    c2 = dict(case, ph2=pc.frs(ph2), orp2=pc.frs(orp2))
                    viol.append(("pc-not-monotone", f"duty decreased as the error grew: ph {a}->{a2}, cl {b}->{b2}", c2))
                # a positive error with a positive gain must dose at all (sign not inverted both ways)
                if ph > sp and kp > 0 and a == 0:
                    viol.append(("pc-sign-ph", f"pH {float(ph)} above setpoint {float(sp)} with gain {float(kp)} but duty 0", case))
                if orp < so and ko > 0 and b == 0:
                    viol.append(("pc-sign-orp", f"ORP {float(orp)} below setpoint {float(so)} with gain {float(ko)} but duty 0", case))
    finally:
        d.close()
    seen = set()
    for key, what, case in viol:
        if key in seen:
            continue
        seen.add(key)
        chk.violation(key, what, {"pcase": case, "explains": list(chk.broken),
                                  "how": "./check C20 --replay <this file> (real Disinfection.on_enter_running_adjusting with these settings/readings)"})
    chk.extra["monitor_pcontroller"] = {"cases": len(cases), "violations": len(viol),
                                        "statement": "duty in [0,1]; disabled => 0; pH<=setpoint => 0; ORP>=setpoint => 0; monotone in the error"}
    if not use_lean:
        return
    lines = []
    for (eph, eorp, kp, sp, ph, ko, so, orp, exact) in cases:
        lines.append(f"ph {1 if eph else 0} {pc.nd(kp)} {pc.nd(sp)} {pc.nd(ph)}")
        lines.append(f"orp {1 if eorp else 0} {pc.nd(ko)} {pc.nd(so)} {pc.nd(orp)}")
    out = lean.driver(pc.DRIVER, lines)
    bad = 0
    exact_eq = within = 0
    maxdev = Fraction(0)
    for i, (case, (a, b)) in enumerate(zip(cases, real)):
        for j, r in enumerate((a, b)):
            n, dd = out[2 * i + j].split()[1].split("/")
            m = Fraction(int(n), int(dd))
            dev = abs(m - r)
            maxdev = max(maxdev, dev)
            if dev == 0:
                exact_eq += 1
            elif dev <= TOL and not (case[8] and j == 0):  # pH on the dyadic grid must be exact
                within += 1
            else:
                bad += 1
                if bad <= 3:
                    chk.correspondence("P-controllers", 0, 0, detail={"case": [str(x) for x in case], "which": "ph" if j == 0 else "orp", "real": pc.frs(r), "model": pc.frs(m)})
    chk.correspondence(
        "duties written by the real Disinfection.on_enter_running_adjusting into the real PWM actors vs Model phDuty/orpDuty",
        2 * len(cases), bad,
        distribution={"grid_cases": n_grid, "random_float_cases": n_rand, "exactly_equal": exact_eq, "within_1e-12": within,
                      "max_abs_dev": float(maxdev), "saturated_at_1": sum(1 for a, b in real for x in (a, b) if x == 1),
                      "zero": sum(1 for a, b in real for x in (a, b) if x == 0)},
    )


# ---------------------------------------------------------------------------------------------------------
def monitor_predictions(tr, dmax_us):
    """What c20_phase_lengths / c20_on_fraction predict for a constant-duty trace from a fresh start (judged up to the
    first security cut): every completed pulse in [on', on'+dmax), every completed pause (the first one measured from
    the first do_run) in [off', off'+dmax) (<= when on' = period), and |onTime - n*on'| <= n*dmax over [t0, t0+n*P].
    Returns (list of deviations, stats)."""
    ops = tr.ops
    period = Fraction(ops[0][1])
    minrt = Fraction(ops[0][2])
    v = [Fraction(op[1]) for op in ops if op[0] == "value"][0]
    on = pc.duty_on_spec(v, period, minrt) * pc.SEC
    off = period * pc.SEC - on
    ticks = [op[1] for op in ops if op[0] == "tick"]
    out = []
    st = {"pulses": 0, "pauses": 0, "windows": 0, "max_pulse_excess_us": 0, "max_pause_excess_us": 0, "worst_window_dev_per_period_us": 0.0}
    if len(ticks) < 2:
        return out, st
    gaps = [b - a for a, b in zip(ticks, ticks[1:])]
    if max(gaps) > dmax_us or min(gaps) < 0:
        return out, st
    limit = min([t for (t, why) in tr.offs if why == "security"] + [tr.end_us])
    start = ticks[0]
    cuts = {t for (t, why) in tr.offs if why == "security"}
    for t, lv in tr.pump_log:
        if t > limit or t in cuts:
            break
        length = t - start
        if lv:  # a pause [start, t] completed
            st["pauses"] += 1
            st["max_pause_excess_us"] = max(st["max_pause_excess_us"], float(length - off))
            ok = off <= length and (length < off + dmax_us or (on == period * pc.SEC and length <= dmax_us))
            if not ok:
                out.append({"what": "pause length outside [off', off'+dt)", "from_us": start, "to_us": t, "off_us": pc.frs(off)})
        else:
            st["pulses"] += 1
            st["max_pulse_excess_us"] = max(st["max_pulse_excess_us"], float(length - on))
            if not (on <= length < on + dmax_us):
                out.append({"what": "pulse length outside [on', on'+dt)", "from_us": start, "to_us": t, "on_us": pc.frs(on)})
        start = t
    P = int(period * pc.SEC)
    n = 1
    while ticks[0] + n * P <= limit:
        e = pc.energised_between(tr.pump_log, ticks[0], ticks[0] + n * P, tr.end_us)
        dev = abs(Fraction(e) - n * on)
        st["windows"] += 1
        st["worst_window_dev_per_period_us"] = max(st["worst_window_dev_per_period_us"], float(dev / n))
        if dev > n * dmax_us:
            out.append({"what": "|onTime - n*on'| > n*dt over [t0, t0+n*P]", "n": n, "energised_us": e, "expected_us": pc.frs(n * on)})
            break
        n += 1
    return out, st


def replay_lean_witnesses(chk):
    """The concrete runs named in Properties/C20.lean, on the REAL class: (a) halfStart/halfGaps (duty 1/2, P = 10 s, gaps
    1.5 s / 0.5 s alternating; the non-vacuity examples of c20_phase_lengths / c20_cycles / c20_on_fraction), (b) the witness
    of c20_on_fraction_without_cap_hypothesis_counterexample (SECURITY_DURATION 5 s, duty 1: cut at 6 s)."""
    bad = []
    ops = [["new", "10/1", "3/1", 7200, 0], ["value", "1/2"], ["tick", 0]]
    t = 0
    for _ in range(20):
        for g in (1500000, 500000):
            t += g
            ops.append(["tick", t])
    tr = pc.run_real(ops)
    want = [(5500000, 1), (11500000, 0), (17500000, 1), (23500000, 0), (29500000, 1), (35500000, 0)]
    if tr.pump_log != want or pc.energised_between(tr.pump_log, 0, 30000000, tr.end_us) != 12500000:
        bad.append({"witness": "halfStart/halfGaps", "real_pump_log": tr.pump_log, "lean": want})
    ops = [["new", "10/1", "3/1", 5, 0], ["value", "1/1"]] + [["tick", k * 1000000] for k in range(11)]
    tr = pc.run_real(ops)
    e = pc.energised_between(tr.pump_log, 0, 10000000, tr.end_us)
    if tr.pump_log != [(1000000, 1), (6000000, 0)] or e != 5000000 or [w for (_, w) in tr.offs] != ["security"]:
        bad.append({"witness": "c20_on_fraction_without_cap_hypothesis_counterexample", "real_pump_log": tr.pump_log,
                    "real_offs": tr.offs, "lean": "on at 1 s, security cut at 6 s, 5 s energised in [0 s, 10 s]"})
    chk.correspondence("concrete runs of Properties/C20.lean (non-vacuity run, cap-hypothesis witness) replayed on the real PWM class",
                       2, len(bad), detail=bad or None)


def monitor_all(chk, runs):
    found = {}
    pred = {"traces": 0, "deviating": 0, "pulses": 0, "pauses": 0, "windows": 0, "max_pulse_excess_us": 0, "max_pause_excess_us": 0,
            "worst_window_dev_per_period_us": 0.0, "first_deviations": []}
    stats = {"pulses": 0, "cut_by_cancel": 0, "cut_by_security": 0, "short_after_duty_change": 0, "const_traces": 0,
             "worst_fraction_dev_per_period_us": 0.0, "min_len_minus_minrt_us": None}

    def report(key, what, ops, meta, viol, until):
        found[key] = found.get(key, 0) + 1
        if found[key] > 1:
            return
        chk.violation(key, what, {"ops": pc.truncate_ops(ops, until), "meta": meta, "violation": viol, "explains": list(chk.broken),
                                  "how": "./check C20 --replay <this file>"})

    for ops, meta, tr in runs:
        v, st = pc.monitor_pulses(tr)
        for k in ("pulses", "cut_by_cancel", "cut_by_security", "short_after_duty_change"):
            stats[k] += st[k]
        m = st["min_len_over_minrt_us"]
        if m is not None and (stats["min_len_minus_minrt_us"] is None or m < stats["min_len_minus_minrt_us"]):
            stats["min_len_minus_minrt_us"] = m
        for x in v[:1]:
            key = "pwm-duty-change-cuts-pulse" if x["duty_or_period_changed_during_pulse"] else "pwm-short-pulse"
            report(key, f"on-pulse of {x['length_us'] / 1e6:.3f} s < min_runtime {x['min_runtime']} s not cut by a halt", ops, meta, x, x["pulse_us"][1])
        if meta["kind"] == "const":
            stats["const_traces"] += 1
            v2, worst = pc.monitor_fraction(tr, DMAX_US)
            stats["worst_fraction_dev_per_period_us"] = max(stats["worst_fraction_dev_per_period_us"], worst)
            for x in v2[:1]:
                key = "pwm-zero-duty-on" if "duty 0" in x["what"] else "pwm-on-fraction"
                report(key, x["what"], ops, meta, x, tr.end_us)
            dev, pst = monitor_predictions(tr, DMAX_US)
            pred["traces"] += 1
            pred["deviating"] += 1 if dev else 0
            for k in ("pulses", "pauses", "windows"):
                pred[k] += pst[k]
            for k in ("max_pulse_excess_us", "max_pause_excess_us", "worst_window_dev_per_period_us"):
                pred[k] = max(pred[k], pst[k])
            if dev and len(pred["first_deviations"]) < 3:
                pred["first_deviations"].append({"new": ops[0], "meta": meta, "deviation": dev[0]})
    if pred["traces"]:
        # the real class must behave as the theorems about the model say (a deviation is a broken tie, not by itself a
        # violation of the property: the property's own statement is decided above with its two-tick bound)
        chk.correspondence(
            "real constant-duty traces vs the bounds proved in c20_phase_lengths / c20_on_fraction (pulse in [on',on'+dt), pause in [off',off'+dt), |onTime-n*on'| <= n*dt, dt = 1.5 s)",
            pred["traces"], pred["deviating"],
            distribution={k: pred[k] for k in pred if k != "first_deviations"},
            detail=pred["first_deviations"] or None)
    chk.extra["monitor_pwm"] = dict(stats, statement="no pulse < min_runtime unless cut by cancel (or the security cap); duty 0 => never on; "
                                    "|onTime - n*dutyOn'| <= 2*n*1.5 s over n whole periods at constant duty from a fresh start "
                                    "(the property's bound; the theorems give n*1.5 s, compared separately under correspondence)")
    return sum(found.values())


def run(chk):
    chk.assumptions.extend(ASSUMPTIONS)
    cfg = pc.regenerate(chk)
    lean_ok = False
    if cfg is not None:
        lean_ok = lean.check_theorems(chk, "Poupool.Properties.C20", THEOREMS)
        lean_ok = lean_ok or lean.build(["Poupool.Generated.PwmConfig"])[0]
        if chk.tier == "thorough" and lean_ok:
            pc.leanchecker(chk, ["Poupool.Model.Pwm", "Poupool.Generated.PwmConfig", "Poupool.Proofs.PwmCap", "Poupool.Proofs.PwmDuty", "Poupool.Proofs.PwmFraction", "Poupool.Properties.C20"])
    rng, pl = plan(chk)
    pcontroller(chk, rng, lean_ok)
    runs = pc.campaign(chk, rng, pl, use_lean=lean_ok)
    monitor_all(chk, runs)
    replay_lean_witnesses(chk)
    chk.extra["rule"] = "theorems of Properties/C20.lean over the regenerated constants; correspondence cases and monitor traces generated from VERIF_SEED"
    chk.extra["distinct_nontrivial"] = len(runs)


def search(chk):
    rng, pl = plan(chk)
    pcontroller(chk, rng, False)
    runs = []
    for kind, n in pl[: max(80, len(pl) // 3)]:
        ops, meta = pc.gen_sequence(rng, kind, n)
        runs.append((ops, meta, pc.run_real(ops)))
    monitor_all(chk, runs)


def replay(path):
    with open(path) as fh:
        data = json.load(fh)
    rep = data.get("replay", data)
    if "pcase" in rep:
        c = rep["pcase"]
        d = pc.RealDisinfection()
        try:
            d.d.ph_enable(c["ph_enable"])
            d.d.orp_enable(c["orp_enable"])
            d.d.ph_pterm(float(Fraction(c["ph_pterm"])))
            d.d.ph_setpoint(float(Fraction(c["ph_setpoint"])))
            d.d.orp_pterm(float(Fraction(c["orp_pterm"])))
            d.d.orp_setpoint(float(Fraction(c["orp_setpoint"])))
            a, b = d.adjust(float(Fraction(c["ph"])), float(Fraction(c["orp"])))
            print(f"real Disinfection: pH {float(Fraction(c['ph']))} (setpoint {float(Fraction(c['ph_setpoint']))}) -> pH duty {a};"
                  f" ORP {float(Fraction(c['orp']))} (setpoint {float(Fraction(c['orp_setpoint']))}) -> cl duty {b}")
            bad = not (0 <= a <= 1 and 0 <= b <= 1) or (Fraction(c["ph"]) <= Fraction(c["ph_setpoint"]) and a != 0) or (
                Fraction(c["orp"]) >= Fraction(c["orp_setpoint"]) and b != 0) or (not c["ph_enable"] and a != 0) or (not c["orp_enable"] and b != 0)
            if "ph2" in c:
                a2, b2 = d.adjust(float(Fraction(c["ph2"])), float(Fraction(c["orp2"])))
                print(f"larger error: pH duty {a2}, cl duty {b2}")
                bad = bad or a2 < a or b2 < b
            if Fraction(c["ph"]) > Fraction(c["ph_setpoint"]) and Fraction(c["ph_pterm"]) > 0 and c["ph_enable"] and a == 0:
                bad = True
            if Fraction(c["orp"]) < Fraction(c["orp_setpoint"]) and Fraction(c["orp_pterm"]) > 0 and c["orp_enable"] and b == 0:
                bad = True
        finally:
            d.close()
        print("VIOLATION reproduced" if bad else "no violation")
        return 1 if bad else 0
    ops = rep["ops"]
    tr = pc.run_real(ops)
    v, st = pc.monitor_pulses(tr)
    print(f"replayed {len(ops)} ops on the real PWM: pump log {tr.pump_log[-6:]}; pulse stats {st}")
    bad = bool(v)
    for x in v:
        print("VIOLATION reproduced:", x)
    if rep.get("meta", {}).get("kind") == "const":
        v2, worst = pc.monitor_fraction(tr, DMAX_US)
        for x in v2:
            print("VIOLATION reproduced:", x)
        bad = bad or bool(v2)
    if not bad:
        print("no violation")
    return 1 if bad else 0
