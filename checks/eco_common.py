"""Shared machinery of checks/c10.py and checks/c11.py: translator, EcoMode/Timer correspondence against the REAL
classes, closed-loop runs of the REAL composed system (sim.system.PoolSystem), trace extraction, the Lean driver
protocol (lean/Poupool/Drivers/Eco.lean), the property monitors."""
from __future__ import annotations

import datetime as _dt
import json
import multiprocessing as mp
import os
import random
import sys
import traceback

from vlib import lean as vlean
from vlib.common import REPO, VERIF

DRIVER = "Poupool/Drivers/Eco.lean"
EPOCH = _dt.datetime(2000, 1, 1)  # a midnight: model time = µs since EPOCH
US = 1_000_000
DAY_US = 86400 * US
TOL_US = 180 * US  # the property's tolerance (C10)
RESTORE_TOL_US = 300 * US  # the property's margin (C11)
PUMP_TOL_US = 1 * US  # see compare_loop_pk
EPS_US = 600_000  # bound on handler lateness given to the model and checked on every real run (the simulator shows <= 0.5 s + a few µs: the ADC read sleeps)
NPROC = min(16, os.cpu_count() or 4)
STRICT_HEAT_UPPER = os.environ.get("ECO_STRICT_HEAT_UPPER") == "1"  # literal reading: heating overrun is a violation


def td_us(td) -> int:
    return (td.days * 86400 + td.seconds) * US + td.microseconds


def dt_us(d) -> int:
    return td_us(d - EPOCH)


def us_dt(us: int):
    return EPOCH + _dt.timedelta(microseconds=us)


# ---------------------------------------------------------------------------------------------------------------
# translator
# ---------------------------------------------------------------------------------------------------------------
def regenerate(chk):
    from translate import eco_config

    vals, _ = eco_config.generate()
    chk.obligation(
        "translate:eco_config shape of EcoMode/Timer/Filtration eco cycle/dispatcher entries as modelled",
        not vals["deviations"],
        "deviating: " + ", ".join(vals["deviations"]),
    )
    chk.extra["eco_config"] = {k: (list(v) if isinstance(v, tuple) else v) for k, v in vals.items() if k not in ("methods",)}
    return vals


# ---------------------------------------------------------------------------------------------------------------
# EcoMode / Timer correspondence
# ---------------------------------------------------------------------------------------------------------------
class RecEncoder:
    def __init__(self):
        self.calls = []

    def __getattr__(self, name):
        def f(value, **kw):
            self.calls.append((name, value, kw))

        return f


def parse_td_str(s: str) -> int:
    """str(timedelta) -> whole seconds (only whole-second values are printed by the code under test)."""
    days = 0
    if "day" in s:
        d, s = s.split(", ")
        days = int(d.split()[0])
    h, m, sec = s.split(":")
    if "." in sec:
        raise ValueError("fractional")
    return days * 86400 + int(h) * 3600 + int(m) * 60 + int(sec)


class RealEco:
    """The real EcoMode (+ the three Filtration methods that touch it, re-stated on the real object: the
    methods of the Filtration actor itself are exercised by the closed-loop runs)."""

    def __init__(self, now_us):
        from sim import runtime, system

        system.bootstrap()
        self.world = runtime.World(EPOCH)
        self.set_now(now_us)
        from controller.filtration import EcoMode

        self.enc = RecEncoder()
        self.eco = EcoMode(self.enc)

    def set_now(self, us):
        self.world.now_us = us

    def state(self):
        e = self.eco
        f, c = e.filtration, e.current
        lf, lc = f._Timer__last, c._Timer__last
        num, den = float(e.tank_percentage).as_integer_ratio()
        ok = 1 if td_us(e.period_duration) > 0 else 0
        return [
            td_us(f.duration),
            -1 if lf is None else dt_us(lf),
            td_us(f.delay),
            td_us(c.duration),
            -1 if lc is None else dt_us(lc),
            td_us(c.delay),
            dt_us(e._EcoMode__next_reset),
            e.period,
            num,
            den,
            td_us(e.period_duration),
            td_us(e.on_duration),
            td_us(e.off_duration),
            td_us(e.tank_duration),
            dt_us(e._EcoMode__duration_last_save),
            ok,
            1 if e.elapsed_on() else 0,
            1 if e.elapsed_off() else 0,
        ]

    def apply(self, op):
        """returns (state list, extra list or None, raised or None)."""
        from datetime import timedelta

        e = self.eco
        k = op[0]
        extra = None
        raised = None
        self.enc.calls.clear()
        try:
            if k == "daily":
                e.daily = timedelta(microseconds=op[1])
            elif k == "period":
                e.period = op[1]
            elif k == "reset_hour":
                self.set_now(op[1])
                e.reset_hour = op[2]
            elif k == "tank":
                e.tank_percentage = op[1]  # float
            elif k == "update":
                now = us_dt(op[1])
                f = op[2]
                r = e.update(now) if f is None else e.update(now, f)
                calls = {n: v for n, v, _ in self.enc.calls}
                retain = [kw.get("retain") for n, v, kw in self.enc.calls if n == "filtration_duration"]
                pers = int(calls["filtration_duration"]) if "filtration_duration" in calls else -1
                if retain and retain[0] is not True:
                    pers = -2  # published without retain: cannot be restored
                extra = [1 if r else 0, pers, parse_td_str(calls["filtration_next"]), parse_td_str(calls["filtration_remaining"])]
            elif k == "compute":
                self.set_now(op[1])
                e.compute()
            elif k == "restore":
                e.filtration.duration = timedelta(seconds=op[1])  # Filtration.restore_duration
            elif k == "fduration":
                raise RuntimeError("fduration is run on the Filtration actor, see real_fduration")
            elif k == "clear":
                e.clear()
            elif k == "setcur":
                e.set_current(timedelta(microseconds=op[1]))
            else:
                raise RuntimeError(op)
        except (AssertionError, ZeroDivisionError) as ex:
            raised = type(ex).__name__
        return self.state(), extra, raised


def factor_ratio(f):
    if f is None:
        return None
    if isinstance(f, int):
        return (f, 1)
    return float(f).as_integer_ratio()


def op_line(op, default_factor=(1, 1)):
    k = op[0]
    if k == "tank":
        n, d = float(op[1]).as_integer_ratio()
        return f"tank {n} {d}"
    if k == "update":
        n, d = factor_ratio(op[2]) or default_factor
        return f"update {op[1]} {n} {d}"
    return " ".join(str(x) for x in op)


def gen_eco_sequence(rng: random.Random, length: int):
    """One op sequence; returns (start_us, ops).  Times are mostly monotone with poll-like and day-like gaps."""
    base_day = rng.randrange(-7000, 12000)
    now = base_day * DAY_US + rng.randrange(0, DAY_US)
    start = now
    ops = []
    style = rng.choice(["dispatcher", "dispatcher", "dispatcher", "edge"])
    for _ in range(length):
        r = rng.random()
        gap = rng.choice([0, 1, rng.randrange(0, 20), 10 * US + rng.randrange(0, 2000), rng.randrange(0, 600 * US), rng.randrange(0, 30 * 3600 * US), 5 * US])
        if rng.random() < 0.02:
            gap = -rng.randrange(0, 3 * US)
        now += gap
        if r < 0.40:
            ops.append(("update", now, rng.choice([None, 0, 1, 0.5, 1, 0, None])))
        elif r < 0.55:
            ops.append(("compute", now))
        elif r < 0.65:
            if style == "dispatcher":
                d = rng.choice([1, 2, 59, 60, 3599, 3600, 3601, 36000, 86399, 86400, 86401, 172800, rng.randrange(1, 172801), rng.randrange(1, 172801)]) * US
            else:
                d = rng.choice([0, 1, 3, 4, 5, 6, 9, 10, 11, 19, 21, 999_999, rng.randrange(0, 50), rng.randrange(1, 172801 * US)])
            ops.append(("daily", d))
        elif r < 0.73:
            ops.append(("period", rng.randrange(1, 11) if style == "dispatcher" or rng.random() < 0.7 else rng.randrange(1, 200)))
        elif r < 0.80:
            ops.append(("reset_hour", now, rng.randrange(0, 24)))
        elif r < 0.88:
            t = rng.choice([0.0, 0.5, 0.1, 0.25, 0.3, 1 / 3, rng.random() / 2, rng.random() / 2, 5e-324, 1e-9])
            ops.append(("tank", t))
        elif r < 0.93:
            ops.append(("restore", rng.choice([0, 1, rng.randrange(0, 86401), rng.randrange(0, 86401)])))
        elif r < 0.97:
            ops.append(("clear",))
        else:
            ops.append(("setcur", rng.choice([0, 60 * US, rng.randrange(0, 20 * 3600 * US)])))
    return start, ops


UNIT_TEST_CASES = []
for _p in (1, 2, 3, 4):
    for _h in (0, 14):
        UNIT_TEST_CASES.append(
            (
                dt_us(_dt.datetime(1981, 5, 30, 0, 0, 1)),
                [("tank", 0.1), ("period", _p), ("daily", 10 * 3600 * US), ("compute", dt_us(_dt.datetime(1981, 5, 30, _h, 0, 0)))],
                {"on": 9 * 3600 * US // _p if (9 * 3600 * US) % _p == 0 else None, "off": ((24 - 10) * 3600 * US // _p if _h == 0 else 0)},
            )
        )
for _h in (10, 5):
    UNIT_TEST_CASES.append(
        (
            dt_us(_dt.datetime(1981, 5, 30, 0, 0, 1)),
            [
                ("daily", 10 * 3600 * US),
                ("compute", dt_us(_dt.datetime(1981, 5, 30, 0, 0, 0))),
                ("update", dt_us(_dt.datetime(1981, 5, 30, 0, 0, 0)), None),
                ("update", dt_us(_dt.datetime(1981, 5, 30, _h, 0, 0)), None),
            ],
            {"dur": _h * 3600 * US},
        )
    )


def eco_correspondence(chk, n_seq: int, length: int, default_factor=(1, 1)):
    """Real EcoMode vs Lean EcoMode on generated op sequences.  Returns list of failing cases (dicts)."""
    rng = random.Random(chk.seed * 7919 + 11)
    cases = [(s, ops, None) for s, ops, _ in UNIT_TEST_CASES]
    expect = [e for _, _, e in UNIT_TEST_CASES]
    for _ in range(n_seq):
        s, ops = gen_eco_sequence(rng, length)
        cases.append((s, ops, None))
    lines = []
    real_out = []
    dist = {"ops": {}, "asserts_raised": 0, "resets": 0, "persisted": 0, "half_factor": 0, "negative_gap": 0, "sequences": len(cases)}
    for start, ops, _ in cases:
        r = RealEco(start)
        lines.append(f"new {start}")
        real_out.append((("new", start), r.state(), None, None))
        dead = False
        for op in ops:
            dist["ops"][op[0]] = dist["ops"].get(op[0], 0) + 1
            if dead:
                break
            if op[0] == "compute" and r.state()[15] == 0:
                # the real compute raises on its assert before touching anything; the model's `assertOk` is 0 in
                # the compared state, the op is not sent to the model
                st, ex, raised = r.apply(op)
                dist["asserts_raised"] += 1
                if raised is None:
                    real_out.append((op, ["compute did not raise with period_duration <= 0"], None, None))
                    lines.append("clear")  # will disagree
                continue
            st, ex, raised = r.apply(op)
            if raised:
                dist["asserts_raised"] += 1
            if ex:
                dist["resets"] += ex[0]
                dist["persisted"] += 1 if ex[1] >= 0 else 0
            if op[0] == "update" and op[2] == 0.5:
                dist["half_factor"] += 1
            lines.append(op_line(op, default_factor))
            real_out.append((op, st, ex, raised))
    out = vlean.driver(DRIVER, lines)
    bad = []
    if len(out) != len(real_out):
        bad.append({"what": f"driver answered {len(out)} lines for {len(real_out)} ops", "tail": out[-3:]})
        return bad, dist, len(real_out)
    for (op, st, ex, raised), line in zip(real_out, out):
        want = "E " + " ".join(str(x) for x in st)
        if ex is not None:
            want += " | " + " ".join(str(x) for x in ex)
        if raised is not None and st[15] != 0:
            bad.append({"op": op, "what": f"real code raised {raised} but period_duration > 0"})
        if want != line:
            bad.append({"op": list(op), "real": want, "lean": line})
    # the unit-test expectations, on the real side (they are the project's own tests)
    i = 0
    for (start, ops, _), exp in zip(cases, expect):
        i += 1 + len(ops)
        st = real_out[i - 1][1]
        if exp.get("on") is not None and st[11] != exp["on"]:
            bad.append({"what": "unit test value on_duration", "ops": ops, "got": st[11]})
        if "off" in exp and st[12] != exp["off"]:
            bad.append({"what": "unit test value off_duration", "ops": ops, "got": st[12]})
        if "dur" in exp and st[0] != exp["dur"]:
            bad.append({"what": "unit test value duration", "ops": ops, "got": st[0]})
    return bad, dist, len(real_out)


# ---------------------------------------------------------------------------------------------------------------
# compute() monitor on the real code: the pure part of C10
# ---------------------------------------------------------------------------------------------------------------
def compute_monitor(seed: int, n: int):
    """Decide `on >= 0, off >= 0, tank >= 60 s, no assertion` on the REAL EcoMode.compute for dispatcher-domain
    settings.  Returns (cases, first failing replay or None)."""
    from datetime import timedelta

    rng = random.Random(seed * 31 + 5)
    fail = None
    cases = 0
    grid = []
    for daily in (1, 2, 10, 59, 60, 3599, 3600, 3601, 36000, 86400, 172800):
        for period in (1, 2, 3, 7, 10):
            for tank in (0.0, 0.1, 0.5):
                for tod in (0, 1, 12 * 3600, 86399):
                    for el in (0, 1, 1800, 86400):
                        grid.append((daily, period, tank, 0, tod, el))
    for _ in range(n):
        grid.append((rng.randrange(1, 172801), rng.randrange(1, 11), rng.random() / 2, rng.randrange(0, 24), rng.randrange(0, 86400), rng.choice([0, rng.randrange(0, 86401)])))
    for daily, period, tank, rh, tod, el in grid:
        now = 9000 * DAY_US + tod * US + rng.randrange(0, US)
        r = RealEco(now)
        e = r.eco
        cases += 1
        try:
            e.daily = timedelta(seconds=daily)
            e.period = period
            e.tank_percentage = tank
            e.reset_hour = rh
            e.filtration.duration = timedelta(seconds=el)
            e.compute()
            on, off, tk = td_us(e.on_duration), td_us(e.off_duration), td_us(e.tank_duration)
            ok = on >= 0 and off >= 0 and tk >= 60 * US
            what = f"on={on} off={off} tank={tk} (µs)"
        except (AssertionError, ZeroDivisionError) as ex:
            ok = False
            what = f"compute raised {type(ex).__name__}"
        if not ok and fail is None:
            fail = {
                "kind": "compute",
                "daily_s": daily,
                "period": period,
                "tank_percentage": tank,
                "reset_hour": rh,
                "now_us_since_2000": now,
                "elapsed_s": el,
                "observed": what,
                "expected": "on >= 0, off >= 0, tank >= 60 s, no exception",
            }
    return cases, fail


def replay_compute(rp):
    from datetime import timedelta

    r = RealEco(rp["now_us_since_2000"])
    e = r.eco
    try:
        e.daily = timedelta(seconds=rp["daily_s"])
        e.period = rp["period"]
        e.tank_percentage = rp["tank_percentage"]
        e.reset_hour = rp["reset_hour"]
        e.filtration.duration = timedelta(seconds=rp["elapsed_s"])
        e.compute()
        on, off, tk = td_us(e.on_duration), td_us(e.off_duration), td_us(e.tank_duration)
        print(f"compute: on={on} off={off} tank={tk} µs")
        return 0 if (on >= 0 and off >= 0 and tk >= 60 * US) else 1
    except (AssertionError, ZeroDivisionError) as ex:
        print("compute raised", type(ex).__name__)
        return 1


# ---------------------------------------------------------------------------------------------------------------
# closed loop on the REAL composed system
# ---------------------------------------------------------------------------------------------------------------
SETTINGS_ORDER = [
    "/settings/filtration/duration",
    "/settings/filtration/period",
    "/settings/filtration/reset_hour",
    "/settings/filtration/tank_percentage",
    "/settings/filtration/stir_duration",
    "/settings/filtration/stir_period",
    "/settings/heating/enable",
    "/settings/heating/setpoint",
    "/settings/heating/start_hour",
    "/settings/heating/min_temp",
]


def gen_loop_scenario(rng: random.Random, days: float = 2.0, kind=None):
    kind = kind or rng.choice(["plain", "plain", "p10", "short", "long", "late", "heat", "heat", "elapsed"])
    daily = rng.choice([36000, 3600 * rng.randrange(1, 24), rng.randrange(1, 172801), rng.randrange(600, 80000)])
    period = rng.randrange(1, 11)
    tank = rng.choice([0.1, 0.0, 0.5, round(rng.random() / 2, 3)])
    reset_hour = rng.choice([0, 0, rng.randrange(0, 24)])
    start_s = rng.randrange(0, 86400)
    elapsed = None
    heat = None
    if kind == "p10":
        period = 10
        daily = rng.choice([36001, 35999, rng.randrange(30000, 60000), rng.randrange(3600, 86400)])
    elif kind == "short":
        daily = rng.choice([1, 59, 61, 600, rng.randrange(1, 3700)])
    elif kind == "long":
        daily = rng.randrange(80000, 172801)
    elif kind == "late":
        reset_hour = rng.randrange(0, 24)
        start_s = (reset_hour * 3600 - rng.randrange(60, 4 * 3600)) % 86400
    elif kind == "elapsed":
        elapsed = rng.randrange(0, min(daily, 86400) + 1)
    elif kind == "heat":
        heat = {
            "start_hour": rng.randrange(0, 24),
            "setpoint": 26.0,
            "pool": 24.5,
            "minutes": rng.choice([3, 17, 45, 120, rng.randrange(1, 240)]),  # the pool reaches the setpoint after that long
        }
    stir = rng.choice([None, None, (rng.choice([0, 60, 120, 600]), rng.choice([0, 600, 3600, 7200]))])
    return {
        "kind": kind,
        "start": (_dt.datetime(2024, 6, 3) + _dt.timedelta(seconds=start_s)).isoformat(),
        "daily": daily,
        "period": period,
        "tank": tank,
        "reset_hour": reset_hour,
        "elapsed": elapsed,
        "heat": heat,
        "stir": stir,
        "days": days,
        "echo_lag": rng.choice([None, 0.2, 1.0, 3.0]),
    }


class Echo:
    """The broker's behaviour towards a client that subscribes to topics it publishes itself: every retained
    publish on a subscribed topic comes back after `lag` seconds."""

    def __init__(self, system, lag):
        from sim import runtime

        self.sys = system
        self.lag = lag
        self.runtime = runtime
        self.topics = None
        orig = system.mqtt._publish

        def publish(topic, payload, qos=0, retain=False):
            r = orig(topic, payload, qos, retain)
            if topic.startswith("/status/") and topic in self.subscribed():
                t = runtime.SimTimer(self.lag, self.deliver, (topic, payload))
                t.owner = "<broker>"
                t.label = "echo " + topic
                t.start()
            return r

        system.mqtt._publish = publish
        system.mqtt.publish.fn = publish

    def subscribed(self):
        return set(self.sys.dispatcher.topics())

    def deliver(self, topic, payload):
        self.sys.mqtt_in(topic, str(payload))


def settings_of(sc):
    m = [
        ("/settings/filtration/duration", str(sc["daily"])),
        ("/settings/filtration/period", str(sc["period"])),
        ("/settings/filtration/reset_hour", str(sc["reset_hour"])),
        ("/settings/filtration/tank_percentage", repr(sc["tank"])),
    ]
    if sc.get("stir"):
        m.append(("/settings/filtration/stir_duration", str(sc["stir"][0])))
        m.append(("/settings/filtration/stir_period", str(sc["stir"][1])))
    h = sc.get("heat")
    if h:
        m += [
            ("/settings/heating/enable", "on"),
            ("/settings/heating/setpoint", str(h["setpoint"])),
            ("/settings/heating/start_hour", str(h["start_hour"])),
            ("/settings/heating/min_temp", "10"),
        ]
    else:
        m.append(("/settings/heating/enable", "off"))
    # a recent backwash: otherwise the very first eco poll with a high tank starts one (wash is not eco)
    start = _dt.datetime.fromisoformat(sc["start"])
    m.append(("/status/filtration/backwash/last", (start - _dt.timedelta(days=1)).strftime("%c")))
    return m


def new_system(sc, start=None):
    from sim.system import PoolSystem

    h = sc.get("heat")
    temps = {"temperature_pool": h["pool"]} if h else None
    s = PoolSystem(start=start or _dt.datetime.fromisoformat(sc["start"]), temps=temps)
    s.set_tank_level(50)
    if sc.get("echo_lag"):
        s._echo = Echo(s, sc["echo_lag"])
    return s


class HeatEnv:
    """Environment for the heating interlude: the pool reaches setpoint + 1 °C `minutes` after the heat pump valve
    opened, and is back below it at the next reset (so that every day heats once)."""

    def __init__(self, s, h):
        self.s = s
        self.h = h
        self.since = None

    def step(self):
        if not self.h:
            return
        on = self.s.pin_on("heating")
        now = self.s.world.now_us
        if on and self.since is None:
            self.since = now
        if on and now - self.since >= self.h["minutes"] * 60 * US:
            self.s.set_temp("temperature_pool", self.h["setpoint"] + 1.0)
        if not on and self.since is not None and now - self.since >= 6 * 3600 * US:
            self.since = None
            self.s.set_temp("temperature_pool", self.h["pool"])


def run_real(sc, s=None, until_us=None, env=None, chunk_s=20.0):
    """Run the real system of scenario `sc` (fresh unless `s` given) until `until_us` (world µs)."""
    if s is None:
        s = new_system(sc)
        for t, p in settings_of(sc):
            s.mqtt_in(t, p)
        # the broker always holds a retained /status/filtration/duration once the controller has run before
        s.mqtt_in("/status/filtration/duration", str(sc.get("elapsed") or 0))
        s.mqtt_in("/settings/mode", "eco")
    w = s.world
    if until_us is None:
        until_us = int(sc["days"] * 86400 * US)
    env = env or HeatEnv(s, sc.get("heat"))
    if sc.get("heat"):
        while w.now_us < until_us and w.deadlock is None:
            w.run_until(min(until_us, w.now_us + int(chunk_s * US)))
            env.step()
    else:
        w.run_until(until_us)
    return s, env


VARIABLE_OFF_PIN = None


def pump_intervals(log, pins, t_end):
    """[(t_on, t_off)] world-µs intervals during which the variable pump runs (a speed > 0 selected)."""
    level = {p: True for p in pins}
    running = False
    since = None
    out = []
    for t, kind, data in log:
        if kind != "gpio":
            continue
        pin, v = data
        if pin not in level:
            continue
        level[pin] = v
        low = [i for i, p in enumerate(pins) if not level[p]]
        run = bool(low) and max(low) > 0
        if run and not running:
            since = t
        if not run and running:
            out.append((since, t))
        running = run
    if running:
        out.append((since, t_end))
    merged = []
    for a, b in out:  # a speed change releases one relay and pulls another in the same instant
        if merged and merged[-1][1] == a:
            merged[-1] = (merged[-1][0], b)
        else:
            merged.append((a, b))
    return merged


def on_time(intervals, a, b):
    return sum(max(0, min(b, y) - max(a, x)) for x, y in intervals)


FILTRATION_TRIGGERS = {"eco_normal", "eco_tank", "eco_waiting", "reload", "reloaded", "eco", "heating_delay"}


def extract_trace(log, t0_us):
    """Filtration handler sequence from the world log: list of (abs_us, name) with name in
    timer:<method> | msg:<trigger> | state:<published state> ; and the persisted payloads [(abs_us, value)]."""
    hs = []
    pers = []
    for t, kind, data in log:
        if kind == "deliver" and data[0] == "Filtration":
            n = data[1]
            if "@" in n:
                hs.append((t + t0_us, "timer:" + n.split("@")[0]))
            elif n in FILTRATION_TRIGGERS:
                hs.append((t + t0_us, "msg:" + n))
            else:
                hs.append((t + t0_us, "other:" + n))
        elif kind == "publish":
            if data[0] == "/status/filtration/state":
                hs.append((t + t0_us, "state:" + data[1]))
            elif data[0] == "/status/filtration/duration":
                pers.append((t + t0_us, int(data[1]), data[2]))
    return hs, pers


def lean_lines_for(sc, hs, eps_us, t0_us, first_eco_at):
    """Translate the real handler sequence into driver ops.  The model starts at the handler that entered
    eco_compute at `first_eco_at` with the settings applied."""
    num, den = float(sc["tank"]).as_integer_ratio()
    lines = [
        "quiet 1",
        f"loop {sc['daily']} {sc['period']} {num} {den} {sc['reset_hour']} {first_eco_at} {sc.get('elapsed') or 0} {eps_us}",
    ]
    groups = []  # per driver op: ("tick", T, [T1, T2]) | ("heat", T) | ("heatend", T)
    cur = None
    seen_start = False
    i = 0
    n = len(hs)
    while i < n:
        t, name = hs[i]
        i += 1
        if not seen_start:
            if name == "state:eco_compute" and t == first_eco_at:
                seen_start = True
            continue
        if name.startswith("timer:"):
            cur = ["tick", t, []]
            groups.append(cur)
        elif name in ("msg:eco_normal", "msg:eco_tank", "msg:eco_waiting", "msg:reload", "msg:reloaded", "msg:eco"):
            if cur is None or cur[0] != "tick":
                groups.append(["unexpected", t, name])
            else:
                cur[2].append(t)
        elif name == "msg:heating_delay":
            cur = ["heatend", t]
            groups.append(cur)
        elif name == "state:heating_running":
            cur = ["heat", t]
            groups.append(cur)
    for g in groups:
        if g[0] == "tick":
            sub = (g[2] + [0, 0])[:2]
            lines.append(f"tickat {g[1]} {sub[0]} {sub[1]}")
        elif g[0] == "heat":
            lines.append(f"heatat {g[1]}")
        elif g[0] == "heatend":
            lines.append(f"heatendat {g[1]}")
        else:
            lines.append(f"? unexpected {g[2]} at {g[1]}")
    lines.append("days")
    return lines, groups


def parse_driver_loop(out):
    recs, states, days = [], [], []
    for ln in out:
        p = ln.split()
        if not p:
            continue
        if p[0] == "R":
            recs.append((int(p[1]), p[2], p[3] == "1", int(p[4]), int(p[5]), p[6] == "1"))
        elif p[0] == "S":
            states.append((p[1], int(p[2]), int(p[3]), p[4] == "1", int(p[5]), int(p[6]), int(p[7]), int(p[8])))
        elif p[0] == "D":
            # on full [plain dur u lb ub cyc n j]
            days.append((int(p[1]), p[2]) + tuple(int(x) for x in p[3:]))
        elif p[0] == "?":
            recs.append((-1, "?" + ln, False, 0, -1, False))
    return recs, states, days


MODEL_STATE_OF = {
    "eco>eco_compute": "eco_compute",
    "heating_delayed>eco_compute": "eco_compute",
    "eco_waiting": "eco_waiting",
    "eco_normal": "eco_normal",
    "eco_tank": "eco_tank",
    "heat>heating_running": "heating_running",
    "heating_delay": "heating_delay",
}


def monitor_days(sc, s, extra_margin_us=0, restarts_by_day=None, from_us=None):
    """The property's statement on the real trace: for every whole day between two NOMINAL resets spent in eco,
    |pump-on time - min(daily, 24 h)| <= 180 s (+ 300 s per restart in that day, C11).  Returns list of failures."""
    t0 = s.world.t0
    t0_us = dt_us(t0)
    pins = s.pins["variable"]
    t_end = s.world.now_us + t0_us
    iv = [(a + t0_us, b + t0_us) for a, b in pump_intervals(s.world.log, pins, s.world.now_us)]
    rh = sc["reset_hour"]
    first = t0_us - t0_us % DAY_US + rh * 3600 * US
    while first < (from_us if from_us is not None else t0_us):
        first += DAY_US
    fails = []
    k = 0
    want = min(sc["daily"] * US, DAY_US)
    # heating interludes: [heating_running entry, next eco_compute entry (or end of run)]
    interludes = []
    cur = None
    for t, kind, data in s.world.log:
        if kind == "publish" and data[0] == "/status/filtration/state":
            if data[1] == "heating_running" and cur is None:
                cur = t + t0_us
            elif data[1] == "eco_compute" and cur is not None:
                interludes.append((cur, t + t0_us + 5 * US))
                cur = None
    if cur is not None:
        interludes.append((cur, t_end))
    while first + DAY_US <= t_end:
        got = on_time(iv, first, first + DAY_US)
        n_restart = (restarts_by_day or {}).get(k, 0)
        tol = TOL_US + extra_margin_us + n_restart * RESTORE_TOL_US
        # reading of "scheduled heating time counts towards it": the heat pump needs the circulation pump, a
        # heating interlude that lasts beyond the quota necessarily exceeds it; the upper bound is taken against
        # max(quota, pump-on time at the end of the day's last heating interlude)
        upper = want
        if not STRICT_HEAT_UPPER:
            for a, b in interludes:
                if first <= a < first + DAY_US:
                    upper = max(upper, on_time(iv, first, min(b, first + DAY_US)))
        if got < want - tol or got > upper + tol:
            fails.append({"day_start_us": first, "pump_on_us": got, "expected_us": want, "upper_us": upper, "error_s": (got - want) / US, "tolerance_s": tol / US, "restarts": n_restart})
        first += DAY_US
        k += 1
    return fails


def first_eco_time(s):
    """absolute µs of the LAST eco_compute entry that precedes the first poll (the settings burst re-enters eco)."""
    t0_us = dt_us(s.world.t0)
    last = None
    for t, kind, data in s.world.log:
        if kind == "publish" and data[0] == "/status/filtration/state":
            if data[1] == "eco_compute":
                last = t + t0_us
            elif last is not None:
                break
    return last


def loop_case(args):
    """Worker: one scenario on the real system -> (scenario, driver lines, real summary) ; the parent runs Lean."""
    sc, eps_us = args
    try:
        s, _ = run_real(sc)
        w = s.world
        if w.dead or w.deadlock:
            return {"sc": sc, "error": f"dead={w.dead} deadlock={w.deadlock}"}
        t0_us = dt_us(w.t0)
        hs, pers = extract_trace(w.log, t0_us)
        first = first_eco_time(s)
        lines, groups = lean_lines_for(sc, hs, eps_us, t0_us, first)
        fails = monitor_days(sc, s)
        states = sorted({n for _, n in hs if n.startswith("state:")})
        sub = 0
        for g in groups:
            if g[0] == "tick":
                prev = g[1]
                for t in g[2]:
                    sub = max(sub, t - prev)
                    prev = t
        pk = _pickle_real(s, first)
        pk["sub_lateness_max"] = sub
        return {"sc": sc, "lines": lines, "groups": len(groups), "first": first, "monitor": fails, "states": states, "pickled": pk}
    except Exception:  # noqa: BLE001
        return {"sc": sc, "error": traceback.format_exc()[-1500:]}


def _pickle_real(s, first):
    """what compare needs, without the system object"""
    t0_us = dt_us(s.world.t0)
    hs, pers = extract_trace(s.world.log, t0_us)
    iv = [(a + t0_us, b + t0_us) for a, b in pump_intervals(s.world.log, s.pins["variable"], s.world.now_us)]
    return {"hs": [(t, n) for t, n in hs if n.startswith("state:")], "pers": pers, "iv": iv, "t_end": s.world.now_us + t0_us}


class _Stub:
    """stand-in for the system object in compare_loop when the run happened in a worker"""

    def __init__(self, pk):
        self.pk = pk


def compare_loop_pk(pk, out, first_eco_at, eps_us):
    recs, states, days = parse_driver_loop(out)
    bad = []
    real_states = [(t, n[6:]) for t, n in pk["hs"] if t >= first_eco_at]
    real_pers = [(t, v) for t, v, _ in pk["pers"] if t >= first_eco_at]
    iv = pk["iv"]
    t_end = pk["t_end"]
    model_states = [(r[0], MODEL_STATE_OF[r[1]]) for r in recs if r[1] in MODEL_STATE_OF]

    def first_diff(a, b):
        return next((i for i, (x, y) in enumerate(zip(a, b)) if x != y), min(len(a), len(b)))

    if model_states != real_states:
        k = first_diff(model_states, real_states)
        bad.append({"what": "state entries differ", "index": k, "model": model_states[k : k + 3], "real": real_states[k : k + 3]})
    model_pers = [(r[0], r[4]) for r in recs if r[4] >= 0]
    if model_pers != real_pers:
        k = first_diff(model_pers, real_pers)
        bad.append({"what": "persisted /status/filtration/duration differ", "index": k, "model": model_pers[k : k + 3], "real": real_pers[k : k + 3]})
    if any(not retained for _, _, retained in pk["pers"]):
        bad.append({"what": "/status/filtration/duration published without retain"})
    model_sw = []
    prev = False
    for r in recs:
        if r[0] < 0:
            bad.append({"what": r[1]})
            continue
        if r[2] != prev:
            model_sw.append((r[0], r[2]))
            prev = r[2]
    real_sw = []
    for a, b in iv:
        if a >= first_eco_at:
            real_sw.append((a, True))
        if b >= first_eco_at and b != t_end:
            real_sw.append((b, False))
    # the model attributes the effects of a handler to its start; inside a handler the simulator's clock moves on
    # (asks drain other inboxes: +1 µs per message, sleeps of asked handlers): instants are compared up to PUMP_TOL
    dev = 0
    same = len(model_sw) == len(real_sw) and all(a[1] == b[1] and abs(a[0] - b[0]) <= PUMP_TOL_US for a, b in zip(model_sw, real_sw))
    if not same:
        k = next((i for i, (x, y) in enumerate(zip(model_sw, real_sw)) if x[1] != y[1] or abs(x[0] - y[0]) > PUMP_TOL_US), min(len(model_sw), len(real_sw)))
        bad.append({"what": "pump switching instants differ", "index": k, "model": model_sw[k : k + 3], "real": real_sw[k : k + 3]})
    else:
        dev = max([abs(a[0] - b[0]) for a, b in zip(model_sw, real_sw)] + [0])
    jmax = max([st[6] for st in states] + [0])
    jmin = min([st[6] for st in states] + [0])
    if jmin < 0 or jmax > eps_us or pk.get("sub_lateness_max", 0) > eps_us:
        bad.append({"what": f"handler lateness outside [0, eps]: timers min {jmin} max {jmax}, self-sent messages max {pk.get('sub_lateness_max')}, eps {eps_us}"})
    reset_times = [r[0] for r in recs if r[5]]
    bounds = [first_eco_at] + reset_times
    real_days = [on_time(iv, bounds[i], bounds[i + 1]) for i in range(len(bounds) - 1)]
    model_days = [d[0] for d in days[:-1]]
    if len(real_days) != len(model_days) or any(abs(a - b) > PUMP_TOL_US * (2 + len(model_sw)) for a, b in zip(real_days, model_days)):
        bad.append({"what": "pump-on time per reset-to-reset day differs", "model": model_days, "real": real_days})
    # the bounds proved in Properties/C10.lean (C10_quota_whole_day_partial), instantiated on this run: the real
    # pump-on time of every whole plain day lies in [lb, ub + u] (up to the pump-instant tolerance)
    bounds_rec = []
    for d, real_on in zip(days[:-1], real_days):
        if d[1] == "1" and len(d) >= 10:
            plain, dur, u, lb, ub, cyc, n, j = d[2:10]
            bounds_rec.append({"plain": plain, "lb": lb, "ub": ub, "u": u, "cyc": cyc, "n": n, "j": j, "on": real_on})
            tol = PUMP_TOL_US * (2 + len(model_sw))
            if plain == 1 and not (lb - tol <= real_on <= ub + u + tol):
                bad.append({"what": "real pump-on time outside the bounds recorded by the model (theorem C10_quota_whole_day_partial)", "day": bounds_rec[-1]})
    info = {"days": model_days, "real_days": real_days, "bounds": bounds_rec, "full": [d[1] for d in days[:-1]], "resets": reset_times, "ticks": len(states), "jmax": jmax, "pump_dev_us": dev, "switches": len(model_sw)}
    return bad, info


def pool_map(fn, items):
    if not items:
        return []
    ctx = mp.get_context("fork")
    with ctx.Pool(min(NPROC, len(items))) as p:
        return p.map(fn, items, chunksize=1)


def run_driver_many(list_of_lines):
    """one driver process per case, in parallel (each `loop` op resets the model state)."""
    return pool_map(_drv, list_of_lines)


def _drv(lines):
    try:
        return vlean.driver(DRIVER, lines)
    except Exception as e:  # noqa: BLE001
        return ["? driver failed: " + str(e)[-300:]]
