"""C14  No MQTT payload can crash a controller or bypass validation.

run(chk):
  1. T3: regenerate Generated/Dispatch.lean from the REAL Dispatcher (closure inspection + probing);
  2. Lean theorems of Properties/C14.lean (build + axiom audit);
  3. correspondence: REAL `Dispatcher.dispatch` behind recording sentinels vs Drivers/Dispatch.lean on structured and
     random (topic, payload) sessions; Python's decode/float/lower travel on each line as data;
  4. property monitors on the REAL code (run on every tree, also the unchanged one):
       a. contract monitor (sentinel level): the dispatcher never raises; what it tells is the documented
          target/method for the topic with a value inside the documented range (ORACLE below, fixed text of the
          property); restore-only topics are told at most once per Dispatcher;
       b. downstream monitor: the REAL controllers behind the dispatcher (sim.PoolSystem) in several states x every
          topic x boundary / accepted / garbage payloads, 15 s of virtual time after each: no actor may die and the
          system must still process a following `halt`.
"""
from __future__ import annotations

import math
import os
import random
import sys
import time
from fractions import Fraction

from vlib import lean
from vlib.common import REPO

THEOREMS = [
    "Poupool.C14.C14_dispatch_total",
    "Poupool.C14.C14_table_wellformed",
    "Poupool.C14.C14_topics_unique",
    "Poupool.C14.C14_tell_is_validated",
    "Poupool.C14.C14_table_names_safe",
    "Poupool.C14.C14_told_method_never_actor_api",
    "Poupool.C14.C14_once_topics",
    "Poupool.C14.C14_once_entries",
    "Poupool.C14.C14_once_at_most_once",
    "Poupool.C14.C14_fact_speed_eco",
    "Poupool.C14.C14_fact_speed_standby",
    "Poupool.C14.C14_fact_speed_overflow",
    "Poupool.C14.C14_fact_duration",
    "Poupool.C14.C14_fact_period",
    "Poupool.C14.C14_fact_reset_hour",
    "Poupool.C14.C14_fact_stir_duration",
    "Poupool.C14.C14_fact_stir_period",
    "Poupool.C14.C14_fact_boost_duration",
    "Poupool.C14.C14_fact_backwash_period",
    "Poupool.C14.C14_fact_backwash_duration",
    "Poupool.C14.C14_fact_rinse_duration",
    "Poupool.C14.C14_fact_restore_duration",
    "Poupool.C14.C14_fact_cover_position",
    "Poupool.C14.C14_fact_swim_timer",
    "Poupool.C14.C14_fact_swim_speed",
    "Poupool.C14.C14_fact_heating_start_hour",
    "Poupool.C14.C14_fact_heating_min_temp",
    "Poupool.C14.C14_fact_heating_total_seconds",
    "Poupool.C14.C14_fact_orp_setpoint",
    "Poupool.C14.C14_fact_tank_percentage",
    "Poupool.C14.C14_fact_heater_setpoint",
    "Poupool.C14.C14_fact_heating_setpoint",
    "Poupool.C14.C14_fact_ph_setpoint",
    "Poupool.C14.C14_fact_ph_pterm",
    "Poupool.C14.C14_fact_orp_pterm",
    "Poupool.C14.C14_fact_numeric_upper_bounds",
    "Poupool.C14.C14_fact_routing",
    "Poupool.C14.C14_fact_modes",
    "Poupool.C14.C14_fact_unvalidated_topics",
    "Poupool.C14.C14_setter_guards_checked",
    "Poupool.C14.C14_setter_guards_arith",
    "Poupool.C14.C14_setter_guards_period_duration_positive",
    "Poupool.C14.C14_setter_guards_strptime",
]

# ---------------------------------------------------------------------------------------------------------------
# ORACLE: the documented contract per topic, independent of the code under test.
#   ("int"|"float", target, method, lo, hi)   value must be of that type and lo <= v <= hi (hi None: unbounded)
#   ("bool", target, method)                   value must be a bool
#   ("mode", target, [names])                  method must be one of the names, no argument
#   ("str", target, method)                    any string (the setter must guard itself)
ORACLE = {
    "/settings/mode": ("mode", "filtration", ["halt", "eco", "standby", "overflow", "comfort", "sweep", "wash", "wintering"]),
    "/settings/filtration/duration": ("int", "filtration", "duration", 1, 172800),
    "/settings/filtration/period": ("int", "filtration", "period", 1, 10),
    "/settings/filtration/reset_hour": ("int", "filtration", "reset_hour", 0, 23),
    "/settings/filtration/tank_percentage": ("float", "filtration", "tank_percentage", 0, Fraction(1, 2)),
    "/settings/filtration/stir_duration": ("int", "filtration", "stir_duration", 0, 600),
    "/settings/filtration/stir_period": ("int", "filtration", "stir_period", 0, 7200),
    "/settings/filtration/boost_duration": ("int", "filtration", "boost_duration", 0, 600),
    "/settings/filtration/backwash/period": ("int", "filtration", "backwash_period", 0, 90),
    "/settings/filtration/backwash/backwash_duration": ("int", "filtration", "backwash_backwash_duration", 0, 300),
    "/settings/filtration/backwash/rinse_duration": ("int", "filtration", "backwash_rinse_duration", 0, 300),
    "/status/filtration/backwash/last": ("str", "filtration", "backwash_last"),
    "/status/filtration/duration": ("int", "filtration", "restore_duration", 0, 86400),
    "/settings/filtration/speed/eco": ("int", "filtration", "speed_eco", 1, 3),
    "/settings/filtration/speed/standby": ("int", "filtration", "speed_standby", 0, 2),
    "/settings/filtration/speed/overflow": ("int", "filtration", "speed_overflow", 1, 4),
    "/settings/filtration/overflow_in_comfort": ("bool", "filtration", "overflow_in_comfort"),
    "/settings/cover/position/eco": ("int", "filtration", "cover_position_eco", 0, 100),
    "/settings/tank/force_empty": ("bool", "tank", "force_empty"),
    "/settings/swim/mode": ("mode", "swim", ["halt", "timed", "continuous"]),
    "/settings/swim/timer": ("int", "swim", "timer", 1, 60),
    "/settings/swim/speed": ("int", "swim", "speed", 1, 100),
    "/settings/light/mode": ("mode", "light", ["halt", "on"]),
    "/settings/heater/setpoint": ("float", "heater", "setpoint", 0, 30),
    "/settings/heating/enable": ("bool", "heating", "enable"),
    "/settings/heating/setpoint": ("float", "heating", "setpoint", 10, 32),
    "/settings/heating/start_hour": ("int", "heating", "start_hour", 0, 23),
    "/settings/heating/min_temp": ("int", "heating", "min_temp", 5, 25),
    "/status/heating/total_seconds": ("int", "heating", "total_seconds", 0, 100 * 365 * 86400),
    "/settings/disinfection/ph/enable": ("bool", "disinfection", "ph_enable"),
    "/settings/disinfection/ph/setpoint": ("float", "disinfection", "ph_setpoint", 6, 8),
    "/settings/disinfection/ph/pterm": ("float", "disinfection", "ph_pterm", 0, 10),
    "/settings/disinfection/orp/enable": ("bool", "disinfection", "orp_enable"),
    "/settings/disinfection/orp/setpoint": ("int", "disinfection", "orp_setpoint", 500, 800),
    "/settings/disinfection/orp/pterm": ("float", "disinfection", "orp_pterm", 0, 10),
    "/status/water/counter": ("int", "arduino", "restore_water_counter", 0, None),
}
RESTORE_ONLY = ["/status/filtration/duration", "/status/heating/total_seconds", "/status/water/counter"]

UNKNOWN_TOPICS = ["", "/", "/settings", "/settings/mode/", "/SETTINGS/MODE", "settings/mode", "/settings/mode ", "/status/filtration/state",
                  "/settings/unknown", "/status/water/counter/", "#", "/settings/#", "/settings/+/mode", "é", "/settings/heating"]

INVALID_UTF8 = [b"\xff", b"\xc3\x28", b"\xed\xa0\x80", b"5\xff", b"\xe2\x82", b"\xf0\x9f\x98", b"\x80halt", b"halt\xc0\xaf", b"1\xfe0", b"\xf8\x88\x80\x80\x80", b"on\xff"]

TEXT = [
    "", " ", "0", "1", "-1", "2", "5", " 5 ", "5\n", "\t7", "1_0", "1__0", "_1", "1_", "+3", "-0", "-0.0", "0.0", "1.0", "1e0", "1E2", "0x10", "0b1", "1,5",
    "1.5.2", "nan", "NaN", "-nan", "inf", "-inf", "+inf", "Infinity", "-Infinity", "1e400", "-1e400", "1e-400", "1e308", "1e20", "-1e20", "1e15",
    "9" * 400, "-" + "9" * 400, "0." + "0" * 400 + "1", "9" * 5000, "١", "٣٠", "٥.٥", "１２", "١٢٣",
    "True", "False", "None", "true", "TRUE", "false", "y", "Y", "yes", "YES", "n", "no", "ON", "on", "On", "oN", "OFF", "off", "Off", "oFF", "0 ", " on",
    "on ", "ON\n", "İ", "ǅ", "ß", "oɴ", "__class__", "__init__", "__dict__", "__del__", "__getattr__", "stop", "halt ", " halt", "Halt", "HALT",
    "halt\x00", "eco", "eco_normal", "reload", "closing", "closed", "opened", "do_cancel", "do_delay", "get_actor", "on_failure", "on_stop", "on_start",
    "actor_ref", "_proxy", "state", "to_halt", "trigger", "defer", "rinse", "wintering_stir", "timed", "continuous", "on_enter_halt", "fill", "run",
    "\x00", "é", "\U0001f600", "a" * 1000, "3.9999999999999996", "2.9999999999999996", "0.9999999999999999", "0.99999999999999999999",
    "4.000000000000001", "172800.99", "Mon Jun  3 08:00:00 2024", "Mon Jun  3 08:00:00 2024 ", "2024-06-03", "Thu Jan  1 00:00:00 1970", "Fri Dec 31 23:59:59 9999",
    "Mon Jan  1 00:00:00 0001", "Tue Jun  3 08:00:00 2024", "%c",
]


def _num_strings(lo, hi):
    out = []
    bounds = [b for b in (lo, hi) if b is not None]
    for b in bounds:
        f = float(b)
        for v in (f, f - 1, f + 1, f - 0.5, f + 0.5, f - 0.25, f + 0.25, math.nextafter(f, -math.inf), math.nextafter(f, math.inf), -f, f * 2, f / 2):
            out.append(repr(v))
            if v == int(v):
                out.append(str(int(v)))
        if Fraction(b).denominator == 1:
            n = int(b)
            out += [f"{n}.0000000000000000000000001", f"{n - 1}.9999999999999999999999999", f"{n}e0", f" {n}", f"{n}_0", f"+{n}", f"{n}.", f"0{n}"]
    if lo is not None and hi is not None:
        out += [repr((float(lo) + float(hi)) / 2), str(int((float(lo) + float(hi)) // 2))]
    return out


def structured_payloads(topic, rng, n_random):
    """bytes payloads for one topic: structured + random"""
    o = ORACLE.get(topic)
    out = [s.encode("utf-8") for s in TEXT] + list(INVALID_UTF8)
    if o and o[0] in ("int", "float"):
        lo, hi = o[3], o[4]
        out += [s.encode() for s in _num_strings(lo, hi)]
        span = float(hi if hi is not None else 1e6) - float(lo)
        for _ in range(n_random):
            k = rng.choice((1, 2, 4, 8, 1024))
            v = float(lo) + rng.randint(-k, int(span * k) + k) / k  # dyadic
            out.append(rng.choice((repr(v), str(int(v)), f"{v:.3f}", f" {v}", f"{v:e}")).encode())
    if o and o[0] == "mode":
        for s in o[2]:
            out += [x.encode() for x in (s, s.upper(), s.capitalize(), s + " ", " " + s, s + "\n", s[:-1], s + s, "_" + s, s + "\x00")]
    for _ in range(n_random):
        r = rng.random()
        if r < 0.4:
            out.append(bytes(rng.randrange(256) for _ in range(rng.randrange(0, 10))))
        elif r < 0.8:
            out.append("".join(rng.choice("0123456789.-+eE_ ") for _ in range(rng.randrange(1, 9))).encode())
        else:
            out.append("".join(rng.choice("onfONFtrueyshalecwi01 _") for _ in range(rng.randrange(1, 6))).encode())
    return out


def accepted_payloads(topic):
    """a few payloads the contract accepts (boundaries) -- for the downstream monitor"""
    o = ORACLE[topic]
    if o[0] == "int":
        lo, hi = o[3], o[4]
        hi2 = hi if hi is not None else 10**9
        c = [lo, hi2, lo + 1, (lo + hi2) // 2]
        out = [str(v) for v in c] + [f"{lo}.9", f"{hi2}.0", f" {lo} ", f"{lo}e0"]
        if hi is None:
            out += ["1e18", "1e300", "1.7976931348623157e308"]
        return out
    if o[0] == "float":
        lo, hi = float(o[3]), float(o[4])
        return [repr(lo), repr(hi), repr((lo + hi) / 2), repr(math.nextafter(hi, -math.inf)), str(int(lo)), "-0.0" if lo == 0 else repr(lo)]
    if o[0] == "bool":
        return ["ON", "OFF", "on", "off", "1", "0", "On", "oFf", "ON", "OFF"]
    if o[0] == "mode":
        return list(o[2])
    return ["Mon Jun  3 08:00:00 2024", "Thu Jan  1 00:00:00 1970", "Fri Dec 31 23:59:59 9999", "Mon Jan  1 00:00:00 0001"]


GARBAGE = ["", "nan", "inf", "-inf", "1e400", "-1", "1e20", "-1e20", "99999999999999999999", "garbage", "__class__", "stop", "٣", "1_0", "%c", "None", "9" * 400]


# ---------------------------------------------------------------------------------------------------------------
def hx(b: bytes) -> str:
    return "x" + b.hex()


def canon_num(x: float) -> str:
    if math.isnan(x):
        return "nan"
    if math.isinf(x):
        return "inf" if x > 0 else "-inf"
    n, d = x.as_integer_ratio()
    return f"{n}/{d}"


def canon_val(args) -> str:
    if len(args) == 0:
        return "none"
    (v,) = args
    if isinstance(v, bool):
        return "bool:true" if v else "bool:false"
    if isinstance(v, int):
        return f"int:{v}"
    if isinstance(v, float):
        return "float:" + canon_num(v)
    if isinstance(v, str):
        return "str:" + hx(v.encode("utf-8"))
    return "other:" + repr(v)


def line_for(topic: str, payload: bytes) -> str:
    try:
        data = payload.decode("utf-8")
    except UnicodeDecodeError:
        return f"D {hx(topic.encode())} {hx(payload)} - - -"
    try:
        num = canon_num(float(data))
    except ValueError:
        num = "-"
    return f"D {hx(topic.encode())} {hx(payload)} {hx(data.encode())} {hx(data.lower().encode())} {num}"


def real_dispatch(d, log, topic, payload) -> str:
    """one delivery to the REAL dispatcher; canonical result line"""
    del log[:]
    try:
        d.dispatch(topic, payload)
    except BaseException as e:  # noqa: BLE001
        return f"RAISED {type(e).__name__}: {e}"
    if not log:
        return "none"
    if len(log) > 1:
        return "MULTI " + repr(log)
    target, method, args, kwargs = log[0]
    if kwargs:
        return "KWARGS " + repr(log)
    return f"tell {target} {hx(method.encode())} {canon_val(args)}"


def contract_violation(topic, res: str, already_told: set):
    """decide C14's statement on one real delivery. -> (key, what) or None"""
    if res.startswith("RAISED"):
        return (f"dispatcher-raised:{topic}", f"Dispatcher.dispatch raised on topic {topic}: {res}")
    if res == "none":
        return None
    if not res.startswith("tell "):
        return (f"dispatcher-odd:{topic}", f"unexpected dispatcher behaviour on {topic}: {res}")
    _, target, mhex, val = res.split(" ", 3)
    method = bytes.fromhex(mhex[1:]).decode()
    o = ORACLE.get(topic)
    if o is None:
        return (f"unknown-topic-told:{topic}", f"a topic outside the documented table is forwarded: {topic} -> {target}.{method}({val})")
    if target != o[1]:
        return (f"wrong-target:{topic}", f"{topic} is forwarded to {target}, documented controller is {o[1]}")
    if o[0] == "mode":
        if method not in o[2] or val != "none":
            return (f"wrong-method:{topic}", f"{topic} calls {target}.{method}({val}); only the triggers {o[2]} without argument are allowed")
    else:
        if method != o[2]:
            return (f"wrong-method:{topic}", f"{topic} calls {target}.{method}, the setter of that topic is {o[2]}")
        kind, _, v = val.partition(":")
        if o[0] in ("int", "float"):
            if kind != o[0]:
                return (f"validation-bypass:{topic}", f"{topic} forwards a {kind} ({val}), documented type {o[0]}")
            if o[0] == "int":
                fv = Fraction(int(v))
            elif "/" in v:
                fv = Fraction(v)
            else:
                return (f"validation-bypass:{topic}", f"{topic} forwards the non-finite value {val}")
            if fv < o[3] or (o[4] is not None and fv > o[4]):
                return (f"validation-bypass:{topic}", f"{topic} forwards {val} outside the accepted range [{o[3]}, {o[4]}]")
        elif o[0] == "bool" and kind != "bool":
            return (f"validation-bypass:{topic}", f"{topic} forwards {val}, documented type bool")
        elif o[0] == "str" and kind != "str":
            return (f"validation-bypass:{topic}", f"{topic} forwards {val}, documented type str")
    if topic in RESTORE_ONLY:
        if topic in already_told:
            return (f"once-repeated:{topic}", f"restore-only topic {topic} was applied a second time by the same dispatcher ({target}.{method}({val}))")
        already_told.add(topic)
    return None


# ---------------------------------------------------------------------------------------------------------------
def gen_sessions(rng, tier, topics):
    """list of sessions; a session is a list of (topic, payload bytes) delivered to ONE dispatcher instance"""
    n_random = 60 if tier == "quick" else 600
    sessions = []
    for t in topics:
        ps = structured_payloads(t, rng, n_random)
        sessions.append([(t, p) for p in ps])
    # unknown topics
    sessions.append([(t, p) for t in UNKNOWN_TOPICS for p in (b"halt", b"1", b"on", b"", b"\xff")])
    # repeated once-topics and interleavings
    for t in RESTORE_ONLY:
        sessions.append([(t, b"garbage"), (t, b"-1"), (t, b"5"), (t, b"5"), (t, b"6"), (t, b"nan"), (t, b"7.5")])
        sessions.append([(t, b"\xff"), (t, b"inf"), (t, b"0"), ("/settings/mode", b"eco"), (t, b"0"), (t, b"1")])
    for _ in range(20 if tier == "quick" else 200):
        s = []
        for _ in range(40):
            t = rng.choice(topics + RESTORE_ONLY * 3 + UNKNOWN_TOPICS[:3])
            pool = accepted_payloads(t) + GARBAGE if t in ORACLE else ["1", "halt"]
            s.append((t, rng.choice(pool).encode("utf-8", "surrogatepass")))
        sessions.append(s)
    return sessions


def run_dispatch_level(chk, table_ok: bool):
    """correspondence + contract monitor on the same deliveries"""
    from translate import dispatch_table as T

    rng = random.Random(chk.seed)
    mod = T.import_dispatcher()
    topics = sorted(set(ORACLE) | set(T.new_dispatcher(mod)[0].topics()))
    sessions = gen_sessions(rng, chk.tier, topics)
    lines, real, meta = [], [], []
    viol = {}
    for si, sess in enumerate(sessions):
        log = []
        d, _ = T.new_dispatcher(mod, log)
        told = set()
        lines.append("R")
        real.append("ok")
        meta.append(None)
        for i, (t, p) in enumerate(sess):
            lines.append(line_for(t, p))
            r = real_dispatch(d, log, t, p)
            real.append(r)
            meta.append((si, i))
            v = contract_violation(t, r, told)
            if v and v[0] not in viol:
                viol[v[0]] = (v[1], [[tt, pp.hex()] for tt, pp in sess[: i + 1]])
    for key, (what, sess) in viol.items():
        # minimise: keep only deliveries of the same topic, then try the last one alone
        topic = sess[-1][0]
        cand = [[m for m in sess if m[0] == topic], sess]
        if not key.startswith("once-repeated"):
            cand.insert(0, [sess[-1]])
        for c in cand:
            if key in {k for k, _ in replay_dispatch_session(c)}:
                sess = c
                break
        chk.violation(key, what, {"kind": "dispatch", "session": sess, "how": "./check C14 --replay <this file>", "explains": []})
    dist = {
        "sessions": len(sessions),
        "deliveries": len(lines) - len(sessions),
        "topics": len(topics),
        "told": sum(1 for r in real if r.startswith("tell")),
        "silent": sum(1 for r in real if r == "none"),
        "raised": sum(1 for r in real if r.startswith("RAISED")),
        "undecodable": sum(1 for ln in lines if ln.endswith(" - - -")),
        "float_raised": sum(1 for ln in lines if ln.endswith(" -") and not ln.endswith(" - - -")),
        "nan_or_inf": sum(1 for ln in lines if ln.endswith(("nan", "inf"))),
    }
    if not table_ok:
        chk.note("dispatch correspondence skipped: the generated table / Lean build is not available for this tree")
        chk.extra["contract_monitor"] = dist
        return
    t0 = time.time()
    out = lean.driver("Poupool/Drivers/Dispatch.lean", lines)
    dist["lean_driver_s"] = round(time.time() - t0, 1)
    dis = 0
    details = []
    if len(out) != len(real):
        dis = abs(len(out) - len(real)) + 1
        details.append(f"driver returned {len(out)} lines for {len(real)} inputs: {out[:3]}")
    else:
        for ln, a, b, m in zip(lines, real, out, meta):
            if a != b:
                dis += 1
                if len(details) < 5:
                    details.append({"line": ln[:300], "real": a[:300], "lean": b[:300]})
    chk.correspondence("Dispatcher.dispatch vs Model.Dispatch.dispatch", len(real) - len(sessions), dis, distribution=dist, detail=details or None)
    for ln, a in list(zip(lines, real))[1:400:57]:
        chk.sample({"line": ln[:160], "result": a[:160]})


def replay_dispatch_session(sess):
    from translate import dispatch_table as T

    mod = T.import_dispatcher()
    log = []
    d, _ = T.new_dispatcher(mod, log)
    told = set()
    found = []
    for t, phex in sess:
        r = real_dispatch(d, log, t, bytes.fromhex(phex))
        v = contract_violation(t, r, told)
        if v:
            found.append(v)
    return found


# ---------------------------------------------------------------------------------------------------------------
# downstream monitor (REAL controllers)
PRELUDES = {
    "halt": [],
    "eco_heating": [["mqtt", "/settings/mode", "eco"], ["run", 200]],
    "eco_waiting": [["mqtt", "/settings/heating/enable", "OFF"], ["mqtt", "/settings/mode", "eco"], ["run", 100]],
    "eco_normal": [["mqtt", "/settings/heating/enable", "OFF"], ["mqtt", "/settings/mode", "eco"], ["run", 4000]],
    "standby": [["mqtt", "/settings/mode", "eco"], ["run", 100], ["mqtt", "/settings/mode", "standby"], ["run", 600]],
    "comfort": [["mqtt", "/settings/mode", "eco"], ["run", 100], ["mqtt", "/settings/mode", "standby"], ["run", 600], ["mqtt", "/settings/mode", "comfort"], ["run", 300]],
    "overflow": [["mqtt", "/settings/mode", "eco"], ["run", 100], ["mqtt", "/settings/mode", "overflow"], ["run", 600]],
    "sweep": [["mqtt", "/settings/mode", "eco"], ["run", 100], ["mqtt", "/settings/mode", "standby"], ["run", 600], ["mqtt", "/settings/mode", "sweep"], ["run", 30]],
    "wintering": [["mqtt", "/settings/mode", "wintering"], ["run", 100]],
    "wash": [
        ["mqtt", "/settings/heating/enable", "OFF"],
        ["mqtt", "/settings/filtration/backwash/backwash_duration", "300"],
        ["mqtt", "/settings/mode", "eco"],
        ["run", 200],
        ["tank", 90],
        ["run", 30],
        ["mqtt", "/settings/mode", "wash"],
        ["run", 20],
    ],
    "swim_timed": [["mqtt", "/settings/mode", "eco"], ["run", 100], ["mqtt", "/settings/mode", "standby"], ["run", 600], ["mqtt", "/settings/swim/mode", "timed"], ["run", 10]],
}


def build_system(prelude):
    from sim.system import PoolSystem

    s = PoolSystem()
    for a in prelude:
        if a[0] == "mqtt":
            s.mqtt_in(a[1], a[2])
            s.world.settle()
        elif a[0] == "run":
            s.world.run_for(a[1])
        elif a[0] == "tank":
            s.set_tank_level(a[1])
    return s


def dead_key(name, desc):
    # desc: "<Exc>: msg in <handler>"
    exc = desc.split(":", 1)[0]
    handler = desc.rsplit(" in ", 1)[-1]
    return f"actor-died:{name}:{exc}:{handler}"


def deliver_and_check(s, msgs, run_s=15.0):
    """-> list of (key, what, index) found while delivering msgs (topic, bytes)."""
    found = []
    for i, (t, p) in enumerate(msgs):
        try:
            s.mqtt_in(t, p)
        except BaseException as e:  # noqa: BLE001
            found.append((f"dispatcher-raised:{t}", f"Dispatcher.dispatch raised {type(e).__name__}: {e} on {t} {p!r}", i))
            return found
        try:
            s.world.run_for(run_s)
        except BaseException as e:  # noqa: BLE001
            found.append((f"sim-raised:{type(e).__name__}", f"{type(e).__name__}: {e} after {t} {p!r}", i))
            return found
        if s.world.dead:
            for n, d in s.world.dead.items():
                found.append((dead_key(n, d), f"payload {p[:60]!r} on {t} killed {n}: {d}", i))
            return found
        if s.world.deadlock is not None:
            found.append(("deadlock", f"deadlock after {t} {p!r}: {s.world.deadlock}", i))
            return found
    return found


def halt_check(s, label):
    s.mqtt_in("/settings/mode", "halt")
    s.mqtt_in("/settings/swim/mode", "halt")
    s.mqtt_in("/settings/light/mode", "halt")
    s.world.run_for(15)
    st = s.states()
    bad = []
    if s.world.dead:
        bad.append(f"dead: {s.world.dead}")
    for n in ("Filtration", "Swim", "Light", "Disinfection", "Heating"):
        if st.get(n) != "halt":
            bad.append(f"{n} is {st.get(n)}")
    return bad


def run_downstream(chk):
    rng = random.Random(chk.seed + 1)
    topics = list(ORACLE)
    setting_topics = [t for t in topics if ORACLE[t][0] != "mode"]
    mode_topics = [t for t in topics if ORACLE[t][0] == "mode"]
    stats = {"systems": 0, "deliveries": 0, "states": {}, "halt_checks": 0}
    seen = set()
    t_start = time.time()
    budget = 55 if chk.tier == "quick" else 400

    def report(label, prelude, msgs, f):
        key, what, idx = f
        if key in seen:
            return
        seen.add(key)
        # minimise: prelude + the killing message alone on a fresh system
        last = [msgs[idx]]
        try:
            s2 = build_system(prelude)
            f2 = deliver_and_check(s2, last)
            s2.world.close()
        except BaseException:  # noqa: BLE001
            f2 = []
        use = last if any(k == key for k, _, _ in f2) else msgs[: idx + 1]
        chk.violation(
            key,
            what + f" (state {label})",
            {"kind": "downstream", "state": label, "prelude": prelude, "messages": [[t, p.hex()] for t, p in use], "run_s": 15,
             "how": "./check C14 --replay <this file>", "explains": []},
        )

    rounds = 2 if chk.tier == "quick" else 12
    for rnd in range(rounds):
        for label, prelude in PRELUDES.items():
            if time.time() - t_start > budget:
                chk.note(f"downstream monitor stopped at its time budget in round {rnd}, state {label}")
                break
            groups = []
            order = setting_topics[:]
            rng.shuffle(order)
            per = 6 if label == "wash" else len(order)
            for i in range(0, len(order), per):
                groups.append(order[i : i + per])
            for gi, grp in enumerate(groups):
                s = build_system(prelude)
                stats["systems"] += 1
                if gi == 0 and rnd == 0:
                    stats["states"][label] = s.states()["Filtration"]
                msgs = []
                for t in grp:
                    acc = accepted_payloads(t)
                    if rnd > 0:
                        acc = rng.sample(acc, min(3, len(acc))) + [p.decode("utf-8", "replace") for p in rng.sample(structured_payloads(t, rng, 4), 6)]
                    pl = acc + (GARBAGE if label in ("halt", "eco_normal", "eco_waiting", "wash") or rnd > 0 else GARBAGE[:6])
                    if label == "wash":
                        pl = acc[:3] + GARBAGE[:4]
                    msgs += [(t, x.encode("utf-8", "replace") if isinstance(x, str) else x) for x in pl]
                if label != "wash":
                    msgs += [(t, p) for t in setting_topics[:3] for p in INVALID_UTF8[:2]]
                run_s = 2.0 if label == "wash" else 15.0
                fs = deliver_and_check(s, msgs, run_s)
                stats["deliveries"] += len(msgs)
                for f in fs:
                    report(label, prelude, msgs, f)
                if not fs:
                    # mode topics last (they change the state), then halt must still work
                    mm = []
                    for t in mode_topics:
                        mm += [(t, x.encode()) for x in (GARBAGE[:8] + ["__class__", "stop", "reload", "closed", "Halt"] + rng.sample(accepted_payloads(t), len(accepted_payloads(t))))]
                    if gi == 0:
                        fs = deliver_and_check(s, mm, 15.0)
                        stats["deliveries"] += len(mm)
                        for f in fs:
                            report(label, prelude, msgs + mm, f)
                    if not fs:
                        bad = halt_check(s, label)
                        stats["halt_checks"] += 1
                        if bad:
                            key = f"halt-not-processed:{label}"
                            if key not in seen:
                                seen.add(key)
                                chk.violation(key, f"after the payload sweep in state {label} a following halt is not processed: {bad}",
                                              {"kind": "downstream", "state": label, "prelude": prelude, "messages": [[t, p.hex()] for t, p in msgs],
                                               "run_s": run_s, "then_halt": True, "explains": []})
                s.world.close()
    # setters exist on the real proxies (getattr must resolve for every table method)
    try:
        from translate import dispatch_table as T

        s = build_system([])
        missing = []
        tbl = T.extract()
        proxies = {"filtration": s.filtration, "tank": s.tank, "swim": s.swim, "light": s.light, "heater": s.heater, "heating": s.heating,
                   "disinfection": s.disinfection, "arduino": s.arduino}
        for tgt, names in tbl["setters"].items():
            for n in names:
                try:
                    getattr(proxies[tgt], n).defer  # noqa: B018
                except AttributeError:
                    missing.append(f"{tgt}.{n}")
        stats["setters_resolved"] = sum(len(v) for v in tbl["setters"].values()) - len(missing)
        s.world.close()
        chk.obligation("every (target, method) of the table resolves on the real controller proxies", not missing, ", ".join(missing))
    except Exception as e:  # noqa: BLE001
        chk.note(f"setter resolution check skipped: {type(e).__name__}: {e}")
    stats["wall_s"] = round(time.time() - t_start, 1)
    chk.extra["downstream_monitor"] = stats
    chk.correspondence("downstream: real controllers stay alive (monitor)", stats["deliveries"], 0, distribution=stats)


# ---------------------------------------------------------------------------------------------------------------
def _quiet():
    import logging

    logging.disable(logging.CRITICAL)


def name_failing_theorems(chk, relpath):
    """when the property module does not build, say WHICH theorems fail on this tree (from the lake log)"""
    import re

    log = chk.extra.get("lake_log_tail", "")
    bad_lines = sorted({int(m) for m in re.findall(re.escape(relpath) + r":(\d+):\d+", log)})
    src = open(os.path.join(lean.LEAN_DIR, relpath)).read().split("\n")
    names = []
    for ln in bad_lines:
        for i in range(min(ln, len(src)) - 1, -1, -1):
            m = re.match(r"\s*(theorem|example|def)\s+(\S+)?", src[i])
            if m:
                n = m.group(2) if m.group(1) != "example" else f"example@{i + 1}"
                if n not in names:
                    names.append(n)
                break
    chk.extra["failing_theorems"] = names
    chk.note(f"{relpath} does not build on this tree; failing declarations: {names}")
    return names


def run(chk):
    _quiet()
    os.chdir(REPO)
    if REPO not in sys.path:
        sys.path.insert(0, REPO)
    from translate import dispatch_table as T

    chk.assumptions += [
        "Python's bytes.decode/float/str.lower are abstract parameters of the Lean model (theorems hold for ALL such functions); in the correspondence they are supplied as data computed by CPython on each payload",
        "floats are exact rationals (as_integer_ratio of the IEEE double); -0.0 is identified with 0",
        "C14(5): the list of raising primitives inside the setters comes from an AST taint scan (validated by the downstream monitor, not proved complete)",
        "the sentinel controllers accept any attribute name; that the table's method names exist on the real proxies is checked on the running system",
    ]
    table_ok = True
    try:
        table, changed = T.regenerate()
        chk.obligation("T3: dispatcher table extracted and validated by probing", True, f"{len(table['entries'])} entries, {table['probes']} probes, dispatch() source shape known={table['dispatchShapeKnown']}")
        chk.extra["table_entries"] = len(table["entries"])
        chk.extra["setter_prims"] = [list(x) for x in table["setterPrims"]]
    except Exception as e:  # noqa: BLE001
        table_ok = False
        chk.obligation("T3: dispatcher table extracted and validated by probing", False, f"{type(e).__name__}: {e}")
    if table_ok:
        lean.check_theorems(chk, "Poupool.Properties.C14", THEOREMS)
        built = any(o["name"] == "build:Poupool.Properties.C14" and o["ok"] for o in chk.obligations)
        if not built:
            name_failing_theorems(chk, "Poupool/Properties/C14.lean")
            # the property file does not build on this table: the driver still works if Generated/ + Model build
            b2, _ = lean.build(["Poupool.Generated.Dispatch"])
            table_ok = b2
    run_dispatch_level(chk, table_ok)
    run_downstream(chk)
    chk.extra["distinct_nontrivial"] = len(THEOREMS)
    chk.extra["rule"] = ("theorems over the regenerated dispatcher table for all payloads and all parse/lower/decode functions; "
                         "correspondence of the real Dispatcher with the Lean driver; contract + downstream monitors on the real code")


def search(chk):
    """used by ./check when run() itself failed: the real-code monitors alone"""
    _quiet()
    os.chdir(REPO)
    run_dispatch_level(chk, False)
    run_downstream(chk)


def replay(path):
    import json

    path = os.path.abspath(path)
    _quiet()
    os.chdir(REPO)
    if REPO not in sys.path:
        sys.path.insert(0, REPO)
    data = json.load(open(path))
    rp = data.get("replay", data)
    if rp.get("kind") == "dispatch":
        found = replay_dispatch_session(rp["session"])
        for k, w in found:
            print("VIOLATION-REPRODUCED", k, "--", w)
        print("session:", [(t, bytes.fromhex(p)) for t, p in rp["session"]][-5:])
        return 1 if found else 0
    if rp.get("kind") == "downstream":
        s = build_system(rp["prelude"])
        print("state before:", s.states())
        msgs = [(t, bytes.fromhex(p)) for t, p in rp["messages"]]
        fs = deliver_and_check(s, msgs, rp.get("run_s", 15))
        for k, w, i in fs:
            print("VIOLATION-REPRODUCED", k, "--", w)
        bad = []
        if rp.get("then_halt") and not fs:
            bad = halt_check(s, rp.get("state"))
            if bad:
                print("VIOLATION-REPRODUCED halt-not-processed --", bad)
        print("state after:", s.states(), "dead:", s.world.dead)
        s.world.close()
        return 1 if fs or bad else 0
    if rp.get("kind") == "ui":
        from checks import c15_ui

        return c15_ui.replay(rp)
    print("nothing to replay in", path)
    return 0
