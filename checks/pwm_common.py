"""Shared machinery of checks C03 and C20: drive the REAL controller.disinfection.PWM / PController / Disinfection
objects on the simulated runtime (virtual time, no threads), the Lean driver on the same op lines, diff, and
monitors that decide the property statements on the real pump trace.

Op language (JSON-able lists; rationals are "n/d" strings, times are integer microseconds since the world start):
  ["new", period "n/d", minrt "n/d", secdur int, start_us]   PWM.__init__ with PWM.SECURITY_DURATION = secdur
  ["tick", t_us]          do_run at t
  ["cancel", t_us]        do_cancel at t (what Disinfection.on_enter_halt defers)
  ["value", "n/d"]        pwm.value = float(n/d)
  ["period", "n/d"]       pwm.period = n/d
All instants are multiples of 15625 us (1/64 s) and all rationals dyadic, so the binary64 arithmetic of the real code
is exact and both sides can be compared as exact rationals.
"""
from __future__ import annotations

import datetime as dt
import os
import random
import sys
from fractions import Fraction

from vlib import lean
from vlib.common import REPO, VERIF

Q = 15625  # time quantum in us (1/64 s): exact both as datetime microseconds and as binary64 seconds
SEC = 1_000_000
T0 = dt.datetime(2024, 1, 1, 0, 0, 0)
DRIVER = "Poupool/Drivers/Pwm.lean"

_booted = False


def boot():
    global _booted
    if _booted:
        return
    if VERIF not in sys.path:
        sys.path.insert(0, VERIF)
    from sim import system

    system.bootstrap()
    _booted = True


def fr(x) -> Fraction:
    return Fraction(x)


def frs(x) -> str:
    x = Fraction(x)
    return f"{x.numerator}/{x.denominator}"


def nd(x) -> str:
    x = Fraction(x)
    return f"{x.numerator} {x.denominator}"


def as_py_number(f: Fraction):
    """what the real code would be handed: int when integral (period from config is int), else float"""
    f = Fraction(f)
    if f.denominator == 1:
        return int(f.numerator)
    v = float(f)
    assert Fraction(v) == f, f"{f} is not exactly representable"
    return v


# -------------------------------------------------------------------------------------------------------------
# the real PWM
# -------------------------------------------------------------------------------------------------------------
class Pump:
    """Recording fake of device.PumpDevice (on()/off() only)."""

    def __init__(self, world):
        self.world = world
        self.is_on = False
        self.log = []  # (t_us, 0/1) level changes

    def on(self):
        if not self.is_on:
            self.log.append((self.world.now_us, 1))
        self.is_on = True

    def off(self):
        if self.is_on:
            self.log.append((self.world.now_us, 0))
        self.is_on = False


class RealPwm:
    def __init__(self, period, minrt, secdur, start_us):
        boot()
        import pykka
        from controller.disinfection import PWM
        from sim import runtime

        self.world = runtime.World(T0)
        self.world.now_us = start_us
        self.pump = Pump(self.world)
        self._saved = PWM.SECURITY_DURATION
        PWM.SECURITY_DURATION = secdur
        try:
            self.ref = PWM.start("pH", self.pump, as_py_number(period), as_py_number(minrt))
        finally:
            PWM.SECURITY_DURATION = self._saved
        self.a = self.world.actor("PWM")
        self.t0ts = Fraction(T0.timestamp())
        self._pykka = pykka

    def close(self):
        self.world.timers.clear()
        try:
            self._pykka.ActorRegistry.unregister(self.ref)
        except Exception:  # noqa: BLE001
            pass

    def _us(self, d):
        return (d - T0) // dt.timedelta(microseconds=1)

    def apply(self, op):
        w, a = self.world, self.a
        k = op[0]
        if k == "tick":
            w.now_us = op[1]
            a.do_run()
        elif k == "cancel":
            w.now_us = op[1]
            a.do_cancel()
        elif k == "value":
            a.value = as_py_number(Fraction(op[1])) if Fraction(op[1]).denominator != 1 else float(Fraction(op[1]))
        elif k == "period":
            a.period = as_py_number(Fraction(op[1]))
        else:
            raise ValueError(op)
        if len(w.timers) > 64:
            w.timers.clear()
        if len(w.log) > 1024:
            del w.log[:]

    def sec_duration_us(self):
        return self.a._PWM__security_duration.duration // dt.timedelta(microseconds=1)

    def sec_delay_us(self):
        return self.a._PWM__security_duration.delay // dt.timedelta(microseconds=1)

    def reset_us(self):
        return self._us(self.a._PWM__security_reset)

    def state_line(self):
        a = self.a
        last = a._PWM__last
        tl = a._PWM__security_duration._Timer__last
        return "S {} {} {} {} {} {} {}".format(
            1 if self.pump.is_on else 0,
            1 if a._PWM__state else 0,
            frs(Fraction(a._PWM__duration)),
            "-" if last is None else frs(Fraction(last) - self.t0ts),
            self.sec_duration_us(),
            "-" if tl is None else self._us(tl),
            self.reset_us(),
        )


def lean_line(op) -> str:
    k = op[0]
    if k == "new":
        return f"new {nd(op[1])} {nd(op[2])} {op[3]} {op[4]}"
    if k == "tick":
        return f"tick {op[1]}"
    if k == "cancel":
        return f"cancel {op[1]}"
    if k == "value":
        return f"value {nd(op[1])}"
    if k == "period":
        return f"period {nd(op[1])}"
    raise ValueError(op)


class Trace:
    """What the monitors need from one real run."""

    def __init__(self, ops):
        self.ops = ops
        self.lines = []
        self.pump_log = []  # (t_us, level)
        self.resets = []  # t_us of ticks at which the daily reset happened
        self.offs = []  # (t_us, reason) reason in natural|cancel|security
        self.sec_delay_us = None
        self.end_us = 0
        self.start_us = 0


def run_real(ops) -> Trace:
    """Run one op sequence (first op must be `new`) on the real class."""
    tr = Trace(ops)
    new = ops[0]
    assert new[0] == "new"
    r = RealPwm(Fraction(new[1]), Fraction(new[2]), new[3], new[4])
    try:
        tr.start_us = new[4]
        tr.sec_delay_us = r.sec_delay_us()
        tr.lines.append(r.state_line())
        t = new[4]
        for op in ops[1:]:
            was_on = r.pump.is_on
            reset_before = r.reset_us()
            r.apply(op)
            if op[0] in ("tick", "cancel"):
                t = op[1]
            if op[0] == "tick" and r.reset_us() != reset_before:
                tr.resets.append(t)
            if was_on and not r.pump.is_on:
                if op[0] == "cancel":
                    reason = "cancel"
                elif r.sec_duration_us() >= r.sec_delay_us() and not (op[0] == "tick" and r.reset_us() != reset_before and False):
                    reason = "security"
                else:
                    reason = "natural"
                tr.offs.append((t, reason))
            tr.lines.append(r.state_line())
        tr.end_us = t
        tr.pump_log = list(r.pump.log)
    finally:
        r.close()
    return tr


def run_lean_many(seqs):
    """One driver process for many sequences. Returns list of list of lines."""
    lines = []
    for ops in seqs:
        lines.extend(lean_line(op) for op in ops)
    out = lean.driver(DRIVER, lines)
    res, i = [], 0
    for ops in seqs:
        res.append(out[i : i + len(ops)])
        i += len(ops)
    return res


def first_diff(a, b):
    for i, (x, y) in enumerate(zip(a, b)):
        if x != y:
            return i
    if len(a) != len(b):
        return min(len(a), len(b))
    return None


# -------------------------------------------------------------------------------------------------------------
# generators
# -------------------------------------------------------------------------------------------------------------
def q(seconds) -> int:
    """seconds (Fraction/float) -> us on the 1/64 s grid"""
    return int(round(Fraction(seconds) * 64)) * Q


def jitter(rng, mode):
    """next tick spacing in us"""
    if mode == "exact":
        return SEC
    if mode == "jitter":
        return SEC + rng.randint(-32, 32) * Q  # 0.5 .. 1.5 s
    if mode == "late":
        return SEC + rng.randint(0, 32) * Q
    return SEC


def dyadic_duty(rng):
    r = rng.random()
    if r < 0.12:
        return Fraction(0)
    if r < 0.27:
        return Fraction(1)
    if r < 0.40:
        return Fraction(rng.randint(1, 40), 1024)  # tiny duties: min-runtime lengthening
    if r < 0.53:
        return Fraction(1024 - rng.randint(1, 40), 1024)  # close to 100 %
    return Fraction(rng.randint(0, 1024), 1024)


def gen_sequence(rng: random.Random, kind: str, nticks: int):
    """kinds:
    const    fresh start, one constant duty, S large (C20 on-fraction / pulse monitors apply)
    changes  duty changes at arbitrary ticks (and mid-pulse), occasional period change
    cap      small security duration, high / stuck-100 % duties: cap hit often, crosses the daily reset
    restart  cancel / restart patterns (slow, like Disinfection halt->waiting->running, and rapid)
    days     several virtual days: blocks of ticks separated by halted stretches of 0.2..1.3 days
    """
    mode = rng.choice(["exact", "jitter", "jitter", "late"])
    period = rng.choice([10, 10, 12, 16, 20, 30, 60, 120, 120, 300, 600])
    minrt = rng.choice([Fraction(0), Fraction(1), Fraction(3), Fraction(3), Fraction(5, 2), Fraction(5), Fraction(10)])
    if minrt * 2 > period:
        minrt = Fraction(period, 4)
    start = rng.randint(0, 86400 * 64) * Q
    if kind in ("cap", "restart", "days"):
        period = rng.choice([10, 10, 12, 16, 20, 30, 60])
        secdur = rng.choice([0, 1, 5, 10, 20, 30, 60, 90])
    else:
        secdur = rng.choice([7200, 7200, 86400, 1000])
    ops = [["new", frs(period), frs(minrt), secdur, start]]
    t = start
    meta = {"kind": kind, "mode": mode, "period": period, "minrt": frs(minrt), "secdur": secdur}

    def tick():
        nonlocal t
        ops.append(["tick", t])
        t += jitter(rng, mode)

    if kind == "edge":
        # the two edges of the minimum-run-time rounding at a long minimum run time: a positive duty of less than half a
        # second per period (must be lengthened to min_runtime) and a duty just inside min_runtime of 100 % (continuously on)
        period, minrt, v = rng.choice([
            (120, Fraction(5), Fraction(1, 1024)), (120, Fraction(10), Fraction(3, 1024)), (60, Fraction(10), Fraction(1, 256)),
            (300, Fraction(5), Fraction(1, 1024)), (120, Fraction(5), Fraction(1024 - 42, 1024)), (60, Fraction(10), Fraction(1024 - 170, 1024)),
            (120, Fraction(10), Fraction(1024 - 84, 1024)), (30, Fraction(5), Fraction(1, 128))])
        ops[0][1], ops[0][2] = frs(period), frs(minrt)
        meta.update({"kind": "const", "period": period, "minrt": frs(minrt)})
        kind = "const"
        meta["duty"] = frs(v)
        ops.append(["value", frs(v)])
        for _ in range(max(nticks, period * 6)):
            tick()
    elif kind == "const":
        v = dyadic_duty(rng)
        meta["duty"] = frs(v)
        ops.append(["value", frs(v)])
        for _ in range(nticks):
            tick()
    elif kind == "changes":
        ops.append(["value", frs(dyadic_duty(rng))])
        pchg = rng.choice([0.0, 0.01, 0.03, 0.1])
        for _ in range(nticks):
            if rng.random() < pchg:
                ops.append(["value", frs(dyadic_duty(rng))])
            if rng.random() < 0.002:
                ops.append(["period", frs(rng.choice([10, 20, 60, 120, Fraction(25, 2)]))])
            tick()
    elif kind == "cap":
        v = rng.choice([Fraction(1), Fraction(1), Fraction(1023, 1024), Fraction(3, 4), Fraction(1, 2), dyadic_duty(rng)])
        ops.append(["value", frs(v)])
        # start shortly before the first daily reset so that the window boundary is crossed while running
        cross = rng.random() < 0.6
        n_before = rng.randint(5, max(6, nticks // 2))
        if cross:
            t = start + 86400 * SEC - n_before * SEC + rng.randint(-32, 32) * Q
            t = max(t, start)
            ops[0][4] = start
        for i in range(nticks):
            if rng.random() < 0.01:
                ops.append(["value", frs(rng.choice([Fraction(1), dyadic_duty(rng)]))])
            tick()
    elif kind == "restart":
        v = rng.choice([Fraction(1), Fraction(1), Fraction(1, 2), dyadic_duty(rng)])
        ops.append(["value", frs(v)])
        rapid = rng.random() < 0.4
        meta["rapid"] = rapid
        i = 0
        while i < nticks:
            run = rng.randint(2, 6) if rapid else rng.randint(5, 200)
            for _ in range(run):
                tick()
                i += 1
            # cancel at an arbitrary instant before the next tick would have run
            tc = ops[-1][1] + rng.randint(1, 63) * Q if rng.random() < 0.8 else ops[-1][1] + Q
            ops.append(["value", "0/1"]) if rng.random() < 0.5 else None
            ops.append(["cancel", tc])
            pause = rng.randint(1, 8) * Q if rapid else rng.choice([1, 5, 60, 1200, 1200, 5000]) * SEC
            t = tc + pause
            ops.append(["value", frs(v)])
    elif kind == "days":
        v = rng.choice([Fraction(1), Fraction(1), Fraction(7, 8), dyadic_duty(rng)])
        ops.append(["value", frs(v)])
        blocks = rng.randint(2, 6)
        per = max(3, nticks // blocks)
        for b in range(blocks):
            for _ in range(per):
                tick()
            if b == blocks - 1:
                break
            if rng.random() < 0.7:
                tc = ops[-1][1] + rng.randint(1, 63) * Q
                ops.append(["cancel", tc])
                t = tc + rng.randint(int(0.2 * 86400 * 64), int(1.3 * 86400 * 64)) * Q
                if rng.random() < 0.15:
                    t += rng.randint(1, 3) * 86400 * SEC  # several days halted: several resets in a row
            else:
                # the actor was simply not scheduled for a long time (no cancel): one long tick gap while OFF is the
                # only way this happens in the model's assumptions, so force duty 0 first and wait for the pump off
                pass
    else:
        raise ValueError(kind)
    return ops, meta


# -------------------------------------------------------------------------------------------------------------
# monitors (decide the property statements on the REAL pump trace)
# -------------------------------------------------------------------------------------------------------------
def energised_between(pump_log, a, b, end_level_until):
    """energised us within [a, b] given level changes; a trailing on-level lasts until end_level_until"""
    tot = 0
    on_at = None
    for t, lv in pump_log:
        if lv:
            on_at = t
        elif on_at is not None:
            lo, hi = max(on_at, a), min(t, b)
            if hi > lo:
                tot += hi - lo
            on_at = None
    if on_at is not None:
        lo, hi = max(on_at, a), min(end_level_until, b)
        if hi > lo:
            tot += hi - lo
    return tot


def periods_in_force(ops):
    """[(t_from, period Fraction)]"""
    res = []
    cur = Fraction(ops[0][1])
    t = ops[0][4]
    res.append((t, cur))
    for op in ops[1:]:
        if op[0] in ("tick", "cancel"):
            t = op[1]
        elif op[0] == "period":
            cur = Fraction(op[1])
            res.append((t, cur))
    return res


def monitor_cap(tr: Trace, configured_seconds: int):
    """C03: in every security window (between consecutive daily resets, first window from construction, last one up to
    the end of the trace) the energised time <= S[seconds] + one PWM period.  Returns list of violations (dicts)."""
    bounds = [tr.start_us] + list(tr.resets) + [tr.end_us]
    pif = periods_in_force(tr.ops)
    out = []
    worst = None
    for a, b in zip(bounds, bounds[1:]):
        if b <= a:
            continue
        e = energised_between(tr.pump_log, a, b, tr.end_us)
        ps = [p for (t, p) in pif if t < b]
        # periods in force during the window: last one set before a, and every one set within
        before = [p for (t, p) in pif if t <= a]
        within = [p for (t, p) in pif if a < t < b]
        pmin = min(([before[-1]] if before else []) + within)
        cap = configured_seconds * SEC + int(pmin * SEC)
        excess = e - configured_seconds * SEC
        if worst is None or excess > worst:
            worst = excess
        if e > cap:
            cancels_on = 0
            for (t, reason) in tr.offs:
                if a < t <= b and reason == "cancel":
                    cancels_on += 1
            out.append(
                {
                    "window_us": [a, b],
                    "energised_us": e,
                    "cap_us": cap,
                    "S_seconds": configured_seconds,
                    "period": frs(pmin),
                    "cancels_while_on": cancels_on,
                }
            )
    return out, worst


def duty_on_spec(value: Fraction, period: Fraction, minrt: Fraction) -> Fraction:
    """The minimum-run-time rounding as the PROPERTY states it (independent of the model)."""
    d = value * period
    if d == 0:
        return Fraction(0)
    if d < minrt:
        return minrt  # a positive duty shorter than the minimum run time is lengthened to it
    if d > period - minrt:
        return period  # a duty within the minimum run time of 100 % means continuously on
    return d


def pulses(tr: Trace):
    """[(t_on, t_off or None)]"""
    res, on_at = [], None
    for t, lv in tr.pump_log:
        if lv:
            on_at = t
        else:
            res.append((on_at, t))
            on_at = None
    if on_at is not None:
        res.append((on_at, None))
    return res


def value_changes(ops):
    """instants (time of the previous timed op) at which value/period were written with a DIFFERENT value"""
    res = []
    t = ops[0][4]
    v, p = Fraction(0), Fraction(ops[0][1])
    for op in ops[1:]:
        if op[0] in ("tick", "cancel"):
            t = op[1]
        elif op[0] == "value" and Fraction(op[1]) != v:
            v = Fraction(op[1])
            res.append((t, "value", v))
        elif op[0] == "period" and Fraction(op[1]) != p:
            p = Fraction(op[1])
            res.append((t, "period", p))
    return res


def monitor_pulses(tr: Trace):
    """C20: no on-pulse shorter than min_runtime unless cut by a halt (do_cancel).  Pulses cut by the security cap are
    exempted too (C03 demands the cut) and counted.  Returns (violations, stats)."""
    minrt = Fraction(tr.ops[0][2])
    why = dict(tr.offs)
    chg = value_changes(tr.ops)
    out = []
    stats = {"pulses": 0, "cut_by_cancel": 0, "cut_by_security": 0, "short_after_duty_change": 0, "min_len_over_minrt_us": None}
    for on_at, off_at in pulses(tr):
        if off_at is None:
            continue
        stats["pulses"] += 1
        reason = why.get(off_at, "natural")
        if reason == "cancel":
            stats["cut_by_cancel"] += 1
            continue
        if reason == "security":
            stats["cut_by_security"] += 1
            continue
        length = off_at - on_at
        margin = length - int(minrt * SEC)
        if stats["min_len_over_minrt_us"] is None or margin < stats["min_len_over_minrt_us"]:
            stats["min_len_over_minrt_us"] = margin
        if margin < 0:
            changed = [c for c in chg if on_at <= c[0] < off_at]
            if changed:
                stats["short_after_duty_change"] += 1
            out.append(
                {
                    "pulse_us": [on_at, off_at],
                    "length_us": length,
                    "min_runtime": frs(minrt),
                    "duty_or_period_changed_during_pulse": [[c[0], c[1], frs(c[2])] for c in changed],
                }
            )
    return out, stats


def monitor_fraction(tr: Trace, dmax_us: int):
    """C20 at constant duty from a fresh start (kind `const`): for every whole number n of periods counted from the first
    tick, |onTime - n*dutyOn'| <= 2*n*dmax.  Also: duty 0 => never on.  Returns (violations, worst |dev|/n in us)."""
    ops = tr.ops
    period = Fraction(ops[0][1])
    minrt = Fraction(ops[0][2])
    vals = [Fraction(op[1]) for op in ops if op[0] == "value"]
    assert len(vals) == 1
    v = vals[0]
    don = duty_on_spec(v, period, minrt)
    ticks = [op[1] for op in ops if op[0] == "tick"]
    out = []
    worst = Fraction(0)
    if v == 0 and tr.pump_log:
        out.append({"what": "duty 0 but the pump was switched on", "at_us": tr.pump_log[0][0]})
    if len(ticks) < 2:
        return out, 0
    t0 = ticks[0]
    P = int(period * SEC)
    n = 1
    # the security cap (C03) takes precedence over the duty: only the part of the trace before its first cut is judged
    limit = min([t for (t, why) in tr.offs if why == "security"] + [tr.end_us])
    while t0 + n * P <= limit:
        e = energised_between(tr.pump_log, t0, t0 + n * P, tr.end_us)
        dev = abs(Fraction(e) - n * don * SEC)
        worst = max(worst, dev / n)
        if dev > 2 * n * dmax_us:
            out.append(
                {
                    "what": "on-time over n whole periods deviates from n*dutyOn' by more than 2 ticks per period",
                    "n": n,
                    "energised_us": e,
                    "expected_us": frs(n * don * SEC),
                    "bound_us": 2 * n * dmax_us,
                }
            )
            break
        n += 1
    return out, float(worst)


# -------------------------------------------------------------------------------------------------------------
# the real P-controllers inside the real Disinfection actor
# -------------------------------------------------------------------------------------------------------------
class _Anything:
    def __getattr__(self, name):
        return lambda *a, **k: None


class _Future:
    def __init__(self, v):
        self.v = v

    def get(self, *a, **k):
        return self.v


class _Reader:
    def __init__(self):
        self.ph = 7.0
        self.orp = 600.0

    def get_ph(self):
        return _Future(self.ph)

    def get_orp(self):
        return _Future(self.orp)


class _Devices:
    def __init__(self, world):
        self.pumps = {"ph": Pump(world), "cl": Pump(world)}

    def get_pump(self, name):
        return self.pumps[name]


class _DeferSink:
    """stands for the sensors_writer proxy: x.do_write.defer() / x.do_cancel.defer()"""

    def __getattr__(self, name):
        class C:
            def defer(self, *a, **k):
                return None

            def __call__(self, *a, **k):
                return None

        return C()


class RealDisinfection:
    """The real Disinfection actor object with fake collaborators; `adjust()` runs the real
    on_enter_running_adjusting and returns the duties that reached the two real PWM actors (their `value`)."""

    def __init__(self):
        boot()
        from controller.disinfection import Disinfection
        from sim import runtime

        self.world = runtime.World(T0)
        self.reader = _Reader()
        self.ref = Disinfection.start(_Anything(), _Devices(self.world), self.reader, _DeferSink())
        self.d = self.world.actor("Disinfection")
        self.ph_pwm = self.world.actor("PWM")
        self.cl_pwm = self.world.actor("PWM2")

    def adjust(self, ph, orp):
        self.reader.ph = ph
        self.reader.orp = orp
        self.d.on_enter_running_adjusting()
        self.world.settle()  # deliver the deferred `treat` (ignored in state halt) and nothing else
        self.world.timers.clear()
        return self.ph_pwm.value, self.cl_pwm.value

    def close(self):
        import pykka

        for a in list(self.world.actors):
            try:
                pykka.ActorRegistry.unregister(a.actor_ref)
            except Exception:  # noqa: BLE001
                pass
        self.world.timers.clear()


def write_minimal_replay(chk, name, payload):
    return chk.write_replay(name, payload)


def replay_ops(path_or_ops):
    """Re-run an op list on the real class and print the pump trace (used by replay())."""
    import json

    data = path_or_ops
    if isinstance(path_or_ops, str):
        with open(path_or_ops) as fh:
            data = json.load(fh)
    rep = data.get("replay", data)
    return rep


# -------------------------------------------------------------------------------------------------------------
# campaign shared by C03 and C20
# -------------------------------------------------------------------------------------------------------------
def regenerate(chk):
    """Run the translator. Returns cfg dict or None (translator could not read the source)."""
    from translate import pwm_config

    try:
        cfg = pwm_config.generate(REPO)
    except pwm_config.TranslateError as e:
        chk.obligation("translator: controller/disinfection.py, util.py, config.ini readable (pwm_config)", False, str(e))
        return None
    chk.obligation("translator: controller/disinfection.py, util.py, config.ini readable (pwm_config)", True)
    chk.obligation(
        "translator: PWM.__init__/do_run/do_cancel, PController, Timer, constrain, Disinfection.ph_pterm/orp_pterm have the statement shape mirrored by Model/Pwm.lean",
        cfg["shapeOk"],
        "deviating: " + "; ".join(cfg["deviations"]) if cfg["deviations"] else "",
    )
    chk.extra["generated_constants"] = {k: str(v) for k, v in cfg.items() if k not in ("texts", "deviations")}
    return cfg


def leanchecker(chk, modules):
    import subprocess
    import time

    from vlib.common import LEAN_DIR

    t0 = time.time()
    try:
        p = subprocess.run(["lake", "env", "leanchecker", *modules], cwd=LEAN_DIR, capture_output=True, text=True, timeout=1500)
        chk.obligation("leanchecker " + " ".join(modules), p.returncode == 0, (p.stdout + p.stderr)[-800:])
        chk.checker_cmds.append("lake env leanchecker " + " ".join(modules))
    except Exception as e:  # noqa: BLE001
        chk.note(f"leanchecker not run: {e}")
    chk.extra["leanchecker_s"] = round(time.time() - t0, 1)


def campaign(chk, rng, plan, use_lean=True, component="PWM.do_run/do_cancel/value/period (real class on sim runtime) vs Model.Pwm tick/cancel/setValue/setPeriod (Lean driver)"):
    """plan: list of (kind, nticks).  Returns list of (ops, meta, trace).  Registers the correspondence on chk."""
    runs = []
    for kind, nticks in plan:
        ops, meta = gen_sequence(rng, kind, nticks)
        runs.append((ops, meta, run_real(ops)))
    dist = {"sequences": len(runs), "ops": sum(len(r[0]) for r in runs), "by_kind": {}, "pump_switches": 0, "cap_cuts": 0,
            "cancel_while_on": 0, "daily_resets": 0, "tick_modes": {}}
    for ops, meta, tr in runs:
        dist["by_kind"][meta["kind"]] = dist["by_kind"].get(meta["kind"], 0) + 1
        dist["tick_modes"][meta["mode"]] = dist["tick_modes"].get(meta["mode"], 0) + 1
        dist["pump_switches"] += len(tr.pump_log)
        dist["cap_cuts"] += sum(1 for o in tr.offs if o[1] == "security")
        dist["cancel_while_on"] += sum(1 for o in tr.offs if o[1] == "cancel")
        dist["daily_resets"] += len(tr.resets)
    if not use_lean:
        chk.note("correspondence skipped: the Lean side does not build on this tree")
        return runs
    try:
        outs = run_lean_many([r[0] for r in runs])
    except Exception as e:  # noqa: BLE001
        chk.correspondence(component, len(runs), len(runs), distribution=dist, detail=f"lean driver failed: {str(e)[-400:]}")
        return runs
    bad = 0
    for (ops, meta, tr), lo in zip(runs, outs):
        d = first_diff(tr.lines, lo)
        if d is not None:
            bad += 1
            if bad <= 3:
                chk.correspondence(component, 0, 0, detail={
                    "first_disagreement_at_op": d, "op": ops[d], "prefix_tail": ops[max(0, d - 6):d + 1], "new": ops[0],
                    "real": tr.lines[d] if d < len(tr.lines) else None, "model": lo[d] if d < len(lo) else None})
    chk.correspondence(component, len(runs), bad, distribution=dist)
    for ops, meta, tr in runs[:3]:
        chk.sample({"meta": meta, "ops_head": ops[:6], "last_state_line": tr.lines[-1], "pump_switches": len(tr.pump_log)})
    return runs


def truncate_ops(ops, until_us):
    out = [ops[0]]
    for op in ops[1:]:
        if op[0] in ("tick", "cancel") and op[1] > until_us:
            break
        out.append(op)
    return out
