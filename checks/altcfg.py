"""Other configurations than the shipped config.ini ("for every configuration"): the REAL code is imported with a perturbed
config.ini in which all values are pairwise distinct, so that a constant bound to the wrong key shows; directed scenarios run
on the simulator under these configurations with all monitors (their oracles read the same configuration file)."""
from __future__ import annotations

import configparser
import json
import os
import subprocess

from vlib.common import CACHE, REPO, VERIF

# two valid configurations; every value differs from its siblings (and from the shipped one)
VARIANTS = {
    "A": {"heating": {"delay_to_eco": "40", "delay_to_open": "12", "recover_period": "200", "hysteresis_down": "0.25", "hysteresis_up": "0.75", "hysteresis_min_temp": "1.5"},
          "heater": {"hysteresis_down": "1.25", "hysteresis_up": "2.5"},
          "wintering": {"period": "5400", "only_below": "3.5", "duration": "600", "pump_speed": "1", "swim_period": "3600", "swim_only_below": "-1.5", "swim_duration": "30"},
          "disinfection": {"start_delay": "700", "waiting_delay": "90", "security_duration": "5400", "ph_pwm_period": "100", "cl_pwm_period": "140"},
          "tank": {"hysteresis": "4", "too_low": "8", "eco_low": "32", "eco_high": "72", "overflow_low": "22", "overflow_high": "58"}},
    "B": {"heating": {"delay_to_eco": "6", "delay_to_open": "25", "recover_period": "450", "hysteresis_down": "0.5", "hysteresis_up": "1.5", "hysteresis_min_temp": "3.0"},
          "heater": {"hysteresis_down": "0.75", "hysteresis_up": "1.75"},
          "wintering": {"period": "3600", "only_below": "-2.5", "duration": "300", "pump_speed": "3", "swim_period": "7200", "swim_only_below": "2.5", "swim_duration": "75"},
          "disinfection": {"start_delay": "300", "waiting_delay": "45", "security_duration": "2700", "ph_pwm_period": "80", "cl_pwm_period": "60"},
          "tank": {"hysteresis": "3", "too_low": "12", "eco_low": "28", "eco_high": "66", "overflow_low": "18", "overflow_high": "54"}},
}

# class constant -> (section, key, cast): what each constant is specified to hold
BINDING = {
    ("filtration", "Filtration", "HEATING_DELAY_TO_ECO"): ("heating", "delay_to_eco", int),
    ("filtration", "Filtration", "HEATING_DELAY_TO_OPEN"): ("heating", "delay_to_open", int),
    ("filtration", "Filtration", "WINTERING_PERIOD"): ("wintering", "period", int),
    ("filtration", "Filtration", "WINTERING_ONLY_BELOW"): ("wintering", "only_below", float),
    ("filtration", "Filtration", "WINTERING_DURATION"): ("wintering", "duration", int),
    ("filtration", "Filtration", "WINTERING_PUMP_SPEED"): ("wintering", "pump_speed", int),
    ("swim", "Swim", "WINTERING_PERIOD"): ("wintering", "swim_period", int),
    ("swim", "Swim", "WINTERING_ONLY_BELOW"): ("wintering", "swim_only_below", float),
    ("swim", "Swim", "WINTERING_DURATION"): ("wintering", "swim_duration", int),
    ("heating", "Heating", "HYSTERESIS_DOWN"): ("heating", "hysteresis_down", float),
    ("heating", "Heating", "HYSTERESIS_UP"): ("heating", "hysteresis_up", float),
    ("heating", "Heating", "HYSTERESIS_MIN_TEMP"): ("heating", "hysteresis_min_temp", float),
    ("heating", "Heating", "RECOVER_PERIOD"): ("heating", "recover_period", int),
    ("heating", "Heater", "HYSTERESIS_DOWN"): ("heater", "hysteresis_down", float),
    ("heating", "Heater", "HYSTERESIS_UP"): ("heater", "hysteresis_up", float),
    ("disinfection", "Disinfection", "START_DELAY"): ("disinfection", "start_delay", int),
    ("disinfection", "Disinfection", "WAITING_DELAY"): ("disinfection", "waiting_delay", int),
    ("disinfection", "Disinfection", "PH_PWM_PERIOD"): ("disinfection", "ph_pwm_period", int),
    ("disinfection", "Disinfection", "CL_PWM_PERIOD"): ("disinfection", "cl_pwm_period", int),
    ("disinfection", "PWM", "SECURITY_DURATION"): ("disinfection", "security_duration", int),
    ("tank", "Tank", "hysteresis"): ("tank", "hysteresis", int),
    ("tank", "Tank", "levels_too_low"): ("tank", "too_low", int),
    ("tank", "Tank", "levels_eco.low"): ("tank", "eco_low", int),
    ("tank", "Tank", "levels_eco.high"): ("tank", "eco_high", int),
    ("tank", "Tank", "levels_overflow.low"): ("tank", "overflow_low", int),
    ("tank", "Tank", "levels_overflow.high"): ("tank", "overflow_high", int),
}


def make(variant):
    """write the perturbed configuration; returns (directory, ConfigParser)"""
    c = configparser.ConfigParser()
    c.read(os.path.join(REPO, "config.ini"))
    for sec, kv in VARIANTS[variant].items():
        for k, v in kv.items():
            if c.has_section(sec) and c.has_option(sec, k):
                c.set(sec, k, v)
    d = os.path.join(CACHE, "altcfg", f"{variant}_{os.getpid()}")
    os.makedirs(d, exist_ok=True)
    with open(os.path.join(d, "config.ini"), "w") as fh:
        c.write(fh)
    return d, c


_BIND_CODE = r'''
import sys, json, os
sys.path.insert(0, %r)
from sim.system import bootstrap
bootstrap()
import importlib
out = {}
for (mod, cls, attr) in json.loads(sys.stdin.read()):
    try:
        o = getattr(importlib.import_module("controller." + mod), cls)
        v = getattr(o, attr.split(".")[0])
        if "." in attr:
            v = v[attr.split(".")[1]]
        out["%%s.%%s.%%s" %% (mod, cls, attr)] = v
    except Exception as e:
        out["%%s.%%s.%%s" %% (mod, cls, attr)] = "ERR " + repr(e)
print("RESULT " + json.dumps(out))
''' % VERIF


def binding(chk, only_sections=None):
    """every configuration-bound class constant holds the value of ITS key, under two perturbed configurations"""
    import shutil

    bad, n = [], 0
    for variant in VARIANTS:
        d, c = make(variant)
        try:
            keys = [list(k) for k in BINDING]
            p = subprocess.run(["/venv/bin/python", "-c", _BIND_CODE], input=json.dumps(keys), capture_output=True, text=True, timeout=600,
                               env={**os.environ, "POUPOOL_REPO": REPO, "POUPOOL_CONFIG_DIR": d})
            real = None
            for line in p.stdout.split("\n"):
                if line.startswith("RESULT "):
                    real = json.loads(line[7:])
            if real is None:
                chk.obligation(f"configuration {variant}: the code imports under a perturbed config.ini", False, (p.stdout + p.stderr)[-600:])
                continue
            for (mod, cls, attr), (sec, key, cast) in BINDING.items():
                if only_sections and sec not in only_sections:
                    continue
                v = real.get(f"{mod}.{cls}.{attr}")
                if isinstance(v, str) and v.startswith("ERR "):
                    # the constant does not exist under this name any more (renamed / restructured): nothing to compare
                    chk.note(f"configuration binding: {cls}.{attr} not found ({v[:80]})")
                    continue
                n += 1
                exp = cast(c[sec][key])
                if v != exp:
                    # which key does it hold instead?
                    holds = [f"[{s}] {k}" for s in c.sections() for k in c[s] if _same(c[s][k], v)]
                    bad.append({"configuration": variant, "constant": f"{cls}.{attr}", "specified_key": f"[{sec}] {key}", "expected": exp, "actual": v, "holds_value_of": holds[:3]})
        finally:
            shutil.rmtree(d, ignore_errors=True)
    chk.correspondence("configuration binding: class constants of the REAL code imported under two perturbed config.ini (all values pairwise distinct) vs the key each constant is specified to hold", n, len(bad), detail=bad[:5] or None)
    return bad


def _same(s, v):
    try:
        return float(s) == float(v)
    except (TypeError, ValueError):
        return False


_RUN_CODE = r'''
import sys, json
sys.path.insert(0, %r)
from sim.system import bootstrap
bootstrap()
from sim import scenario, monitors
out = []
for scn in json.loads(sys.stdin.read()):
    try:
        r = scenario.run_scenario(scn, monitors.all_monitors())
        out.append({"findings": [{k: f[k] for k in ("property", "key", "what", "step")} for f in r.findings], "states": r.sys.states(), "error": None})
        r.world.close()
    except BaseException as e:
        out.append({"findings": [], "error": repr(e)[:300]})
print("RESULT " + json.dumps(out))
''' % VERIF

OPTS = {"tank_raw": 1000.0, "cover_rate": 25.0, "ph": 7.6, "orp": 550.0, "start": "2024-06-03T10:00:00"}
COLD = {"tank_raw": 1000.0, "cover_rate": 25.0, "ph": 7.6, "orp": 550.0, "start": "2024-01-10T10:00:00"}
HEAT = [["temp", "pool", 20.0], ["mqtt", "/settings/filtration/duration", "86400"], ["mqtt", "/settings/mode", "eco"], ["run", 1400]]


def directed():
    """scenarios whose outcome depends on the configuration"""
    return [
        {"opts": COLD, "actions": [["temp", "air", -8.0], ["temp", "ncc", -8.0], ["mqtt", "/settings/mode", "wintering"], ["run", 30000], ["mqtt", "/settings/mode", "halt"], ["run", 10]]},
        {"opts": COLD, "actions": [["temp", "air", None], ["temp", "ncc", None], ["mqtt", "/settings/mode", "wintering"], ["run", 20000], ["mqtt", "/settings/mode", "halt"], ["run", 10]]},
        {"opts": OPTS, "actions": HEAT + [["temp", "pool", 31.0], ["run", 900], ["mqtt", "/settings/mode", "halt"], ["run", 10]]},
        {"opts": OPTS, "actions": HEAT + [["mqtt", "/settings/mode", "standby"], ["run", 400], ["mqtt", "/settings/mode", "halt"], ["run", 10]]},
        {"opts": OPTS, "actions": HEAT + [["mqtt", "/settings/mode", "overflow"], ["run", 400], ["mqtt", "/settings/mode", "halt"], ["run", 10]]},
        {"opts": OPTS, "actions": HEAT + [["temp", "pool", 31.0], ["run", 30], ["temp", "pool", 20.0], ["mqtt", "/settings/heating/start_hour", "0"], ["run", 1200], ["mqtt", "/settings/mode", "halt"], ["run", 10]]},
        {"opts": OPTS, "actions": [["mqtt", "/settings/mode", "eco"], ["run", 2500], ["mqtt", "/settings/mode", "halt"], ["run", 10]]},
    ]


def run_scenarios(scns, variant):
    import shutil

    d, _c = make(variant)
    try:
        p = subprocess.run(["/venv/bin/python", "-c", _RUN_CODE], input=json.dumps(scns), capture_output=True, text=True, timeout=3000,
                           env={**os.environ, "POUPOOL_REPO": REPO, "POUPOOL_CONFIG_DIR": d})
        for line in p.stdout.split("\n"):
            if line.startswith("RESULT "):
                return json.loads(line[7:])
        raise RuntimeError((p.stdout + p.stderr)[-800:])
    finally:
        shutil.rmtree(d, ignore_errors=True)


def explore(chk, pids):
    """the directed scenarios under both perturbed configurations, all monitors; findings of `pids` are violations"""
    n = nf = 0
    for variant in VARIANTS:
        scns = directed()
        try:
            res = run_scenarios(scns, variant)
        except Exception as e:  # noqa: BLE001
            chk.obligation(f"configuration {variant}: directed scenarios ran", False, repr(e)[:500])
            continue
        for scn, r in zip(scns, res):
            n += 1
            if r.get("error"):
                chk.note(f"configuration {variant}: harness error {r['error']}")
            for f in r["findings"]:
                if f["property"] in pids:
                    nf += 1
                    chk.violation(f"cfg{variant}:" + f["key"], f"under configuration {variant} ({json.dumps(VARIANTS[variant].get('wintering' if f['property'] == 'C17' else 'heating'))}): " + f["what"],
                                  {"kind": "scenario", "scenario": scn, "config_variant": variant, "config_overrides": VARIANTS[variant], "step": f["step"]})
    chk.correspondence("directed scenarios (wintering over several periods, cold / unknown; heating run ended, interrupted by standby / overflow, restarted; disinfection start) on the REAL composed system under two perturbed configurations, all monitors", n, nf)


def replay(data):
    rp = data.get("replay", data)
    res = run_scenarios([rp["scenario"]], rp["config_variant"])
    rc = 0
    for f in res[0]["findings"]:
        print(json.dumps(f))
        if data.get("property") in (None, f["property"]):
            rc = 1
    print("states", res[0].get("states"), "error", res[0].get("error"))
    return rc
