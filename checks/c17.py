"""C17: per-actor certificates + glue (see lean/Poupool/Properties/C17.lean and checks/actors_common.py)."""
from checks import actors_common as ac

THEOREMS = ['Poupool.C17.no_early_or_warm_stir', 'Poupool.C17.stirs_when_cold_or_unknown', 'Poupool.C17.filtration_pump_only_in_stir', 'Poupool.C17.swim_pump_only_in_stir']
TIMING = ['Poupool.Timing.swim_wintering_pause', 'Poupool.Timing.filtration_wintering_pause', 'Poupool.Timing.filtration_const_end_on_time', 'Poupool.Timing.filtration_const_last', 'Poupool.Timing.filtration_polls', 'Poupool.Timing.swim_wintering_stir', 'Poupool.Timing.swim_polls']
MODULE = "Poupool.Properties.C17"


def run(chk):
    ac.run_actor_property(chk, MODULE, THEOREMS, monitor_pids=["C17"], extra=globals().get("extra"))
    ac.dispatch_facts(chk, ['C14_fact_routing', 'C14_fact_modes'])
    ac.responsiveness(chk, ['Filtration', 'Swim'])
    from checks import altcfg as _alt
    _alt.binding(chk, ['wintering'])
    _alt.explore(chk, [chk.pid])
    ac.timing_theorems(chk, TIMING)
    # the wintering polls decide on the TemperatureReader's windows: refinement theorems + differential of the real readers
    from checks import reader_common
    from vlib import lean as _lr
    _lr.check_theorems(chk, "Poupool.Properties.Reader", ["Poupool.ReaderProps." + t for t in ("window_spec", "window_bounded", "missing_reading_is_local", "fresh_reading_is_seen", "mean_within_bounds", "mean_none_iff_no_valid_reading")])
    reader_common.correspondence(chk)
    # the stir runs the counter-current pump through SwimPumpDevice: on() must energise the relay under every DAC fault pattern
    from checks import c18 as _c18
    _c18.swim_device_correspondence(chk)


def search(chk):
    from checks import range_search as _rs
    _rs.search(chk, [chk.pid])
    res = ac.exploration(chk)
    for k, f in sorted(res["findings"].items()):
        if f["property"] == "C17":
            chk.violation(f["key"], f["what"], {"kind": "scenario", "scenario": f["scenario"], "step": f["step"]})


def replay(path):
    return ac.replay(path)


def extra(chk, info, res):
    from checks import decisions_common as _dc
    _dc.tie(chk, ['winter_filtration', 'winter_swim', 'guards_swim'])
    from checks import guards_common
    guards_common.correspondence(chk, ['filtration_is_wintering'])
    from checks import winter_common
    winter_common.correspondence(chk, ('poll',))
    if info is not None:
        from vlib import lean
        lean.check_theorems(chk, "Poupool.Properties.C08", ["Poupool.C08.filtration_timeouts", "Poupool.C08.other_timeouts", "Poupool.C08.filtration_timers"])
    if res is not None:
        ac.check_intervals(chk, res, ['Filtration', 'Swim'])
