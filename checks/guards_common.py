"""EXHAUSTIVE differential correspondence of the guard methods (Model/Guards.lean) with the REAL methods: the other
controller is set to every one of its phases (resp. the setting to every accepted value) and the real guard evaluated."""
from __future__ import annotations

import json
import os
import random
import subprocess

from vlib import lean
from vlib.common import REPO, VERIF

_CODE = r'''
import sys, json, datetime
sys.path.insert(0, %r)
from sim.system import PoolSystem
s = PoolSystem()
w = s.world
F = w.actor("Filtration"); T = w.actor("Tank"); H = w.actor("Heating"); S = w.actor("Swim")
mF = F._Filtration__machine; mT = T._Tank__machine
out = []
def leaves(m):
    names = m.get_nested_state_names()
    return [n for n in names if not m.get_state(n).states]
def ev(fn):
    try:
        return bool(fn())
    except BaseException as e:
        return "raised " + type(e).__name__
for t in leaves(mT):
    mT.set_state(t)
    out.append(["tank_is_low", t, ev(F.tank_is_low)])
    out.append(["tank_is_high", t, ev(F.tank_is_high)])
    # the same question with a Tank that is slow to answer (busy with a sensor read): a guard that gives up and assumes an
    # answer decides differently from the specification
    w.frozen.add(T)
    out.append(["tank_is_low", t, ev(F.tank_is_low), "slow"])
    out.append(["tank_is_high", t, ev(F.tank_is_high), "slow"])
    w.frozen.discard(T)
for n in (0, 1, 2):
    F._Filtration__speed_standby = n
    out.append(["pump_stopped_in_standby", str(n), bool(F.pump_stopped_in_standby())])
F._Filtration__speed_standby = 1
for f in leaves(mF):
    mF.set_state(f)
    out.append(["filtration_allow_heating", f, bool(H.filtration_allow_heating())])
    out.append(["filtration_ready_for_heating", f, bool(H.filtration_ready_for_heating())])
    out.append(["filtration_is_wintering", f, bool(S.filtration_is_wintering())])
    out.append(["filtration_allow_swim", f, bool(S.filtration_allow_swim())])
    w.frozen.add(F)
    out.append(["filtration_allow_heating", f, ev(H.filtration_allow_heating), "slow"])
    out.append(["filtration_ready_for_heating", f, ev(H.filtration_ready_for_heating), "slow"])
    out.append(["filtration_is_wintering", f, ev(S.filtration_is_wintering), "slow"])
    out.append(["filtration_allow_swim", f, ev(S.filtration_allow_swim), "slow"])
    w.frozen.discard(F)
# Tank.force_empty: every (previous, value, halted) combination
import itertools
for prev, val, halted in itertools.product([False, True], repeat=3):
    mT.set_state("halt" if halted else "normal")
    T._Tank__force_empty = prev
    T.actor_inbox.items.clear(); F.actor_inbox.items.clear()
    T.force_empty(val)
    ts, tf = w.inbox_names("Tank"), w.inbox_names("Filtration")
    act = "halt" if "halt" in tf else ("fill" if "fill" in ts else ("nothing" if not ts and not tf else "?%%s%%s" %% (ts, tf)))
    out.append(["force_empty", "%%d %%d %%d" %% (prev, val, halted), act])
    T.actor_inbox.items.clear(); F.actor_inbox.items.clear()
T._Tank__force_empty = False
# Tank.set_mode: every history of up to 4 mode changes; the thresholds in force afterwards
from controller.tank import Tank
cfgs = "%%d %%d %%d %%d" %% (int(s.config["tank", "eco_low"]), int(s.config["tank", "eco_high"]), int(s.config["tank", "overflow_low"]), int(s.config["tank", "overflow_high"]))
for n in range(1, 5):
    for hist in itertools.product(["eco", "overflow"], repeat=n):
        for m in hist:
            T.set_mode(m)
        out.append(["set_mode", cfgs + " " + " ".join(hist), "%%d %%d" %% (T.levels["low"], T.levels["high"])])
T.set_mode("eco")
mF.set_state("eco_normal")
import controller.filtration as cf
T0 = w.t0
for (now_us, last_us, period, high) in json.loads(sys.stdin.read()):
    w.now_us = now_us
    F._Filtration__backwash_last = cf.datetime(2024, 6, 3, 8, 0, 0) + datetime.timedelta(microseconds=last_us)
    F._Filtration__backwash_period = period
    mT.set_state("high" if high else "normal")
    out.append(["start_backwash", "%%d %%d %%d %%d" %% (now_us, last_us, period, 1 if high else 0), bool(F._Filtration__start_backwash())])
print("RESULT " + json.dumps(out))
''' % VERIF

DAY = 86400 * 1_000_000


def correspondence(chk, only=None):
    rng = random.Random(chk.seed + 23)
    bw = []
    for _ in range(300 if chk.tier == "quick" else 5000):
        period = rng.choice([2, 3, 7, 30, 90])
        last = rng.randint(-400, 0) * DAY + rng.choice([0, 1, -1, 3600_000_000])
        now = last + period * DAY + rng.choice([-DAY, -1, 0, 1, DAY, rng.randint(-3 * DAY, 3 * DAY)])
        bw.append([now, last, period, rng.random() < 0.7])
    p = subprocess.run(["/venv/bin/python", "-c", _CODE], input=json.dumps(bw), capture_output=True, text=True, timeout=900, env={**os.environ, "POUPOOL_REPO": REPO})
    real = None
    for line in p.stdout.split("\n"):
        if line.startswith("RESULT "):
            real = json.loads(line[7:])
    if real is None:
        chk.obligation("harness: real guard methods evaluated with the other controller in every phase", False, (p.stdout + p.stderr)[-1500:])
        return
    if only:
        real = [r for r in real if r[0] in only]
    lines = [f"{r[0]} {r[1]}" for r in real]
    model = lean.driver("Poupool/Drivers/Guards.lean", lines)
    slow = {i for i, r in enumerate(real) if len(r) > 3}
    real = [r[:3] for r in real]
    bad = [(g + (" [the asked controller is slow to answer]" if i in slow else ""), arg, v, m) for i, ((g, arg, v), m) in enumerate(zip(real, model)) if (str(v).lower() if isinstance(v, bool) else str(v)) != m]
    dist = {"asked controller slow to answer": len(slow)}
    for (g, arg, v) in real:
        dist[g] = dist.get(g, 0) + 1
    chk.correspondence("guard methods (REAL, the other controller set to EVERY phase / the setting to every value; __start_backwash on boundary dates) vs Model/Guards.lean", len(real), len(bad), distribution=dist, detail=bad[:5] or None)
    for (g, arg, v, m) in bad[:3]:
        chk.violation(f"guard:{g.split(' ')[0]}:{arg.split(' ')[0] if g != 'start_backwash' else 'date'}", f"the real guard {g}({arg}) returns {v}, the specification of the guard says {m}", {"kind": "guard", "guard": g, "arg": arg, "real": v, "model": m})
