"""Differential correspondence of the sensor reader model (lean/Poupool/Model/Reader.lean) with the REAL
controller.sensor.BaseReader / MovingAverage: the real actor class is started under the simulator runtime with fake
sensors whose `value` is set from a script of integers / None before every read; after all `do_read()` calls every window (`values[name].all()`)
and every `mean()` is compared with the Lean driver's.  A mismatch means a reading was lost, duplicated or attributed to
the wrong sensor (or the window length is not the configured one) and is a concrete failing input."""
from __future__ import annotations

import json
import os
import random
import subprocess

from vlib import lean
from vlib.common import REPO, VERIF

_CODE = r'''
import sys, json, datetime
sys.path.insert(0, %r)
from sim.system import bootstrap
bootstrap()
from sim import runtime
import controller.sensor as S

class Fake:
    """a sensor device: `name` and `value` (the harness sets `value` before every do_read(); None = the read failed)"""
    def __init__(self, name, value=None):
        self.name = name; self.value = value

def num(x):
    return None if x is None else float(x)

cases = json.loads(sys.stdin.read())
out = []
for ci, c in enumerate(cases):
    w = runtime.World(datetime.datetime(2024, 1, 1))
    names = c["names"]; reads = c["reads"]
    sensors = [Fake(nm) for nm in names]
    kind = c.get("cls", "BaseReader")
    if kind == "BaseReader":
        ref = S.BaseReader.start(sensors, c["maxlen"])
    else:
        # the two readers in use, with THEIR configuration (window length, any filtering they add)
        ref = getattr(S, kind).start(sensors)
    obj = w.actor(kind)
    via_mailbox = bool(c.get("mailbox")) and kind == "BaseReader"
    for row in reads:
        for s_, v in zip(sensors, row):
            s_.value = v
        if via_mailbox:
            ref.proxy().do_read()      # through the actor's inbox, served by the simulated scheduler
            w.settle()
        else:
            S.BaseReader.do_read(obj)      # the read itself (the subclasses' do_read only adds the re-arming of the poll)
    vals = obj.values
    out.append({"keys": list(vals.keys()), "windows": [vals[nm].all() for nm in names], "means": [num(vals[nm].mean()) for nm in names]})
    w.close()

# the configured window lengths of the two readers in use
w = runtime.World(datetime.datetime(2024, 1, 1))
cfg = {}
for cls, names in ((S.TemperatureReader, ["temperature_pool", "temperature_local", "temperature_air", "temperature_ncc"]), (S.DisinfectionReader, ["ph", "orp"])):
    sensors = [Fake(nm) for nm in names]
    cls.start(sensors)
    obj = w.actor(cls.__name__)
    for t in range(100):
        for s_ in sensors:
            s_.value = t
        S.BaseReader.do_read(obj)
    lens = sorted({len(obj.values[nm].all()) for nm in names})
    mls = sorted({obj.values[nm]._MovingAverage__data.maxlen for nm in names}, key=str)
    last = [obj.values[nm].all()[-1] for nm in names]
    cfg[cls.__name__] = {"len_after_100_reads": lens, "deque_maxlen": mls, "last": last, "delay": cls.DELAY_SECONDS}
w.close()
print("RESULT " + json.dumps({"cases": out, "cfg": cfg}))
''' % VERIF

NAMES = ["temperature_pool", "temperature_local", "temperature_air", "temperature_ncc"]


def gen_cases(rng, n):
    """maxlen in {1,2,5,30}; 1-4 sensors; 0-80 reads; per sensor a fault profile: 30 % None / healthy / dead (all None) /
    a long run of None while the others deliver / flaky 70 %."""
    cases = []
    # directed: nothing read; one sensor dead from the start; the FIRST sensor fails while the later ones deliver
    cases.append({"maxlen": 5, "names": NAMES[:2], "reads": []})
    cases.append({"maxlen": 1, "names": NAMES[:1], "reads": [[None], [3], [None], [4]]})
    cases.append({"maxlen": 2, "names": NAMES[:3], "reads": [[None, 10 + k, 20 + k] for k in range(4)]})
    cases.append({"maxlen": 30, "names": NAMES[:4], "reads": [[k, None, 2 * k, None if k % 3 else -k] for k in range(45)]})
    cases.append({"maxlen": 5, "names": ["ph", "orp"], "reads": [[7, 650], [None, 655], [None, 660], [8, None], [7, 700], [6, 710], [None, 720]]})
    while len(cases) < n:
        maxlen = rng.choice([1, 2, 5, 30])
        ns = rng.randint(1, 4)
        nr = rng.choice([1, 2, rng.randint(0, 12), rng.randint(0, 80), rng.randint(0, 80), rng.randint(25, 80)])
        prof = [rng.choice(["p30", "p30", "p30", "healthy", "healthy", "dead", "run", "p70"]) for _ in range(ns)]
        if ns > 1 and rng.random() < 0.3:
            prof[rng.randrange(ns)] = "run"
        cols = []
        for k in range(ns):
            p = prof[k]
            if p == "run":
                a = rng.randint(0, max(0, nr - 1)) if nr else 0
                b = min(nr, a + rng.choice([1, 2, maxlen, maxlen + 1, rng.randint(1, 40)]))
            col = []
            for t in range(nr):
                miss = {"p30": rng.random() < 0.3, "p70": rng.random() < 0.7, "healthy": False, "dead": True, "run": p == "run" and (a <= t < b or rng.random() < 0.1)}[p]
                col.append(None if miss else rng.choice([rng.randint(-50, 450), rng.randint(-50, 450), 0, 7, rng.randint(-10**6, 10**6)]))
            cols.append(col)
        reads = [[cols[k][t] for k in range(ns)] for t in range(nr)]
        names = NAMES[:ns] if rng.random() < 0.8 else ["ph", "orp", "x3", "x4"][:ns]
        case = {"maxlen": maxlen, "names": names, "reads": reads, "mailbox": rng.random() < 0.15, "profiles": prof}
        r_ = rng.random()
        if r_ < 0.25:
            # the temperature reader as configured (30 samples): temperatures in tenths of a degree incl. 0, steps, outages
            case.update({"cls": "TemperatureReader", "maxlen": 30, "names": NAMES[:ns], "mailbox": False})
        elif r_ < 0.35:
            case.update({"cls": "DisinfectionReader", "maxlen": 5, "names": ["ph", "orp", "x3", "x4"][:ns], "mailbox": False})
        cases.append(case)
    return cases


def line_of(c):
    body = " ; ".join(",".join("x" if v is None else str(v) for v in r) for r in c["reads"])
    return f"{c['maxlen']} {len(c['names'])} | {body}"


def parse_model(line):
    """`[2,4,9]:15/3 []:none` -> [([2,4,9], (15,3)), ([], None)]"""
    res = []
    for tok in line.split(" "):
        if not tok:
            continue
        wtxt, mtxt = tok.split(":")
        inner = wtxt[1:-1]
        win = [int(x) for x in inner.split(",")] if inner else []
        if mtxt == "none":
            mean = None
        else:
            s, k = mtxt.split("/")
            mean = (int(s), int(k))
        res.append((win, mean))
    return res


def compare(c, real, model_line):
    """None if the real reader and the model agree on this case, else (short key, description)"""
    try:
        model = parse_model(model_line)
    except Exception:  # noqa: BLE001
        return ("driver", f"unparsable driver output {model_line!r}")
    names = c["names"]
    if real["keys"] != names:
        return ("names", f"values has keys {real['keys']} for sensors {names}")
    if len(model) != len(names):
        return ("driver", f"driver printed {len(model)} windows for {len(names)} sensors")
    for k, nm in enumerate(names):
        rw, (mw, mm) = real["windows"][k], model[k]
        if rw != mw:
            col = [r[k] for r in c["reads"]]
            return ("window", f"window of {nm} (sensor {k}, maxlen {c['maxlen']}) is {rw}; the last {c['maxlen']} valid readings of that sensor are {mw} (its readings: {col})")
        rm = real["means"][k]
        if (rm is None) != (mm is None):
            return ("mean", f"mean of {nm} is {rm}, the window {mw} has mean {mm}")
        if mm is not None and (mm[1] != len(mw) or abs(rm - mm[0] / mm[1]) > 1e-9 * max(1.0, abs(rm))):
            return ("mean", f"mean of {nm} is {rm}, sum/len of the window {mw} is {mm[0]}/{mm[1]}")
    return None


def correspondence(chk, n=None):
    rng = random.Random(chk.seed)
    n = n or (300 if chk.tier == "quick" else 5000)
    cases = gen_cases(rng, n)
    p = subprocess.run(["/venv/bin/python", "-c", _CODE], input=json.dumps(cases), capture_output=True, text=True, timeout=900, env={**os.environ, "POUPOOL_REPO": REPO})
    res = None
    for line in p.stdout.split("\n"):
        if line.startswith("RESULT "):
            res = json.loads(line[7:])
    if res is None:
        chk.obligation("harness: real controller.sensor.BaseReader started under the simulator runtime with fake sensors", False, (p.stdout + p.stderr)[-1500:])
        return None
    real = res["cases"]
    model = lean.driver("Poupool/Drivers/Reader.lean", [line_of(c) for c in cases])
    bad = []
    for c, r, m in zip(cases, real, model + [""] * (len(cases) - len(model))):
        d = compare(c, r, m)
        if d:
            bad.append((c, r, m, d))
    # input distribution
    dist = {"maxlen": {}, "sensors": {}, "reads_total": 0, "readings_total": 0, "readings_None": 0, "cases_without_reads": 0, "sensors_all_None": 0,
            "windows_overflowed (valid readings > maxlen)": 0, "None_runs_of_at_least_maxlen_while_another_sensor_delivers": 0,
            "first_sensor_None_while_a_later_one_delivers (reads)": 0, "cases_through_the_actor_inbox": 0, "windows_compared": 0, "means_none": 0}
    for c, r in zip(cases, real):
        dist["maxlen"][str(c["maxlen"])] = dist["maxlen"].get(str(c["maxlen"]), 0) + 1
        dist["sensors"][str(len(c["names"]))] = dist["sensors"].get(str(len(c["names"])), 0) + 1
        dist["reads_total"] += len(c["reads"])
        dist["cases_without_reads"] += 0 if c["reads"] else 1
        dist["cases_through_the_actor_inbox"] += 1 if c.get("mailbox") else 0
        for row in c["reads"]:
            dist["readings_total"] += len(row)
            dist["readings_None"] += sum(1 for v in row if v is None)
            if row[0] is None and any(v is not None for v in row[1:]):
                dist["first_sensor_None_while_a_later_one_delivers (reads)"] += 1
        for k in range(len(c["names"])):
            col = [row[k] for row in c["reads"]]
            dist["windows_compared"] += 1
            if col and all(v is None for v in col):
                dist["sensors_all_None"] += 1
            if sum(1 for v in col if v is not None) > c["maxlen"]:
                dist["windows_overflowed (valid readings > maxlen)"] += 1
            run_ = best = 0
            for t, v in enumerate(col):
                others = any(x is not None for j, x in enumerate(c["reads"][t]) if j != k)
                run_ = run_ + 1 if (v is None and others) else 0
                best = max(best, run_)
            if best >= c["maxlen"]:
                dist["None_runs_of_at_least_maxlen_while_another_sensor_delivers"] += 1
            if r["means"][k] is None:
                dist["means_none"] += 1
    bad.sort(key=lambda b: (len(b[0]["reads"]), len(b[0]["names"])))
    chk.correspondence("BaseReader.do_read / MovingAverage (REAL actor class under the simulator runtime, fake sensors scripted with integers / None) vs Model/Reader.lean: every window and mean",
                       len(cases), len(bad), distribution=dist,
                       detail=[{"case": {k: b[0][k] for k in ("maxlen", "names", "reads")}, "real": b[1], "model": b[2], "what": b[3][1]} for b in bad[:3]] or None)
    i = min(4, len(cases) - 1)
    chk.sample({"reader case": line_of(cases[i]), "real windows": real[i]["windows"], "real means": real[i]["means"], "model": model[i] if i < len(model) else None})
    seen = set()
    for c, r, m, (key, what) in bad:
        if key in seen:
            continue
        seen.add(key)
        chk.violation(f"reader:{key}", f"BaseReader(maxlen={c['maxlen']}) with sensors {c['names']} after {len(c['reads'])} do_read(): {what}",
                      {"kind": "reader", "case": {"maxlen": c["maxlen"], "names": c["names"], "reads": c["reads"], "mailbox": bool(c.get("mailbox"))}, "real": r, "model": m})
    # configured window lengths of the two readers the controllers ask
    cfg = res["cfg"]
    t, d = cfg.get("TemperatureReader", {}), cfg.get("DisinfectionReader", {})
    chk.obligation("TemperatureReader keeps 30 samples per sensor (30 min at one read per 60 s), the newest reading last", t.get("len_after_100_reads") == [30] and t.get("deque_maxlen") == [30] and t.get("last") == [99] * 4 and t.get("delay") == 60, json.dumps(t))
    chk.obligation("DisinfectionReader keeps 5 samples per sensor (5 min at one read per 60 s), the newest reading last", d.get("len_after_100_reads") == [5] and d.get("deque_maxlen") == [5] and d.get("last") == [99] * 2 and d.get("delay") == 60, json.dumps(d))
    return bad
