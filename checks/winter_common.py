"""Differential correspondence of Model/Winter.lean with the REAL methods: Filtration/Swim.do_repeat_wintering_waiting and
Swim.do_repeat_timed (real util.Timer)."""
from __future__ import annotations

import json
import os
import random
import subprocess

from vlib import lean
from vlib.common import REPO, VERIF

_CODE = r'''
import sys, json, datetime
sys.path.insert(0, %r)
from sim.system import PoolSystem
s = PoolSystem()
w = s.world
import controller.actor as A
from controller.filtration import Filtration
from controller.swim import Swim
cfg = {"F": [Filtration.WINTERING_PERIOD, Filtration.WINTERING_ONLY_BELOW], "S": [Swim.WINTERING_PERIOD, Swim.WINTERING_ONLY_BELOW]}
class Fut:
    def __init__(self, v): self.v = v
    def get(self, timeout=None): return self.v
class Temp:
    val = None
    def get_temperature(self, key): return Fut(Temp.val)
F = w.actor("Filtration"); S = w.actor("Swim")
F._Filtration__temperature = Temp(); S._Swim__temperature = Temp()
out = []
for c in json.loads(sys.stdin.read()):
    if c[0] == "poll":
        _, who, tis_us, temp, period_s, thr = c
        a = F if who == "F" else S
        cls = Filtration if who == "F" else Swim
        cls.WINTERING_PERIOD = period_s          # every [wintering] configuration: the class constants are the config values
        cls.WINTERING_ONLY_BELOW = float(thr)
        m = a._Filtration__machine if who == "F" else a._Swim__machine
        m.set_state("wintering_waiting")
        m._PoupoolModel__state_time = A.datetime.now() - datetime.timedelta(microseconds=tis_us)
        Temp.val = None if temp is None else temp / 1000.0
        a.actor_inbox.items.clear(); a.do_cancel()
        n0 = len(w.log)
        a.do_repeat_wintering_waiting()
        told = w.inbox_names(a.sim_name)
        rearmed = any(e[1] == "timer_start" for e in w.log[n0:])
        out.append("stir" if "wintering_stir" in told else ("rearm" if rearmed else "NOTHING"))
        a.actor_inbox.items.clear()
    else:
        _, delay_min, times = c
        S.timer(delay_min)
        S._Swim__machine.set_state("timed")
        S._Swim__timer.reset()
        acts = []
        for t in times:
            w.now_us = t
            S.actor_inbox.items.clear(); S.do_cancel()
            n0 = len(w.log)
            S.do_repeat_timed()
            told = w.inbox_names("Swim")
            acts.append("halt" if "halt" in told else ("rearm" if any(e[1] == "timer_start" for e in w.log[n0:]) else "NOTHING"))
        S.actor_inbox.items.clear()
        out.append(" ".join(acts))
print("RESULT " + json.dumps({"out": out, "cfg": cfg}))
''' % VERIF


def correspondence(chk, which=("poll", "timed")):
    import configparser

    c = configparser.ConfigParser()
    c.read(os.path.join(REPO, "config.ini"))
    wn = c["wintering"]
    cfg = {"F": (int(wn["period"]), float(wn["only_below"])), "S": (int(wn["swim_period"]), float(wn["swim_only_below"]))}
    rng = random.Random(chk.seed + 17)
    cases = []
    n = 1200 if chk.tier == "quick" else 20000
    if "poll" in which:
        for _ in range(n):
            who = rng.choice(["F", "S"])
            period, thr = cfg[who]
            if rng.random() < 0.6:
                # other [wintering] configurations than the shipped one
                period, thr = rng.choice([600, 3600, 10800, 86400]), rng.choice([-10.0, -2.0, 0.0, 5.0, 12.5])
            p_us = period * 1_000_000
            tis = rng.choice([0, p_us - 1, p_us, p_us + 1, p_us + 120_000_000, rng.randint(0, 3 * p_us)])
            th = int(round(thr * 1000))
            temp = rng.choice([None, None, th - 5000, th - 125, th, th + 125, th + 5000, 0, -125])
            cases.append(["poll", who, tis, temp, period, thr])
    if "timed" in which:
        for _ in range(n // 6):
            delay = rng.choice([1, 2, 5])
            t, times = rng.randint(0, 10**9), []
            for _ in range(rng.randint(2, delay * 60 + 10)):
                times.append(t)
                t += rng.choice([1_000_000, 1_000_017, 1_500_000, 999_983])
            cases.append(["timed", delay, times])
    p = subprocess.run(["/venv/bin/python", "-c", _CODE], input=json.dumps(cases), capture_output=True, text=True, timeout=1800, env={**os.environ, "POUPOOL_REPO": REPO})
    real = None
    for line in p.stdout.split("\n"):
        if line.startswith("RESULT "):
            real = json.loads(line[7:])
    if real is None:
        chk.obligation("harness: real wintering polls / do_repeat_timed callable with a stubbed temperature reader", False, (p.stdout + p.stderr)[-1500:])
        return
    ok = all(real["cfg"][k][0] == cfg[k][0] and abs(real["cfg"][k][1] - cfg[k][1]) < 1e-9 for k in cfg)
    chk.obligation("config.ini [wintering] periods/thresholds = class constants of the running code", ok, json.dumps(real["cfg"]))
    lines = []
    for cs in cases:
        if cs[0] == "poll":
            period, thr = cs[4], cs[5]
            lines.append(f"poll {cs[2]} {period * 1_000_000} {'none' if cs[3] is None else cs[3]} {int(round(thr * 1000))}")
        else:
            lines.append("timed " + str(cs[1] * 60_000_000) + " " + " ".join(str(t) for t in cs[2]))
    model = lean.driver("Poupool/Drivers/Winter.lean", lines)
    bad = [(c_, r, m) for c_, r, m in zip(cases, real["out"], model) if r != m]
    dist = {"stir": sum(1 for r in real["out"] if r == "stir"), "rearm": sum(1 for r in real["out"] if r == "rearm"), "timed_sequences": sum(1 for c_ in cases if c_[0] == "timed")}
    chk.correspondence("Filtration/Swim.do_repeat_wintering_waiting and Swim.do_repeat_timed (REAL methods, stubbed reader, boundary instants/temperatures incl. unknown) vs Model/Winter.lean", len(cases), len(bad), distribution=dist,
                       detail=[(str(b[0])[:200], b[1][:80], b[2][:80]) for b in bad[:4]] or None)
    # monitor: the statement's clauses decided on the real decisions
    for cs, r in zip(cases, real["out"]):
        if cs[0] == "poll":
            period, thr = cs[4], cs[5]
            cold = cs[3] is None or cs[3] <= int(round(thr * 1000))
            due = cs[2] > period * 1_000_000
            if due and cold and r != "stir":
                chk.violation(f"wintering-no-stir-when-cold:{cs[1]}", f"{'Filtration' if cs[1] == 'F' else 'Swim'} wintering poll after {cs[2] / 1e6:.0f} s with temperature {cs[3]} (milli-degrees; None = unknown), threshold {thr}: no stir requested ({r})", {"kind": "winter-poll", "case": cs, "real": r})
                break
            if r == "stir" and not (due and cold):
                chk.violation(f"wintering-stir-against-policy:{cs[1]}", f"stir requested after {cs[2] / 1e6:.0f} s, temperature {cs[3]}", {"kind": "winter-poll", "case": cs, "real": r})
                break
        else:
            acts = r.split(" ")
            t0 = cs[2][0]
            for t, a in zip(cs[2], acts):
                should = (t - t0) >= cs[1] * 60_000_000
                if should != (a == "halt"):
                    chk.violation("swim-timed-stop", f"timed swim ({cs[1]} min): poll {(t - t0) / 1e6:.1f} s after the first gave {a}", {"kind": "swim-timed", "case": [cs[0], cs[1], cs[2][:5]], "real": r[:200]})
                    break
