"""C16: scheduled heating policy.  Lean K1 theorems on Model/Heating.lean + differential correspondence of the REAL
Heating methods (do_repeat_waiting, do_repeat_heating, on_exit_heating, setpoint, start_hour) + per-actor certificates."""
from __future__ import annotations

import json
import os
import random
import subprocess
import sys

from checks import actors_common as ac
from vlib import lean
from vlib.common import REPO, VERIF

THEOREMS = ["Poupool.C16.start_conditions", "Poupool.C16.stop_conditions", "Poupool.C16.nextDayStart_later", "Poupool.C16.once_per_day",
            "Poupool.C16.next_start_after_run", "Poupool.C16.waiting_poll_next_start"]
MODULE = "Poupool.Properties.C16"

_CODE = r'''
import sys, json, datetime
sys.path.insert(0, %r)
from sim.system import PoolSystem
s = PoolSystem(start=datetime.datetime(2024, 6, 3, 0, 0, 0))
w = s.world
H = w.actor("Heating")
from controller.heating import Heating
class Fut:
    def __init__(self, v): self.v = v
    def get(self, timeout=None): return self.v
class Temp:
    vals = {}
    def get_temperature(self, key): return Fut(Temp.vals.get(key))
class FakeF:
    ready = False; allow = False; asked = 0
    def is_eco_waiting(self): return Fut(False)
    def is_eco_normal(self): return Fut(FakeF.ready)
    def is_heating_running(self): return Fut(FakeF.allow)
    def heat(self):
        FakeF.asked += 1
        return Fut(None)
    class heating_delay:
        @staticmethod
        def defer(): pass
H._Heating__temperature = Temp()
H.get_actor = lambda name: FakeF()
machine = H._Heating__machine
T0 = w.t0
def us(dt): return int((dt - T0).total_seconds() * 1000000 + 0.5) if dt >= T0 else -int((T0 - dt).total_seconds() * 1000000 + 0.5)
cases = json.loads(sys.stdin.read())
out = []
for c in cases:
    kind = c[0]
    H.actor_inbox.items.clear(); H.do_cancel()
    if kind == "wait":
        _, en, ns, sh, sp, mt, now, pool, air, ready, allow = c
        w.now_us = now
        H._Heating__enable = bool(en); H._Heating__next_start = T0 + datetime.timedelta(microseconds=ns)
        H._Heating__next_start_hour = sh; H._Heating__setpoint = sp / 1000.0; H._Heating__min_temp = mt // 1000
        Temp.vals = {"temperature_pool": None if pool is None else pool / 1000.0, "temperature_air": None if air is None else air / 1000.0}
        FakeF.ready, FakeF.allow, FakeF.asked = bool(ready), bool(allow), 0
        machine.set_state("waiting")
        n0 = len(w.log)
        H.do_repeat_waiting()
        told = w.inbox_names("Heating")
        ns2 = us(H._Heating__next_start)
        if "heat" in told:
            act = "heat"
        elif ns2 != ns:
            act = "skip"
        else:
            act = "rearm"
        rearmed = any(e[1] == "timer_start" for e in w.log[n0:])
        out.append("%%s %%d%%s" %% (act, ns2, "" if rearmed else " NOREARM"))
    elif kind == "heat":
        _, en, sp, mt, pool, air = c
        H._Heating__enable = bool(en); H._Heating__setpoint = sp / 1000.0; H._Heating__min_temp = mt // 1000
        Temp.vals = {"temperature_pool": None if pool is None else pool / 1000.0, "temperature_air": None if air is None else air / 1000.0}
        machine.set_state("heating")
        n0 = len(w.log)
        H.do_repeat_heating()
        told = w.inbox_names("Heating")
        out.append("stop" if "wait" in told else ("rearm" if any(e[1] == "timer_start" for e in w.log[n0:]) else "NOTHING"))
    elif kind == "exit":
        _, sh, now, allow = c
        w.now_us = now
        H._Heating__next_start_hour = sh
        H._Heating__next_start = T0          # stale value: the exit must reschedule whatever Filtration answers
        FakeF.allow = bool(allow)
        machine.set_state("heating")
        w.now_us = now - 5000000
        H._Heating__total_duration.start()
        w.now_us = now
        H.on_exit_heating()
        out.append(str(us(H._Heating__next_start)))
    elif kind == "setpoint":
        _, ns, now = c
        w.now_us = now
        H._Heating__next_start = T0 + datetime.timedelta(microseconds=ns)
        H.setpoint(26.0)
        out.append(str(us(H._Heating__next_start)))
    elif kind == "starthour":
        _, h, now = c
        w.now_us = now
        H.start_hour(h)
        out.append(str(us(H._Heating__next_start)))
cfg = {"hd": Heating.HYSTERESIS_DOWN, "hu": Heating.HYSTERESIS_UP, "hm": Heating.HYSTERESIS_MIN_TEMP}
print("RESULT " + json.dumps({"out": out, "cfg": cfg}))
''' % VERIF

DAY = 86400 * 1_000_000


def gen_cases(rng, n, cfg):
    hd, hu, hm = cfg
    cases = []
    temps = lambda sp: [None, sp - 1000, sp - 125, sp, sp + 125, sp + hd, sp + hd + 125, sp + hu - 125, sp + hu, sp + hu + 125, sp + 3000]  # noqa: E731
    for _ in range(n):
        kind = rng.choice(["wait", "wait", "wait", "heat", "heat", "exit", "setpoint", "starthour"])
        sp = rng.choice([10000, 24500, 26000, 27500, 32000])
        mt = rng.choice([5000, 15000, 25000])
        now = rng.randint(0, 5 * DAY // 1_000_000) * 1_000_000 + rng.choice([0, 1, 500_000])
        if kind == "wait":
            ns = rng.choice([now - DAY, now - 1, now, now + 1, now + 3600_000_000, rng.randint(0, 5 * DAY)])
            air = rng.choice([None, mt - 2000, mt - hm - 125, mt - hm, mt - 125, mt, mt + 125, mt + 5000])
            cases.append(["wait", rng.random() < 0.85, ns, rng.randint(0, 23), sp, mt, now, rng.choice(temps(sp)), air, rng.random() < 0.8, rng.random() < 0.8])
        elif kind == "heat":
            air = rng.choice([None, mt - 2000, mt - hm - 125, mt - hm, mt - hm + 125, mt, mt + 5000])
            cases.append(["heat", rng.random() < 0.85, sp, mt, rng.choice(temps(sp)), air])
        elif kind == "exit":
            cases.append(["exit", rng.randint(0, 23), now, rng.random() < 0.5])
        elif kind == "setpoint":
            cases.append(["setpoint", rng.choice([now - 1, now, now + 1, now + DAY, now - DAY]), now])
        else:
            cases.append(["starthour", rng.randint(0, 23), now])
    return cases


def correspondence(chk):
    import configparser

    c = configparser.ConfigParser()
    c.read(os.path.join(REPO, "config.ini"))
    h = c["heating"]
    cfg = (int(round(float(h["hysteresis_down"]) * 1000)), int(round(float(h["hysteresis_up"]) * 1000)), int(round(float(h["hysteresis_min_temp"]) * 1000)))
    rng = random.Random(chk.seed)
    cases = gen_cases(rng, 3000 if chk.tier == "quick" else 40000, cfg)
    p = subprocess.run(["/venv/bin/python", "-c", _CODE], input=json.dumps(cases), capture_output=True, text=True, timeout=1200, env={**os.environ, "POUPOOL_REPO": REPO})
    real = None
    for line in p.stdout.split("\n"):
        if line.startswith("RESULT "):
            real = json.loads(line[7:])
    if real is None:
        chk.obligation("harness: real Heating methods callable with stubbed temperature reader and Filtration answers", False, (p.stdout + p.stderr)[-1500:])
        return
    ok_cfg = (int(round(real["cfg"]["hd"] * 1000)), int(round(real["cfg"]["hu"] * 1000)), int(round(real["cfg"]["hm"] * 1000))) == cfg
    chk.obligation("config.ini [heating] hystereses = class constants of the running code", ok_cfg, json.dumps(real["cfg"]))
    b = lambda x: "1" if x else "0"  # noqa: E731
    o = lambda x: "none" if x is None else str(x)  # noqa: E731
    lines = []
    for cs in cases:
        if cs[0] == "wait":
            _, en, ns, sh, sp, mt, now, pool, air, ready, allow = cs
            lines.append(f"wait {cfg[0]} {cfg[1]} {cfg[2]} {b(en)} {ns} {sh} {sp} {mt} {now} {o(pool)} {o(air)} {b(ready)} {b(allow)}")
        elif cs[0] == "heat":
            _, en, sp, mt, pool, air = cs
            lines.append(f"heat {cfg[0]} {cfg[1]} {cfg[2]} {b(en)} {sp} {mt} {o(pool)} {o(air)}")
        elif cs[0] == "exit":
            lines.append(f"exit {cs[1]} {cs[2]}")  # the model reschedules whatever Filtration answers
        elif cs[0] == "setpoint":
            lines.append(f"setpoint {cs[1]} {cs[2]}")
        else:
            lines.append(f"starthour {cs[1]} {cs[2]}")
    model = lean.driver("Poupool/Drivers/Heating.lean", lines)
    bad = [(c_, r, m) for c_, r, m in zip(cases, real["out"], model) if r != m]
    dist = {}
    for r in real["out"]:
        k = r.split(" ")[0] if not r.lstrip("-").isdigit() else "time"
        dist[k] = dist.get(k, 0) + 1
    chk.correspondence("Heating.do_repeat_waiting/do_repeat_heating/on_exit_heating/setpoint/start_hour (REAL methods, stubbed answers, boundary temperatures, several days) vs Model/Heating.lean", len(cases), len(bad), distribution=dist, detail=bad[:5] or None)
    chk.sample({"case": cases[0], "real": real["out"][0], "model": model[0]})
    # monitor: decide the statement's start/stop clauses directly on the real decisions
    viol = []
    for cs, r in zip(cases, real["out"]):
        if cs[0] == "wait" and r.startswith("heat"):
            _, en, ns, sh, sp, mt, now, pool, air, ready, allow = cs
            ok = en and now >= ns and not (pool is not None and pool - cfg[0] >= sp) and not (air is not None and air < mt) and ready and allow
            if not ok:
                viol.append(("heat-started-against-policy", cs, r))
        if cs[0] == "wait" and "NOREARM" in r and not r.startswith("heat"):
            viol.append(("waiting-poll-not-rearmed", cs, r))
        if cs[0] == "heat":
            _, en, sp, mt, pool, air = cs
            must_stop = (not en) or pool is None or pool >= sp + cfg[1] or (air is not None and air < mt - cfg[2])
            if must_stop != (r == "stop"):
                viol.append(("heating-stop-against-policy", cs, r))
        if cs[0] == "exit" and int(r) <= cs[2]:
            viol.append(("next-start-not-in-the-future", cs, r))
    for key, cs, r in viol[:3]:
        chk.violation(key, f"real Heating decision {r!r} on {cs} violates the policy of the statement", {"kind": "heating-case", "case": cs, "real": r})


def extra(chk, info, res):
    from checks import decisions_common as _dc
    _dc.tie(chk, ['heating', 'guards_heating'])
    from checks import guards_common
    guards_common.correspondence(chk, ['filtration_allow_heating', 'filtration_ready_for_heating'])
    if info is not None:
        lean.check_theorems(chk, "Poupool.Properties.C08", ["Poupool.C08.heating_timers"])
        lean.check_theorems(chk, "Poupool.Properties.C06", ["Poupool.C06.heating_start_is_guarded", "Poupool.C06.filtration_heat_interlock"])
    correspondence(chk)
    chk.assumptions += ["temperatures are exact multiples of 1/8 degree in the correspondence (binary64 exact); local time without DST",
                        "'within one poll (10 s)' uses C08.heating_timers (the heating poll is always armed) and ε-prompt delivery"]


def run(chk):
    ac.run_actor_property(chk, MODULE, THEOREMS, monitor_pids=["C16"], extra=extra)
    ac.dispatch_facts(chk, ['C14_fact_routing', 'C14_fact_heating_setpoint', 'C14_fact_heating_min_temp', 'C14_fact_heating_start_hour'])
    from checks import altcfg as _alt
    _alt.binding(chk, ['heating'])
    # the thermostat decides on the TemperatureReader's windows: refinement theorems + differential of the REAL BaseReader
    from checks import reader_common
    from vlib import lean as _lean
    _lean.check_theorems(chk, "Poupool.Properties.Reader", ["Poupool.ReaderProps." + t for t in (
        "window_spec", "window_bounded", "missing_reading_is_local", "missing_reading_is_local_general", "fresh_reading_is_seen",
        "mean_within_bounds", "mean_none_iff_no_valid_reading", "zero_window_keeps_nothing")])
    reader_common.correspondence(chk)


def search(chk):
    correspondence(chk)


def replay(path):
    d = json.load(open(path))
    print(json.dumps(d.get("replay", d))[:800])
    return ac.replay(path) if "scenario" in json.dumps(d) else 1
