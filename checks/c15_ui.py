"""C15, static UI part: (b) every publishable state string is a key of the shipped state.map; (c) every command the
shipped sitemap can send is accepted by the dispatcher and every command topic is subscribed.

`run_ui(chk)` is called by checks/c15.py (which owns C15(a)); it
  1. regenerates Generated/Dispatch.lean (T3) and Generated/Ui.lean (T5);
  2. checks the theorems of Properties/C15Ui.lean (UI_THEOREMS);
  3. validates on the REAL code, and reports concrete violations:
       (c) every generated UI command is dispatched to the REAL Dispatcher (recording sentinels) and must be told, and
           the result must be what the Lean model computes for it (Drivers/Dispatch.lean, same line protocol as C14);
           every command topic must be in `dispatcher.topics()` (what Mqtt subscribes to);
       (b) statically every string of `publishedStates` must be in state.map; dynamically the REAL controllers are driven
           through a tour of states and every payload published on /status/*/state must be (i) a state.map key and
           (ii) one of the strings the AST scan found (validates the scan).
"""
from __future__ import annotations

import os
import sys

from vlib import lean
from vlib.common import REPO

UI_THEOREMS = [
    "Poupool.C15Ui.C15b_published_states_in_state_map",
    "Poupool.C15Ui.C15c_command_topics_subscribed",
    "Poupool.C15Ui.C15c_widget_topics_are_command_topics",
    "Poupool.C15Ui.C15c_ui_commands_accepted",
    "Poupool.C15Ui.C15c_ui_commands_validated",
]

TOUR = [
    ["mqtt", "/settings/mode", "eco"], ["run", 300], ["mqtt", "/settings/mode", "standby"], ["run", 700],
    ["mqtt", "/settings/swim/mode", "timed"], ["run", 30], ["mqtt", "/settings/swim/mode", "continuous"], ["run", 30],
    ["mqtt", "/settings/light/mode", "on"], ["run", 5], ["mqtt", "/settings/mode", "comfort"], ["run", 300],
    ["mqtt", "/settings/mode", "overflow"], ["run", 700], ["mqtt", "/settings/mode", "sweep"], ["run", 60],
    ["mqtt", "/settings/mode", "standby"], ["run", 100], ["mqtt", "/settings/cover/position/eco", "25"],
    ["mqtt", "/settings/mode", "eco"], ["run", 400], ["mqtt", "/settings/heating/enable", "OFF"], ["run", 4000],
    ["tank", 90], ["run", 60], ["mqtt", "/settings/mode", "wash"], ["run", 400], ["tank", 50], ["run", 20000],
    ["tank", 10], ["run", 100], ["tank", 50], ["mqtt", "/settings/mode", "halt"], ["run", 30],
    ["mqtt", "/settings/mode", "wintering"], ["run", 20000], ["mqtt", "/settings/mode", "halt"], ["run", 30],
    ["mqtt", "/settings/tank/force_empty", "ON"], ["run", 30], ["mqtt", "/settings/tank/force_empty", "OFF"], ["run", 300],
]


def _quiet():
    import logging

    logging.disable(logging.CRITICAL)


def ui_real_check(chk, ui, table_ok):
    """(c) on the REAL dispatcher + against the Lean driver."""
    from checks import c14
    from translate import dispatch_table as T

    mod = T.import_dispatcher()
    probe, _ = T.new_dispatcher(mod)
    subscribed = set(probe.topics())
    for t in ui["commandTopics"]:
        if t not in subscribed:
            chk.violation(f"ui-topic-not-subscribed:{t}", f"command topic {t} of poupool.things is not a dispatcher topic (never subscribed)",
                          {"kind": "ui", "what": "topic", "topic": t, "explains": ["Poupool.C15Ui.C15c_command_topics_subscribed"]})
    lines, real, meta = [], [], []
    rejected = {}
    for topic, cmds in ui["uiCommands"].items():
        for c in cmds:
            log = []
            d, _ = T.new_dispatcher(mod, log)  # fresh dispatcher per command (as the model: empty once-state)
            p = c["payload"].encode("utf-8")
            r = c14.real_dispatch(d, log, topic, p)
            lines += ["R", c14.line_for(topic, p)]
            real += ["ok", r]
            meta += [None, (topic, c)]
            if not r.startswith("tell ") and topic not in rejected:
                rejected[topic] = (c, r)
    for topic, (c, r) in rejected.items():
        chk.violation(
            f"ui-command-rejected:{topic}",
            f"the sitemap widget of item {c['item']} (poupool.sitemap:{c['line']}) can send {c['payload']!r} on {topic}; the dispatcher does not forward it ({r})",
            {"kind": "ui", "what": "command", "topic": topic, "payload": c["payload"], "item": c["item"], "how": "./check C14 --replay <this file>",
             "explains": ["Poupool.C15Ui.C15c_ui_commands_accepted", "build:Poupool.Properties.C15Ui"]},
        )
    # the same widgets used the way people use them: the same button twice in a row, back and forth between two values, on ONE
    # dispatcher instance — what a command does must not depend on what was sent before (only restore-only status topics are
    # once-only, and no widget sends those)
    fresh = {(m[0], m[1]["payload"]): r for m, r in zip(meta, real) if m is not None}
    log = []
    d, _ = T.new_dispatcher(mod, log)
    hist_cases, hist_bad = 0, None
    for topic, cmds in ui["uiCommands"].items():
        seq = []
        prev = None
        for c in cmds:
            seq += [c, c] + ([prev, c] if prev is not None else [])
            prev = c
        sent = []
        for c in seq:
            pl = c["payload"].encode("utf-8")
            r = c14.real_dispatch(d, log, topic, pl)
            sent.append(c["payload"])
            hist_cases += 1
            want = fresh.get((topic, c["payload"]))
            if want is not None and want.startswith("tell ") and r != want and hist_bad is None:
                hist_bad = (topic, c, list(sent), r, want)
    chk.correspondence("UI commands on one dispatcher instance (every value twice in a row and back and forth): same effect as on a fresh one", hist_cases, 0 if hist_bad is None else 1,
                       detail=None if hist_bad is None else {"topic": hist_bad[0], "sequence": hist_bad[2][-6:], "got": hist_bad[3], "fresh": hist_bad[4]})
    if hist_bad is not None:
        topic, c, sent, r, want = hist_bad
        chk.violation(f"ui-command-rejected-after-history:{topic}",
                      f"the sitemap widget of item {c['item']} sends {c['payload']!r} on {topic} after {sent[-4:-1]!r}: the dispatcher does `{r}` instead of `{want}` (the command is accepted only when nothing, or something else, was sent before)",
                      {"kind": "ui-history", "topic": topic, "sequence": sent, "got": r, "fresh": want})
    n = len(real) // 2
    dist = {"ui_commands": n, "topics": len(ui["uiCommands"]), "told_by_real_dispatcher": sum(1 for r in real if r.startswith("tell ")),
            "command_topics": len(ui["commandTopics"]), "widgets": ui["widgets"]}
    if table_ok:
        out = lean.driver("Poupool/Drivers/Dispatch.lean", lines)
        dis = sum(1 for a, b in zip(real, out) if a != b) + abs(len(real) - len(out))
        det = [{"line": ln[:200], "real": a, "lean": b} for ln, a, b in zip(lines, real, out) if a != b][:5]
        chk.correspondence("UI commands: real Dispatcher vs Lean model", n, dis, distribution=dist, detail=det or None)
        seen_topics = set()
        for m, a, b in zip(meta, real, out):
            if m is not None and a != b and b.startswith("tell ") and m[0] not in seen_topics:
                seen_topics.add(m[0])
                c = m[1]
                chk.violation(
                    f"ui-command-misdelivered:{m[0]}",
                    f"the sitemap widget of item {c['item']} (poupool.sitemap:{c['line']}) sends {c['payload']!r} on {m[0]}; the dispatcher must forward it as `{b}` but does `{a}`",
                    {"kind": "ui", "what": "command", "topic": m[0], "payload": c["payload"], "item": c["item"], "real": a, "specified": b, "how": "./check C14 --replay <this file>"},
                )
    else:
        chk.extra["ui_real_check"] = dist
    for (m, r) in [(m, r) for m, r in zip(meta, real) if m][:: max(1, n // 4)][:4]:
        chk.sample({"topic": m[0], "payload": m[1]["payload"], "real": r})


def states_real_check(chk, ui):
    """(b) statically and on a tour of the real system."""
    keys = set(ui["stateMapKeys"])
    scan = {(c, s) for c, s, _ in ui["publishedStates"]}
    for c, s, where in ui["publishedStates"]:
        if s not in keys:
            chk.violation(f"state-not-in-map:{c}:{s}", f"controller/{where} publishes the state {s!r} on /status/{c}/state; state.map has no such key",
                          {"kind": "ui", "what": "state", "controller": c, "state": s, "site": where,
                           "explains": ["Poupool.C15Ui.C15b_published_states_in_state_map", "build:Poupool.Properties.C15Ui"]})
    # dynamic: what the real controllers publish
    from checks import c14

    s = c14.build_system([])
    seen = set()
    for a in TOUR:
        if a[0] == "mqtt":
            s.mqtt_in(a[1], a[2])
            s.world.settle()
        elif a[0] == "run":
            s.world.run_for(a[1])
        elif a[0] == "tank":
            s.set_tank_level(a[1])
    for _, kind, data in s.world.log:
        if kind == "publish" and data[0].startswith("/status/") and data[0].endswith("/state"):
            seen.add((data[0].split("/")[2], data[1]))
    dead = dict(s.world.dead)
    s.world.close()
    not_scanned = sorted(x for x in seen if x not in scan)
    not_in_map = sorted(x for x in seen if x[1] not in keys)
    for c, st in not_in_map:
        if any(v["key"] == f"state-not-in-map:{c}:{st}" for v in chk.violations):
            continue
        chk.violation(f"state-not-in-map:{c}:{st}", f"the running {c} controller published {st!r} on /status/{c}/state; state.map has no such key",
                      {"kind": "ui", "what": "state-dynamic", "controller": c, "state": st, "tour": TOUR, "explains": []})
    chk.obligation("T5: every state string published by the running controllers was found by the AST scan", not not_scanned, str(not_scanned))
    chk.correspondence("published states: running system vs AST scan / state.map", len(seen), len(not_scanned),
                       distribution={"distinct_published": len(seen), "scanned": len(scan), "map_keys": len(keys), "dead_during_tour": dead,
                                     "controllers": sorted({c for c, _ in seen})})


def run_ui(chk):
    _quiet()
    os.chdir(REPO)
    if REPO not in sys.path:
        sys.path.insert(0, REPO)
    from translate import dispatch_table as T
    from translate import ui_tables as U

    chk.assumptions += [
        "openHAB sends exactly what the sitemap allows: Setpoint/Slider the min..max step grid (each value in the decimal spellings BigDecimal arithmetic can give: '11', '11.0'), "
        "Selection/Switch-with-mappings the mapping keys, Switch ON/OFF; JS transforms are the two shipped `(i op N)|0` forms",
        "cover position is in 0..100 when the f-string states `closing_{position // 10 * 10}` are expanded (range from C19)",
    ]
    table_ok = True
    try:
        T.regenerate()
    except Exception as e:  # noqa: BLE001
        table_ok = False
        chk.obligation("T3: dispatcher table extracted and validated by probing", False, f"{type(e).__name__}: {e}")
    ui = U.extract()  # a parser failure here is a machinery failure (raised to the caller)
    from translate.dispatch_table import write_if_changed

    write_if_changed(U.OUT, U.render(ui))
    chk.obligation("T5: openHAB configuration and state publish sites parsed", True,
                   f"{len(ui['stateMapKeys'])} map keys, {len(ui['publishedStates'])} publish strings, {sum(len(v) for v in ui['uiCommands'].values())} ui commands")
    if table_ok:
        lean.check_theorems(chk, "Poupool.Properties.C15Ui", UI_THEOREMS)
        if not any(o["name"] == "build:Poupool.Properties.C15Ui" and o["ok"] for o in chk.obligations):
            from checks import c14

            c14.name_failing_theorems(chk, "Poupool/Properties/C15Ui.lean")
            table_ok, _ = lean.build(["Poupool.Generated.Dispatch"])
    ui_real_check(chk, ui, table_ok)
    states_real_check(chk, ui)
    return ui


def replay_history(rp):
    from checks import c14
    from translate import dispatch_table as T

    _quiet()
    mod = T.import_dispatcher()
    log = []
    d, _ = T.new_dispatcher(mod, log)
    last = None
    for pl in rp["sequence"]:
        last = c14.real_dispatch(d, log, rp["topic"], pl.encode("utf-8"))
        print(f"{rp['topic']} {pl!r} -> {last}")
    return 1 if last != rp["fresh"] else 0


def replay(rp):
    if rp.get("kind") == "ui-history":
        return replay_history(rp)
    _quiet()
    os.chdir(REPO)
    if REPO not in sys.path:
        sys.path.insert(0, REPO)
    from checks import c14
    from translate import dispatch_table as T
    from translate import ui_tables as U

    if rp.get("what") == "command":
        log = []
        d, _ = T.new_dispatcher(T.import_dispatcher(), log)
        r = c14.real_dispatch(d, log, rp["topic"], rp["payload"].encode())
        print(f"UI command {rp['payload']!r} on {rp['topic']}: real dispatcher -> {r}")
        bad = not r.startswith("tell ")
    elif rp.get("what") == "topic":
        d, _ = T.new_dispatcher(T.import_dispatcher())
        bad = rp["topic"] not in set(d.topics())
        print(f"command topic {rp['topic']} subscribed: {not bad}")
    else:
        keys = set(U.parse_state_map())
        bad = rp["state"] not in keys
        print(f"state {rp['state']!r} of {rp['controller']} in state.map: {not bad}")
    if bad:
        print("VIOLATION-REPRODUCED")
    return 1 if bad else 0
