"""C12: per-actor certificates + glue (see lean/Poupool/Properties/C12.lean and checks/actors_common.py)."""
from checks import actors_common as ac

THEOREMS = ['Poupool.C12.standby_guard_meaning', 'Poupool.C12.high_guard_meaning', 'Poupool.C12.tank_guard_meaning', 'Poupool.C12.open_needs_tank', 'Poupool.C12.refused_request_changes_nothing', 'Poupool.C12.cover_sequencing', 'Poupool.C12.pumps_off_while_cover_moves', 'Poupool.C12.cover_stopped_when_phase_left', 'Poupool.C12.opened_only_at_100', 'Poupool.C12.closed_only_at_eco_position', 'Poupool.C12.decade_range', 'Poupool.C07.wash_needs_high_tank', 'Poupool.C06.comfort_to_standby_is_guarded']
MODULE = "Poupool.Properties.C12"


def run(chk):
    ac.run_actor_property(chk, MODULE, THEOREMS, monitor_pids=["C12"], extra=globals().get("extra"))
    ac.dispatch_facts(chk, ['C14_fact_routing', 'C14_fact_modes', 'C14_fact_cover_position', 'C14_fact_speed_standby'])
    refused_request_monitor(chk)


def search(chk):
    from checks import range_search as _rs
    _rs.search(chk, [chk.pid])
    res = ac.exploration(chk)
    for k, f in sorted(res["findings"].items()):
        if f["property"] == "C12":
            chk.violation(f["key"], f["what"], {"kind": "scenario", "scenario": f["scenario"], "step": f["step"]})


def replay(path):
    return ac.replay(path)


_COVER = r"""
import sys, json
sys.path.insert(0, %r)
from sim.system import PoolSystem
s = PoolSystem()
w = s.world
F = w.actor("Filtration")
machine = F._Filtration__machine
class Fut:
    def __init__(self, v): self.v = v
    def get(self, timeout=None): return self.v
class FakeA:
    pos = 0
    def cover_position(self): return Fut(FakeA.pos)
F.get_actor = lambda name: FakeA()
out = []
def one(kind, p, e):
    FakeA.pos = p
    F._Filtration__cover_position_eco = e
    machine.set_state("opening_standby" if kind == "open" else "closing")
    F.actor_inbox.items.clear(); F.do_cancel()
    n0 = len(w.log)
    (F.do_repeat_opening if kind == "open" else F.do_repeat_closing)()
    timers = [x[2] for x in w.log[n0:] if x[1] == "timer_start"]
    pubs = [x[2][1] for x in w.log[n0:] if x[1] == "publish" and x[2][0] == "/status/filtration/state"]
    told = w.inbox_names("Filtration")
    if told:
        act = "done0" if told[0].split("@")[0] in ("closed", "opened") else "?" + str(told)
    elif timers and timers[-1][1] in ("opened", "closed"):
        act = "done2" if timers[-1][2] == 2 else "done?%%s" %% timers[-1][2]
    elif timers:
        act = "poll"
    else:
        act = "NOTHING"
    dec = pubs[-1].split("_")[-1] if pubs else "?"
    return "%%s %%s" %% (act, dec)
for p in range(0, 101):
    out.append(["open", p, 0, one("open", p, 0)])
for p in range(0, 101):
    for e in range(0, 101):
        out.append(["close", p, e, one("close", p, e)])
print("RESULT " + json.dumps(out))
""" % __import__("vlib.common").common.VERIF


def extra(chk, info, res):
    from checks import decisions_common as _dc
    _dc.tie(chk, ['cover', 'guards_tank'])
    from checks import guards_common
    guards_common.correspondence(chk, ['tank_is_low', 'tank_is_high', 'pump_stopped_in_standby'])
    """exhaustive differential test of the cover polls: every position 0..100 (x every eco position 0..100)"""
    import json
    import os
    import subprocess

    from vlib import lean
    from vlib.common import REPO

    p = subprocess.run(["/venv/bin/python", "-c", _COVER], capture_output=True, text=True, timeout=900, env={**os.environ, "POUPOOL_REPO": REPO})
    real = None
    for line in p.stdout.split("\n"):
        if line.startswith("RESULT "):
            real = json.loads(line[7:])
    if real is None:
        chk.obligation("harness: real do_repeat_opening/do_repeat_closing with a stubbed Arduino answer", False, (p.stdout + p.stderr)[-1200:])
        return
    lines = [f"open {p_}" if k == "open" else f"close {p_} {e}" for (k, p_, e, r) in real]
    model = lean.driver("Poupool/Drivers/Cover.lean", lines)
    bad = [(k, p_, e, r, m) for (k, p_, e, r), m in zip(real, model) if r != m]
    chk.correspondence("Filtration.do_repeat_opening / do_repeat_closing (REAL methods, stubbed Arduino answer) vs Model/Cover.lean: EXHAUSTIVE over position 0..100 x eco position 0..100", len(real), len(bad), detail=bad[:5] or None)
    chk.extra["exhaustive"] = True
    for (k, p_, e, r, m) in bad[:3]:
        if k == "open" and r.startswith("done") and p_ != 100:
            chk.violation("opened-before-fully-open", f"do_repeat_opening requests `opened` at reported position {p_} (< 100): the open mode is entered and the pumps start before the cover reported fully open", {"kind": "cover-poll", "poll": "opening", "position": p_})
        elif k == "close" and r.startswith("done") and p_ > e:
            chk.violation("closed-before-eco-position", f"do_repeat_closing requests `closed` at position {p_} > configured eco position {e}", {"kind": "cover-poll", "poll": "closing", "position": p_, "eco": e})
        elif r.startswith("poll") and ((k == "open" and p_ == 100) or (k == "close" and p_ <= e)):
            chk.violation("cover-phase-not-left", f"the cover poll keeps polling although the cover reported the target position ({k}, position {p_}, eco {e})", {"kind": "cover-poll", "poll": k, "position": p_, "eco": e})


_TWIN = r"""
import sys, json
sys.path.insert(0, %r)
from sim.system import bootstrap
bootstrap()
from sim import scenario
cases = json.loads(sys.stdin.read())
out = []
def snap(r):
    s = r.sys
    return {"filtration": s.state("Filtration") if r.world.alive("Filtration") else "DEAD", "outputs": s.outputs(), "tank": s.state("Tank") if r.world.alive("Tank") else "DEAD"}
for (opts, prefix, request, checkpoints) in cases:
    res = []
    for with_request in (True, False):
        r = scenario.Runner(dict(opts), [])
        for a in prefix:
            r.do(a)
        before = snap(r)
        if with_request:
            r.do(request)
        snaps = [snap(r)]
        for d in checkpoints:
            r.do(["run", d])
            snaps.append(snap(r))
        r.world.close()
        res.append({"before": before, "snaps": snaps})
    out.append(res)
print("RESULT " + json.dumps(out))
""" % __import__("vlib.common", fromlist=["VERIF"]).VERIF


def refused_request_monitor(chk):
    """a refused request leaves mode and outputs unchanged: the run WITH the refused request must be indistinguishable from the twin run
    WITHOUT it, immediately and at later instants (a refusal that disturbs the eco schedule shows at the next poll)"""
    import json
    import os
    import subprocess

    from vlib.common import REPO

    OPTS = {"tank_raw": 1000.0, "cover_rate": 25.0, "ph": 7.6, "orp": 550.0, "start": "2024-06-03T10:00:00"}
    ECO_N = [["temp", "pool", 28.0], ["mqtt", "/settings/filtration/duration", "36000"], ["mqtt", "/settings/filtration/period", "3"], ["mqtt", "/settings/mode", "eco"], ["run", 30]]
    ECO_W = [["temp", "pool", 28.0], ["mqtt", "/settings/filtration/duration", "3600"], ["mqtt", "/settings/filtration/period", "3"], ["mqtt", "/settings/mode", "eco"], ["run", 2000]]
    HEAT = [["temp", "pool", 20.0], ["mqtt", "/settings/filtration/duration", "86400"], ["mqtt", "/settings/mode", "eco"], ["run", 1400]]
    LOW = [["tank", 12], ["run", 33]]          # the tank controller is in `low`
    MID = [["tank", 50], ["run", 33]]          # not high
    COMF0 = [["temp", "pool", 28.0], ["mqtt", "/settings/mode", "eco"], ["run", 20], ["mqtt", "/settings/mode", "standby"], ["run", 400], ["mqtt", "/settings/mode", "comfort"], ["run", 30], ["mqtt", "/settings/filtration/speed/standby", "0"], ["run", 3]]
    cases = []
    for name, pre in (("eco_normal", ECO_N), ("eco_waiting", ECO_W), ("heating_running", HEAT)):
        for off in (0, 3, 7):
            for req in ("standby", "overflow"):
                cases.append((f"{req} with a low tank in {name}", OPTS, pre + LOW + [["run", off]], ["mqtt", "/settings/mode", req], [1, 12, 60, 700]))
            if name != "heating_running":
                cases.append((f"wash with a tank that is not high in {name}", OPTS, pre + MID + [["run", off]], ["mqtt", "/settings/mode", "wash"], [1, 12, 60, 700]))
    cases.append(("standby from comfort with stand-by speed 0", OPTS, COMF0, ["mqtt", "/settings/mode", "standby"], [1, 12, 60, 300]))
    p = subprocess.run(["/venv/bin/python", "-c", _TWIN], input=json.dumps([c[1:] for c in cases]), capture_output=True, text=True, timeout=1800, env={**os.environ, "POUPOOL_REPO": REPO})
    real = None
    for line in p.stdout.split("\n"):
        if line.startswith("RESULT "):
            real = json.loads(line[7:])
    if real is None:
        chk.obligation("harness: twin runs (with / without the refused request)", False, (p.stdout + p.stderr)[-800:])
        return
    bad = 0
    for (name, opts, prefix, request, cps), (w, wo) in zip(cases, real):
        for k, (a, b) in enumerate(zip(w["snaps"], wo["snaps"])):
            if a["filtration"] != b["filtration"] or a["outputs"] != b["outputs"]:
                bad += 1
                when = "immediately" if k == 0 else f"{sum(cps[:k])} s later"
                chk.violation(f"refused-request-changes-something:{name.split(' in ')[0].replace(' ', '-')}",
                              f"refused request ({name}; tank {w['before']['tank']}): {when} the controller is in {a['filtration']} with outputs {a['outputs']}, without the request it is in {b['filtration']} with outputs {b['outputs']}",
                              {"kind": "scenario", "scenario": {"opts": opts, "actions": prefix + [request] + [["run", d] for d in cps[:max(k, 1)]]}, "twin": "the same scenario without the request"})
                break
    chk.correspondence("refused requests (open mode with a low tank, backwash without a high tank, comfort->standby at speed 0; in eco_normal / eco_waiting / heating_running at three poll offsets) on the REAL composed system: run with the request vs twin run without it, state and outputs at 0 / 1 / 13 / 73 / 773 s", len(cases), bad)
