"""C12: per-actor certificates + glue (see lean/Poupool/Properties/C12.lean and checks/actors_common.py)."""
from checks import actors_common as ac

THEOREMS = ['Poupool.C12.open_needs_tank', 'Poupool.C12.refused_request_changes_nothing', 'Poupool.C12.cover_sequencing', 'Poupool.C12.pumps_off_while_cover_moves', 'Poupool.C12.cover_stopped_when_phase_left', 'Poupool.C07.wash_needs_high_tank', 'Poupool.C06.comfort_to_standby_is_guarded']
MODULE = "Poupool.Properties.C12"


def run(chk):
    ac.run_actor_property(chk, MODULE, THEOREMS, monitor_pids=["C12"], extra=globals().get("extra"))


def search(chk):
    res = ac.exploration(chk)
    for k, f in sorted(res["findings"].items()):
        if f["property"] == "C12":
            chk.violation(f["key"], f["what"], {"kind": "scenario", "scenario": f["scenario"], "step": f["step"]})


def replay(path):
    return ac.replay(path)
