"""C06: per-actor certificates + glue (see lean/Poupool/Properties/C06.lean and checks/actors_common.py)."""
from checks import actors_common as ac

THEOREMS = ['Poupool.C06.filtration_heat_interlock', 'Poupool.C06.heating_running_exits', 'Poupool.C06.heating_recovering_exits', 'Poupool.C06.heating_start_is_guarded', 'Poupool.C06.comfort_to_standby_is_guarded', 'Poupool.C01.heating_off_unless_heating_or_forcing', 'Poupool.C01.glue_heating_not_forcing', 'Poupool.C01.glue_heating_not_heating']
COMPOSE = ['Poupool.ComposeProps.only_master_starts', 'Poupool.ComposeProps.filtHeat_discipline', 'Poupool.ComposeProps.filtHeat_not_forcing_when_served', 'Poupool.ComposeProps.filtHeatSched_discipline', 'Poupool.ComposeProps.filtHeatSched_not_heating_when_served', 'Poupool.ComposeProps.filtration_knows_not_heating', 'Poupool.ComposeProps.filtHeatSched_composed', 'Poupool.ComposeProps.filtHeatSched_demo']
TIMING = ['Poupool.Timing.filtration_const_end_on_time', 'Poupool.Timing.filtration_const_last', 'Poupool.Timing.filtration_const_exits', 'Poupool.Timing.heating_delay_goes_to_delay_none', 'Poupool.Timing.heating_recovering']
MODULE = "Poupool.Properties.C06"


def run(chk):
    from vlib import lean as _lean
    ac.run_actor_property(chk, MODULE, THEOREMS, monitor_pids=["C06"], extra=globals().get("extra"))
    ac.dispatch_facts(chk, ['C14_fact_routing', 'C14_fact_modes', 'C14_fact_heating_setpoint', 'C14_fact_heating_min_temp', 'C14_fact_heating_start_hour'])
    from checks import altcfg as _alt
    _alt.binding(chk, ['heating'])
    _alt.explore(chk, [chk.pid])
    from checks import main_wiring as _mw
    _mw.run(chk, [chk.pid])
    ac.timing_theorems(chk, TIMING)
    _lean.check_theorems(chk, "Poupool.Properties.Compose", COMPOSE)


def search(chk):
    from checks import range_search as _rs
    _rs.search(chk, [chk.pid])
    res = ac.exploration(chk)
    for k, f in sorted(res["findings"].items()):
        if f["property"] == "C06":
            chk.violation(f["key"], f["what"], {"kind": "scenario", "scenario": f["scenario"], "step": f["step"]})


def replay(path):
    return ac.replay(path)


def extra(chk, info, res):
    from checks import decisions_common as _dc
    _dc.tie(chk, ['guards_heating', 'guards_tank', 'open_polls'])
    from checks import guards_common
    guards_common.correspondence(chk, ['filtration_allow_heating', 'pump_stopped_in_standby'])
    if info is not None:
        from vlib import lean
        lean.check_theorems(chk, "Poupool.Properties.C08", ["Poupool.C08.filtration_timeouts", "Poupool.C08.other_timeouts", "Poupool.C08.filtration_timers"])
    if res is not None:
        ac.check_intervals(chk, res, ['Filtration', 'Heating'])
    """C12's module imports C06 for the comfort guard; nothing more here."""
    return None
