"""C10  Eco mode delivers the configured daily filtration time.

run(chk):
 1. translate/eco_config.py regenerates lean/Poupool/Generated/EcoConfig.lean from the working tree;
 2. the theorems of Poupool.Properties.C10 are built and audited;
 3. correspondence of the Lean `EcoMode` / `Timer` with the REAL classes on generated op sequences (exact, µs);
 4. monitor of the pure part on the REAL `EcoMode.compute` (on >= 0, off >= 0, tank >= 60 s, no assertion);
 5. closed loop: the REAL composed system (sim.system.PoolSystem) runs in eco for whole virtual days with
    generated settings; (i) the Lean closed-loop model is driven with the handler instants of the real run and
    must reproduce every state entry, every persisted payload, every pump switching instant and the pump-on
    time of every reset-to-reset day; (ii) monitor: the property's own statement (180 s) on the real pin trace.
"""
from __future__ import annotations

import json
import random

from vlib import lean as vlean

from . import eco_common as ec

THEOREMS = [
    "Poupool.Eco.C10_compute_phases",
    "Poupool.Eco.C10_compute_periods_pos",
    "Poupool.Eco.C10_period_duration_pos",
    "Poupool.Eco.C10_assert_ok",
    "Poupool.Eco.C10_period_duration_zero_iff",
    "Poupool.Eco.C10_timer_monotone",
    "Poupool.Eco.C10_timer_additive",
    "Poupool.Eco.C10_timer_factor_zero",
    "Poupool.Eco.C10_timer_elapsed_iff",
    "Poupool.Eco.C10_loop_accounting",
    "Poupool.Eco.C10_quota_whole_day_partial",
    "Poupool.Eco.C10_plan_arith",
    "Poupool.Eco.C10_plan_facts",
    "Poupool.Eco.C10_periods_le",
    "Poupool.Eco.C10_slack_180",
]

ASSUMPTIONS = [
    "time is Int microseconds; float factors / tank percentage are the exact rationals float.as_integer_ratio() (what CPython's timedelta arithmetic uses): the EcoMode/Timer correspondence is exact for every float, no restriction to dyadic inputs",
    "int(timedelta / timedelta) is modelled as the integer floor quotient (exact for |operands| < 2^50 µs); exercised by the correspondence incl. 1 µs period durations",
    "closed-loop theorems: usable tank (never low/halt/fill), no backwash, no setting change during the day, every timer handled at most eps after it is due, at most the heating interludes given as events",
    "the closed-loop correspondence compares pump switching instants up to 1 s: the simulator's clock moves inside a handler (asks drain other inboxes, 0.5 s sleeps of the ADC read), the model attributes a handler's effects to its start; state entries and persisted payloads are compared exactly",
    "a day of the property = between two nominal resets (reset_hour:00:00); a day of the model = between two reset polls (<= one poll + eps later)",
]


def gen_scenarios(chk, n):
    rng = random.Random(chk.seed * 104729 + 3)
    scs = []
    kinds = ["plain", "p10", "short", "long", "late", "heat", "elapsed", "heat", "p10", "plain"]
    for i in range(n):
        sc = ec.gen_loop_scenario(rng, kind=kinds[i % len(kinds)])
        # run until 2 minutes after the reset that ends the first (thorough: sometimes second) whole day
        import datetime as dt

        start = dt.datetime.fromisoformat(sc["start"])
        if chk.tier == "quick" or rng.random() < 0.7:
            # start 1..90 minutes before a reset: one whole day costs ~1.05 virtual days
            reset = start.replace(hour=sc["reset_hour"], minute=0, second=0, microsecond=0)
            start = reset - dt.timedelta(seconds=rng.randrange(30, 5400))
            sc["start"] = start.isoformat()
        first_reset = start.replace(hour=sc["reset_hour"], minute=0, second=0, microsecond=0)
        if first_reset < start:
            first_reset += dt.timedelta(days=1)
        whole = 1 if (chk.tier == "quick" or rng.random() < 0.6) else 2
        sc["days"] = ((first_reset - start).total_seconds() + whole * 86400 + 120) / 86400
        sc["whole_days"] = whole
        scs.append(sc)
    return scs


def closed_loop(chk, n):
    scs = gen_scenarios(chk, n)
    res = ec.pool_map(ec.loop_case, [(sc, ec.EPS_US) for sc in scs])
    outs = ec.run_driver_many([r.get("lines", []) for r in res])
    cases = disagreements = 0
    dist = {"kinds": {}, "states_seen": set(), "whole_days": 0, "ticks": 0, "jmax_us": 0, "pump_dev_us_max": 0, "worst_error_s": 0.0, "errors": 0, "period": {}, "heat_days": 0}
    first_bad = None
    monitor_fail = None
    worst = None
    for r, out in zip(res, outs):
        sc = r["sc"]
        cases += 1
        dist["kinds"][sc["kind"]] = dist["kinds"].get(sc["kind"], 0) + 1
        dist["period"][sc["period"]] = dist["period"].get(sc["period"], 0) + 1
        if "error" in r:
            dist["errors"] += 1
            disagreements += 1
            if first_bad is None:
                first_bad = {"scenario": sc, "error": r["error"]}
            continue
        bad, info = ec.compare_loop_pk(r["pickled"], out, r["first"], ec.EPS_US)
        dist["states_seen"].update(r["states"])
        dist["whole_days"] += sum(1 for f in info["full"] if f == "1")
        dist["ticks"] += info["ticks"]
        dist["jmax_us"] = max(dist["jmax_us"], info["jmax"])
        dist["pump_dev_us_max"] = max(dist["pump_dev_us_max"], info["pump_dev_us"])
        want = min(sc["daily"], 86400)
        for b in info["bounds"]:
            if b["plain"] == 1:
                want_us = min(sc["daily"], 86400) * ec.US
                dist["max_proved_lower_slack_s"] = max(dist.get("max_proved_lower_slack_s", 0), round((want_us - b["lb"]) / ec.US, 3))
                dist["max_proved_upper_slack_s"] = max(dist.get("max_proved_upper_slack_s", 0), round((b["ub"] + b["u"] - sc["daily"] * ec.US) / ec.US, 3))
                dist["max_cycles"] = max(dist.get("max_cycles", 0), b["cyc"])
                dist["max_periods_n"] = max(dist.get("max_periods_n", 0), b["n"])
                dist["plain_whole_days"] = dist.get("plain_whole_days", 0) + 1
        for b in info["bounds"]:
            if b["plain"] == 1:
                err = b["on"] / ec.US - want
                if abs(err) > abs(dist.get("worst_error_plain_day_s", 0.0)):
                    dist["worst_error_plain_day_s"] = round(err, 3)
                    chk.extra["worst_plain_whole_day"] = {"scenario": sc, "pump_on_s": b["on"] / ec.US, "expected_s": want}
        for d, f in zip(info["days"], info["full"]):
            if f == "1":
                err = d / ec.US - want
                if abs(err) > abs(dist["worst_error_s"]):
                    dist["worst_error_s"] = round(err, 3)
                    worst = {"scenario": sc, "pump_on_s": d / ec.US, "expected_s": want}
        if bad:
            disagreements += 1
            if first_bad is None:
                first_bad = {"scenario": sc, "disagreements": bad[:3]}
        if r["monitor"] and monitor_fail is None:
            monitor_fail = {"scenario": sc, "days": r["monitor"]}
        if len(chk.samples) < 6:
            chk.sample({"scenario": {k: sc[k] for k in ("kind", "daily", "period", "tank", "reset_hour", "start")}, "pump_on_per_model_day_s": [round(d / ec.US, 3) for d in info["days"]], "whole": info["full"], "ticks": info["ticks"]})
    dist["states_seen"] = sorted(dist["states_seen"])
    chk.correspondence("closed loop: real PoolSystem in eco vs Lean ecoStep (state entries, persisted payloads, pump instants, pump-on time per day)", cases, disagreements, distribution=dist, detail=first_bad)
    chk.extra["worst_whole_day"] = worst
    return monitor_fail, first_bad


def run(chk):
    chk.assumptions.extend(ASSUMPTIONS)
    ec.regenerate(chk)
    vlean.check_theorems(chk, "Poupool.Properties.C10", THEOREMS)
    quick = chk.tier == "quick"
    # 3. EcoMode / Timer correspondence
    bad, dist, n = ec.eco_correspondence(chk, 400 if quick else 5000, 40)
    chk.correspondence("EcoMode/Timer: real classes vs Lean model, op sequences (exact µs, every field + encoder payloads)", n, len(bad), distribution=dist, detail=bad[:3] if bad else None)
    # 4. pure part on the real code
    cases, fail = ec.compute_monitor(chk.seed, 3000 if quick else 60000)
    chk.extra["compute_monitor_cases"] = cases
    if fail:
        fail["explains"] = ["build:Poupool.Properties.C10"] + THEOREMS
        chk.violation("EcoMode.compute:phase-lengths", "the real EcoMode.compute yields a negative pause / pool phase, a tank phase below one minute, or raises: " + fail["observed"], fail)
    # 4b. literal reading of the statement vs scheduled heating late in the day (known finding, replayed on every run)
    late_heating_finding(chk)
    # 5. closed loop
    mfail, cbad = closed_loop(chk, 112 if quick else 800)
    if mfail:
        d = mfail["days"][0]
        chk.violation(
            "Filtration.eco-cycle:daily-quota",
            f"whole eco day on the real system: pump ran {d['pump_on_us'] / ec.US:.1f} s, configured {d['expected_us'] / ec.US:.0f} s (error {d['error_s']:.1f} s > 180 s)",
            {"kind": "loop", "scenario": mfail["scenario"], "days": mfail["days"], "explains": ["build:Poupool.Properties.C10"] + THEOREMS},
        )
    chk.extra["distinct_nontrivial"] = len(THEOREMS)
    chk.extra["rule"] = "15 Lean theorems over Model/Eco.lean + EcoConfig regenerated from the source; EcoMode correspondence op-exact; closed-loop correspondence on whole virtual days of the real composed system; monitors decide the property's statement on the real code"


LATE_HEATING = {"kind": "heat", "start": "2024-06-02T22:50:16", "daily": 25200, "period": 8, "tank": 0.0, "reset_hour": 0,
                "heat": {"start_hour": 21, "setpoint": 26.0, "pool": 24.5, "minutes": 145}, "days": (4184 + 86400 + 120) / 86400, "whole_days": 1}


def late_heating_finding(chk):
    """The statement read literally ('runs for the configured daily duration to within 3 minutes') is violated when the
    scheduled heating runs after the quota is used up: the heat pump needs the circulation pump.  The closed-loop monitor
    therefore bounds the pump time by max(quota, pump time at the end of the day's last heating interlude) + 180 s; the
    literal violation is exhibited here on the real code and recorded as an open known finding."""
    old = ec.STRICT_HEAT_UPPER
    ec.STRICT_HEAT_UPPER = True
    try:
        r = ec.loop_case((dict(LATE_HEATING), ec.EPS_US))
    finally:
        ec.STRICT_HEAT_UPPER = old
    if r.get("monitor"):
        d = r["monitor"][0]
        chk.violation("Filtration.eco-cycle:quota-exceeded-by-late-heating",
                      f"scheduled heating at 21:00 for 145 min after the quota was used up: pump ran {d['pump_on_us'] / ec.US:.0f} s on a day configured for {d['expected_us'] / ec.US:.0f} s",
                      {"kind": "loop", "scenario": LATE_HEATING, "days": r["monitor"]})


def search(chk):
    """the machinery broke (translator could not read the tree): the monitors do not need it"""
    cases, fail = ec.compute_monitor(chk.seed, 3000)
    if fail:
        chk.violation("EcoMode.compute:phase-lengths", "real EcoMode.compute: " + fail["observed"], fail)
    scs = gen_scenarios(chk, 16)
    res = ec.pool_map(ec.loop_case, [(sc, ec.EPS_US) for sc in scs])
    for r in res:
        if r.get("monitor"):
            d = r["monitor"][0]
            chk.violation("Filtration.eco-cycle:daily-quota", f"pump ran {d['pump_on_us'] / ec.US:.1f} s, configured {d['expected_us'] / ec.US:.0f} s", {"kind": "loop", "scenario": r["sc"], "days": r["monitor"]})
            break


def replay(path):
    with open(path) as fh:
        data = json.load(fh)
    rp = data.get("replay", data)
    if rp.get("kind") == "compute":
        return ec.replay_compute(rp)
    if rp.get("kind") == "loop":
        sc = rp["scenario"]
        s, _ = ec.run_real(sc)
        fails = ec.monitor_days(sc, s)
        print(json.dumps({"scenario": sc, "failing_days": fails, "dead": s.world.dead}, indent=1, default=str))
        return 1 if fails else 0
    print("nothing to replay in", path)
    return 2
