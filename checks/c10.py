"""C10  Eco mode delivers the configured daily filtration time.

run(chk):
 1. translate/eco_config.py regenerates lean/Poupool/Generated/EcoConfig.lean from the working tree;
 2. the theorems of Poupool.Properties.C10 are built and audited;
 3. correspondence of the Lean `EcoMode` / `Timer` with the REAL classes on generated op sequences (exact, µs);
 4. monitor of the pure part on the REAL `EcoMode.compute` (on >= 0, off >= 0, tank >= 60 s, no assertion);
 5. closed loop: the REAL composed system (sim.system.PoolSystem) runs in eco for whole virtual days with
    generated settings; (i) the Lean closed-loop model is driven with the handler instants of the real run and
    must reproduce every state entry, every persisted payload, every pump switching instant and the pump-on
    time of every reset-to-reset day; (ii) monitor: the property's own statement (180 s) on the real pin trace.
"""
from __future__ import annotations

import json
import random

from vlib import lean as vlean

from . import eco_common as ec

THEOREMS = [
    "Poupool.Eco.C10_compute_phases",
    "Poupool.Eco.C10_compute_periods_pos",
    "Poupool.Eco.C10_period_duration_pos",
    "Poupool.Eco.C10_assert_ok",
    "Poupool.Eco.C10_period_duration_zero_iff",
    "Poupool.Eco.C10_timer_monotone",
    "Poupool.Eco.C10_timer_additive",
    "Poupool.Eco.C10_timer_factor_zero",
    "Poupool.Eco.C10_timer_elapsed_iff",
    "Poupool.Eco.C10_loop_accounting",
    "Poupool.Eco.C10_quota_whole_day_partial",
    "Poupool.Eco.C10_plan_arith",
    "Poupool.Eco.C10_plan_facts",
    "Poupool.Eco.C10_periods_le",
    "Poupool.Eco.C10_slack_180",
    # closed forms of the ghost allowances, the unconditional day theorem over all the days of a run (Proofs/EcoDayInv.lean)
    "Poupool.Eco.C10_quota_whole_day",
    "Poupool.Eco.C10_slack_closed_form",
    "Poupool.Eco.C10_ghosts_closed_form",
    # heating interludes (Proofs/EcoDayHeat.lean): heating polls count and have no quota cut-off; model witness of the
    # open known finding Filtration.eco-cycle:quota-exceeded-by-late-heating
    "Poupool.Eco.C10_heating_poll_counts",
    "Poupool.Eco.C10_heating_polls_no_cutoff",
    "Poupool.Eco.C10_heating_entry_exit",
    "Poupool.Eco.C10_quota_literal_upper_late_heating_counterexample",
    # whole days WITH one complete heating interlude (Proofs/EcoDayHeat2.lean): interlude accounting (pump-on time grows by
    # exactly the interlude, the accounted duration by that minus at most heatLoss = 70 s + 3 eps) and the two-sided day
    # bound for an interlude that is over before the quota is exceeded by more than a poll
    "Poupool.Eco.C10_heating_interlude_accounting",
    "Poupool.Eco.C10_quota_heating_day_partial",
    # both regimes (no hypothesis on the accounted duration at the end of the interlude), the bound in the monitor's form,
    # and the late regime of the open finding: the pump stops after the compute delay
    "Poupool.Eco.C10_quota_heating_day_monitor_partial",
    # any number of heating days in a run, at most one complete interlude per day (Proofs/EcoDayHeat3.lean: the invariants are
    # re-established at every reset, the finished days never influence the behaviour): every whole day in the monitor's form
    "Poupool.Eco.C10_quota_heating_days_partial",
    # any number of complete interludes per day: bounds in terms of the pump-on time left unaccounted by the interludes (U)
    "Poupool.Eco.C10_quota_heating_days_multi_partial",
    # model witnesses: with three interludes in one day the pump-on time exceeds max(quota, on-time at the end of the last
    # interlude) + 180 s (open known finding quota-exceeded-by-repeated-heating-interludes, replayed on the real code below);
    # a day that starts during an interlude is not classified as a heating day by the model's ghost (interludes across the
    # reset are outside the theorems)
    "Poupool.Eco.C10_quota_monitor_upper_three_interludes_counterexample",
    "Poupool.Eco.C10_interlude_spanning_reset_plain_flag_counterexample",
]


def slack_lo_us(period, eps_us):
    """Poupool.Eco.slackLo (Proofs/EcoDayInv.lean): 15 s + period * (10 s + 1 µs) + (7 * period + 12) * eps"""
    return 15_000_000 + period * 10_000_001 + 7 * period * eps_us + 12 * eps_us


def slack_hi_us(period, eps_us):
    """Poupool.Eco.slackHi: 15 s + (4 * period + 9) * eps"""
    return 15_000_000 + 4 * period * eps_us + 9 * eps_us

ASSUMPTIONS = [
    "time is Int microseconds; float factors / tank percentage are the exact rationals float.as_integer_ratio() (what CPython's timedelta arithmetic uses): the EcoMode/Timer correspondence is exact for every float, no restriction to dyadic inputs",
    "int(timedelta / timedelta) is modelled as the integer floor quotient (exact for |operands| < 2^50 µs); exercised by the correspondence incl. 1 µs period durations",
    "closed-loop theorems: usable tank (never low/halt/fill), no backwash, no setting change during the day, every timer handled at most eps after it is due, at most the heating interludes given as events",
    "the closed-loop correspondence compares pump switching instants up to 1 s: the simulator's clock moves inside a handler (asks drain other inboxes, 0.5 s sleeps of the ADC read), the model attributes a handler's effects to its start; state entries and persisted payloads are compared exactly",
    "a day of the property = between two nominal resets (reset_hour:00:00); a day of the model = between two reset polls (<= one poll + eps later)",
    "C10_quota_whole_day: tick-only runs (no heating interlude, no setting change), eps <= 0.6 s (EPS_US, checked on every real run), the pool does not enter eco at the exact microsecond of a reset (hypothesis hs), restored elapsed duration >= 0; every other setting is universally quantified (daily >= 1 s, period 1..10, any tank percentage / reset hour / start)",
    "heating interludes: proved are the accounting of heating polls (factor 1, pump on, no quota cut-off), the model witness of the literal-reading violation, the accounting of a complete interlude (pump-on time + exactly the interlude, accounted duration + the interlude - at most 70 s + 3 eps) and, for the FIRST day of a run that contains an interlude, with ONE complete interlude that is over before the reset, the day bound in the monitor's form: min(daily, 24 h) - slackLoHeat <= on <= max(min(daily, 24 h), on when the interlude's delay expired) + slackHiHeat (slackHiHeat <= 173.2 s; slackLoHeat < 180 s only for period <= 5, slackPlan < 180 s when the quota is still reachable after the interlude), incl. the late regime (quota used up: the pump stops after the compute delay, on <= on at the expiry + 5 s + eps); several interludes per day, later heating days of a run, an interlude that spans the reset and the lower slack for period >= 6 are decided by the monitor on the real traces only",
]


def gen_scenarios(chk, n):
    rng = random.Random(chk.seed * 104729 + 3)
    scs = []
    kinds = ["plain", "p10", "short", "long", "late", "heat", "elapsed", "heat", "p10", "plain"]
    for i in range(n):
        sc = ec.gen_loop_scenario(rng, kind=kinds[i % len(kinds)])
        # run until 2 minutes after the reset that ends the first (thorough: sometimes second) whole day
        import datetime as dt

        start = dt.datetime.fromisoformat(sc["start"])
        if chk.tier == "quick" or rng.random() < 0.7:
            # start 1..90 minutes before a reset: one whole day costs ~1.05 virtual days
            reset = start.replace(hour=sc["reset_hour"], minute=0, second=0, microsecond=0)
            start = reset - dt.timedelta(seconds=rng.randrange(30, 5400))
            sc["start"] = start.isoformat()
        first_reset = start.replace(hour=sc["reset_hour"], minute=0, second=0, microsecond=0)
        if first_reset < start:
            first_reset += dt.timedelta(days=1)
        whole = 1 if (chk.tier == "quick" or rng.random() < 0.6) else 2
        sc["days"] = ((first_reset - start).total_seconds() + whole * 86400 + 120) / 86400
        sc["whole_days"] = whole
        scs.append(sc)
    return scs


def closed_loop(chk, n):
    scs = gen_scenarios(chk, n)
    res = ec.pool_map(ec.loop_case, [(sc, ec.EPS_US) for sc in scs])
    outs = ec.run_driver_many([r.get("lines", []) for r in res])
    cases = disagreements = 0
    dist = {"kinds": {}, "states_seen": set(), "whole_days": 0, "ticks": 0, "jmax_us": 0, "pump_dev_us_max": 0, "worst_error_s": 0.0, "errors": 0, "period": {}, "heat_days": 0}
    first_bad = None
    monitor_fail = None
    worst = None
    for r, out in zip(res, outs):
        sc = r["sc"]
        cases += 1
        dist["kinds"][sc["kind"]] = dist["kinds"].get(sc["kind"], 0) + 1
        dist["period"][sc["period"]] = dist["period"].get(sc["period"], 0) + 1
        if "error" in r:
            dist["errors"] += 1
            disagreements += 1
            if first_bad is None:
                first_bad = {"scenario": sc, "error": r["error"]}
            continue
        bad, info = ec.compare_loop_pk(r["pickled"], out, r["first"], ec.EPS_US)
        dist["states_seen"].update(r["states"])
        dist["whole_days"] += sum(1 for f in info["full"] if f == "1")
        dist["ticks"] += info["ticks"]
        dist["jmax_us"] = max(dist["jmax_us"], info["jmax"])
        dist["pump_dev_us_max"] = max(dist["pump_dev_us_max"], info["pump_dev_us"])
        want = min(sc["daily"], 86400)
        for b in info["bounds"]:
            if b["plain"] == 1:
                want_us = min(sc["daily"], 86400) * ec.US
                dist["max_proved_lower_slack_s"] = max(dist.get("max_proved_lower_slack_s", 0), round((want_us - b["lb"]) / ec.US, 3))
                dist["max_proved_upper_slack_s"] = max(dist.get("max_proved_upper_slack_s", 0), round((b["ub"] + b["u"] - sc["daily"] * ec.US) / ec.US, 3))
                dist["max_cycles"] = max(dist.get("max_cycles", 0), b["cyc"])
                dist["max_periods_n"] = max(dist.get("max_periods_n", 0), b["n"])
                dist["plain_whole_days"] = dist.get("plain_whole_days", 0) + 1
                # the closed forms of C10_ghosts_closed_form / C10_quota_whole_day instantiated on this real day
                eps = ec.EPS_US
                lo = want_us - slack_lo_us(sc["period"], eps)
                hi = want_us + slack_hi_us(sc["period"], eps)
                tol = ec.PUMP_TOL_US * (2 + info.get("switches", 0))
                okc = (1 <= b["n"] <= sc["period"] and b["cyc"] <= b["n"] + 1
                       and b["j"] <= 5_000_000 + (6 * sc["period"] + 9) * eps and b["u"] <= 5_000_000 + (4 * sc["period"] + 8) * eps
                       and lo - tol <= b["on"] <= hi + tol)
                dist["closed_form_days_checked"] = dist.get("closed_form_days_checked", 0) + 1
                dist["max_slackLo_used_s"] = max(dist.get("max_slackLo_used_s", 0.0), round((want_us - b["on"]) / ec.US, 3))
                dist["max_slackHi_used_s"] = max(dist.get("max_slackHi_used_s", 0.0), round((b["on"] - want_us) / ec.US, 3))
                if not okc:
                    bad.append({"what": "real whole plain day outside the closed-form bounds of C10_quota_whole_day / C10_ghosts_closed_form",
                                "day": b, "slackLo_us": slack_lo_us(sc["period"], eps), "slackHi_us": slack_hi_us(sc["period"], eps)})
        for b in info["bounds"]:
            if b["plain"] == 1:
                err = b["on"] / ec.US - want
                if abs(err) > abs(dist.get("worst_error_plain_day_s", 0.0)):
                    dist["worst_error_plain_day_s"] = round(err, 3)
                    chk.extra["worst_plain_whole_day"] = {"scenario": sc, "pump_on_s": b["on"] / ec.US, "expected_s": want}
        for d, f in zip(info["days"], info["full"]):
            if f == "1":
                err = d / ec.US - want
                if abs(err) > abs(dist["worst_error_s"]):
                    dist["worst_error_s"] = round(err, 3)
                    worst = {"scenario": sc, "pump_on_s": d / ec.US, "expected_s": want}
        if bad:
            disagreements += 1
            if first_bad is None:
                first_bad = {"scenario": sc, "disagreements": bad[:3]}
        if r["monitor"] and monitor_fail is None:
            monitor_fail = {"scenario": sc, "days": r["monitor"]}
        if len(chk.samples) < 6:
            chk.sample({"scenario": {k: sc[k] for k in ("kind", "daily", "period", "tank", "reset_hour", "start")}, "pump_on_per_model_day_s": [round(d / ec.US, 3) for d in info["days"]], "whole": info["full"], "ticks": info["ticks"]})
    dist["states_seen"] = sorted(dist["states_seen"])
    chk.correspondence("closed loop: real PoolSystem in eco vs Lean ecoStep (state entries, persisted payloads, pump instants, pump-on time per day)", cases, disagreements, distribution=dist, detail=first_bad)
    chk.extra["worst_whole_day"] = worst
    return monitor_fail, first_bad


def run(chk):
    chk.assumptions.extend(ASSUMPTIONS)
    ec.regenerate(chk)
    vlean.check_theorems(chk, "Poupool.Properties.C10", THEOREMS)
    # the decisions of the three eco polls as the loop model takes them = the polls regenerated from the tree
    from checks import decisions_common as _dc
    _dc.tie(chk, ["eco_polls"])
    quick = chk.tier == "quick"
    # 3. EcoMode / Timer correspondence
    bad, dist, n = ec.eco_correspondence(chk, 400 if quick else 5000, 40)
    chk.correspondence("EcoMode/Timer: real classes vs Lean model, op sequences (exact µs, every field + encoder payloads)", n, len(bad), distribution=dist, detail=bad[:3] if bad else None)
    # 4. pure part on the real code
    cases, fail = ec.compute_monitor(chk.seed, 3000 if quick else 60000)
    chk.extra["compute_monitor_cases"] = cases
    if fail:
        fail["explains"] = ["build:Poupool.Properties.C10"] + THEOREMS
        chk.violation("EcoMode.compute:phase-lengths", "the real EcoMode.compute yields a negative pause / pool phase, a tank phase below one minute, or raises: " + fail["observed"], fail)
    # 4b. literal reading of the statement vs scheduled heating late in the day (known finding, replayed on every run)
    late_heating_finding(chk)
    # 4c. several heating interludes in one day (known finding from three interludes on, replayed on every run; two must hold)
    repeated_interludes_finding(chk)
    # 5. closed loop
    mfail, cbad = closed_loop(chk, 112 if quick else 800)
    if mfail:
        d = mfail["days"][0]
        chk.violation(
            "Filtration.eco-cycle:daily-quota",
            f"whole eco day on the real system: pump ran {d['pump_on_us'] / ec.US:.1f} s, configured {d['expected_us'] / ec.US:.0f} s (error {d['error_s']:.1f} s > 180 s)",
            {"kind": "loop", "scenario": mfail["scenario"], "days": mfail["days"], "explains": ["build:Poupool.Properties.C10"] + THEOREMS},
        )
    chk.extra["distinct_nontrivial"] = len(THEOREMS)
    chk.extra["slack_closed_form"] = {
        "slackLo_us(period, eps)": "15 s + period * (10 s + 1 us) + (7 * period + 12) * eps",
        "slackHi_us(period, eps)": "15 s + (4 * period + 9) * eps",
        "slackLo(10, 0.5 s)": slack_lo_us(10, 500_000) / ec.US, "slackLo(10, 0.6 s)": slack_lo_us(10, 600_000) / ec.US,
        "slackHi(10, 0.6 s)": slack_hi_us(10, 600_000) / ec.US,
        "heating_day (one complete interlude, C10_quota_heating_day_partial)": {
            "heatLoss_us(eps)": "70 s + 3 * eps (<= 71.8 s)",
            "slackPlan_us(period, eps)": "5 s + period * (10 s + 1 us) + (7 * period + 9) * eps (<= 152.40001 s)",
            "slackLoHeat_us(period, eps)": "10 s + 3 * eps + 2 * slackPlan (117.800006 s at period 3, 174.60001 s at period 5, 316.60002 s at period 10; eps 0.6 s)",
            "slackHiHeat_us(period, eps)": "100 s + (10 * period + 22) * eps (<= 173.2 s)",
        },
        "model_runs": "Lean #eval, 2 whole days, daily 85800 s, period 10, every tick 0.499999 s late: pump-on 85769.013 s / 85758.513 s (n = 10, 9 cycles, j = 35.5 s, u = 26.5 s)",
        "real_code_search": "targeted search (period 10, pauses of 1..60 s, 48 days; heating at/near the reset hour, 16 days) on the real system: worst plain whole day -97.0 s (daily 86288 s), worst heating day +67.5 s; no day beyond 180 s",
    }
    chk.extra["rule"] = "25 Lean theorems over Model/Eco.lean + EcoConfig regenerated from the source; EcoMode correspondence op-exact; closed-loop correspondence on whole virtual days of the real composed system; monitors decide the property's statement on the real code"


LATE_HEATING = {"kind": "heat", "start": "2024-06-02T22:50:16", "daily": 25200, "period": 8, "tank": 0.0, "reset_hour": 0,
                "heat": {"start_hour": 21, "setpoint": 26.0, "pool": 24.5, "minutes": 145}, "days": (4184 + 86400 + 120) / 86400, "whole_days": 1}


def late_heating_finding(chk):
    """The statement read literally ('runs for the configured daily duration to within 3 minutes') is violated when the
    scheduled heating runs after the quota is used up: the heat pump needs the circulation pump.  The closed-loop monitor
    therefore bounds the pump time by max(quota, pump time at the end of the day's last heating interlude) + 180 s; the
    literal violation is exhibited here on the real code and recorded as an open known finding."""
    old = ec.STRICT_HEAT_UPPER
    ec.STRICT_HEAT_UPPER = True
    try:
        r = ec.loop_case((dict(LATE_HEATING), ec.EPS_US))
    finally:
        ec.STRICT_HEAT_UPPER = old
    if r.get("monitor"):
        d = r["monitor"][0]
        chk.violation("Filtration.eco-cycle:quota-exceeded-by-late-heating",
                      f"scheduled heating at 21:00 for 145 min after the quota was used up: pump ran {d['pump_on_us'] / ec.US:.0f} s on a day configured for {d['expected_us'] / ec.US:.0f} s",
                      {"kind": "loop", "scenario": LATE_HEATING, "days": r["monitor"]})


MULTI = {"kind": "heat", "start": "2024-06-02T23:59:30", "daily": 600, "period": 1, "tank": 0.0, "reset_hour": 0,
         "heat": {"start_hour": 0, "setpoint": 26.0, "pool": 24.5, "minutes": 0.3}, "days": 1.01, "whole_days": 1}


class MultiEnv:
    """k heating interludes in one day: each ends `run_s` after the heat-pump valve opened (the pool reaches setpoint + 1);
    once the heat pump has rested, the pool is back below the setpoint and the user re-sends the setpoint, which re-arms the
    daily run (the 'restart' hack of Heating.setpoint)"""

    def __init__(self, s, h, k, run_s=20, gap_s=400):
        self.s, self.h, self.k, self.run, self.gap = s, h, k, run_s, gap_s
        self.since = None
        self.off_at = None
        self.n = 0

    def step(self):
        on = self.s.pin_on("heating")
        now = self.s.world.now_us
        if on and self.since is None:
            self.since = now
            self.n += 1
        if on and now - self.since >= self.run * ec.US:
            self.s.set_temp("temperature_pool", self.h["setpoint"] + 1.0)
        if not on and self.since is not None:
            self.since = None
            self.off_at = now
        if not on and self.off_at is not None and self.n < self.k and now - self.off_at >= self.gap * ec.US:
            self.off_at = None
            self.s.set_temp("temperature_pool", self.h["pool"])
            self.s.mqtt_in("/settings/heating/setpoint", str(self.h["setpoint"]))


def run_multi(k):
    sc = dict(MULTI)
    s = ec.new_system(sc)
    for t, p in ec.settings_of(sc):
        s.mqtt_in(t, p)
    s.mqtt_in("/status/filtration/duration", "0")
    s.mqtt_in("/settings/mode", "eco")
    env = MultiEnv(s, sc["heat"], k)
    ec.run_real(sc, s=s, env=env, chunk_s=5.0)
    fails = ec.monitor_days(sc, s)
    s.world.close() if hasattr(s.world, "close") else None
    return fails, env.n


def repeated_interludes_finding(chk):
    """Found by the proof: the day theorem with several interludes (`C10_quota_heating_days_multi_partial`) only closes with the
    pump-on time U that the interludes leave unaccounted (the 60 s post-run circulation and the 5 s compute delay of each), and
    `C10_quota_monitor_upper_three_interludes_counterexample` is a model run in which three interludes push the day's pump-on
    time beyond max(quota, on-time at the end of the last interlude) + 180 s.  Replayed here on the real composed system: the
    user re-sends the heating setpoint twice in one day (each re-arms the scheduled run).  Two interludes must stay inside the
    3 minutes; from three on the excess is the open known finding."""
    for k in (2, 3):
        fails, n = run_multi(k)
        if n != k:
            chk.note(f"repeated-interludes replay: {n} interludes took place instead of {k}")
            continue
        if not fails:
            continue
        d = fails[0]
        rp = {"kind": "multi", "interludes": k, "scenario": MULTI, "days": fails}
        if k >= 3:
            chk.violation("Filtration.eco-cycle:quota-exceeded-by-repeated-heating-interludes",
                          f"{k} scheduled-heating interludes in one day (setpoint re-sent {k - 1} times): pump ran {d['pump_on_us'] / ec.US:.0f} s on a day configured for {d['expected_us'] / ec.US:.0f} s, quota not used up when the last interlude ended", rp)
        else:
            chk.violation("Filtration.eco-cycle:daily-quota", f"{k} heating interludes in one day: pump ran {d['pump_on_us'] / ec.US:.1f} s, configured {d['expected_us'] / ec.US:.0f} s (beyond 180 s)", rp)


def search(chk):
    """the machinery broke (translator could not read the tree): the monitors do not need it"""
    cases, fail = ec.compute_monitor(chk.seed, 3000)
    if fail:
        chk.violation("EcoMode.compute:phase-lengths", "real EcoMode.compute: " + fail["observed"], fail)
    scs = gen_scenarios(chk, 16)
    res = ec.pool_map(ec.loop_case, [(sc, ec.EPS_US) for sc in scs])
    for r in res:
        if r.get("monitor"):
            d = r["monitor"][0]
            chk.violation("Filtration.eco-cycle:daily-quota", f"pump ran {d['pump_on_us'] / ec.US:.1f} s, configured {d['expected_us'] / ec.US:.0f} s", {"kind": "loop", "scenario": r["sc"], "days": r["monitor"]})
            break


def replay(path):
    with open(path) as fh:
        data = json.load(fh)
    rp = data.get("replay", data)
    if rp.get("kind") == "compute":
        return ec.replay_compute(rp)
    if rp.get("kind") == "multi":
        fails, n = run_multi(rp["interludes"])
        print(json.dumps({"interludes": n, "failing_days": fails}, indent=1, default=str))
        return 1 if fails else 0
    if rp.get("kind") == "loop":
        sc = rp["scenario"]
        s, _ = ec.run_real(sc)
        fails = ec.monitor_days(sc, s)
        print(json.dumps({"scenario": sc, "failing_days": fails, "dead": s.world.dead}, indent=1, default=str))
        return 1 if fails else 0
    print("nothing to replay in", path)
    return 2
