"""C07: per-actor certificates + glue (see lean/Poupool/Properties/C07.lean and checks/actors_common.py)."""
from checks import actors_common as ac

THEOREMS = ['Poupool.C07.auto_backwash_only_when_due', 'Poupool.C07.drain_backwash_only_in_wash', 'Poupool.C07.wash_needs_high_tank', 'Poupool.C07.wash_cycle_rows', 'Poupool.C07.rinse_exit_publishes']
TIMING = ['Poupool.Timing.filtration_setting_end_on_time']
MODULE = "Poupool.Properties.C07"


def run(chk):
    ac.run_actor_property(chk, MODULE, THEOREMS, monitor_pids=["C07"], extra=globals().get("extra"))
    ac.dispatch_facts(chk, ['C14_fact_routing', 'C14_fact_backwash_period', 'C14_fact_backwash_duration', 'C14_fact_rinse_duration'])
    ac.timing_theorems(chk, TIMING)


def search(chk):
    from checks import range_search as _rs
    _rs.search(chk, [chk.pid])
    res = ac.exploration(chk)
    for k, f in sorted(res["findings"].items()):
        if f["property"] == "C07":
            chk.violation(f["key"], f["what"], {"kind": "scenario", "scenario": f["scenario"], "step": f["step"]})


def replay(path):
    return ac.replay(path)


def extra(chk, info, res):
    from checks import decisions_common as _dc
    _dc.tie(chk, ['backwash', 'eco_polls'])
    from checks import guards_common
    guards_common.correspondence(chk, ['tank_is_high', 'start_backwash'])
    if info is not None:
        from vlib import lean
        lean.check_theorems(chk, "Poupool.Properties.C08", ["Poupool.C08.filtration_timeouts", "Poupool.C08.other_timeouts", "Poupool.C08.filtration_timers"])
    if res is not None:
        ac.check_intervals(chk, res, ['Filtration'])
