"""Side conditions of the responsiveness theorems (C09, and through `actors_common.responsiveness` the polling-based
properties): a handler can only wait in a `Future.get()` — which the ask graph covers — if the code it calls returns.
 * static: no lock / condition / semaphore / event / queue / thread join anywhere in controller/*.py; every `while` loop of
   the device layer is either bounded by a counter or one of the pinned loops that end when the serial peer answers;
 * dynamic (the failing-input search when a static obligation breaks, and a sanity run on every tree): the REAL serial
   device classes are driven through their own constructors over a scripted port with a fault (exception) injected at
   every position of an exchange; a call that has not returned after the watchdog time is a concrete violation
   ("a controller blocked for ever inside a device call: its requests are never processed, shutdown never terminates")."""
from __future__ import annotations

import ast
import json
import os
import subprocess
import sys

VERIF = os.path.dirname(os.path.dirname(os.path.abspath(__file__)))
sys.path.insert(0, VERIF)
from vlib.common import REPO  # noqa: E402

PRIMS = {"Lock", "RLock", "Condition", "Semaphore", "BoundedSemaphore", "Event", "Barrier", "Thread"}
# loops of the device layer that end because the serial read has a timeout and the peer's reply ends with a marker line
PINNED_LOOPS = {
    ("EZOSensorDevice", "__send", "not read.startswith('*')"),
    ("ArduinoDevice", "__send", "read.strip() != ''"),
    ("ArduinoDevice", "__send_debug", "read.strip() != ''"),
}


def _files():
    d = os.path.join(REPO, "controller")
    fs = [os.path.join(d, f) for f in sorted(os.listdir(d)) if f.endswith(".py")]
    return fs + [os.path.join(REPO, "poupool.py")]


def scan():
    prims, loops = [], []
    for path in _files():
        rel = os.path.relpath(path, REPO)
        tree = ast.parse(open(path).read())
        from_threading = set()
        for n in ast.walk(tree):
            if isinstance(n, ast.ImportFrom) and n.module in ("threading", "queue", "multiprocessing"):
                from_threading |= {a.asname or a.name for a in n.names}
        for n in ast.walk(tree):
            if isinstance(n, ast.Call):
                f = ast.unparse(n.func)
                last = f.split(".")[-1]
                if (f.startswith(("threading.", "queue.", "multiprocessing.")) and last in PRIMS | {"Queue", "SimpleQueue", "LifoQueue"}) or (f in from_threading and f in PRIMS | {"Queue", "SimpleQueue"}):
                    prims.append(f"{rel}:{n.lineno}: {f}(...)")
                elif isinstance(n.func, ast.Attribute) and n.func.attr in ("acquire", "wait", "wait_for") and not f.startswith(("self._proxy", "pykka")):
                    prims.append(f"{rel}:{n.lineno}: {f}(...)")
            elif isinstance(n, ast.With):
                for it in n.items:
                    s = ast.unparse(it.context_expr)
                    if "lock" in s.lower() or "mutex" in s.lower() or "cond" in s.lower():
                        prims.append(f"{rel}:{n.lineno}: with {s}")
        if rel == "poupool.py":
            continue
        for c in tree.body:
            if not isinstance(c, ast.ClassDef):
                continue
            for fn in c.body:
                if not isinstance(fn, ast.FunctionDef):
                    continue
                for n in ast.walk(fn):
                    if isinstance(n, ast.While):
                        test = ast.unparse(n.test)
                        name = fn.name
                        bounded = False
                        # `... and counter < N` with `counter += 1` in the body
                        for cmp_ in ast.walk(n.test):
                            if isinstance(cmp_, ast.Compare) and isinstance(cmp_.left, ast.Name) and len(cmp_.ops) == 1 and isinstance(cmp_.ops[0], (ast.Lt, ast.LtE)) and isinstance(cmp_.comparators[0], ast.Constant):
                                var = cmp_.left.id
                                conj = isinstance(n.test, ast.Compare) or (isinstance(n.test, ast.BoolOp) and isinstance(n.test.op, ast.And) and cmp_ in n.test.values)
                                inc = any(isinstance(b, ast.AugAssign) and isinstance(b.target, ast.Name) and b.target.id == var and isinstance(b.op, ast.Add) for b in n.body)
                                if conj and inc:
                                    bounded = True
                        loops.append({"file": rel, "class": c.name, "method": name, "test": test, "line": n.lineno, "bounded": bounded,
                                      "pinned": (c.name, name, test) in PINNED_LOOPS})
    return prims, loops


def obligations(chk):
    prims, loops = scan()
    chk.obligation("B1: no lock / condition / semaphore / event / queue / thread in controller/*.py and poupool.py (a handler can only wait in a Future.get(), which the ask graph covers)", not prims, "; ".join(prims)[:600])
    bad = [l for l in loops if not l["bounded"] and not l["pinned"]]
    chk.obligation("B2: every `while` loop in a class of controller/*.py is bounded by a counter or is one of the pinned serial-read loops (they end when the peer's reply ends; assumption: the serial peer answers)", not bad, json.dumps(bad)[:600])
    chk.extra["device_loops"] = [f"{l['class']}.{l['method']}: while {l['test']} ({'bounded' if l['bounded'] else 'pinned'})" for l in loops if l["bounded"] or l["pinned"]]
    return not prims and not bad


_CODE = r'''
import sys, json, io, threading, types, logging, os
repo = os.environ.get("POUPOOL_REPO", "/repo")
os.chdir(repo); sys.path.insert(0, repo)
import controller.device as D
logging.disable(logging.CRITICAL)
D.time = types.SimpleNamespace(sleep=lambda s: None, time=__import__("time").time)
D.subprocess = types.SimpleNamespace(check_call=lambda *a, **k: 0)

class Port:
    """scripted serial port: answers every newline-terminated command with `reply(cmd)`; raises OSError at the k-th call of
    `fault_on` (read / write / open), once or always"""
    def __init__(self, reply, fault_on=None, k=0, always=False, *a, **kw):
        self.reply, self.fault_on, self.k, self.always = reply, fault_on, k, always
        self.calls = {"read": 0, "write": 0, "open": 0}
        self.inbuf = b""; self.out = b""
    # RawIOBase-like API used through BufferedRWPair
    def readable(self): return True
    def writable(self): return True
    def seekable(self): return False
    closed = False
    def _fault(self, what):
        self.calls[what] += 1
        if self.fault_on == what and (self.calls[what] - 1 == self.k or (self.always and self.calls[what] - 1 >= self.k)):
            raise OSError("scripted serial fault")
    def readinto(self, b):
        self._fault("read")
        n = min(len(b), len(self.out))
        b[:n] = self.out[:n]; self.out = self.out[n:]
        return n
    def write(self, data):
        self._fault("write")
        self.inbuf += bytes(data)
        while b"\n" in self.inbuf or b"\r" in self.inbuf:
            i = min(x for x in (self.inbuf.find(b"\n"), self.inbuf.find(b"\r")) if x >= 0)
            cmd, self.inbuf = self.inbuf[:i], self.inbuf[i + 1:]
            self.out += self.reply(cmd.decode(errors="replace"))
        return len(data)
    def flush(self): pass
    def close(self): pass
    def open(self): self._fault("open")

def arduino_reply(cmd):
    return {"position": b"position 40\r\n***\r\n", "water": b"water 7\r\n***\r\n"}.get(cmd, (cmd + "\r\n***\r\n").encode())
def ezo_reply(cmd):
    return b"7.01\r*OK\r" if cmd == "R" else b"?C,0\r*OK\r" if cmd.startswith("C,?") else b"?I,pH,1.98\r*OK\r" if cmd == "i" else b"*OK\r"

def guarded(fn, limit):
    box = {}
    def run():
        try:
            box["obj"] = fn()
            box["r"] = ("ok", repr(box["obj"])[:60])
        except BaseException as e: box["r"] = ("raised", type(e).__name__)
    t = threading.Thread(target=run, daemon=True); t.start(); t.join(limit)
    guarded.last = box.get("obj")
    return box.get("r", ("BLOCKED", None))

cases = json.loads(sys.stdin.read()); out = []
for case in cases:
    kind, fault_on, k, always = case
    port = Port(arduino_reply if kind == "arduino" else ezo_reply, fault_on, k, always)
    D.serial = types.SimpleNamespace(Serial=lambda *a, **kw: port)
    res = []
    try:
        if kind == "arduino":
            dev = None
            r = guarded(lambda: D.ArduinoDevice("arduino", "/dev/null"), 4.0); res.append(("init",) + r)
            if r[0] == "ok":
                dev = guarded.last
                for name, call in (("cover_open", dev.cover_open), ("position", lambda: dev.cover_position), ("cover_stop", dev.cover_stop), ("water", lambda: dev.water_counter), ("stop", dev.stop), ("position2", lambda: dev.cover_position)):
                    r = guarded(call, 4.0); res.append((name,) + r)
                    if r[0] == "BLOCKED": break
        else:
            r = guarded(lambda: D.EZOSensorDevice("ph", "/dev/null"), 4.0); res.append(("init",) + r)
            if r[0] == "ok":
                dev = guarded.last
                for name in ("value", "value2", "value3"):
                    r = guarded(lambda: dev.value, 4.0); res.append((name,) + r)
                    if r[0] == "BLOCKED": break
    except BaseException as e:
        res.append(("harness", "raised", type(e).__name__ + ": " + str(e)[:100]))
    out.append(res)
print("RESULT " + json.dumps(out))
os._exit(0)
'''


def device_fault_search(chk, quick=True):
    """the real ArduinoDevice / EZOSensorDevice over a scripted port, a fault at every position of the exchanges"""
    cases = [["arduino", None, 0, False], ["ezo", None, 0, False]]
    for kind in ("arduino", "ezo"):
        for fault_on, n in (("read", 14 if quick else 40), ("write", 8 if quick else 20)):
            for k in range(n):
                cases.append([kind, fault_on, k, False])
        cases.append([kind, "open", 0, False])
    p = subprocess.run(["/venv/bin/python", "-c", _CODE], input=json.dumps(cases), capture_output=True, text=True, timeout=1500, env={**os.environ, "POUPOOL_REPO": REPO})
    res = None
    for line in p.stdout.split("\n"):
        if line.startswith("RESULT "):
            res = json.loads(line[7:])
    if res is None:
        chk.obligation("harness: real serial device classes over a scripted port", False, (p.stdout + p.stderr)[-1500:])
        return
    blocked, calls = [], 0
    dist = {"ok": 0, "raised": 0, "BLOCKED": 0}
    for case, r in zip(cases, res):
        for step in r:
            calls += 1
            dist[step[1]] = dist.get(step[1], 0) + 1
            if step[1] == "BLOCKED":
                blocked.append((case, step[0]))
    chk.correspondence("device calls return: real ArduinoDevice / EZOSensorDevice (own constructors) over a scripted serial port, an exception injected at every position of the exchanges; watchdog 4 s per call", calls, len(blocked), distribution=dist, detail=blocked[:3] or None)
    for case, step in blocked[:1]:
        chk.violation(f"blocked-in-device-call:{case[0]}", f"{'ArduinoDevice' if case[0] == 'arduino' else 'EZOSensorDevice'}.{step} never returns after a serial {case[1]} fault at call #{case[2]}: the actor that owns the device stops processing requests (cover position / halt are answered through it), stop_all() and the final device.stop() never terminate",
                      {"kind": "device-fault", "device": case[0], "fault_on": case[1], "k": case[2], "always": case[3], "step": step})


def replay_device(rp):
    class _C:
        def __init__(self):
            self.v = []
        def obligation(self, *a, **k):
            pass
        def correspondence(self, *a, **k):
            print(a[0][:80], a[1], a[2], k.get("detail"))
        def violation(self, key, what, rp):
            self.v.append(what)
            print("VIOLATION", key, what)
    c = _C()
    device_fault_search(c, quick=True)
    return 1 if c.v else 0
