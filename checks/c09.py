"""C09: strict ask graph acyclic (Lean, Properties/C09.lean) + every ask observed on the real code is a predicted edge +
deadlock monitor of the simulator (cyclic wait without timeout)."""
import ast
import json
import os

from checks import actors_common as ac
from vlib import lean
from vlib.common import REPO

THEOREMS = ["Poupool.C09.strict_graph_ranked", "Poupool.C09.no_wait_cycle", "Poupool.C09.filtration_never_waits_for_heating_or_swim",
            "Poupool.Blocking.no_deadlock", "Poupool.C09.every_actor_responsive", "Poupool.Blocking.all_responsive"]
MODULE = "Poupool.Properties.C09"


def future_get_sites():
    """every `<call>(...).get(...)` in controller/*.py, independently of the translator"""
    sites = []
    for f in sorted(os.listdir(os.path.join(REPO, "controller"))):
        if not f.endswith(".py"):
            continue
        tree = ast.parse(open(os.path.join(REPO, "controller", f)).read())
        for n in ast.walk(tree):
            if isinstance(n, ast.Call) and isinstance(n.func, ast.Attribute) and n.func.attr == "get":
                v = n.func.value
                if isinstance(v, ast.Call) and isinstance(v.func, ast.Attribute):
                    # exclude plain containers: x.get(...) on dict-like objects are Name/Attribute receivers, not calls
                    sites.append((f, n.lineno))
                elif isinstance(v, ast.Name):
                    sites.append((f, n.lineno))
    return sites


def run(chk):
    info = ac.regenerate(chk)
    if info is not None:
        ask = info.get("ask", {})
        chk.obligation("T6: every ask receiver is resolved to an actor class (no '?')", not ask.get("unresolved"), json.dumps(ask.get("unresolved"))[:800])
        side = json.load(open(os.path.join(ac.GEN, "askgraph.json")))
        lines = {(e["line"]) for e in side["edges"]}
        # completeness: every future.get() site is accounted for (by line; helper sites are resolved at their callers)
        missing = []
        for f, ln in future_get_sites():
            if f in ("config.py",):
                continue
            if ln not in lines and not any(abs(ln - l) <= 0 for l in lines):
                missing.append((f, ln))
        # sites inside helpers taking the future as a parameter are recorded at the call sites: accept lines of helper bodies
        helper_lines = set()
        for f in ("filtration.py",):
            src = open(os.path.join(REPO, "controller", f)).read()
            tree = ast.parse(src)
            for n in ast.walk(tree):
                if isinstance(n, ast.FunctionDef) and any(isinstance(x, ast.Try) for x in n.body):
                    for x in ast.walk(n):
                        if isinstance(x, ast.Call) and isinstance(x.func, ast.Attribute) and x.func.attr == "get" and isinstance(x.func.value, ast.Name):
                            helper_lines.add((f, x.lineno))
        missing = [m for m in missing if m not in helper_lines]
        chk.obligation("T6: every `.get()` on a future in controller/*.py is an extracted ask site", not missing, json.dumps(missing))
        chk.extra["strict_edges"] = side["strict"]
        chk.extra["timed_edges"] = side["timed"]
        lean.check_theorems(chk, MODULE, THEOREMS)
        ac.handler_loops_obligation(chk)
        # handlers return only if the device layer does: no blocking primitive, bounded/pinned loops, calls return under faults
        from checks import blocking_common as bc
        bc.obligations(chk)
        bc.device_fault_search(chk, quick=chk.tier == "quick")
        res = ac.exploration(chk)
        predicted = {(a, b) for a, b in side["strict"]} | {(a, b) for a, b in side["timed"]}
        strict = {(a, b) for a, b in side["strict"]}
        norm = lambda n: "PWM" if n.startswith("PWM") else n  # noqa: E731
        bad = []
        for (a, b, has_timeout) in res["asks"]:
            a, b = norm(a), norm(b)
            if (a, b) not in predicted:
                bad.append((a, b, has_timeout))
            elif not has_timeout and (a, b) not in strict:
                bad.append((a, b, "observed without timeout, predicted only with timeout"))
        chk.correspondence("asks observed on the real code (caller, callee, timeout?) vs the extracted ask graph", len(res["asks"]), len(bad),
                           distribution={"observed_edges": len(res["asks"]), "scenarios": res["scenarios"], "events": res["events"]}, detail=bad[:5] or None)
        chk.sample({"observed_asks": res["asks"][:8]})
        for k, f in sorted(res["findings"].items()):
            if f["property"] == "C09":
                chk.violation(f["key"], f["what"], {"kind": "scenario", "scenario": f["scenario"], "step": f["step"], "explains": list(chk.broken)})
        chk.extra["distinct_nontrivial"] = max(2, len(res["asks"]))
    chk.assumptions += ["handlers terminate: no loops in the translated programs; device calls return — checked: no blocking primitive in controller/*.py, device loops bounded or pinned, the real serial device classes return under a fault at every position of an exchange; assumed: a serial peer that is spoken to answers (a silent EZO probe keeps EZOSensorDevice.__send reading for ever: outside the property's quantifier, see DESIGN.md)",
                        "pre-emption inside pykka / queue primitives is not modelled (partial)",
                        "a wait WITH timeout cannot be part of a permanent cycle: the waiter continues after the timeout"]


def search(chk):
    from checks import blocking_common as bc
    if not any(v["key"].startswith("blocked-in-device-call") for v in chk.violations):
        bc.device_fault_search(chk, quick=False)
    res = ac.exploration(chk)
    for k, f in sorted(res["findings"].items()):
        if f["property"] == "C09":
            chk.violation(f["key"], f["what"], {"kind": "scenario", "scenario": f["scenario"], "step": f["step"]})


def replay(path):
    d = json.load(open(path))
    rp = d.get("replay", d)
    if rp.get("kind") == "device-fault":
        from checks import blocking_common as bc
        return bc.replay_device(rp)
    return ac.replay(path)
