"""Translator tie of the hand-written decision models (Model/Tank, Heating, Winter, Cover): the poll methods of the working
tree are symbolically executed into Lean functions (translate/decisions.py -> Generated/Decisions.lean) and
Properties/DecisionsTie/*.lean proves, for all inputs, that each regenerated function performs exactly the effects of the
action the hand-written model decides.  Broken => obligation broken => the caller's differential / monitors search for the
concrete input (violation protocol)."""
from __future__ import annotations

import os
import sys

VERIF = os.path.dirname(os.path.dirname(os.path.abspath(__file__)))
sys.path.insert(0, VERIF)
from vlib import lean  # noqa: E402

P = "Poupool.DecisionsTie."
GROUPS = {
    "tank": ("Poupool.Properties.DecisionsTie.Tank", ["tank_enter_fill", "tank_poll_fill", "tank_poll_low", "tank_poll_normal", "tank_poll_high", "tank_height_is_sensor_value"],
             ["tankHeight", "tankEnterFill", "tankPollFill", "tankPollLow", "tankPollNormal", "tankPollHigh"]),
    "winter_filtration": ("Poupool.Properties.DecisionsTie.Winter", ["filtration_winter_poll"], ["filtrationWinterPoll"]),
    "winter_swim": ("Poupool.Properties.DecisionsTie.Winter", ["swim_winter_poll"], ["swimWinterPoll"]),
    "swim_timed": ("Poupool.Properties.DecisionsTie.Winter", ["swim_timed_poll"], ["swimTimedPoll"]),
    "cover": ("Poupool.Properties.DecisionsTie.Cover", ["cover_opening_poll", "cover_closing_poll"], ["coverOpeningPoll", "coverClosingPoll"]),
    "backwash": ("Poupool.Properties.DecisionsTie.Guards", ["start_backwash", "start_backwash_only_when_due", "tank_is_high"], ["startBackwash", "tankIsHigh"]),
    "force_empty": ("Poupool.Properties.DecisionsTie.Guards", ["tank_force_empty"], ["tankForceEmpty"]),
    "guards_tank": ("Poupool.Properties.DecisionsTie.Guards", ["tank_is_low", "tank_is_high", "pump_stopped_in_standby"], ["tankIsLow", "tankIsHigh", "pumpStoppedInStandby"]),
    "guards_swim": ("Poupool.Properties.DecisionsTie.Guards", ["swim_is_wintering", "swim_allow_swim"], ["swimIsWintering", "swimAllowSwim"]),
    "guards_heating": ("Poupool.Properties.DecisionsTie.Guards", ["heating_allow", "heating_ready"], ["heatingAllow", "heatingReady"]),
    "eco_polls": ("Poupool.Properties.DecisionsTie.Eco", ["eco_waiting_poll", "eco_normal_poll", "eco_tank_poll", "eco_polls_wash_iff_due", "eco_polls_rearm", "ecoStep_waiting", "ecoStep_normal", "ecoStep_tank"],
                  ["ecoNormalPoll", "ecoWaitingPoll", "ecoTankPoll"]),
    "open_polls": ("Poupool.Properties.DecisionsTie.Polls", ["comfort_forces_only_when_idle", "comfort_poll", "open_mode_polls_rearm", "open_mode_polls_account"],
                   ["comfortPoll", "standbyNormalPoll", "overflowNormalPoll", "heatingRunningPoll"]),
    "heating": ("Poupool.Properties.DecisionsTie.Heating", ["heating_waiting_poll", "heating_asks_only_when_due", "heating_heating_poll", "heating_reads_the_reader", "heating_set_next_start", "heating_setpoint_schedule", "heating_start_hour_schedule", "heating_exit_schedule", "heating_exit_effects"],
                ["heatingReadTemperature", "heatingWaitingPoll", "heatingHeatingPoll", "heatingSetNextStart", "heatingSetpoint", "heatingStartHour", "heatingExit"]),
}


def tie(chk, groups):
    from translate import decisions

    report = decisions.generate()
    mods = {}
    for g in groups:
        module, thms, fns = GROUPS[g]
        for fn in fns:
            r = report.get(fn, {"method": fn, "opaque": ["not generated"], "paths": 0})
            chk.obligation(f"D: {r['method']} translated by symbolic execution into Gen.Decisions.{fn} ({r['paths']} paths, no statement outside the decision subset)", not r["opaque"], "; ".join(r["opaque"])[:400])
        for t in thms:
            if P + t not in mods.setdefault(module, []):
                mods[module].append(P + t)
    ok = True
    for module, thms in mods.items():
        ok = lean.check_theorems(chk, module, thms) and ok
    chk.note("decision models tied by translation: " + ", ".join(report[f]["method"] for g in groups for f in GROUPS[g][2] if f in report))
    return ok
