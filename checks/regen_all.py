"""Regenerate every lean/Poupool/Generated/* file from the repository's working tree (used by setup.sh)."""
import os
import subprocess
import sys
import traceback

VERIF = os.path.dirname(os.path.dirname(os.path.abspath(__file__)))
sys.path.insert(0, VERIF)
sys.path.insert(0, os.path.join(VERIF, "translate"))


def main():
    steps = []

    def step(name, fn):
        try:
            fn()
            steps.append((name, "ok"))
        except Exception:  # noqa: BLE001
            steps.append((name, "FAILED: " + traceback.format_exc().strip().split("\n")[-1]))

    def pwm():
        from translate import pwm_config
        pwm_config.generate()

    def eco():
        from translate import eco_config
        eco_config.generate()

    def fw():
        import firmware_const
        firmware_const.generate()

    def disp():
        from vlib.common import REPO
        os.chdir(REPO)
        if REPO not in sys.path:
            sys.path.insert(0, REPO)
        from translate import dispatch_table, ui_tables
        dispatch_table.regenerate()
        ui_tables.regenerate()

    def actors():
        from checks import actors_common
        actors_common.regenerate(None)

    def dec():
        from translate import decisions
        decisions.generate()

    def mainm():
        import main_model
        main_model.generate()

    for n, f in (("pwm", pwm), ("eco", eco), ("firmware", fw), ("actors", actors), ("main", mainm), ("decisions", dec), ("dispatch/ui", disp)):
        step(n, f)
    for n, s in steps:
        print(f"regen {n}: {s}")


if __name__ == "__main__":
    main()
