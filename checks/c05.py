"""C05: per-actor certificates + glue (see lean/Poupool/Properties/C05.lean and checks/actors_common.py)."""
from checks import actors_common as ac

THEOREMS = ['Poupool.C05.main_valve_only_in_fill_or_low', 'Poupool.C05.tank_halt_closes_valve']
MODULE = "Poupool.Properties.C05"


def run(chk):
    ac.run_actor_property(chk, MODULE, THEOREMS, monitor_pids=["C05"], extra=globals().get("extra"))


def search(chk):
    res = ac.exploration(chk)
    for k, f in sorted(res["findings"].items()):
        if f["property"] == "C05":
            chk.violation(f["key"], f["what"], {"kind": "scenario", "scenario": f["scenario"], "step": f["step"]})


def replay(path):
    return ac.replay(path)
