"""C05: per-actor certificates + glue (see lean/Poupool/Properties/C05.lean and checks/actors_common.py)."""
from checks import actors_common as ac

THEOREMS = ['Poupool.C05.open_time_bounded', 'Poupool.C05.force_empty_cases', 'Poupool.C05.level_set_follows_last_mode', 'Poupool.C05.main_valve_only_in_fill_or_low', 'Poupool.C05.tank_halt_closes_valve', 'Poupool.C05.valve_kept_open_implies_below', 'Poupool.C05.opens_when_below', 'Poupool.C05.closes_when_recovered', 'Poupool.C05.limits', 'Poupool.C05.fill_opens_only_below_too_low', 'Poupool.C08.tank_timers']
TIMING = ['Poupool.Timing.tank_limit_phases', 'Poupool.Timing.tank_polls']
MODULE = "Poupool.Properties.C05"


def run(chk):
    ac.run_actor_property(chk, MODULE, THEOREMS, monitor_pids=["C05"], extra=globals().get("extra"))
    ac.dispatch_facts(chk, ['C14_fact_routing'])
    ac.responsiveness(chk, ['Tank'])
    from checks import altcfg as _alt
    _alt.binding(chk, ['tank'])
    ac.timing_theorems(chk, TIMING)


def extra(chk, info, res):
    from checks import decisions_common as _dc
    _dc.tie(chk, ['tank', 'force_empty'])
    from checks import guards_common
    guards_common.correspondence(chk, ["force_empty", "set_mode", "tank_is_low"])
    from checks import tank_common as tc

    tc.decisions_correspondence(chk)
    tc.sensor_check(chk)  # "the last measured tank level": the sensor model (failed ADC attempts never move the level across a threshold)
    valve_monitor(chk)


def valve_monitor(chk):
    """C05 (ii)/(iii) on the real composed system: valve vs measured level at every tank poll; limits 2 h / 6 h incl. the
    history 'force-empty switched on and off while Filtration is halted'."""
    import random
    from sim import scenario

    rng = random.Random(chk.seed + 5)
    n = 0
    hist = [
        ("force-empty on/off in halt, level never rises", [["tank", 5], ["mqtt", "/settings/tank/force_empty", "ON"], ["mqtt", "/settings/tank/force_empty", "OFF"], ["run", 2 * 3600 + 60]], 2 * 3600 + 30),
        ("initial fill, level settles exactly on too_low", [["tank", 4], ["mqtt", "/settings/tank/force_empty", "ON"], ["mqtt", "/settings/tank/force_empty", "OFF"], ["run", 12], ["tank", 7], ["run", 12], ["tank", 10], ["run", 2 * 3600 + 120]], 24 + 2 * 3600 + 30),
        ("eco, level stuck in low", [["tank", 50], ["mqtt", "/settings/mode", "eco"], ["run", 100], ["tank", 22], ["run", 6 * 3600 + 120]], 6 * 3600 + 30),
        ("force-empty on/off in halt, level rises above too_low then sticks in low", [["tank", 5], ["mqtt", "/settings/tank/force_empty", "ON"], ["mqtt", "/settings/tank/force_empty", "OFF"], ["run", 30], ["tank", 14], ["run", 6 * 3600 + 120]], 30 + 6 * 3600 + 15),
        ("force-empty on/off in halt, level in low then drops below too_low", [["tank", 5], ["mqtt", "/settings/tank/force_empty", "ON"], ["mqtt", "/settings/tank/force_empty", "OFF"], ["run", 30], ["tank", 14], ["run", 600], ["tank", 3], ["run", 120], ["tank", 14], ["run", 60]], 700),
        ("wintering entered, force-empty toggled", [["tank", 3], ["mqtt", "/settings/mode", "wintering"], ["run", 30], ["mqtt", "/settings/tank/force_empty", "ON"], ["run", 5], ["mqtt", "/settings/tank/force_empty", "OFF"], ["run", 2 * 3600 + 60]], 2 * 3600 + 30),
    ]
    for name, acts, limit in hist:
        r = scenario.Runner({"tank_raw": 1000.0, "cover_rate": 25.0}, [])
        for a in acts:
            r.do(a)
        # longest continuous energised interval of pin main
        pin = r.sys.pins["main"][0]
        on_since, longest = None, 0.0
        for (t, kind, data) in r.world.log:
            if kind == "gpio" and data[0] == pin:
                if data[1] is False and on_since is None:
                    on_since = t
                elif data[1] is True and on_since is not None:
                    longest = max(longest, (t - on_since) / 1e6)
                    on_since = None
        if on_since is not None:
            longest = max(longest, (r.world.now_us - on_since) / 1e6)
        still_open = r.sys.pin_on("main")
        r.world.close()
        n += 1
        if longest > limit or still_open:
            chk.violation("main-valve-open-forever" if still_open else "main-valve-open-too-long", f"{name}: mains valve energised {longest:.0f} s (limit {limit} s), still open: {still_open}", {"kind": "scenario", "scenario": {"opts": {"tank_raw": 1000.0, "cover_rate": 25.0}, "actions": acts}})
    # hysteresis on level traces of the real composed system, against the thresholds of config.ini for the level set the
    # mode implies (eco phases: eco set; open modes: overflow set), including mode round trips
    from checks import tank_common as tc

    cfg = tc.read_cfg()
    bad = 0
    polls = 0
    for k in range(6 if chk.tier == "quick" else 60):
        r = scenario.Runner({"tank_raw": 1000.0, "cover_rate": 25.0}, [])
        trace = [["tank", 50], ["mqtt", "/settings/mode", "eco"], ["run", 60]]
        trips = rng.choice([0, 1, 1, 2])
        for a in trace:
            r.do(a)
        plan = []
        for t in range(trips):
            plan += [("mode", rng.choice(["standby", "overflow"])), ("levels", 8), ("mode", "eco"), ("levels", 8)]
        plan += [("levels", 12)]
        for kind, arg in plan:
            if not r.world.alive("Tank") or not r.world.alive("Filtration") or r.sys.state("Filtration") == "halt":
                break
            if kind == "mode":
                r.do(["tank", 50]); trace.append(["tank", 50])
                r.do(["mqtt", "/settings/mode", arg]); trace.append(["mqtt", "/settings/mode", arg])
                r.do(["run", 450]); trace.append(["run", 450])
                continue
            for _ in range(arg):
                f = r.sys.state("Filtration")
                if f.startswith(("eco", "heating", "reload_eco", "wash")):
                    lv = cfg["eco"]
                elif f.startswith(("standby", "overflow", "comfort", "sweep", "reload_standby", "reload_overflow")):
                    lv = cfg["overflow"]
                else:
                    break
                lo, hy = lv["low"], cfg["hyst"]
                lvl = rng.choice([lo - hy - 3, lo - hy - 1, lo - hy - 0.3, lo - hy - 0.45, lo + hy, lo + hy + 2, 50, lv["high"] + hy + 1, lo, lo - hy, lo + hy - 0.4])
                r.do(["tank", lvl]); trace.append(["tank", lvl])
                r.do(["run", 45]); trace.append(["run", 45])
                f2 = r.sys.state("Filtration") if r.world.alive("Filtration") else "DEAD"
                same = (f.startswith(("eco", "heating", "reload_eco", "wash")) and f2.startswith(("eco", "heating", "reload_eco", "wash"))) or \
                       (f.startswith(("standby", "overflow", "comfort", "sweep")) and f2.startswith(("standby", "overflow", "comfort", "sweep", "reload_standby", "reload_overflow")))
                if not r.world.alive("Tank") or not same:
                    break
                st = r.sys.state("Tank")
                polls += 1
                open_ = r.sys.pin_on("main")
                what = None
                if lvl < lo - hy and lvl >= cfg["tooLow"] and not (st == "low" and open_):
                    what = f"level {lvl} < low − hyst = {lo - hy} ({'eco' if lv is cfg['eco'] else 'overflow'} set) for 45 s but tank is {st}, valve open: {open_}"
                    key = "valve-not-opened-below-low"
                elif lvl >= lo + hy and (st not in ("normal", "high") or open_):
                    what = f"level {lvl} ≥ low + hyst = {lo + hy} for 45 s but tank is {st}, valve open: {open_}"
                    key = "valve-not-closed-after-recovery"
                if what:
                    bad += 1
                    chk.violation(key, f"filtration {f}: " + what, {"kind": "scenario", "scenario": {"opts": {"tank_raw": 1000.0, "cover_rate": 25.0}, "actions": list(trace)}})
                    break
        r.world.close()
    # the level set changes WHILE the valve is open: the pool is opened (overflow set: low 20) while the tank refills from a drop that
    # happened during the cover travel; the valve must close at the threshold in force NOW, not at the one in force when it opened
    for lvl in (26, 27, 31, 33):
        acts = [["temp", "pool", 28.0], ["tank", 50], ["mqtt", "/settings/mode", "eco"], ["run", 60], ["mqtt", "/settings/mode", "standby"], ["run", 3], ["tank", 18],
                ["until_state", "Tank", "low", 60], ["until_state", "Filtration", "standby", 400], ["run", 12], ["tank", lvl], ["run", 60]]
        r = scenario.Runner({"tank_raw": 1000.0, "cover_rate": 2.0}, [])
        for a in acts:
            r.do(a)
        f, st, open_ = r.sys.state("Filtration"), r.sys.state("Tank"), r.sys.pin_on("main")
        r.world.close()
        if f.startswith("standby") and cfg["overflow"]["low"] + cfg["hyst"] <= lvl:
            polls += 1
            if st not in ("normal", "high") or open_:
                bad += 1
                chk.violation("valve-not-closed-after-recovery", f"filtration {f} (overflow level set in force since the pool was opened during the refill): level {lvl} ≥ low + hyst = {cfg['overflow']['low'] + cfg['hyst']} for 60 s but tank is {st}, valve open: {open_}",
                              {"kind": "scenario", "scenario": {"opts": {"tank_raw": 1000.0, "cover_rate": 2.0}, "actions": acts}})
    chk.correspondence("C05 monitor on the real composed system: valve/level traces against config.ini's thresholds for the mode's level set (with eco/open round trips) and the 2 h / 6 h limits (incl. force-empty toggled while halted, wintering)", n + polls, bad)



def search(chk):
    valve_monitor(chk)


def replay(path):
    return ac.replay(path)
