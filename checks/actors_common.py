"""Shared machinery of the checks that rest on the per-actor models (C01 C02 C04–C09 C12 C13 C15 C17).

 regenerate(chk)        Engine T: translate/actors.py + certs.py + askgraph.py from REPO's working tree, runtime probe
 exploration(chk)       Engine C/S: random + corpus scenarios on the REAL code with all monitors, and at every handler
                        boundary the projection of the real controller state must be a state of the kernel-checked
                        certificate (model/code correspondence); results are cached per (tree, seed, tier)
 run_actor_property(...) the standard check: regenerate, build + audit theorems, correspondence, monitors, protocol
"""
from __future__ import annotations

import glob
import json
import multiprocessing as mp
import os
import random
import re
import subprocess
import sys
import time
import traceback

VERIF = os.path.dirname(os.path.dirname(os.path.abspath(__file__)))
sys.path.insert(0, VERIF)

from vlib import lean  # noqa: E402
from vlib.common import CACHE, REPO, FileLock, repo_hash  # noqa: E402

GEN = os.path.join(VERIF, "lean", "Poupool", "Generated")
CTRL = ["Filtration", "Tank", "Heating", "Disinfection", "Swim", "Light", "Arduino", "Heater"]


# ---------------------------------------------------------------------------------------------------------------
# Engine T
# ---------------------------------------------------------------------------------------------------------------
def _regen_subprocess():
    """The translators import the repo's code under the simulator: run them in a fresh interpreter."""
    import subprocess

    code = (
        "import sys, json; sys.path.insert(0, %r); sys.path.insert(0, %r)\n"
        "import translate.actors as A\n"
        "ctx, out = A.generate()\n"
        "side = A.emit(ctx, out, %r)\n"
        "import translate.askgraph as G\n"
        "g = G.generate()\n"
        "print('OPAQUE ' + json.dumps({c: a['opaque'] for c, a in side['actors'].items()}))\n"
        "print('ASK ' + json.dumps({'strict': g['strict'], 'timed': g['timed'], 'cyclic': g['rank'] is None, 'unresolved': [e for e in g['edges'] if e['callee'] == '?']}))\n"
    ) % (VERIF, os.path.join(VERIF, "translate"), os.path.join(GEN, "Actors.lean"))
    p = subprocess.run(["/venv/bin/python", "-c", code], capture_output=True, text=True, timeout=600, env={**os.environ, "POUPOOL_REPO": REPO})
    return p


def regenerate(chk):
    """Returns True if the generated model is usable."""
    os.makedirs(CACHE, exist_ok=True)
    key = repo_hash(tuple(sorted(glob.glob(os.path.join(VERIF, "translate", "*.py")) + glob.glob(os.path.join(VERIF, "lean", "Poupool", "Model", "*.lean")))))
    stamp = os.path.join(CACHE, "actors_regen.json")
    info = None
    with FileLock("regen"):
        if os.path.exists(stamp):
            try:
                old = json.load(open(stamp))
                if old.get("key") == key and os.path.exists(os.path.join(GEN, "ActorCerts.lean")):
                    info = old
            except Exception:  # noqa: BLE001
                info = None
        if info is None:
            p = _regen_subprocess()
            info = {"key": key, "ok": p.returncode == 0, "log": (p.stdout + p.stderr)[-4000:]}
            if p.returncode == 0:
                for line in p.stdout.split("\n"):
                    if line.startswith("OPAQUE "):
                        info["opaque"] = json.loads(line[7:])
                    if line.startswith("ASK "):
                        info["ask"] = json.loads(line[4:])
                try:
                    sys.path.insert(0, os.path.join(VERIF, "translate"))
                    import certs

                    info["certs"] = certs.generate()
                except Exception:  # noqa: BLE001
                    info["ok"] = False
                    info["log"] += "\ncerts: " + traceback.format_exc()[-2000:]
                info["probe"] = runtime_probe()
            with open(stamp, "w") as fh:
                json.dump(info, fh)
    if chk is None:
        return info
    chk.obligation("T: translators ran on the working tree (FSM rows by executing the real machines, programs from the AST, ask graph)", info["ok"], "" if info["ok"] else info["log"][-1500:])
    if not info["ok"]:
        return None
    opaque = {c: o for c, o in info.get("opaque", {}).items() if o}
    chk.obligation("T2: every statement of every controller method is inside the translated subset (no `opaque`)", not opaque, json.dumps(opaque)[:1500])
    pr = info.get("probe", {})
    chk.obligation(
        "runtime probe: a delayed call whose timer fired before do_cancel()/do_delay() is dropped; the first poll of a @do_repeat state is covered (controller/actor.py behaves as Msg.delayed)",
        bool(pr.get("ok")), json.dumps(pr)[:600],
    )
    chk.extra["model_states"] = info.get("certs", {}).get("states")
    return info


def runtime_probe():
    """Behavioural probe of the REAL PoupoolActor on the simulator (in a subprocess)."""
    import subprocess

    code = r'''
import sys, json
sys.path.insert(0, %r)
from sim.system import bootstrap
bootstrap()
from sim import runtime
import datetime
from controller.actor import PoupoolActor, do_repeat
res = {}
class Toy(PoupoolActor):
    def __init__(self):
        super().__init__()
        self.hits = []
    def m(self):
        self.hits.append("m")
    def n(self):
        self.hits.append("n")
    def noop(self):
        pass
    @do_repeat()
    def on_enter_x(self):
        pass
    def do_repeat_x(self):
        self.hits.append("poll")
    def boom(self):
        raise RuntimeError("boom")
    @do_repeat()
    def on_enter_y(self):
        pass
    def do_repeat_y(self):
        raise RuntimeError("boom")
def fresh():
    w = runtime.World(datetime.datetime(2024, 1, 1))
    ref = Toy.start()
    return w, w.actor("Toy"), ref.proxy()
# 1. delay; fire; cancel; deliver
w, a, p = fresh()
p.do_delay.defer(1, "m"); w.settle()
w.advance_to(w.now_us + 2_000_000); w.fire()
p.do_cancel.defer()
# the fired call is ahead of do_cancel in the inbox: deliver do_cancel FIRST is impossible (FIFO); the stale case is
# a cancel processed before the fired call because it was queued earlier:
w.settle()
res["fired_then_cancel_queued_after"] = list(a.hits)   # m runs (it was delivered before the cancel): expected ['m']
w, a, p = fresh()
p.do_delay.defer(1, "m"); w.settle()
p.do_cancel.defer()                     # cancel queued, not yet delivered
w.advance_to(w.now_us + 2_000_000); w.fire()   # timer fires while the cancel is still queued -> call queued behind it
w.settle()
res["stale_after_cancel"] = list(a.hits)       # must be []
# 2. delay; (re-arm queued); fire; deliver both
w, a, p = fresh()
p.do_delay.defer(1, "m"); w.settle()
p.do_delay.defer(5, "n")
w.advance_to(w.now_us + 2_000_000); w.fire()
w.settle()
res["stale_after_rearm"] = list(a.hits)        # must be []
# 3. first poll of a do_repeat state, cancelled before delivery
w, a, p = fresh()
p.on_enter_x.defer(); p.do_cancel.defer(); w.settle()
res["stale_first_poll"] = list(a.hits)         # must be []
w, a, p = fresh()
p.on_enter_x.defer(); w.settle()
res["first_poll_runs"] = list(a.hits)          # must be ['poll']
# 4. an exception in a delayed call kills the controller (the supervision of poupool.py relies on it), with and without timer
w, a, p = fresh()
p.do_delay.defer(1, "boom"); w.settle()
w.advance_to(w.now_us + 2_000_000); w.fire(); w.settle()
res["exception_in_timed_call_kills"] = not a.actor_ref.is_alive()
w, a, p = fresh()
p.do_delay.defer(0, "boom"); w.settle()
res["exception_in_immediate_call_kills"] = not a.actor_ref.is_alive()
w, a, p = fresh()
p.on_enter_y.defer(); w.settle()
res["exception_in_first_poll_kills"] = not a.actor_ref.is_alive()
res["ok"] = (res["exception_in_timed_call_kills"] and res["exception_in_immediate_call_kills"] and res["exception_in_first_poll_kills"] and res["stale_after_cancel"] == [] and res["stale_after_rearm"] == [] and res["stale_first_poll"] == []
             and res["first_poll_runs"] == ["poll"] and res["fired_then_cancel_queued_after"] == ["m"])
print("PROBE " + json.dumps(res))
''' % VERIF
    p = subprocess.run(["/venv/bin/python", "-c", code], capture_output=True, text=True, timeout=120, env={**os.environ, "POUPOOL_REPO": REPO})
    for line in p.stdout.split("\n"):
        if line.startswith("PROBE "):
            return json.loads(line[6:])
    return {"ok": False, "error": (p.stdout + p.stderr)[-800:]}


# ---------------------------------------------------------------------------------------------------------------
# certificate (as data for the Python side)
# ---------------------------------------------------------------------------------------------------------------
def load_certificates():
    text = open(os.path.join(GEN, "ActorsReach.lean")).read()
    side = json.load(open(os.path.join(GEN, "actors.json")))
    certs = {}
    for m in re.finditer(r"def (\w+?)(Safety|Timer)Reach : Buckets := \[\n(.*?)\n\]\n", text, flags=re.S):
        name, view, body = m.group(1), m.group(2), m.group(3)
        sts = re.findall(r"\{ leaf := (\d+), vars := \[([^\]]*)\], armed := (none|\(some \d+\)), pend := \[([^\]]*)\], bad := (\w+) \}", body)
        out = []
        for leaf, vars_, armed, pend, bad in sts:
            vs = [int(x.strip("() ")) for x in vars_.split(",")] if vars_.strip() else []
            a = None if armed == "none" else int(armed[6:-1])
            out.append((int(leaf), tuple(vs), a, bad == "true"))
        certs[(name, view)] = out
    return side, certs


def observable_sets(side, certs):
    """For each controller: set of observable projections (leaf, devices..., pub, armed) of the safety certificate and
    (leaf, armed) of the timer certificate."""
    obs = {}
    for c, a in side["actors"].items():
        lc = c.lower() if c.isupper() else c[0].lower() + c[1:]
        vars_ = a["vars"]
        keep = [i for i, v in enumerate(vars_) if v.startswith("dev:") or v == "pub"]
        saf = {(leaf, tuple(vs[i] for i in keep), armed) for (leaf, vs, armed, bad) in certs.get((lc, "Safety"), [])}
        tim = {(leaf, armed) for (leaf, vs, armed, bad) in certs.get((lc, "Timer"), [])}
        obs[c] = {"keep": [vars_[i] for i in keep], "safety": saf, "timer": tim}
    return obs


# ---------------------------------------------------------------------------------------------------------------
# exploration worker
# ---------------------------------------------------------------------------------------------------------------
def _project(system, ctrl, side):
    """Observable projection of the real controller `ctrl` at a handler boundary."""
    w = system.world
    model = "PWM" if ctrl.startswith("PWM") else ctrl
    a = side["actors"][model]
    actor = w.actor(ctrl)
    leaf = 0 if model == "PWM" else a["leaves"].index(actor.state)
    vals = []
    names = side["names"]
    for v in a["vars"]:
        if v.startswith("dev:"):
            d = v[4:]
            if d == "variable":
                sp = system.variable_speed()
                vals.append(max(sp, 0))
            elif d == "heater":
                vals.append(0)
            elif d == "pump":
                vals.append(1 if system.pin_on("ph" if ctrl == "PWM" else "cl") else 0)
            else:
                vals.append(1 if system.pin_on(d) else 0)
        elif v == "pub":
            last = system.mqtt.last.get(f"/status/{ctrl.lower()}/state")
            if last is None:
                vals.append(names.index("<none>"))
            else:
                s = str(last)
                if re.fullmatch(r"closing_\d+", s):
                    s = "closing_*"
                if re.fullmatch(r"opening_\d+", s):
                    s = "opening_*"
                vals.append(names.index(s) if s in names else -99)
    # armed: the delayed call carrying the current token that has not been delivered yet
    token = current_token(actor)
    armed = None
    for e in w.pending_timers():
        t = e[2]
        if t.owner == ctrl and len(t.args) >= 2 and t.args[0] == token:
            armed = t.args[1]
    for env in actor.actor_inbox.items:
        m = env.message
        if getattr(m, "attr_path", None) == ("do_delayed",) and m.args and m.args[0] == token:
            armed = m.args[1]
    armed_id = a["msgs"].index(armed) if armed in a["msgs"] else (None if armed is None else -99)
    return leaf, tuple(vals), armed_id


_TOKEN_ATTR = {}


def token_attr(actor):
    """name of the attribute holding the delayed-call token of controller/actor.py, found by behaviour (the integer
    attribute that `do_cancel` changes), so that renaming it is harmless; cached per class"""
    import controller.actor as ca

    if "name" in _TOKEN_ATTR:
        return _TOKEN_ATTR["name"]
    name = None
    try:
        base = {k: v for k, v in vars(actor).items() if isinstance(v, int) and not isinstance(v, bool) and k.startswith("_PoupoolActor")}
        if len(base) == 1:
            name = next(iter(base))
        elif "_PoupoolActor__token" in base:
            name = "_PoupoolActor__token"
    except Exception:  # noqa: BLE001
        pass
    _TOKEN_ATTR["name"] = name
    return name


def current_token(actor):
    n = token_attr(actor)
    return getattr(actor, n, None) if n else None


def _tproj(w, actor, a, model):
    """timer-view projection of one real controller: (phase, delayed call carrying the current token, token)"""
    leaf = 0 if model == "PWM" else a["leaves"].index(actor.state)
    token = current_token(actor)
    armed = None
    for e in w.pending_timers():
        t = e[2]
        if t.owner == actor.sim_name and len(t.args) >= 2 and t.args[0] == token:
            armed = t.args[1]
    for env in actor.actor_inbox.items:
        m = env.message
        if getattr(m, "attr_path", None) == ("do_delayed",) and m.args and m.args[0] == token:
            armed = m.args[1]
    armed_id = a["msgs"].index(armed) if armed in a["msgs"] else (-1 if armed is None else -99)
    return leaf, armed_id, token


def _install_arm_recorder():
    """remember the delay of the last do_delay of every controller (simulator-side wrapper, /repo is untouched)"""
    import controller.actor as ca

    if getattr(ca.PoupoolActor.do_delay, "_verif_wrapped", False):
        return
    orig = ca.PoupoolActor.do_delay

    def do_delay(self, delay, method, *args, **kwargs):
        self._verif_last_arm = (float(delay), method)
        return orig(self, delay, method, *args, **kwargs)

    do_delay._verif_wrapped = True
    ca.PoupoolActor.do_delay = do_delay


def _worker(args):
    seed, i, length, corpus_scn = args
    try:
        from sim import monitors, scenario
        from sim.system import bootstrap

        bootstrap()
        side, certs = _worker.cache
        obs = _worker.obs
        if corpus_scn is not None:
            scn = corpus_scn
        else:
            rng = random.Random(seed * 1_000_003 + i)
            scn = scenario.gen_scenario(rng, length)
        mons = monitors.all_monitors()
        dac_faulty = any(a and a[0] == "dac_fault" for a in scn["actions"])
        r = scenario.Runner(scn.get("opts"), mons)
        mism = []
        seen_obs = set()
        handlers = set()

        def on_handler(name, msg):
            handlers.add(f"{name}.{msg.split('@')[0]}")
            real = name
            name = "PWM" if name.startswith("PWM") else name
            if name not in obs or not r.world.alive(real) or r.world.parked_ctx_of(r.world.actor(real)) is not None:
                return
            try:
                leaf, vals, armed = _project(r.sys, real, side)
            except Exception as e:  # noqa: BLE001
                mism.append({"actor": name, "error": repr(e)})
                return
            o = obs[name]
            keepvals = vals
            if name == "Swim" and dac_faulty:
                # with DAC write errors the real SwimPumpDevice may leave the relay OFF although speed() was called (stale
                # cached speed): under-actuation under a device fault, outside the model (which assumes speed() energises)
                i = o["keep"].index("dev:swim") if "dev:swim" in o["keep"] else None
                if i is not None and any((leaf, keepvals[:i] + (x,) + keepvals[i + 1:], armed) in o["safety"] for x in (0, 1)) and keepvals[i] == 0:
                    seen_obs.add((name, leaf, keepvals, armed))
                    return
            seen_obs.add((name, leaf, keepvals, armed))
            if (leaf, keepvals, armed) not in o["safety"] and len(mism) < 5:
                mism.append({"actor": name, "view": "safety", "after": msg, "leaf": side["actors"][name]["leaves"][leaf], "vars": dict(zip(o["keep"], keepvals)), "armed": (side["actors"][name]["msgs"][armed] if isinstance(armed, int) and armed >= 0 else armed), "at_us": r.world.now_us, "step": r.step_no})
            if (leaf, armed) not in o["timer"] and len(mism) < 5:
                mism.append({"actor": name, "view": "timer", "after": msg, "leaf": side["actors"][name]["leaves"][leaf], "armed": (side["actors"][name]["msgs"][armed] if isinstance(armed, int) and armed >= 0 else armed), "at_us": r.world.now_us, "step": r.step_no})

        r.world.on_handler = on_handler
        # step-level record for the timed models: (actor, kind, msg, pre phase, pre armed, post phase, post armed, touched, delay, settings)
        _install_arm_recorder()
        tsteps = {}
        ssteps = {}
        pre_of = {}
        spre_of = {}
        setting_names = {c: sorted({v[8:] for (_h, _m, _src, v) in side.get("delays", {}).get(c, []) if isinstance(v, str) and v.startswith("setting:")}) for c in side["actors"]}

        def on_step(actor, hname, when):
            real = actor.sim_name
            model = "PWM" if real.startswith("PWM") else real
            a = side["actors"].get(model)
            if a is None or hname == "<stop>" or current_token(actor) is None:
                return
            try:
                if when == "pre":
                    actor._verif_last_arm = None
                    pj = _tproj(r.world, actor, a, model)
                    if "@" in hname and hname.split("@")[1] == str(pj[2]) and pj[1] == -1:
                        # the delayed call being delivered has already been taken out of the inbox: it is the armed one
                        b0 = hname.split("@")[0]
                        pj = (pj[0], a["msgs"].index(b0) if b0 in a["msgs"] else -99, pj[2])
                    pre_of[real] = pj
                    try:
                        spre_of[real] = _project(r.sys, real, side) if model in obs else None
                    except Exception:  # noqa: BLE001
                        spre_of[real] = None
                    return
                pre = pre_of.pop(real, None)
                if pre is None or not r.world.alive(real):
                    return
                post = _tproj(r.world, actor, a, model)
            except Exception:  # noqa: BLE001
                return
            touched = 1 if post[2] != pre[2] else 0
            base = hname.split("@")[0]
            if "@" in hname:
                tok = hname.split("@")[1]
                if str(pre[2]) != tok:
                    kind, mid = "stale", (a["msgs"].index(base) if base in a["msgs"] else -1)
                else:
                    kind, mid = "fire", (a["msgs"].index(base) if base in a["msgs"] else -1)
            elif base in a["msgs"]:
                kind, mid = "plain", a["msgs"].index(base)
            else:
                kind, mid = "other", -1
            delay = -1
            sets = ""
            if touched and post[1] >= 0:
                la = getattr(actor, "_verif_last_arm", None)
                if la is not None and la[1] == a["msgs"][post[1]]:
                    delay = la[0] * 2
                    delay = int(delay) if float(delay).is_integer() else -2
                kv = []
                for nme in setting_names.get(model, []):
                    try:
                        v = getattr(actor, f"_{type(actor).__name__}__{nme}").total_seconds() * 2
                        kv.append(f"{nme}={int(v)}" if float(v).is_integer() else f"{nme}=-1")
                    except Exception:  # noqa: BLE001
                        pass
                sets = ",".join(kv)
            key = (model, kind, mid, pre[0], pre[1], post[0], post[1], touched, delay, sets)
            if key not in tsteps and len(tsteps) < 4000:
                tsteps[key] = (hname, r.step_no)
            # safety view: observable outputs and published state before / after
            spre = spre_of.pop(real, None)
            if spre is not None and not (model == "Swim" and dac_faulty) and r.world.parked_ctx_of(actor) is None:
                try:
                    spost = _project(r.sys, real, side)
                except Exception:  # noqa: BLE001
                    spost = None
                if spost is not None:
                    sp_armed = pre[1] if kind == "fire" else (spre[2] if spre[2] is not None else -1)
                    skey = (model, kind, mid, spre[0], sp_armed, tuple(spre[1]), spost[0], spost[2] if spost[2] is not None else -1, tuple(spost[1]))
                    if skey not in ssteps and len(ssteps) < 6000:
                        ssteps[skey] = (hname, r.step_no)

        r.world.on_step = on_step
        r.run(scn["actions"])
        asks = sorted({(a, b, t is not None) for (a, b, t, h) in r.world.ask_log if a != "<main>"})
        intervals = sorted({(e[2][0], e[2][1], float(e[2][2])) for e in r.world.log if e[1] == "timer_start"})
        return {"i": i, "scn": scn, "findings": r.findings, "mismatch": mism, "nobs": len(seen_obs), "handlers": sorted(handlers), "events": len(r.world.log), "asks": asks, "error": None, "intervals": intervals,
                "leaves": sorted({(n, l) for (n, l, _, _) in seen_obs}), "tsteps": [list(k) + list(v) for k, v in tsteps.items()],
                "ssteps": [[k[0], k[1], k[2], k[3], k[4], list(k[5]), k[6], k[7], list(k[8])] + list(v) for k, v in ssteps.items()]}
    except BaseException:  # noqa: BLE001
        return {"i": i, "scn": corpus_scn, "findings": [], "mismatch": [], "nobs": 0, "handlers": [], "events": 0, "asks": [], "error": traceback.format_exc()[-1500:], "leaves": [], "intervals": [], "tsteps": [], "ssteps": []}


def _init_worker():
    side, certs = load_certificates()
    _worker.cache = (side, certs)
    _worker.obs = observable_sets(side, certs)


def corpus_scenarios():
    out = []
    for p in sorted(glob.glob(os.path.join(VERIF, "corpus", "*.json"))):
        try:
            scn = json.load(open(p))
            if "actions" in scn:
                out.append((os.path.basename(p), scn))
        except Exception:  # noqa: BLE001
            pass
    return out


def _worker_side():
    return json.load(open(os.path.join(GEN, "actors.json")))


def safety_step_correspondence(res, side):
    """every distinct real handler execution (phase, armed call, own outputs and published state before; message; the same after)
    must be a step of the SAFETY-view model from a certified state (knowledge variables existentially quantified): `stepdrv`"""
    distinct = {}
    for r in res:
        for t in r.get("ssteps", []):
            k = (t[0], t[1], t[2], t[3], t[4], tuple(t[5]), t[6], t[7], tuple(t[8]))
            if k not in distinct:
                distinct[k] = (t[9], t[10], r["scn"])
    keys = sorted(distinct, key=lambda k: tuple(str(x) for x in k))
    out = {"distinct_steps": len(keys), "bad": [], "by_kind": {}, "driver_error": None}
    lines, idx = [], []
    csv = lambda xs: ",".join(str(x) for x in xs) if xs else "-"  # noqa: E731
    for k in keys:
        model, kind, mid, pl, pa, pv, ql, qa, qv = k
        out["by_kind"][kind] = out["by_kind"].get(kind, 0) + 1
        if kind in ("stale", "other"):
            if (pl, pa, pv) != (ql, qa, qv):
                hname, step, scn = distinct[k]
                out["bad"].append({"step": list(k), "handler": hname, "reason": "a stale delayed call / an unmodelled message changed the phase, an output or the published state", "scenario": scn, "at_step": step})
            continue
        if mid < 0 or pa == -99 or qa == -99 or -99 in pv or -99 in qv:
            hname, step, scn = distinct[k]
            out["bad"].append({"step": list(k), "handler": hname, "reason": "message, armed call or published state unknown to the model", "scenario": scn, "at_step": step})
            continue
        vars_ = side["actors"][model]["vars"]
        obs_idx = [i for i, v in enumerate(vars_) if v.startswith("dev:") or v == "pub"]
        lines.append(f"{model} {kind} {mid} {csv(obs_idx)} {pl} {pa} {csv(pv)} {ql} {qa} {csv(qv)}")
        idx.append(k)
    if lines:
        try:
            exe = os.path.join(VERIF, "lean", ".lake", "build", "bin", "stepdrv")
            with FileLock("lake"):
                pb = subprocess.run(["lake", "build", "stepdrv"], cwd=os.path.join(VERIF, "lean"), capture_output=True, text=True, timeout=3000)
            if pb.returncode != 0:
                raise RuntimeError((pb.stdout + pb.stderr)[-800:])
            p = subprocess.run([exe], input="\n".join(lines) + "\n", capture_output=True, text=True, timeout=1800)
            answers = p.stdout.split("\n")
            if p.returncode != 0 or len(answers) < len(lines):
                raise RuntimeError(f"rc={p.returncode} {p.stderr[-500:]}")
            for k, ans in zip(idx, answers):
                if ans != "ok":
                    hname, step, scn = distinct[k]
                    out["bad"].append({"step": list(k), "handler": hname, "reason": ans, "scenario": scn, "at_step": step})
        except Exception as e:  # noqa: BLE001
            out["driver_error"] = repr(e)[:600]
    out["n_bad"] = len(out["bad"])
    out["bad"] = out["bad"][:12]
    return out


def timed_step_correspondence(res):
    """every distinct real handler execution (pre phase/armed call, message, post phase/armed call, armed-or-not, delay) must be a
    step of the timed model (Lean driver `timeddrv` over the regenerated timer-view descriptors and certificates)"""
    distinct = {}
    for r in res:
        for t in r.get("tsteps", []):
            k = tuple(t[:10])
            if k not in distinct:
                distinct[k] = (t[10], t[11], r["scn"])
    keys = sorted(distinct, key=lambda k: tuple(str(x) for x in k))
    out = {"distinct_steps": len(keys), "bad": [], "by_kind": {}, "unknown_duration": 0, "driver_error": None}
    lines, idx = [], []
    for k in keys:
        model, kind, mid, pl, pa, ql, qa, touched, delay, sets = k
        out["by_kind"][kind] = out["by_kind"].get(kind, 0) + 1
        if kind in ("stale", "other"):
            # a delayed call with an old token, or a message outside the model (questions, attribute reads/writes): must change nothing
            if (pl, pa) != (ql, qa) or touched:
                hname, step, scn = distinct[k]
                out["bad"].append({"step": list(k), "handler": hname, "reason": "a stale delayed call / an unmodelled message changed the phase or the delayed call", "scenario": scn, "at_step": step})
            continue
        if mid < 0 or pa == -99 or qa == -99:
            hname, step, scn = distinct[k]
            out["bad"].append({"step": list(k), "handler": hname, "reason": "message or armed call unknown to the model", "scenario": scn, "at_step": step})
            continue
        lines.append(f"{model} {kind} {mid} {pl} {pa} {ql} {qa} {touched} {delay} {sets}")
        idx.append(k)
    if lines:
        try:
            exe = os.path.join(VERIF, "lean", ".lake", "build", "bin", "timeddrv")
            with FileLock("lake"):
                pb = subprocess.run(["lake", "build", "timeddrv"], cwd=os.path.join(VERIF, "lean"), capture_output=True, text=True, timeout=3000)
            if pb.returncode != 0:
                raise RuntimeError((pb.stdout + pb.stderr)[-800:])
            p = subprocess.run([exe], input="\n".join(lines) + "\n", capture_output=True, text=True, timeout=1800)
            answers = p.stdout.split("\n")
            if p.returncode != 0 or len(answers) < len(lines):
                raise RuntimeError(f"rc={p.returncode} {p.stderr[-500:]}")
            for k, ans in zip(idx, answers):
                if ans == "ok-unknown-duration":
                    out["unknown_duration"] += 1
                elif ans != "ok":
                    hname, step, scn = distinct[k]
                    out["bad"].append({"step": list(k), "handler": hname, "reason": ans, "scenario": scn, "at_step": step})
        except Exception as e:  # noqa: BLE001
            out["driver_error"] = repr(e)[:600]
    out["n_bad"] = len(out["bad"])
    out["bad"] = out["bad"][:12]
    return out


def exploration(chk, n=None, length=40):
    """Run (or reuse) the exploration for this tree/seed/tier. Returns the aggregated result dict."""
    n = n or (160 if chk.tier == "quick" else 1600)
    key = repo_hash(tuple(sorted(glob.glob(os.path.join(VERIF, "sim", "*.py")) + glob.glob(os.path.join(VERIF, "corpus", "*.json")) + [os.path.join(GEN, "ActorsReach.lean"), os.path.abspath(__file__)])))
    path = os.path.join(CACHE, f"explore_{key}_{chk.seed}_{chk.tier}.json")
    with FileLock("explore"):
        if os.path.exists(path):
            try:
                return json.load(open(path))
            except Exception:  # noqa: BLE001
                pass
        t0 = time.time()
        corpus = corpus_scenarios()
        jobs = [(chk.seed, -1 - k, 0, scn) for k, (name, scn) in enumerate(corpus)] + [(chk.seed, i, length, None) for i in range(n)]
        with mp.Pool(min(16, mp.cpu_count()), initializer=_init_worker, maxtasksperchild=25) as pool:
            res = pool.map(_worker, jobs, chunksize=1)
        agg = {"scenarios": len(res), "corpus": len(corpus), "events": sum(r["events"] for r in res), "errors": [r["error"] for r in res if r["error"]][:3],
               "n_errors": sum(1 for r in res if r["error"]), "findings": {}, "mismatches": [], "handlers": sorted({h for r in res for h in r["handlers"]}),
               "asks": sorted({tuple(a) for r in res for a in r["asks"]}), "distinct_observations": sum(r["nobs"] for r in res),
               "leaves": sorted({tuple(x) for r in res for x in r["leaves"]}), "wall_s": round(time.time() - t0, 1),
               "intervals": sorted({tuple(x) for r in res for x in r.get("intervals", [])})}
        for r in res:
            for f in r["findings"]:
                k = f["property"] + "|" + f["key"]
                if k not in agg["findings"]:
                    agg["findings"][k] = {"property": f["property"], "key": f["key"], "what": f["what"], "count": 0, "scenario": r["scn"], "step": f["step"]}
                agg["findings"][k]["count"] += 1
            for m in r["mismatch"]:
                if len(agg["mismatches"]) < 10:
                    agg["mismatches"].append({"mismatch": m, "scenario": r["scn"]})
        agg["n_mismatch_scenarios"] = sum(1 for r in res if r["mismatch"])
        agg["timed"] = timed_step_correspondence(res)
        agg["safety_steps"] = safety_step_correspondence(res, _worker_side())
        with open(path, "w") as fh:
            json.dump(agg, fh, default=list)
        return json.load(open(path))


def expected_intervals():
    """(actor, delayed call) -> allowed timer intervals in seconds, from config.ini and the values the scenarios send"""
    import configparser

    from sim import scenario

    c = configparser.ConfigParser()
    c.read(os.path.join(REPO, "config.ini"))
    boost = {300.0} | {float(v) for v in scenario.SETTINGS["/settings/filtration/boost_duration"]}
    bw = {120.0} | {float(v) for v in scenario.SETTINGS["/settings/filtration/backwash/backwash_duration"]}
    rinse = {60.0} | {float(v) for v in scenario.SETTINGS["/settings/filtration/backwash/rinse_duration"]}
    h = c["heating"]
    w = c["wintering"]
    d = c["disinfection"]
    T = {
        ("Filtration", "standby"): boost, ("Filtration", "overflow"): boost, ("Filtration", "rinse"): bw, ("Filtration", "eco"): rinse,
        ("Filtration", "heating_delayed"): {float(h["delay_to_eco"]), float(h["delay_to_open"])},
        ("Filtration", "closed"): {2.0}, ("Filtration", "opened"): {2.0}, ("Filtration", "eco_waiting"): {5.0}, ("Filtration", "eco_normal"): {5.0},
        ("Filtration", "wintering_waiting"): {float(w["duration"])}, ("Filtration", "do_repeat_wintering_waiting"): {120.0},
        ("Filtration", "do_repeat_closing"): {5.0}, ("Filtration", "do_repeat_opening"): {5.0},
        ("Heating", "recover_done"): {float(h["recover_period"])}, ("Disinfection", "run"): {float(d["start_delay"])}, ("Disinfection", "adjust"): {float(d["waiting_delay"])},
        ("Swim", "wintering_waiting"): {float(w["swim_duration"])}, ("Swim", "do_repeat_wintering_waiting"): {120.0},
        ("Swim", "do_repeat_timed"): {1.0}, ("Swim", "do_repeat_continuous"): {1.0},
        ("Tank", "do_repeat_fill"): {5.0}, ("Tank", "do_repeat_low"): {5.0}, ("Tank", "do_repeat_normal"): {10.0}, ("Tank", "do_repeat_high"): {10.0},
        ("Arduino", "do_repeat_run"): {60.0}, ("PWM", "do_run"): {1.0}, ("PWM2", "do_run"): {1.0},
    }
    for poll in ("comfort", "eco_normal", "eco_tank", "eco_waiting", "heating_running", "overflow_normal", "standby_normal"):
        T[("Filtration", "do_repeat_" + poll)] = {10.0}
    for poll in ("waiting", "heating"):
        T[("Heating", "do_repeat_" + poll)] = {10.0}
    return T


def check_intervals(chk, res, actors=None):
    """every timer armed by the real code in the explored runs has the configured duration / period"""
    T = expected_intervals()
    bad, seen = [], 0
    for (owner, label, interval) in res.get("intervals", []):
        if actors and owner not in actors:
            continue
        exp = T.get((owner, label))
        if exp is None:
            continue
        seen += 1
        if interval not in exp:
            bad.append((owner, label, interval, sorted(exp)))
    chk.correspondence("timer durations/periods armed by the REAL code in the explored runs vs config.ini / settings sent (every do_delay observed)", seen, len(bad), detail=bad[:5] or None)
    for (owner, label, interval, exp) in bad[:3]:
        chk.violation(f"timer-duration:{owner}:{label}", f"{owner} armed `{label}` with {interval} s, configured {exp}", {"kind": "interval", "owner": owner, "label": label, "interval": interval, "expected": exp})
    return bad


def shrink_finding(f):
    """delta-debug the scenario of a finding (in-process, bounded)"""
    from sim import monitors, scenario

    key = f["key"]
    pid = f["property"]
    budget = [40]

    def fails(scn):
        if budget[0] <= 0:
            return False
        budget[0] -= 1
        try:
            r = scenario.run_scenario(scn, monitors.all_monitors())
        except BaseException:  # noqa: BLE001
            return False
        return any(x["property"] == pid and x["key"] == key for x in r.findings)

    try:
        return scenario.shrink(f["scenario"], fails)
    except BaseException:  # noqa: BLE001
        return f["scenario"]


# ---------------------------------------------------------------------------------------------------------------
# the standard check
# ---------------------------------------------------------------------------------------------------------------
def run_actor_property(chk, module, theorems, monitor_pids=None, controllers=None, key_filter=None, extra=None):
    monitor_pids = monitor_pids or [chk.pid]
    info = regenerate(chk)
    lean_ok = False
    if info is not None:
        lean_ok = lean.check_theorems(chk, module, theorems)
    chk.assumptions += [
        "atomic-ask reduction: a synchronous question is answered after everything queued before it has been processed and the asker has nothing else in flight (pykka FIFO inboxes); validated by running the real code on the simulator, not proved",
        "everything not modelled (sensor values, other actors' answers, settings within the dispatcher's ranges, time) is nondeterministic in the per-actor models: the theorems hold for every value",
        "settled = every controller inbox served; 'within 2 s' is read on ε-prompt executions (ε = 1 s per delivery)",
    ]
    res = None
    if info is not None and os.path.exists(os.path.join(GEN, "ActorsReach.lean")):
        res = exploration(chk)
        chk.correspondence(
            "per-actor certificates vs the REAL controllers on the simulator: at every handler boundary the observable projection (phase, own outputs, last published state, delayed call with the current token) must be a certified state",
            res["distinct_observations"], res["n_mismatch_scenarios"],
            distribution={"scenarios": res["scenarios"], "corpus_scenarios": res["corpus"], "events": res["events"], "handlers_executed": len(res["handlers"]), "phases_visited": len(res["leaves"]), "harness_errors": res["n_errors"]},
            detail=res["mismatches"][:3] if res["mismatches"] else None,
        )
        td = res.get("timed") or {}
        if td:
            if td.get("driver_error"):
                chk.obligation("timed-model driver (lake exe timeddrv) ran", False, td["driver_error"])
            chk.correspondence(
                "timed models vs the REAL controllers, step level: every distinct handler execution (phase and armed call before, message, phase and armed call after, armed-or-not, delay of the armed call) must be a step of the regenerated timer-view model from a certified state, with a delay the generated table durAt allows; stale delayed calls and unmodelled messages must change nothing",
                td.get("distinct_steps", 0), td.get("n_bad", 0),
                distribution={"by_kind": td.get("by_kind"), "unknown_duration": td.get("unknown_duration")},
                detail=[{k: b[k] for k in ("step", "handler", "reason", "at_step")} for b in td.get("bad", [])[:4]] or None,
            )
        sd = res.get("safety_steps") or {}
        if sd:
            if sd.get("driver_error"):
                chk.obligation("safety-model step driver (lake exe stepdrv) ran", False, sd["driver_error"])
            chk.correspondence(
                "safety-view models vs the REAL controllers, step level: every distinct handler execution (phase, armed call, own outputs, published state before; message; the same after) must be a step of the regenerated model from a certified state (knowledge variables existentially quantified); stale delayed calls and unmodelled messages must change nothing",
                sd.get("distinct_steps", 0), sd.get("n_bad", 0), distribution={"by_kind": sd.get("by_kind")},
                detail=[{k: b[k] for k in ("step", "handler", "reason", "at_step")} for b in sd.get("bad", [])[:4]] or None,
            )
        chk.extra["handlers_executed"] = res["handlers"]
        chk.extra["phases_visited"] = ["%s.%s" % tuple(x) for x in res["leaves"]] if res["leaves"] and isinstance(res["leaves"][0][1], str) else res["leaves"]
        chk.extra["distinct_nontrivial"] = max(2, len(res["leaves"]))
        chk.extra["rule"] = "scenarios are generated from VERIF_SEED (commands, settings, environment changes, stale-timer races, bursts, lagging actors) plus the corpus; an observation is (controller, phase, outputs, published state, armed call); non-trivial/distinct = distinct (controller, phase) pairs visited"
        if res["n_errors"]:
            chk.note("harness errors: " + "; ".join(e.strip().split("\n")[-1] for e in res["errors"]))
        for s in res["mismatches"][:2]:
            chk.sample({"model_code_mismatch": s["mismatch"]})
        # monitors: real-code traces that violate the statement
        for k, f in sorted(res["findings"].items()):
            if f["property"] in monitor_pids and (key_filter is None or key_filter(f)):
                scn = f["scenario"]
                chk.violation(f["key"], f["what"], {"kind": "scenario", "scenario": scn, "step": f["step"], "seen_in_scenarios": f["count"], "explains": list(chk.broken)})
        chk.sample({"scenarios": res["scenarios"], "events": res["events"], "example_phases": res["leaves"][:6]})
    if extra is not None:
        extra(chk, info, res)
    if chk.tier == "thorough" and lean_ok:
        # independent replay of the kernel certificates (every chunk module) with leanchecker, 8 at a time, once per tree
        from concurrent.futures import ThreadPoolExecutor

        mods = ["Poupool.Generated.ActorCerts"] + sorted("Poupool.Generated.Cert." + os.path.basename(f)[:-5] for f in glob.glob(os.path.join(GEN, "Cert", "*.lean")))
        with ThreadPoolExecutor(8) as ex:
            list(ex.map(lambda m: lean.leanchecker(chk, m), mods))
    return info, res


def dispatch_facts(chk, facts):
    """the settings this property speaks about reach the controller through the dispatcher: the facts of the regenerated
    dispatcher table it relies on (topic -> controller method, accepted range) are theorems of Properties/C14.lean"""
    code = "import sys; sys.path.insert(0, %r); import os; os.chdir(%r); sys.path.insert(0, %r)\nfrom translate import dispatch_table as T\nt, ch = T.regenerate()\nprint('ENTRIES', len(t['entries']))" % (VERIF, REPO, REPO)
    try:
        p = subprocess.run(["/venv/bin/python", "-c", code], capture_output=True, text=True, timeout=900, env={**os.environ, "POUPOOL_REPO": REPO})
        ok = p.returncode == 0 and "ENTRIES" in p.stdout
        chk.obligation("T3: dispatcher table extracted from the running Dispatcher and validated by probing", ok, (p.stdout + p.stderr)[-400:])
    except Exception as e:  # noqa: BLE001
        chk.obligation("T3: dispatcher table extracted from the running Dispatcher and validated by probing", False, repr(e)[:300])
        ok = False
    if ok:
        lean.check_theorems(chk, "Poupool.Properties.C14", ["Poupool.C14." + f if not f.startswith("Poupool.") else f for f in facts])


def handler_loops_obligation(chk):
    """side condition of the responsiveness theorem: every handler returns (no `while` loop in a method of an actor class)"""
    try:
        side = json.load(open(os.path.join(GEN, "askgraph.json")))
        loops = side.get("handler_loops")
        chk.obligation("T6: no `while` loop inside a method of an actor class (every handler returns to its inbox)", loops == [], json.dumps(loops)[:600])
    except Exception as e:  # noqa: BLE001
        chk.obligation("T6: no `while` loop inside a method of an actor class (every handler returns to its inbox)", False, repr(e)[:300])


def responsiveness(chk, actors):
    """the timing / polling clauses of this property presuppose that its controllers never block for ever: the ranked
    ask-graph theorem of C09 on the regenerated graph, and any cyclic wait the explored runs hit that involves `actors`"""
    lean.check_theorems(chk, "Poupool.Properties.C09", ["Poupool.C09.strict_graph_ranked", "Poupool.C09.no_wait_cycle"])
    handler_loops_obligation(chk)
    from checks import blocking_common as _bc
    _bc.obligations(chk)
    try:
        res = exploration(chk)
    except Exception:  # noqa: BLE001
        return
    for k, f in sorted(res["findings"].items()):
        if f["property"] == "C09" and f["key"].startswith("deadlock") and any(a in f["key"] for a in actors):
            chk.violation(f["key"], f"{f['what']}: {', '.join(a for a in actors if a in f['key'])} stop(s) processing requests, so the clauses of this property that rely on its polls can no longer hold", {"kind": "scenario", "scenario": f["scenario"], "step": f["step"]})


def timing_theorems(chk, theorems):
    """timed theorems (Properties/Timing.lean over Model/Timed.lean): phases end on time / last / polls keep their period"""
    ok = lean.check_theorems(chk, "Poupool.Properties.Timing", theorems)
    chk.assumptions.append("timed theorems: scheduling assumption `lag` (the armed delayed call is delivered, and any other event handled, no later than lag after the call is due; the property statements use 2 s); a handler takes no time; durations are the values config.ini has at translation time and the duration settings as read by the arming handler")
    return ok


def replay(path):
    from sim import monitors, scenario

    data = json.load(open(path))
    rp = data.get("replay", data)
    if rp.get("config_variant"):
        from checks import altcfg

        return altcfg.replay(data)
    if rp.get("kind") == "sensor":
        from checks import tank_common

        return tank_common.replay_sensor(rp)
    if rp.get("kind") == "mainrun":
        from checks import main_wiring

        return main_wiring.replay(data)
    scn = rp.get("scenario", rp)
    if "actions" not in scn:
        print("no scenario in this replay file:", json.dumps(data)[:400])
        return 2
    r = scenario.run_scenario(scn, monitors.all_monitors())
    for f in r.findings:
        print(json.dumps({k: f[k] for k in ("property", "key", "what", "step")}))
    print("states", r.sys.states())
    print("outputs", r.sys.outputs())
    pid = data.get("property")
    return 1 if any(f["property"] == pid for f in r.findings) or (pid is None and r.findings) else 0
