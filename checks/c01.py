"""C01: per-actor certificates + glue (see lean/Poupool/Properties/C01.lean and checks/actors_common.py)."""
from checks import actors_common as ac

THEOREMS = ['Poupool.C01.halt_left_only_by_mode_requests', 'Poupool.C01.switch_off_is_high', 'Poupool.C01.pump_speed_one_hot', 'Poupool.C01.filtration_halt', 'Poupool.C01.filtration_halt_accepted_everywhere', 'Poupool.C01.filtration_halt_lands_in_halt', 'Poupool.C01.heating_off_unless_heating_or_forcing', 'Poupool.C01.swim_off_when_halted', 'Poupool.C01.disinfection_cancels_pwm_when_halted', 'Poupool.C01.pwm_on_only_while_armed', 'Poupool.C01.disinfection_slave_ok', 'Poupool.C01.glue_disinfection', 'Poupool.C01.heating_force_slave_ok', 'Poupool.C01.heating_heat_slave_ok', 'Poupool.C01.swim_slave_ok', 'Poupool.C01.glue_swim', 'Poupool.C01.glue_heating_not_forcing', 'Poupool.C01.glue_heating_not_heating', 'Poupool.C01.pwm_slave_ok', 'Poupool.C01.glue_pwm']
COMPOSE = ['Poupool.ComposeProps.only_master_starts', 'Poupool.ComposeProps.tells_filtDis', 'Poupool.ComposeProps.filtDis_discipline', 'Poupool.ComposeProps.filtDis_composed_halt', 'Poupool.ComposeProps.tells_filtSwim', 'Poupool.ComposeProps.filtSwim_discipline', 'Poupool.ComposeProps.filtSwim_composed_halt', 'Poupool.ComposeProps.tells_filtHeat', 'Poupool.ComposeProps.filtHeat_discipline', 'Poupool.ComposeProps.filtHeat_composed_halt', 'Poupool.ComposeProps.tells_filtHeatSched', 'Poupool.ComposeProps.filtHeatSched_discipline', 'Poupool.ComposeProps.filtHeatSched_composed', 'Poupool.ComposeProps.tells_disPwm', 'Poupool.ComposeProps.disPwm_discipline', 'Poupool.ComposeProps.disPwm_composed_halt', 'Poupool.ComposeProps.tells_disPwmCl', 'Poupool.ComposeProps.disPwmCl_discipline', 'Poupool.ComposeProps.disPwmCl_composed_halt', 'Poupool.ComposeProps.filtDis_demo', 'Poupool.ComposeProps.filtSwim_demo', 'Poupool.ComposeProps.filtHeat_demo', 'Poupool.ComposeProps.disPwm_demo']
MODULE = "Poupool.Properties.C01"


def run(chk):
    from vlib import lean as _lean
    ac.run_actor_property(chk, MODULE, THEOREMS, monitor_pids=["C01"], extra=globals().get("extra"))
    ac.dispatch_facts(chk, ['C14_fact_routing', 'C14_fact_modes'])
    from checks import c18 as _c18
    _c18.swim_device_correspondence(chk)  # halting the pump relies on SwimPumpDevice.off() de-energising under every DAC fault pattern
    from checks import main_wiring as _mw
    _mw.run(chk, [chk.pid])
    _lean.check_theorems(chk, "Poupool.Properties.Compose", COMPOSE)
    _lean.check_theorems(chk, "Poupool.Properties.Compose3", ["Poupool.Compose3Props.chain_halt_ph", "Poupool.Compose3Props.chain_halt_cl"])


def search(chk):
    from checks import range_search as _rs
    _rs.search(chk, [chk.pid])
    res = ac.exploration(chk)
    for k, f in sorted(res["findings"].items()):
        if f["property"] == "C01":
            chk.violation(f["key"], f["what"], {"kind": "scenario", "scenario": f["scenario"], "step": f["step"]})


def replay(path):
    return ac.replay(path)


def extra(chk, info, res):
    """GPIO contract of the output devices: exhaustive comparison of the real SwitchDevice / PumpDevice with Model/Devices.lean"""
    import json
    import os
    import subprocess

    from vlib.common import REPO, VERIF

    code = r'''
import sys, json
sys.path.insert(0, %r)
from sim.system import bootstrap
bootstrap()
import controller.device as D
class G:
    OUT = 0
    def __init__(self): self.lv = {}
    def setup(self, *a): pass
    def output(self, pins, vals):
        if isinstance(pins, (list, tuple)):
            vals = vals if isinstance(vals, (list, tuple)) else [vals] * len(pins)
            for p, v in zip(pins, vals): self.lv[p] = bool(v)
        else: self.lv[pins] = bool(vals)
g = G()
out = {}
sw = D.SwitchDevice("x", g, 7)
out["init"] = g.lv[7]
sw.on(); out["on"] = g.lv[7]
sw.off(); out["off"] = g.lv[7]
p = D.PumpDevice("v", g, [1, 2, 3, 4])
out["pinit"] = [g.lv[i] for i in (1, 2, 3, 4)]
out["speed"] = {}
for v in range(4):
    p.speed(v); out["speed"][v] = [g.lv[i] for i in (1, 2, 3, 4)]
p.on(); out["pon"] = [g.lv[i] for i in (1, 2, 3, 4)]
p.off(); out["poff"] = [g.lv[i] for i in (1, 2, 3, 4)]
bad = []
for v in (-1, 4, 7):
    try:
        p.speed(v); bad.append(v)
    except AssertionError:
        pass
out["accepted_out_of_range"] = bad
print("RESULT " + json.dumps(out))
''' % VERIF
    p = subprocess.run(["/venv/bin/python", "-c", code], capture_output=True, text=True, timeout=300, env={**os.environ, "POUPOOL_REPO": REPO})
    real = None
    for line in p.stdout.split("\n"):
        if line.startswith("RESULT "):
            real = json.loads(line[7:])
    if real is None:
        chk.obligation("harness: real SwitchDevice/PumpDevice on a recording GPIO", False, (p.stdout + p.stderr)[-800:])
        return
    model_speed = {str(v): [i != v for i in range(4)] for v in range(4)}
    ok = (real["init"] is True and real["on"] is False and real["off"] is True and real["pinit"] == [True] * 4
          and {k: v for k, v in real["speed"].items()} == model_speed and real["pon"] == model_speed["3"] and real["poff"] == model_speed["0"]
          and real["accepted_out_of_range"] == [])
    chk.correspondence("SwitchDevice.on/off and PumpDevice.speed(0..3)/on/off (REAL classes, recording GPIO) vs Model/Devices.lean: exhaustive", 10, 0 if ok else 1, detail=None if ok else [real])
    if not ok:
        chk.violation("gpio-contract", f"the output devices do not drive the pins as specified (active low, one-hot speed select): {json.dumps(real)[:300]}", {"kind": "gpio", "real": real})
