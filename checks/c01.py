"""C01: per-actor certificates + glue (see lean/Poupool/Properties/C01.lean and checks/actors_common.py)."""
from checks import actors_common as ac

THEOREMS = ['Poupool.C01.filtration_halt', 'Poupool.C01.filtration_halt_accepted_everywhere', 'Poupool.C01.filtration_halt_lands_in_halt', 'Poupool.C01.heating_off_unless_heating_or_forcing', 'Poupool.C01.swim_off_when_halted', 'Poupool.C01.disinfection_cancels_pwm_when_halted', 'Poupool.C01.pwm_on_only_while_armed', 'Poupool.C01.disinfection_slave_ok', 'Poupool.C01.glue_disinfection', 'Poupool.C01.heating_force_slave_ok', 'Poupool.C01.heating_heat_slave_ok', 'Poupool.C01.swim_slave_ok', 'Poupool.C01.glue_swim', 'Poupool.C01.glue_heating_not_forcing', 'Poupool.C01.glue_heating_not_heating', 'Poupool.C01.pwm_slave_ok', 'Poupool.C01.glue_pwm']
MODULE = "Poupool.Properties.C01"


def run(chk):
    ac.run_actor_property(chk, MODULE, THEOREMS, monitor_pids=["C01"], extra=globals().get("extra"))


def search(chk):
    res = ac.exploration(chk)
    for k, f in sorted(res["findings"].items()):
        if f["property"] == "C01":
            chk.violation(f["key"], f["what"], {"kind": "scenario", "scenario": f["scenario"], "step": f["step"]})


def replay(path):
    return ac.replay(path)
