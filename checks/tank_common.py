"""Differential correspondence of the Tank decision model (lean/Poupool/Model/Tank.lean) with the REAL poll methods of
controller/tank.py, and timing monitors for C04 / C05 on the real composed system."""
from __future__ import annotations

import json
import os
import random
import subprocess
import sys

VERIF = os.path.dirname(os.path.dirname(os.path.abspath(__file__)))
sys.path.insert(0, VERIF)
from vlib import lean  # noqa: E402
from vlib.common import REPO  # noqa: E402

_CODE = r'''
import sys, json, datetime
sys.path.insert(0, %r)
from sim.system import PoolSystem
s = PoolSystem()
w = s.world
tank = w.actor("Tank")
filt = w.actor("Filtration")
machine = tank._Tank__machine
from controller.tank import Tank
import controller.actor as A
cases = json.loads(sys.stdin.read())
out = []
class Exact:
    name = "tank"
    value = 0
tank._Tank__devices._DeviceRegistry__sensors["tank"] = Exact
for (leaf, h, tis_us, set_) in cases:
    tank.levels = tank.levels_eco if set_ == "eco" else tank.levels_overflow
    machine.set_state(leaf)
    # time in state
    machine._PoupoolModel__state_time = A.datetime.now() - datetime.timedelta(microseconds=tis_us)
    Exact.value = h / 10.0  # levels in tenths of a percent: the sensor value is a float
    tank.actor_inbox.items.clear(); filt.actor_inbox.items.clear()
    tank.do_cancel()
    n0 = len(w.log)
    getattr(tank, "do_repeat_" + leaf)()
    told_self = w.inbox_names("Tank")
    told_f = w.inbox_names("Filtration")
    timers = [e[2] for e in w.log[n0:] if e[1] == "timer_start"]
    if timers:
        act = "rearm %%d" %% int(round(timers[-1][2] * 2))
    elif "halt" in told_f and "halt" in told_self:
        act = "emergency"
    elif told_f or len(told_self) != 1:
        act = "?%%s/%%s" %% (told_self, told_f)
    else:
        act = told_self[0]
    out.append(act)
    tank.actor_inbox.items.clear(); filt.actor_inbox.items.clear()
cfg = {"hyst": Tank.hysteresis, "tooLow": Tank.levels_too_low, "eco": Tank.levels_eco, "overflow": Tank.levels_overflow}
print("RESULT " + json.dumps({"acts": out, "cfg": cfg}))
''' % VERIF


def gen_cases(rng, n, cfg):
    cases = []
    tl, hy = cfg["tooLow"], cfg["hyst"]
    for set_ in ("eco", "overflow"):
        lo, hi = cfg[set_]["low"], cfg[set_]["high"]
        marks = sorted({0, tl - 1, tl, tl + 1, lo - hy - 1, lo - hy, lo - hy + 1, lo + hy - 1, lo + hy, lo + hy + 1, hi - hy - 1, hi - hy, hi - hy + 1, hi + hy - 1, hi + hy, hi + hy + 1, 100})
        for leaf in ("fill", "low", "normal", "high"):
            for h in marks:
                if 0 <= h <= 100:
                    for tis in (0, 7199_000_000, 7200_000_000, 7201_000_000, 21599_000_000, 21600_000_000, 21601_000_000):
                        cases.append((leaf, h * 10, tis, set_))
                    # non-integer readings just around every threshold (the sensor delivers a float)
                    for d in (-6, -5, -4, -1, 1, 4, 5, 6):
                        if 0 <= h * 10 + d <= 1000:
                            cases.append((leaf, h * 10 + d, 0, set_))
    while len(cases) < n:
        cases.append((rng.choice(["fill", "low", "normal", "high"]), rng.randint(0, 1000), rng.choice([0, rng.randint(0, 30000) * 1_000_000]), rng.choice(["eco", "overflow"])))
    return cases


def read_cfg():
    import configparser

    c = configparser.ConfigParser()
    c.read(os.path.join(REPO, "config.ini"))
    t = c["tank"]
    return {"hyst": int(t["hysteresis"]), "tooLow": int(t["too_low"]), "eco": {"low": int(t["eco_low"]), "high": int(t["eco_high"])}, "overflow": {"low": int(t["overflow_low"]), "high": int(t["overflow_high"])}}


def decisions_correspondence(chk, n=None):
    rng = random.Random(chk.seed)
    cfg = read_cfg()
    n = n or (1500 if chk.tier == "quick" else 20000)
    cases = gen_cases(rng, n, cfg)
    p = subprocess.run(["/venv/bin/python", "-c", _CODE], input=json.dumps(cases), capture_output=True, text=True, timeout=900, env={**os.environ, "POUPOOL_REPO": REPO})
    real = None
    for line in p.stdout.split("\n"):
        if line.startswith("RESULT "):
            real = json.loads(line[7:])
    if real is None:
        chk.obligation("harness: real Tank poll methods callable with a stubbed sensor", False, (p.stdout + p.stderr)[-1500:])
        return None
    chk.obligation("config.ini [tank] as read by the harness = class constants of the running code", real["cfg"] == cfg, json.dumps(real["cfg"]))
    lines = []
    for (leaf, h, tis, set_) in cases:
        lv = cfg[set_]
        # the model compares integers: levels and thresholds are both given in tenths of a percent
        lines.append(f"{leaf} {h} {tis} {cfg['tooLow'] * 10} {lv['low'] * 10} {lv['high'] * 10} {cfg['hyst'] * 10}")
    model = lean.driver("Poupool/Drivers/Tank.lean", lines)
    bad = [(c, r, m) for c, r, m in zip(cases, real["acts"], model) if r != m]
    dist = {}
    for r in real["acts"]:
        dist[r] = dist.get(r, 0) + 1
    chk.correspondence("Tank.do_repeat_fill/low/normal/high (REAL methods, stubbed sensor, both level sets, boundary grid + random) vs Model/Tank.lean", len(cases), len(bad), distribution=dist, detail=bad[:5] or None)
    chk.sample({"case": cases[0], "real": real["acts"][0], "model": model[0]})
    # a poll that neither re-arms nor requests a transition ends the polling of its phase: with the valve open (fill, low) it
    # stays open and the time limit is never looked at again; in any phase the too-low stop is never reached
    for (c, r, m) in bad:
        if r.startswith("?[]/[]"):
            leaf, h, tis, set_ = c
            chk.violation(f"tank-poll-stops:{leaf}", f"Tank.do_repeat_{leaf} with level {h / 10:.1f} % ({set_} level set, {tis / 1e6:.0f} s in the phase) neither re-arms its poll nor requests a transition (specified: {m}): the tank controller stops polling" + (" with the mains valve open" if leaf in ("fill", "low") else ""),
                          {"kind": "tank-poll", "leaf": leaf, "level_tenths": h, "time_in_state_us": tis, "level_set": set_, "real": r, "specified": m})
            break
    # the configured thresholds must satisfy the validity predicate the theorems assume
    valid = all(cfg["hyst"] >= 0 and cfg["tooLow"] <= cfg[s]["low"] - cfg["hyst"] and cfg[s]["low"] + cfg["hyst"] <= cfg[s]["high"] - cfg["hyst"] for s in ("eco", "overflow"))
    chk.obligation("config.ini thresholds satisfy Valid (too_low ≤ low − hyst, low + hyst ≤ high − hyst) for both level sets", valid, json.dumps(cfg))
    lean_cfg_ok = cfg == {"hyst": 5, "tooLow": 10, "eco": {"low": 30, "high": 70}, "overflow": {"low": 20, "high": 60}}
    if not lean_cfg_ok:
        chk.note("config.ini differs from the literals of C04.config_valid (the generic theorems still apply to any Valid configuration)")
    return bad


_SENSOR_CODE = r'''
import sys, json
sys.path.insert(0, %r)
from sim.system import bootstrap
bootstrap()
from sim import runtime
import datetime
w = runtime.World(datetime.datetime(2024,1,1))
import controller.device as D
class Adc:
    def __init__(self, seq): self.seq = list(seq); self.gain = None
    def read(self, ch):
        v = self.seq.pop(0)
        if v is None: raise OSError("adc")
        return v
cases = json.loads(sys.stdin.read())
out = []
for seq, low, high in cases:
    t0 = w.now_us
    dev = D.TankSensorDevice("tank", Adc(seq), 1, 2/3, low, high)
    v = dev.value
    out.append([v, (w.now_us - t0) / 1e6])
print("RESULT " + json.dumps(out))
''' % VERIF


SENSOR_SHAPES = {
    "TankSensorDevice.value": """@property
def value(self):
    values = []
    for _ in range(10):
        try:
            values.append(self.__adc.read(self.__channel))
            time.sleep(0.05)
        except OSError:
            time.sleep(0.5)
    value = sum(values) / len(values) if values else 0
    return constrain(mapping(value, self.__low, self.__high, 0, 100), 0, 100)""",
    "mapping": """def mapping(x, in_min, in_max, out_min, out_max):
    return (x - in_min) * (out_max - out_min) / (in_max - in_min) + out_min""",
    "constrain": """def constrain(x, out_min, out_max):
    return min(max(x, out_min), out_max)""",
}


def _normalised(fn):
    """ast.unparse without logging statements and docstrings"""
    import ast

    class Strip(ast.NodeTransformer):
        def visit_Expr(self, node):
            if isinstance(node.value, ast.Constant) and isinstance(node.value.value, str):
                return None
            if isinstance(node.value, ast.Call) and ast.unparse(node.value.func).startswith("logger."):
                return None
            return node

    fn = Strip().visit(fn)
    ast.fix_missing_locations(fn)
    return ast.unparse(fn)


def sensor_shapes(chk):
    """the three functions Model/Sensor.lean mirrors have the statement shape the model was written against"""
    import ast

    found = {}
    t = ast.parse(open(os.path.join(REPO, "controller", "device.py")).read())
    for c in ast.walk(t):
        if isinstance(c, ast.ClassDef) and c.name == "TankSensorDevice":
            for f in c.body:
                if isinstance(f, ast.FunctionDef) and f.name == "value":
                    found["TankSensorDevice.value"] = _normalised(f)
    t = ast.parse(open(os.path.join(REPO, "controller", "util.py")).read())
    for f in t.body:
        if isinstance(f, ast.FunctionDef) and f.name in ("mapping", "constrain"):
            found[f.name] = _normalised(f)
    dev = [k for k, v in SENSOR_SHAPES.items() if found.get(k) != v]
    chk.obligation("shape: TankSensorDevice.value, util.mapping, util.constrain are the statements Model/Sensor.lean mirrors (logging removed)", not dev,
                   "; ".join(f"{k}: {found.get(k, 'MISSING')[:300]!r}" for k in dev))
    import configparser
    cfgp = configparser.ConfigParser()
    d = os.environ.get("POUPOOL_CONFIG_DIR") or REPO
    cfgp.read([os.path.join(d, "config.ini"), os.path.join(d, "config.ini.local")])
    try:
        low, high = int(cfgp.get("adc", "low")), int(cfgp.get("adc", "high"))
    except Exception as e:  # noqa: BLE001
        chk.obligation("config.ini [adc] low/high readable", False, repr(e))
        return 83, 1665
    chk.obligation("config.ini [adc] calibration satisfies Sensor.Valid (0 ≤ low < high): the hypothesis of dead_sensor_reads_zero / value_in_range", 0 <= low < high, f"low={low} high={high}")
    return low, high


SENSOR_THEOREMS = ["Poupool.SensorProps." + t for t in ("dead_sensor_reads_zero", "dead_sensor_needs_nonneg_low", "value_in_range", "reading_time", "dead_reading_time", "low_readings_read_low", "high_readings_read_high", "steady_reading")]


def sensor_check(chk):
    """TankSensorDevice.value against Model/Sensor.lean: theorems, shape, exact differential (elapsed time, clamped results;
    the unclamped fraction within float rounding); dead ADC -> 0 within 5 s; always within [0, 100]."""
    from fractions import Fraction

    lean.check_theorems(chk, "Poupool.Properties.Sensor", SENSOR_THEOREMS)
    lean.check_theorems(chk, "Poupool.Properties.C04", ["Poupool.C04.flaky_sensor_no_false_alarm"])  # sensor model + poll decisions, end to end
    low, high = sensor_shapes(chk)
    rng = random.Random(chk.seed + 7)
    cases = [([None] * 10, low, high), ([None] * 9 + [0], low, high), ([low] * 10, low, high), ([high] * 10, low, high), ([high + 1] + [None] * 9, low, high), ([low - 1] * 10, low, high)]
    for _ in range(300 if chk.tier == "quick" else 3000):
        seq = [None if rng.random() < rng.choice([0.0, 0.3, 0.9]) else rng.choice([0, low, 500, high, 3000, rng.randint(0, 4095), rng.randint(max(0, low - 3), low + 3), rng.randint(high - 3, high + 3)]) for _ in range(10)]
        cases.append((seq, low, high))
    for _ in range(40 if chk.tier == "quick" else 400):  # other calibrations
        lo = rng.randint(0, 500)
        hi = lo + rng.randint(1, 3000)
        cases.append(([None if rng.random() < 0.3 else rng.randint(0, 4095) for _ in range(10)], lo, hi))
    p = subprocess.run(["/venv/bin/python", "-c", _SENSOR_CODE], input=json.dumps(cases), capture_output=True, text=True, timeout=600, env={**os.environ, "POUPOOL_REPO": REPO})
    res = None
    for line in p.stdout.split("\n"):
        if line.startswith("RESULT "):
            res = json.loads(line[7:])
    if res is None:
        chk.obligation("harness: real TankSensorDevice on a fake ADC", False, (p.stdout + p.stderr)[-1200:])
        return
    model = lean.driver("Poupool/Drivers/Sensor.lean", [f"{lo} {hi} " + " ".join("N" if x is None else str(x) for x in seq) for seq, lo, hi in cases])
    bad, diff = [], []
    dist = {"all failed": 0, "clamped 0": 0, "clamped 100": 0, "inside": 0}
    for (seq, lo, hi), (v, dur), m in zip(cases, res, model):
        ok = 0 <= v <= 100 and dur <= 5.0 + 1e-6
        if all(x is None for x in seq):
            ok = ok and v == 0
            dist["all failed"] += 1
        if not ok:
            bad.append((seq, v, dur, lo, hi))
        try:
            num, den, ms = (int(x) for x in m.split())
        except ValueError:
            diff.append((seq, lo, hi, v, m))
            continue
        exact = Fraction(num, den)
        clamped = (num, den) in ((0, 1), (100, 1)) or num == 0
        dist["clamped 0" if exact == 0 else "clamped 100" if (num, den) == (100, 1) else "inside"] += 1
        same = (Fraction(v) == exact) if clamped else abs(Fraction(v) - exact) <= Fraction(1, 10**9)
        if not same or abs(dur * 1000 - ms) > 1e-3:
            diff.append((seq, lo, hi, [v, dur], m))
    chk.correspondence("TankSensorDevice.value = Sensor.value on fault patterns and calibrations (elapsed time and clamped results exact, the fraction within 1e-9)", len(cases), len(diff), distribution=dist, detail=diff[:3] or None)
    chk.correspondence("TankSensorDevice.value on fault patterns: result in [0,100], dead ADC reads 0, one reading takes ≤ 5 s (R of C04.latency_bound)", len(cases), len(bad), detail=bad[:3] or None)
    # low_readings_read_low / high_readings_read_high on the REAL class: failed attempts never move the level across a threshold
    crossed, nlow, nhigh = [], 0, 0
    for (seq, lo, hi), (v, dur) in zip(cases, res):
        good = [x for x in seq if x is not None]
        if not good or not 0 <= lo < hi:
            continue
        for pct in (10, 20, 40, 50, 80, 100):
            if all((g - lo) * 100 + 100 <= pct * (hi - lo) for g in good):
                nlow += 1
                if not v < pct:
                    crossed.append((seq, lo, hi, pct, v, "every successful reading is below the raw count of the threshold, value is not"))
            if all(pct * (hi - lo) <= (g - lo) * 100 for g in good):
                nhigh += 1
                if not v >= pct - 1e-9:
                    crossed.append((seq, lo, hi, pct, v, "every successful reading is at or above the raw count of the threshold, value is below"))
    chk.correspondence("TankSensorDevice.value respects low_readings_read_low / high_readings_read_high (failed attempts never move the level across a threshold)", nlow + nhigh, len(crossed),
                       distribution={"all readings below a threshold": nlow, "all readings at or above a threshold": nhigh}, detail=crossed[:3] or None)
    for b in crossed[:1]:
        chk.violation("tank-sensor-threshold-crossed", f"TankSensorDevice.value gave {b[4]} for ADC pattern {b[0]} (calibration {b[1]}..{b[2]}, threshold {b[3]} %): {b[5]}", {"kind": "sensor", "pattern": b[0], "low": b[1], "high": b[2], "threshold": b[3]})
    for b in bad[:1]:
        chk.violation("tank-sensor-dead-adc", f"TankSensorDevice.value gave {b[1]} after {b[2]} s for ADC pattern {b[0]}", {"kind": "sensor", "pattern": b[0], "low": b[3], "high": b[4]})


def replay_sensor(rp):
    """re-run one ADC pattern on the REAL TankSensorDevice: 1 = the reading still breaks the sensor contract"""
    seq, lo, hi = rp["pattern"], rp.get("low", 83), rp.get("high", 1665)
    p = subprocess.run(["/venv/bin/python", "-c", _SENSOR_CODE], input=json.dumps([[seq, lo, hi]]), capture_output=True, text=True, timeout=600, env={**os.environ, "POUPOOL_REPO": REPO})
    res = [json.loads(line[7:]) for line in p.stdout.split("\n") if line.startswith("RESULT ")]
    if not res:
        print((p.stdout + p.stderr)[-800:])
        return 2
    v, dur = res[0][0]
    good = [x for x in seq if x is not None]
    print("pattern", seq, "calibration", lo, hi, "-> value", v, "after", dur, "s")
    fail = not 0 <= v <= 100 or dur > 5.0 + 1e-6 or (not good and v != 0)
    for pct in ([rp["threshold"]] if "threshold" in rp else (10, 20, 40, 50, 80, 100)):
        if good and all((g - lo) * 100 + 100 <= pct * (hi - lo) for g in good) and not v < pct:
            print(f"every successful reading is below the raw count of {pct} %, the value is not")
            fail = True
        if good and all(pct * (hi - lo) <= (g - lo) * 100 for g in good) and not v >= pct - 1e-9:
            print(f"every successful reading is at or above the raw count of {pct} %, the value is below")
            fail = True
    return 1 if fail else 0


def latency_monitor(chk):
    """C04 on the real composed system: drop the level (or kill the ADC) at generated offsets in every phase in which the
    tank runs; the halt must be published within 30 s."""
    from sim import scenario

    rng = random.Random(chk.seed + 11)
    worst = 0.0
    n = 0
    modes = [("eco", 80, "high"), ("eco", 50, "normal"), ("eco", 28, "low"), ("standby", 50, "normal"), ("standby", 80, "high"), ("overflow", 80, "high"), ("comfort", 50, "normal"), ("sweep", 50, "normal")]
    reps = 2 if chk.tier == "quick" else 12
    for mode, lvl, leaf in modes:
        for _ in range(reps):
            off = rng.choice([0.0, 0.3, 4.9, 5.0, 9.9, 10.0, rng.uniform(0, 20)])
            dead = rng.random() < 0.6
            acts = [["tank", lvl], ["mqtt", "/settings/mode", "eco"], ["run", 150]]
            if mode in ("standby", "overflow", "comfort", "sweep"):
                acts += [["mqtt", "/settings/mode", "standby" if mode != "overflow" else "overflow"], ["run", 420]]
                if mode == "comfort":
                    acts += [["mqtt", "/settings/mode", "comfort"], ["run", 30]]
                if mode == "sweep":
                    acts += [["mqtt", "/settings/mode", "sweep"], ["run", 30]]
            acts += [["run", off]]
            r = scenario.Runner({"tank_raw": 1000.0, "cover_rate": 25.0}, [])
            for a in acts:
                r.do(a)
            st = r.sys.state("Tank")
            if st not in ("low", "normal", "high"):
                r.world.close()
                continue
            t0 = r.world.now_us
            if dead:
                r.sys.adc.fault = True
            else:
                r.sys.set_tank_level(rng.choice([0, 5, 9, 9.5, 9.7, 9.9]))
            r.run_prompt(60)
            th = [e[0] for e in r.world.log if e[1] == "publish" and e[2][0] == "/status/filtration/state" and e[2][1] == "halt" and e[0] > t0]
            lat = (th[0] - t0) / 1e6 if th else None
            n += 1
            key_mode = r.sys.state("Filtration")
            r.world.close()
            if lat is None or lat > 30.0:
                chk.violation(f"tank-halt-latency:{st}:{'dead-sensor' if dead else 'too-low'}", f"level {'sensor dead' if dead else 'below too_low'} in tank state {st} (mode {mode}): halt after {lat} s (> 30 s)",
                              {"kind": "latency", "actions": acts, "dead": dead, "latency": lat})
            else:
                worst = max(worst, lat)
    chk.correspondence("C04 monitor on the real composed system: level drop / dead ADC at generated offsets in every mode -> halt within 30 s", n, 0, distribution={"worst_latency_s": round(worst, 2)})
    chk.extra["worst_halt_latency_s"] = round(worst, 2)
