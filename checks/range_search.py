"""Failing-input search guided by the dispatcher table: when an obligation is broken, the accepted range of every MQTT topic
(regenerated from the running Dispatcher, translate/dispatch_table.py) is compared with the committed baseline of the pinned
tree (baseline/dispatch_ranges.json); every payload that is accepted now but was not is sent in every stable phase on the REAL
composed system with all monitors.  Only a search aid: nothing here decides a property by itself."""
from __future__ import annotations

import json
import os
import subprocess
import sys
from fractions import Fraction

from vlib.common import REPO, VERIF

BASE = os.path.join(VERIF, "baseline", "dispatch_ranges.json")


def current_table():
    code = r'''
import sys, json
sys.path.insert(0, %r); sys.path.insert(0, %r)
import dispatch_table as dt
t = dt.extract()
print("RESULT " + dt.to_json({"entries": t["entries"]}))
''' % (VERIF, os.path.join(VERIF, "translate"))
    p = subprocess.run(["/venv/bin/python", "-c", code], capture_output=True, text=True, timeout=900, env={**os.environ, "POUPOOL_REPO": REPO})
    i = p.stdout.find("RESULT ")
    if i < 0:
        raise RuntimeError((p.stdout + p.stderr)[-600:])
    return json.loads(p.stdout[i + 7:])["entries"]


def _accepts(pred, conv, payload):
    """does the table entry accept this payload (mirror of the dispatcher model, for candidate generation only)"""
    k = pred.get("kind")
    if k == "inSet":
        vals = pred["set"]
        return (payload.lower() in [v.lower() for v in vals]) if pred.get("ci") else payload in vals
    if k == "between":
        try:
            x = float(payload)
        except ValueError:
            return False
        if x != x:
            return False
        lo, hi = Fraction(pred["lo"]), Fraction(pred["hi"])
        return lo <= Fraction(payload) <= hi if payload.replace("-", "").replace(".", "").isdigit() else lo <= x <= hi
    return None  # unknown predicate kind


def candidates(old, new):
    out = []
    for e in new:
        o = next((x for x in old if x["topic"] == e["topic"]), None)
        if o is not None and o["pred"] == e["pred"] and o.get("conv") == e.get("conv"):
            continue
        pays = set()
        for p in (e["pred"], (o or {}).get("pred", {})):
            if p.get("kind") == "between":
                for b in (Fraction(p["lo"]), Fraction(p["hi"])):
                    for d in (-1, 0, 1):
                        v = b + d
                        pays.add(str(v.numerator) if v.denominator == 1 else str(float(v)))
            elif p.get("kind") == "inSet":
                pays.update(p["set"])
        pays.update(["0", "-1", "1"])
        for pay in sorted(pays):
            a_new = _accepts(e["pred"], e.get("conv"), pay)
            a_old = _accepts(o["pred"], o.get("conv"), pay) if o is not None else False
            if a_new and not a_old:
                out.append((e["topic"], pay))
    return out


def scenarios(cands):
    sys.path.insert(0, os.path.join(VERIF, "tools"))
    OPTS = {"tank_raw": 1000.0, "cover_rate": 25.0, "ph": 7.6, "orp": 550.0, "start": "2024-06-03T10:00:00"}
    COLD = {"tank_raw": 1000.0, "cover_rate": 25.0, "ph": 7.6, "orp": 550.0, "start": "2024-01-10T10:00:00"}
    pre = {
        "eco": (OPTS, [["temp", "pool", 28.0], ["mqtt", "/settings/filtration/duration", "86400"], ["mqtt", "/settings/mode", "eco"], ["run", 30]]),
        "standby": (OPTS, [["temp", "pool", 28.0], ["mqtt", "/settings/mode", "eco"], ["run", 20], ["mqtt", "/settings/mode", "standby"], ["run", 400]]),
        "overflow": (OPTS, [["temp", "pool", 28.0], ["mqtt", "/settings/mode", "eco"], ["run", 20], ["mqtt", "/settings/mode", "overflow"], ["run", 400], ["mqtt", "/settings/swim/mode", "continuous"], ["run", 5]]),
        "comfort": (OPTS, [["temp", "pool", 28.0], ["mqtt", "/settings/mode", "eco"], ["run", 20], ["mqtt", "/settings/mode", "standby"], ["run", 400], ["mqtt", "/settings/mode", "comfort"], ["run", 30]]),
        "halt": (OPTS, [["run", 5]]),
        "wintering": (COLD, [["temp", "air", -5.0], ["temp", "ncc", -5.0], ["mqtt", "/settings/mode", "wintering"], ["run", 600]]),
    }
    after = [["run", 1500], ["mqtt", "/settings/mode", "eco"], ["run", 1500], ["mqtt", "/settings/mode", "standby"], ["run", 500], ["mqtt", "/settings/mode", "halt"], ["run", 12]]
    out = []
    for (topic, pay) in cands:
        for name, (opts, prefix) in pre.items():
            out.append({"opts": opts, "actions": prefix + [["mqtt", topic, pay]] + after})
            # the value set first, the mode entered afterwards
            out.append({"opts": opts, "actions": [["mqtt", topic, pay]] + prefix + after})
    return out


_RUN = r'''
import sys, json
sys.path.insert(0, %r)
from sim.system import bootstrap
bootstrap()
from sim import scenario, monitors
out = []
for scn in json.loads(sys.stdin.read()):
    try:
        r = scenario.run_scenario(scn, monitors.all_monitors())
        out.append([{k: f[k] for k in ("property", "key", "what", "step")} for f in r.findings])
        r.world.close()
    except BaseException as e:
        out.append([])
print("RESULT " + json.dumps(out))
''' % VERIF


def search(chk, pids):
    try:
        old = json.load(open(BASE))["entries"]
        new = current_table()
    except Exception as e:  # noqa: BLE001
        chk.note("range-guided search unavailable: " + repr(e)[:200])
        return 0
    cands = candidates(old, new)
    if not cands:
        return 0
    scns = scenarios(cands[:12])
    p = subprocess.run(["/venv/bin/python", "-c", _RUN], input=json.dumps(scns), capture_output=True, text=True, timeout=3000, env={**os.environ, "POUPOOL_REPO": REPO})
    i = p.stdout.find("RESULT ")
    if i < 0:
        chk.note("range-guided search harness failed: " + (p.stdout + p.stderr)[-300:])
        return 0
    res = json.loads(p.stdout[i + 7:])
    n = 0
    for scn, fs in zip(scns, res):
        for f in fs:
            if f["property"] in pids:
                n += 1
                chk.violation(f["key"], f["what"] + f" (payload newly accepted by the dispatcher: {[a for a in scn['actions'] if a[0] == 'mqtt' and (a[1], a[2]) in cands]})", {"kind": "scenario", "scenario": scn, "step": f["step"]})
    chk.note(f"range-guided search: {len(cands)} newly accepted (topic, payload) pairs {cands[:6]}, {len(scns)} scenarios, {n} findings for {pids}")
    return n


if __name__ == "__main__":
    os.makedirs(os.path.dirname(BASE), exist_ok=True)
    ent = current_table()
    json.dump({"entries": ent, "note": "accepted range of every MQTT topic on the pinned tree (search aid only)"}, open(BASE, "w"), indent=1)
    print("baseline written:", len(ent), "entries")
