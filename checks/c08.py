"""C08: per-actor certificates + glue (see lean/Poupool/Properties/C08.lean and checks/actors_common.py)."""
from checks import actors_common as ac

THEOREMS = ['Poupool.C08.filtration_timers', 'Poupool.C08.tank_timers', 'Poupool.C08.heating_timers', 'Poupool.C08.disinfection_timers', 'Poupool.C08.swim_timers', 'Poupool.C08.arduino_timers', 'Poupool.C08.filtration_timeouts', 'Poupool.C08.filtration_poll_periods', 'Poupool.C08.other_timeouts', 'Poupool.C08.durations_resolved']
TIMING = ['Poupool.Timing.filtration_const_end_on_time', 'Poupool.Timing.filtration_setting_end_on_time', 'Poupool.Timing.filtration_polls', 'Poupool.Timing.heating_recovering', 'Poupool.Timing.heating_polls', 'Poupool.Timing.disinfection_end_on_time', 'Poupool.Timing.swim_wintering_stir', 'Poupool.Timing.swim_polls', 'Poupool.Timing.tank_polls']
MODULE = "Poupool.Properties.C08"


def run(chk):
    ac.run_actor_property(chk, MODULE, THEOREMS, monitor_pids=["C08"], extra=globals().get("extra"))
    ac.dispatch_facts(chk, ['C14_fact_routing', 'C14_fact_boost_duration', 'C14_fact_backwash_duration', 'C14_fact_rinse_duration'])
    ac.responsiveness(chk, ['Filtration', 'Tank', 'Heating', 'Disinfection', 'Swim', 'Arduino'])
    from checks import altcfg as _alt
    _alt.binding(chk, None)
    _alt.explore(chk, [chk.pid])
    ac.timing_theorems(chk, TIMING)


def search(chk):
    from checks import range_search as _rs
    _rs.search(chk, [chk.pid])
    res = ac.exploration(chk)
    for k, f in sorted(res["findings"].items()):
        if f["property"] == "C08":
            chk.violation(f["key"], f["what"], {"kind": "scenario", "scenario": f["scenario"], "step": f["step"]})


def replay(path):
    return ac.replay(path)


def extra(chk, info, res):
    # the poll methods as translated by the decision translator: which of them re-arm on every path is a theorem on the
    # regenerated functions (eco polls: eco_polls_rearm; the others re-arm or request an unconditional transition: tie theorems)
    from checks import decisions_common as _dc
    _dc.tie(chk, ["eco_polls", "open_polls", "tank", "heating", "winter_filtration", "winter_swim", "swim_timed", "cover"])
    if res is not None:
        ac.check_intervals(chk, res, None)
