"""C04: Tank decision model (Lean K1) + differential correspondence of the real poll methods + latency monitor."""
from checks import actors_common as ac
from checks import tank_common as tc

THEOREMS = ["Poupool.C04.too_low_chain", "Poupool.C04.dead_sensor_stops_the_system", "Poupool.C04.fill_limit", "Poupool.C04.config_valid", "Poupool.C04.latency_bound", "Poupool.C04.poll_periods",
            "Poupool.C01.filtration_halt_accepted_everywhere", "Poupool.C01.filtration_halt_lands_in_halt", "Poupool.C08.tank_timers", "Poupool.C01.filtration_halt"]
TIMING = ['Poupool.Timing.tank_limit_phases', 'Poupool.Timing.tank_polls']
MODULE = "Poupool.Properties.C04"


def extra(chk, info, res):
    from checks import decisions_common as _dc
    _dc.tie(chk, ['tank'])
    tc.decisions_correspondence(chk)
    tc.sensor_check(chk)
    tc.latency_monitor(chk)
    chk.assumptions += ["one sensor reading takes at most R = 5 s (ten failed ADC reads of 0.5 s; checked on the real device class)",
                        "delivery latencies (ε per message) come on top of the 25 s bound of C04.latency_bound"]


def run(chk):
    ac.run_actor_property(chk, MODULE, THEOREMS, monitor_pids=["C04", "C01"], extra=extra)  # the emergency stop ends in Filtration.halt: "stops the whole system" is C01 from there on
    ac.responsiveness(chk, ['Tank', 'Filtration'])
    from checks import altcfg as _alt
    _alt.binding(chk, ['tank'])
    ac.timing_theorems(chk, TIMING)


def search(chk):
    tc.latency_monitor(chk)


def replay(path):
    import json
    d = json.load(open(path))
    rp = d.get("replay", d)
    if rp.get("kind") == "latency":
        from sim import scenario
        r = scenario.Runner({"tank_raw": 1000.0, "cover_rate": 25.0}, [])
        for a in rp["actions"]:
            r.do(a)
        t0 = r.world.now_us
        if rp["dead"]:
            r.sys.adc.fault = True
        else:
            r.sys.set_tank_level(0)
        r.run_prompt(60)
        th = [e[0] for e in r.world.log if e[1] == "publish" and e[2][0] == "/status/filtration/state" and e[2][1] == "halt" and e[0] > t0]
        lat = (th[0] - t0) / 1e6 if th else None
        print("latency", lat)
        return 1 if lat is None or lat > 30 else 0
    return ac.replay(path)
