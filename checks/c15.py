"""C15: per-actor certificates + glue (see lean/Poupool/Properties/C15.lean and checks/actors_common.py)."""
from checks import actors_common as ac

THEOREMS = ['Poupool.C15.filtration_state_published', 'Poupool.C15.tank_state_published', 'Poupool.C15.heating_state_published', 'Poupool.C15.disinfection_state_published', 'Poupool.C15.swim_state_published', 'Poupool.C15.light_state_published']
MODULE = "Poupool.Properties.C15"


def run(chk):
    ac.run_actor_property(chk, MODULE, THEOREMS, monitor_pids=["C15"], extra=globals().get("extra"))


def search(chk):
    res = ac.exploration(chk)
    for k, f in sorted(res["findings"].items()):
        if f["property"] == "C15":
            chk.violation(f["key"], f["what"], {"kind": "scenario", "scenario": f["scenario"], "step": f["step"]})


def replay(path):
    import json
    d = json.load(open(path))
    rp = d.get("replay", d)
    if rp.get("kind") in ("ui", "ui-history"):
        from checks import c15_ui
        return c15_ui.replay(rp)
    return ac.replay(path)


def extra(chk, info, res):
    """parts (b) and (c): UI state map and sitemap commands (Properties/C15Ui.lean, checks/c15_ui.py)"""
    from checks import c15_ui

    c15_ui.run_ui(chk)
