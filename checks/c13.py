"""C13: per-actor certificates + glue (see lean/Poupool/Properties/C13.lean and checks/actors_common.py)."""
from checks import actors_common as ac

THEOREMS = ['Poupool.C13.timed_stops', 'Poupool.C13.timed_accumulates', 'Poupool.C13.timer_models_agree', 'Poupool.C13.timer_models_agree_reset', 'Poupool.C13.swim_relay_only_in_running_phases', 'Poupool.C13.swim_start_is_guarded', 'Poupool.C13.filtration_knows_swim_halted', 'Poupool.C13.swim_guard_allows_wintering', 'Poupool.C13.swim_guard_open_modes_partial', 'Poupool.C01.glue_swim', 'Poupool.C01.swim_off_when_halted']
COMPOSE = ['Poupool.ComposeProps.filtSwim_discipline', 'Poupool.ComposeProps.filtSwim_halted_when_served', 'Poupool.ComposeProps.filtration_never_list', 'Poupool.ComposeProps.filtSwim_composed_never_list', 'Poupool.ComposeProps.filtSwim_demo']
TIMING = ['Poupool.Timing.swim_polls', 'Poupool.Timing.swim_timed_run']
MODULE = "Poupool.Properties.C13"


def run(chk):
    from vlib import lean as _lean
    ac.run_actor_property(chk, MODULE, THEOREMS, monitor_pids=["C13"], extra=globals().get("extra"))
    ac.dispatch_facts(chk, ['C14_fact_routing', 'C14_fact_modes', 'C14_fact_swim_timer', 'C14_fact_swim_speed'])
    from checks import c18 as _c18
    _c18.swim_device_correspondence(chk)  # halting the pump relies on SwimPumpDevice.off() de-energising under every DAC fault pattern
    from checks import main_wiring as _mw
    _mw.run(chk, [chk.pid])
    ac.timing_theorems(chk, TIMING)
    # the timed run ends because its poll keeps running: Swim is never deaf (C08 certificate)
    from vlib import lean as _l8
    _l8.check_theorems(chk, "Poupool.Properties.C08", ["Poupool.C08.swim_timers"])
    _lean.check_theorems(chk, "Poupool.Properties.Compose", COMPOSE)


def search(chk):
    from checks import range_search as _rs
    _rs.search(chk, [chk.pid])
    res = ac.exploration(chk)
    for k, f in sorted(res["findings"].items()):
        if f["property"] == "C13":
            chk.violation(f["key"], f["what"], {"kind": "scenario", "scenario": f["scenario"], "step": f["step"]})


def replay(path):
    return ac.replay(path)


def extra(chk, info, res):
    from checks import decisions_common as _dc
    _dc.tie(chk, ['swim_timed', 'winter_swim', 'guards_swim'])
    from checks import guards_common
    guards_common.correspondence(chk, ['filtration_allow_swim', 'filtration_is_wintering'])
    from checks import winter_common
    winter_common.correspondence(chk, ('timed',))
    # util.Timer as modelled by Eco.Timer (which C13.timer_models_agree relates to the timer of the swim poll): statement shape
    from translate import eco_config as _ecfg
    _v, _ = _ecfg.generate()
    _dev = [d for d in _v["deviations"] if "Timer" in d]
    chk.obligation("shape: util.Timer (delay setter, reset, clear, update, elapsed) is the class Eco.Timer mirrors", not _dev, ", ".join(_dev))
