"""C03  Daily cap on dosing-pump run time.

Proof: Poupool/Properties/C03.lean (invariant in Proofs/PwmCap.lean) over Model/Pwm.lean with the constants regenerated
from the source on every run.  Tie: tick-level correspondence of the REAL controller.disinfection.PWM (sim runtime,
virtual time, recording pump) with the Lean driver.  Monitor: energised time per security window of the real pump trace
<= S seconds + one PWM period (the property statement), with PWM.SECURITY_DURATION set to small values so that the
cap is hit in every sequence."""
from __future__ import annotations

import json
import random

from vlib import lean

from . import pwm_common as pc

THEOREMS = [
    "Poupool.C03.c03_unit_is_seconds",
    "Poupool.C03.c03_shape",
    "Poupool.C03.c03_cap",
    "Poupool.C03.c03_cap_one_period",
    "Poupool.C03.c03_on_implies_not_elapsed",
    "Poupool.C03.c03_cancel_off",
]

ASSUMPTIONS = [
    "schedule: time does not run backwards; WHILE THE PUMP IS ON the next do_run/do_cancel comes at most dt after the previous do_run (dt = 1.5 s: ticks every 1 s via do_delay(1), jitter <= 0.5 s). Nothing assumed while the pump is off.",
    "time.time() and datetime.now() read within one do_run / do_cancel are the same instant",
    "float phase bookkeeping modelled as exact rationals; correspondence inputs are multiples of 1/64 s and dyadic duties so binary64 is exact on them (the cap proof does not depend on the phase arithmetic at all)",
    "a 'security window' is the interval between two consecutive daily resets performed by do_run (first window: from construction); the energised time is measured on the pump device calls (pump.on()/pump.off())",
    "proved bound: S + 2*dt (one tick of overshoot + the one tick after a daily reset that Timer.reset() does not count); S + one period follows for period >= 2*dt = 3 s",
]


def plan(chk):
    rng = random.Random(chk.seed)
    mult = 10 if chk.tier == "thorough" else 1
    pl = []
    for i in range(120 * mult):
        pl.append(("cap", rng.choice([200, 400, 800])))
    for i in range(90 * mult):
        pl.append(("restart", rng.choice([200, 400, 1000])))
    for i in range(60 * mult):
        pl.append(("days", rng.choice([300, 600, 1200])))
    for i in range(30 * mult):
        pl.append((rng.choice(["const", "changes"]), rng.choice([200, 600])))
    return rng, pl


def full_days_sequence(rng, days, secdur, period, duty):
    """1 s ticks (with jitter) for several whole virtual days, no cancel: stuck 100 % duty etc."""
    start = rng.randint(0, 86400 * 64) * pc.Q
    ops = [["new", pc.frs(period), "3/1", secdur, start], ["value", pc.frs(duty)]]
    t = start
    end = start + days * 86400 * pc.SEC
    while t < end:
        ops.append(["tick", t])
        t += pc.SEC + rng.randint(-32, 32) * pc.Q
    return ops, {"kind": "fulldays", "mode": "jitter", "period": period, "minrt": "3/1", "secdur": secdur, "duty": pc.frs(duty)}


def monitor_all(chk, runs):
    worst = None
    nwin = 0
    found = 0
    keys = set()
    for ops, meta, tr in runs:
        S = ops[0][3]
        v, w = pc.monitor_cap(tr, S)
        nwin += len(tr.resets) + 1
        if w is not None and (worst is None or w > worst):
            worst = w
        for viol in v[:1]:
            found += 1
            key = "pwm-cancel-undercount" if viol["cancels_while_on"] > 0 else "pwm-cap-exceeded"
            if key in keys:
                continue
            keys.add(key)
            small = pc.truncate_ops(ops, viol["window_us"][1])
            chk.violation(
                key,
                f"pump energised {viol['energised_us'] / 1e6:.3f} s in one security window, cap is S={viol['S_seconds']} s + one period ({viol['period']} s)",
                {"ops": small, "meta": meta, "violation": viol,
                 "explains": list(chk.broken),
                 "how": "./check C03 --replay <this file>  (drives the real PWM class with these ops on the sim runtime)"},
            )
    chk.extra["monitor_cap"] = {"windows_checked": nwin, "worst_energised_minus_S_us": worst, "violating_sequences": found,
                                "statement": "energised time per security window <= S s + one PWM period"}
    return found


def run(chk):
    chk.assumptions.extend(ASSUMPTIONS)
    cfg = pc.regenerate(chk)
    lean_ok = False
    if cfg is not None:
        lean_ok = lean.check_theorems(chk, "Poupool.Properties.C03", THEOREMS)
        lean_ok = lean_ok or lean.build(["Poupool.Generated.PwmConfig"])[0]
        if chk.tier == "thorough" and lean_ok:
            pc.leanchecker(chk, ["Poupool.Model.Pwm", "Poupool.Generated.PwmConfig", "Poupool.Proofs.PwmCap", "Poupool.Properties.C03"])
    rng, pl = plan(chk)
    runs = pc.campaign(chk, rng, pl, use_lean=lean_ok)
    if chk.tier == "thorough":
        extra = []
        for secdur, period, duty in [(60, 10, 1), (7200, 120, 1), (600, 30, pc.Fraction(3, 4))]:
            ops, meta = full_days_sequence(rng, 3, secdur, period, duty)
            extra.append((ops, meta, pc.run_real(ops)))
        if lean_ok:
            outs = pc.run_lean_many([r[0] for r in extra])
            bad = sum(1 for (ops, meta, tr), lo in zip(extra, outs) if pc.first_diff(tr.lines, lo) is not None)
            chk.correspondence("PWM three whole virtual days of 1 s ticks (real vs Lean driver)", len(extra), bad,
                               distribution={"ops": sum(len(r[0]) for r in extra)})
        runs += extra
    monitor_all(chk, runs)
    two_instances_monitor(chk)
    system_cap_monitor(chk)
    chk.extra["rule"] = "theorems of Properties/C03.lean over the regenerated constants; correspondence sequences and monitor traces generated from VERIF_SEED"
    chk.extra["distinct_nontrivial"] = len(runs)


def two_instances_monitor(chk):
    """Disinfection runs TWO PWM controllers (pH and chlorine) in one process: one dosing at full duty while the other idles,
    their 1 s tick loops out of phase; each pump must still respect ITS cap (state shared between the instances would show)."""
    pc.boot()
    import datetime as dt

    from controller.disinfection import PWM
    from sim import runtime

    bad, n = [], 0
    for secdur, period, phase in [(60, 10, 0.5), (120, 20, 0.25), (60, 10, 0.0), (90, 15, 0.75)]:
        n += 1
        w = runtime.World(pc.T0)
        pumps = [pc.Pump(w), pc.Pump(w)]
        saved = PWM.SECURITY_DURATION
        PWM.SECURITY_DURATION = secdur
        refs = []
        try:
            refs = [PWM.start("pH", pumps[0], period, 0), PWM.start("cl", pumps[1], period, 0)]
        finally:
            PWM.SECURITY_DURATION = saved
        actors = [a for a in w.actors if a.__class__.__name__ == "PWM"]
        try:
            actors[0].value, actors[1].value = 1.0, 0.0
            horizon = secdur * 4
            for k in range(horizon):
                w.now_us = int(k * 1e6)
                actors[0].do_run()
                w.now_us = int((k + phase) * 1e6)
                actors[1].do_run()
                if len(w.timers) > 64:
                    w.timers.clear()
            end = int(horizon * 1e6)
            e = pc.energised_between(pumps[0].log, 0, end, end)
            cap = (secdur + period) * 1_000_000
            if e > cap:
                bad.append({"security_duration": secdur, "period": period, "phase_s": phase, "energised_s": e / 1e6, "cap_s": cap / 1e6})
        finally:
            w.timers.clear()
            import pykka
            for r in refs:
                try:
                    pykka.ActorRegistry.unregister(r)
                except Exception:  # noqa: BLE001
                    pass
    chk.correspondence("two PWM instances in one process (as Disinfection creates them), one dosing at full duty, the other idle, ticks out of phase: energised time of the dosing pump within the first security window <= S + one period", n, len(bad), detail=bad[:3] or None)
    for b in bad[:1]:
        chk.violation("cap-exceeded-with-two-instances", f"pump energised {b['energised_s']:.1f} s within one security window (cap {b['cap_s']:.0f} s) while a second PWM instance idles with ticks {b['phase_s']} s out of phase", {"kind": "pwm-two-instances", "case": b})


def system_cap_monitor(chk):
    """C03 on the real COMPOSED system: the histories of the `halt_in_young_pulse` corpus family (a halt / mode change in the first
    seconds of a dosing pulse) and a long dosing day, each followed by hours; the energised time of each dosing pin inside any
    24 h window must stay below the cap + one PWM period — a pump that is left on by the stop path is counted like any other"""
    import glob
    import os

    from sim import scenario
    from vlib.common import VERIF

    import configparser
    cp = configparser.ConfigParser()
    from vlib.common import REPO
    cp.read([os.path.join(REPO, "config.ini"), os.path.join(REPO, "config.ini.local")])
    cap = float(cp.get("disinfection", "security_duration"))
    files = sorted(glob.glob(os.path.join(VERIF, "corpus", "halt_in_young_pulse_*.json")))
    if chk.tier == "quick":
        files = files[::2]
    n, bad = 0, None
    for f in files:
        sc = json.load(open(f))
        acts = list(sc["actions"]) + [["run", 4 * 3600]]
        r = scenario.Runner(sc["opts"], [])
        for a in acts:
            r.do(a)
        for pump in ("ph", "cl"):
            pin = r.sys.pins[pump][0]
            on_since, total, longest = None, 0.0, 0.0
            for (t, kind, data) in r.world.log:
                if kind == "gpio" and data[0] == pin:
                    if data[1] is False and on_since is None:
                        on_since = t
                    elif data[1] is True and on_since is not None:
                        total += (t - on_since) / 1e6
                        longest = max(longest, (t - on_since) / 1e6)
                        on_since = None
            if on_since is not None:
                total += (r.world.now_us - on_since) / 1e6
                longest = max(longest, (r.world.now_us - on_since) / 1e6)
            n += 1
            if total > cap + 120 + 2 and bad is None:  # the whole run is shorter than 24 h: one window
                bad = (os.path.basename(f), pump, total, longest, acts)
        r.world.close()
    chk.correspondence("C03 monitor on the real composed system: dosing pins energised ≤ cap + one period within the run (halt / mode change in the first seconds of a pulse, then 4 h)", n, 0 if bad is None else 1,
                       detail=None if bad is None else {"scenario": bad[0], "pump": bad[1], "energised_s": bad[2]})
    if bad is not None:
        chk.violation("pwm-cap-exceeded-on-system", f"{bad[1]} dosing pump energised {bad[2]:.0f} s (longest stretch {bad[3]:.0f} s) within {4 * 3600 + 1600} s of the history {bad[0]} + 4 h; the cap is {cap:.0f} s per 24 h",
                      {"kind": "scenario", "scenario": {"opts": json.load(open(os.path.join(VERIF, 'corpus', bad[0])))["opts"], "actions": bad[4]}})


def search(chk):
    system_cap_monitor(chk)
    two_instances_monitor(chk)
    """Monitor only (used when the machinery itself broke on this tree)."""
    rng, pl = plan(chk)
    runs = []
    for kind, n in pl[: max(60, len(pl) // 3)]:
        ops, meta = pc.gen_sequence(rng, kind, n)
        runs.append((ops, meta, pc.run_real(ops)))
    monitor_all(chk, runs)


def replay(path):
    with open(path) as fh:
        data = json.load(fh)
    rep = data.get("replay", data)
    if rep.get("kind") == "scenario":
        from checks import actors_common as ac
        return ac.replay(path)
    if rep.get("kind") == "pwm-two-instances":
        from vlib.common import Check

        c = Check("C03", "quick", 1)
        two_instances_monitor(c)
        for v in c.violations:
            print(json.dumps({"key": v["key"], "what": v["what"]}))
        return 1 if c.violations else 0
    ops = rep["ops"]
    tr = pc.run_real(ops)
    v, worst = pc.monitor_cap(tr, ops[0][3])
    print(f"replayed {len(ops)} ops on the real PWM: {len(tr.pump_log)} pump switches, resets at {tr.resets}")
    for x in v:
        print("VIOLATION reproduced:", x)
    if not v:
        print(f"no violation: worst energised - S = {worst} us")
    return 1 if v else 0
