"""C19  Cover firmware keeps the motor inside its envelope and the protocol sound.

run(chk):
  1. regenerate lean/Poupool/Generated/FirmwareConst.lean from arduino/cover/cover.ino (translate/firmware_const.py);
  2. build the UNMODIFIED sketch for the host (firmware/build.sh -> cover_host, cover_host_asan);
  3. Lean theorems of Poupool.Properties.C19 (build + axiom audit);
  4. correspondence: random event streams (structured + malformed byte streams) through the host build, the
     ASan/UBSan host build and the Lean model driver, canonical lines diffed one by one; streams with `X <cmd>` lines are
     played with the REAL ArduinoDevice.__send (controller/device.py) over a fake serial port backed by the host binary
     and compared with the Lean model of the parser;
  5. monitor: decides C19's statement directly on the host build's traces (all streams, always).
replay(path): replays the event lines of a violation file on the host build and prints the trace + monitor verdict.
"""
from __future__ import annotations

import io
import json
import os
import random
import subprocess
import sys
import time
import types
from collections import Counter
from concurrent.futures import ThreadPoolExecutor

from vlib import lean as vlean
from vlib.common import LEAN_DIR, REPO, VERIF, FileLock

sys.path.insert(0, os.path.join(VERIF, "translate"))
import firmware_const  # noqa: E402

FW = os.path.join(VERIF, "firmware")
BUILD = os.path.join(FW, "build")
HOST = os.path.join(BUILD, "cover_host")
HOST_ASAN = os.path.join(BUILD, "cover_host_asan")

THEOREMS = [
    "Poupool.C19.statement_constants",
    # (a) buffer / framing
    "Poupool.C19.buffer_never_out_of_bounds",
    "Poupool.C19.buffer_state_depends_only_on_bytes",
    "Poupool.C19.short_line_one_dispatch",
    "Poupool.C19.line_31_one_dispatch",
    "Poupool.C19.any_line_back_in_step",
    "Poupool.C19.long_line_can_execute_command_counterexample",
    "Poupool.C19.command_reaches_dispatch",
    "Poupool.C19.dispatch_emits_one_block",
    # (c) percentage
    "Poupool.C19.percentage_in_range",
    "Poupool.C19.percentage_exact_without_overflow",
    "Poupool.C19.percentage_wraps_counterexample",
    # (b) motor
    "Poupool.C19.pins_low_iff_stop",
    "Poupool.C19.stop_reaches_pins_at_next_iteration",
    "Poupool.C19.isr_stop_in_delay_regression",
    "Poupool.C19.isr_step_at_end_point_stops",
    "Poupool.C19.envelope_after_ensure_consistency",
    "Poupool.C19.stall_check_emergency_stop",
    "Poupool.C19.stall_window_timed",
    "Poupool.C19.stop_command_sets_stop",
    "Poupool.C19.stop_command_lowers_pins",
    # (d) parser
    "Poupool.C19.driver_accepts_position_reply",
    "Poupool.C19.driver_accepts_water_reply",
    "Poupool.C19.driver_accepts_motion_replies",
]

RACE_KEY = "cover.ino:process_direction:isr-stop-lost-in-relay-delay"

# regression stream: the witness of the defect fixed by /repo 124518d (`isr_stop_in_delay_regression` in Properties/C19.lean):
# a STOP raised by the ISR inside delay() was lost for ever; replayed on the host build and monitored on every run
RACE_WITNESS = ["E 97 0 100"] + [f"B {b}" for b in b"open"] + ["D 4", "B 10", "L 20", "P", "L 20"] + [f"B {b}" for b in b"stop\n"] + ["L 600", "T 20", "P", "L 4000", "Q"]
LONGLINE_WITNESS = ["E 50 0 100"] + [f"B {65 + i % 26}" for i in range(32)] + [f"B {b}" for b in b"open\n"] + ["Q"]

DRIVER_CMDS = ["position", "open", "close", "stop", "water"]
ALL_CMDS = DRIVER_CMDS + ["debug", "reset"]
I32 = 1 << 31


# ------------------------------------------------------------------------------------------------ build / run


def build_host():
    with FileLock("firmware_build"):
        p = subprocess.run(["sh", os.path.join(FW, "build.sh")], capture_output=True, text=True, timeout=600, env={**os.environ, "POUPOOL_REPO": REPO})
    return p.returncode == 0, (p.stdout + p.stderr)


def run_host(binary, streams, timeout=900):
    """streams: list of list of event lines (no X lines). Returns (per-stream list of output lines, stderr, rc)."""
    text = "".join("R\n" + "".join(l + "\n" for l in s) for s in streams)
    env = {**os.environ, "ASAN_OPTIONS": "detect_leaks=0:abort_on_error=0:exitcode=99", "UBSAN_OPTIONS": "print_stacktrace=1:halt_on_error=1"}
    p = subprocess.run([binary], input=text, capture_output=True, text=True, timeout=timeout, env=env, errors="backslashreplace")
    return split_streams(p.stdout), p.stderr, p.returncode


def split_streams(out):
    res = []
    for line in out.split("\n"):
        if line.startswith("# R"):
            res.append([])
        elif line and res:
            res[-1].append(line)
    return res


def run_lean(streams, jobs=8):
    """the Lean driver on the same streams (X lines allowed), in `jobs` parallel processes."""
    if not streams:
        return []
    jobs = max(1, min(jobs, len(streams)))
    chunks = [streams[i::jobs] for i in range(jobs)]

    def one(chunk):
        lines = []
        for s in chunk:
            lines.append("R")
            lines.extend(s)
        return split_streams("\n".join(vlean.driver("Poupool/Drivers/Firmware.lean", lines)) + "\n")

    with ThreadPoolExecutor(jobs) as ex:
        outs = list(ex.map(one, chunks))
    res = [None] * len(streams)
    for j, o in enumerate(outs):
        if len(o) != len(chunks[j]):
            raise RuntimeError(f"lean driver returned {len(o)} streams for {len(chunks[j])}")
        for k, s in enumerate(o):
            res[j + k * jobs] = s
    return res


# ------------------------------------------------------------------------------------------------ generators


def wrap32(x):
    return (x + I32) % (1 << 32) - I32


class Gen:
    def __init__(self, rng, tier):
        self.rng = rng
        self.tier = tier
        self.dist = Counter()

    def preset(self, ev):
        r = self.rng
        k = r.choice(["normal", "normal", "normal", "near_open", "near_close", "open=close", "open<close", "erased", "beyond", "extreme"])
        self.dist["preset:" + k] += 1
        if k == "erased":
            return k
        if k == "extreme":
            while True:
                p, c, o = (wrap32(r.choice([r.randrange(-I32, I32), I32 - 1 - r.randrange(300), -I32 + r.randrange(300), r.randrange(-3 * 10**7, 3 * 10**7)])) for _ in range(3))
                if wrap32(o - c) != -1:  # INT_MIN / -1 traps on x86 (and is UB in C++); see the assumptions
                    break
        else:
            c = r.choice([0, 0, r.randrange(-2000, 2000)])
            travel = r.choice([1, 5, 20, 100, 1000, r.randrange(2, 8000)])
            o = c + travel
            if k == "open=close":
                o = c
            elif k == "open<close":
                o = c - travel
            lo, hi = min(c, o), max(c, o)
            if k == "near_open":
                p = o - r.randrange(0, 8)
            elif k == "near_close":
                p = c + r.randrange(0, 8)
            elif k == "beyond":
                p = r.choice([lo - r.randrange(1, 400), hi + r.randrange(1, 400)])
            else:
                p = r.randrange(lo - 5, hi + 6)
        ev.append(f"E {p} {c} {o}")
        return k

    def send(self, ev, data: bytes, mode=None):
        """bytes of a line, with loop ticks / pulses in between according to `mode`."""
        r = self.rng
        mode = mode or r.choice(["tight", "tight", "ticks", "pulses"])
        for b in data:
            if mode == "ticks" and r.random() < 0.5:
                ev.append(f"L {r.choice([0, 1, 2, 5, 20])}")
            if mode == "pulses" and r.random() < 0.5:
                ev.append(f"L {r.choice([5, 11, 20])}")
                ev.append("P")
            ev.append(f"B {b}")

    def drive(self, ev, kind=None, dur=None):
        """loop iterations with encoder pulses at a given rate (open loop: pulses arrive whether or not the motor runs,
        which also covers coasting after a stop)."""
        r = self.rng
        kind = kind or r.choice(["nominal", "nominal", "slow", "stalled", "fast", "ragged"])
        self.dist["drive:" + kind] += 1
        lp = r.choice([1, 5, 10, 20, 20, 50])
        dur = dur or r.choice([100, 300, 700, 1500, 3500])
        gap = {"nominal": 20, "slow": r.choice([60, 100, 200, 400]), "stalled": None, "fast": r.choice([2, 5, 9, 10, 11]), "ragged": None}[kind]
        t = 0
        nextp = gap if gap else None
        budget = 160 if self.tier == "quick" else 250
        while t < dur and budget > 0:
            step = lp
            if kind == "ragged":
                if r.random() < 0.5:
                    ev.append("P")
                    budget -= 1
            elif nextp is not None:
                while nextp <= t + step and budget > 0:
                    d = max(0, nextp - t)
                    if d:
                        ev.append(f"T {d}")
                        budget -= 1
                    ev.append("P")
                    budget -= 1
                    t += d
                    step -= d
                    nextp += gap
            ev.append(f"L {step}")
            budget -= 1
            t += step

    def structured(self, with_x=False):
        r = self.rng
        ev = []
        self.preset(ev)
        target = r.randrange(50, 400) if self.tier == "quick" else r.randrange(100, 800)
        cmds_used = []
        while len(ev) < target:
            k = r.choices(
                ["cmd", "drive", "burst", "button", "dcmd", "idle", "water", "junk", "query", "x"],
                [30, 30, 4, 8, 6, 6, 3, 6, 2, 90 if with_x else 0],
            )[0]
            self.dist["seg:" + k] += 1
            if k == "cmd":
                c = r.choice(ALL_CMDS if r.random() < 0.8 else ["open", "close", "stop"])
                cmds_used.append(c)
                self.dist["cmd:" + c] += 1
                eol = r.choice([b"\n", b"\n", b"\r\n"])
                self.send(ev, c.encode() + eol)
                if c in ("open", "close") and r.random() < 0.7:
                    self.drive(ev)
                    if r.random() < 0.6:  # stop, then coasting up to 3 s and beyond
                        self.send(ev, b"stop\n", "tight")
                        self.dist["cmd:stop"] += 1
                        self.drive(ev, r.choice(["nominal", "slow", "stalled"]), r.choice([500, 2000, 3200, 4000]))
            elif k == "drive":
                self.drive(ev)
            elif k == "burst":
                for _ in range(r.randrange(2, 12)):
                    if r.random() < 0.5:
                        ev.append(f"T {r.choice([0, 1, 5, 10, 11, 12])}")
                    ev.append("P")
            elif k == "button":
                b = r.choice(["6 p", "7 p", "6 r", "7 r", "8 d", "9 d", "8 r", "9 r"])
                self.dist["button:" + b] += 1
                ev.append(f"K {b}")
                if r.random() < 0.5:
                    self.drive(ev, dur=r.choice([100, 300, 700]))
            elif k == "dcmd":  # a motion command with encoder interrupts inside the relay delay
                c = r.choice(["open", "close"])
                n = r.randrange(1, 9)
                self.dist["in-delay pulses"] += 1
                self.send(ev, c.encode(), "tight")
                ev.append(f"D {n}")
                ev.append("B 10")
                self.drive(ev, dur=r.choice([100, 700, 1500]))
            elif k == "idle":
                ev.append(f"L {r.choice([0, 1, 100, 499, 500, 501, 2999, 3000, 3001, 10000])}")
            elif k == "water":
                for _ in range(r.randrange(1, 4)):
                    ev.append(f"T {r.choice([10, 50, 51, 100])}")
                    ev.append("W")
            elif k == "junk":
                n = r.choice([0, 1, 3, 8, 29, 30])
                line = bytes(r.choice(b"abcdefghijklmnopqrstuvwxyz *=-0123456789") for _ in range(n))
                if r.random() < 0.3:
                    line = r.choice([b"open ", b" open", b"OPEN", b"stop1", b"positio", b"positions", b"***", b"emergency stop"])
                self.dist["junk-line-len:%d" % len(line)] += 1
                self.send(ev, line + b"\n")
            elif k == "query":
                ev.append("Q")
            elif k == "x":
                c = r.choice(DRIVER_CMDS)
                self.dist["x:" + c] += 1
                if r.random() < 0.25:  # time passes without a loop iteration: an emergency stop may precede the reply
                    ev.append(f"T {r.choice([400, 501, 700, 3100])}")
                ev.append(f"X {c}")
                if c in ("open", "close") and r.random() < 0.5:
                    self.drive(ev, dur=r.choice([100, 300, 700]))
        self.dist["events"] += len(ev)
        return ev

    def malformed(self):
        r = self.rng
        ev = []
        if r.random() < 0.5:
            self.preset(ev)
        target = r.randrange(50, 400) if self.tier == "quick" else r.randrange(100, 800)
        while len(ev) < target:
            k = r.choice(["len", "len", "cr", "nul", "high", "random", "cmd_after_long", "valid", "tick"])
            self.dist["mal:" + k] += 1
            if k == "len":
                n = r.choice([29, 30, 31, 32, 33, 34, 62, 63, 64, 65, 95, 96, 97, r.randrange(0, 130)])
                self.dist["line-len:%s" % (n if n <= 33 else "34+")] += 1
                alphabet = r.choice([b"abcdefghijklmnopqrstuvwxyz", bytes(range(1, 256)), b"*", b"open\x00"])
                line = bytes(r.choice(alphabet) for _ in range(n)).replace(b"\n", b"x").replace(b"\r", b"y")
                self.send(ev, line + b"\n", "tight")
            elif k == "cr":
                line = b"".join(bytes([c]) + (b"\r" if r.random() < 0.3 else b"") for c in r.choice([b"open", b"stop", b"position", b"\r\r\r", b"wat\rer"]))
                self.send(ev, line + r.choice([b"\n", b"\r\n", b"\n\r"]))
            elif k == "nul":
                self.send(ev, r.choice([b"open\x00junk", b"\x00", b"\x00stop", b"stop\x00", b"position\x00" + b"x" * 25]) + b"\n")
            elif k == "high":
                self.send(ev, bytes(r.randrange(128, 256) for _ in range(r.randrange(1, 40))) + b"\n")
            elif k == "random":
                self.send(ev, bytes(r.randrange(0, 256) for _ in range(r.randrange(1, 80))), "tight")
            elif k == "cmd_after_long":
                self.send(ev, bytes(r.choice(b"xyz") for _ in range(r.choice([31, 32, 33, 64]))) + r.choice([b"open", b"close", b"stop", b"reset"]) + b"\n", "tight")
            elif k == "valid":
                self.send(ev, r.choice(ALL_CMDS).encode() + b"\n")
            else:
                ev.append(f"L {r.choice([0, 1, 20, 600])}")
                if r.random() < 0.3:
                    ev.append("P")
        self.dist["events"] += len(ev)
        return ev


# ------------------------------------------------------------------------------------------------ trace parsing


def parse_line(line):
    """canonical line -> (event text, dict of fields) or None."""
    i = line.find(" po=")
    if i < 0:
        return None
    evt = line[:i]
    rest = line[i + 1 :]
    j = rest.find(" out=")
    f = dict(kv.split("=", 1) for kv in rest[:j].split(" "))
    f["out"] = unescape(rest[j + 5 :])
    for k in ("po", "pc", "p", "c", "o", "pp", "pt", "ds", "bi", "w", "t", "pct"):
        f[k] = int(f[k])
    return evt, f


def unescape(s):
    out = bytearray()
    i = 0
    while i < len(s):
        if s[i] == "\\" and s[i + 1 : i + 2] == "x":
            out.append(int(s[i + 2 : i + 4], 16))
            i += 4
        else:
            out.append(ord(s[i]))
            i += 1
    return bytes(out)


def blocks_of(out: bytes):
    """(number of reply blocks, number of emergency-stop blocks, well formed?) of a chunk of firmware output."""
    if not out:
        return 0, 0, True
    if not out.endswith(b"\r\n"):
        return 0, 0, False
    lines = out[:-2].split(b"\r\n")
    n = sum(1 for l in lines if l == b"***")
    em = sum(1 for a, b in zip(lines, lines[1:]) if a == b"emergency stop" and b == b"***")
    return n - em, em, lines[-1] == b"***"


# ------------------------------------------------------------------------------------------------ monitor


def monitor(events_out, consts=None):
    """Decides C19's statement on one host trace.  events_out: list of canonical lines.  Returns list of
    (key, what, index of the offending line)."""
    margin = 150
    viol = []
    prev = None  # fields after the previous event
    last_loop = None  # fields at the end of the previous loop iteration
    line_bytes = bytearray()  # bytes (CR dropped) of the current line since the firmware was last in step
    in_step = True  # the firmware's buffer was empty right after the previous newline (statement: always)
    pending_d = 0
    race_stuck = False
    race_armed = False
    drive = None  # (pins, t_start, [pulse times], [loop times])
    for i, raw in enumerate(events_out):
        pl = parse_line(raw)
        if pl is None:
            viol.append(("host-crash", raw, i))
            break
        evt, f = pl
        kind = evt[0]
        is_loop = kind in "BLK"
        nb, nem, wf = blocks_of(f["out"])
        if not wf:
            viol.append(("reply-block-malformed", f"output does not end with a *** line: {f['out']!r}", i))
        # (c) percentage
        if not (0 <= f["pct"] <= 100):
            viol.append(("percentage-out-of-range", f"get_position_percentage() = {f['pct']}", i))
        if kind == "D":
            pending_d = int(evt.split()[1])
        # delay() ran in this iteration iff the clock moved by more than the event asked for (consumes the D pulses)
        delayed = is_loop and prev is not None and f["t"] - prev["t"] - (int(evt.split()[1]) if kind == "L" else 0) > 0
        # (b) ISR step at / over an end point sets STOP (limits not being set)
        if kind == "P" and prev is not None and prev["sl"] == "N" and f["p"] != prev["p"] and abs(f["o"]) < I32 - 1000 and abs(f["c"]) < I32 - 1000:
            if prev["r"] == "O" and f["p"] >= f["o"] and f["d"] != "S":
                viol.append(("isr-step-past-open-end-not-stopped", f"step to {f['p']} >= open {f['o']} leaves direction {f['d']}", i))
            if prev["r"] == "C" and f["p"] <= f["c"] and f["d"] != "S":
                viol.append(("isr-step-past-close-end-not-stopped", f"step to {f['p']} <= close {f['c']} leaves direction {f['d']}", i))
        # (a) framing, from the byte stream alone
        if kind == "B":
            b = int(evt.split()[1])
            if b != 13:
                if b == 10:
                    short = in_step and len(line_bytes) <= 30
                    if f["bi"] != 0:
                        viol.append(("not-back-in-step-at-newline", f"buffer index {f['bi']} after a newline", i))
                    if short and nb != 1:
                        viol.append(("short-line-not-one-reply-block", f"line {bytes(line_bytes)!r} gave {nb} reply blocks", i))
                    if short and bytes(line_bytes).split(b"\0")[0] == b"stop":
                        # (b) stop sets STOP (an emergency stop later in the iteration also leaves STOP)
                        if f["d"] != "S":
                            viol.append(("stop-command-does-not-stop", f"direction {f['d']} after the stop command", i))
                    line_bytes = bytearray()
                    in_step = f["bi"] == 0
                else:
                    line_bytes.append(b)
                    if in_step and len(line_bytes) <= 30 and nb != 0:
                        viol.append(("reply-block-inside-short-line", f"{nb} reply blocks before the newline", i))
            elif nb != 0:
                viol.append(("reply-block-on-carriage-return", "", i))
        elif nb != 0:
            viol.append(("reply-block-without-serial-input", f"{f['out']!r}", i))
        if is_loop:
            energised = f["po"] or f["pc"]
            # (b) pins: STOP at the end of the previous iteration and still STOP now, no emergency stop in this one
            #     => process_direction of this iteration saw STOP => both pins LOW
            if last_loop is not None and last_loop["d"] == "S" and f["d"] == "S" and nem == 0 and energised and not delayed:
                # STOP at the end of the previous iteration must have reached the pins in this one (an iteration in
                # which delay() ran has seen OPEN/CLOSE in process_direction: its pins are legitimately HIGH)
                if race_armed or race_stuck:
                    race_stuck = True
                    viol.append((RACE_KEY, "a STOP raised by the ISR inside delay() did not reach the pins at the next process_direction: direction STOP, motor pin HIGH", i))
                else:
                    viol.append(("motor-pin-high-while-stopped", f"direction STOP, pins open={f['po']} close={f['pc']}", i))
            # the ISR set STOP inside delay(): direction STOP with a pin HIGH right after process_direction is allowed
            # for exactly one loop period
            race_armed = bool(delayed and pending_d > 0 and f["d"] == "S" and nem == 0 and energised)
            if not energised:
                race_stuck = False
            if f["d"] != "S" and not energised and nem == 0 and last_loop is not None and last_loop["d"] == f["d"]:
                viol.append(("direction-set-but-pins-low", f"direction {f['d']}", i))
            # (b) envelope after ensure_consistency
            if f["sl"] == "N" and f["d"] != "S" and abs(f["o"]) < I32 - 1000 and abs(f["c"]) < I32 - 1000:
                if not (f["c"] - margin <= f["p"] <= f["o"] + margin):
                    viol.append(("driving-outside-envelope", f"direction {f['d']} at position {f['p']} with end points {f['c']}..{f['o']}", i))
            if delayed:
                pending_d = 0
            last_loop = f
        # (b) stall: driven for a window > 2*(500+gap)+gap+200 ms with < 10 pulses and still driven
        pins = (f["po"], f["pc"])
        if drive is None or drive[0] != pins or not (f["po"] or f["pc"]):
            drive = (pins, f["t"], [], [f["t"]]) if (f["po"] or f["pc"]) else None
        else:
            if prev is not None and f["p"] != prev["p"]:
                drive[2].append(f["t"])
            if is_loop:
                drive[3].append(f["t"])
                loops = drive[3]
                gap = max([b - a for a, b in zip(loops, loops[1:])] + [0])
                wlen = 2 * (500 + gap) + gap + 200
                if f["t"] - drive[1] >= wlen and sum(1 for tp in drive[2] if tp > f["t"] - wlen) < 10:
                    if race_stuck:
                        viol.append((RACE_KEY, "motor driven without pulses and no emergency stop (direction is STOP, pins HIGH)", i))
                    else:
                        viol.append(("stall-not-detected", f"motor driven for {f['t'] - drive[1]} ms, < 10 pulses in the last {wlen} ms, no stop", i))
                    drive = (pins, f["t"], [], [f["t"]])
        prev = f
    return viol


# ------------------------------------------------------------------------------------------------ real parser


class HostSerial(io.RawIOBase):
    """Fake `serial.Serial`: bytes written are fed to the host build of the sketch (one loop iteration per byte), bytes
    the sketch prints are queued for reading; an empty queue reads as a timeout (b'')."""

    def __init__(self, proc):
        super().__init__()
        self.proc = proc
        self.rx = bytearray()
        self.lines = []

    def event(self, line):
        self.proc.stdin.write(line + "\n")
        self.proc.stdin.flush()
        out = self.proc.stdout.readline().rstrip("\n")
        self.lines.append(out)
        pl = parse_line(out)
        if pl is None:
            raise RuntimeError("host build: " + out)
        self.rx += pl[1]["out"]
        return pl

    def readable(self):
        return True

    def writable(self):
        return True

    def readinto(self, b):
        n = min(len(b), len(self.rx))
        b[:n] = self.rx[:n]
        del self.rx[:n]
        return n

    def write(self, data):
        for byte in bytes(data):
            self.event(f"B {byte}")
        return len(data)

    def open(self):
        pass

    def close(self):  # __reconnect closes and reopens the port; keep the object usable
        pass


_device_mod = None


def arduino_device():
    global _device_mod
    if _device_mod is None:
        if REPO not in sys.path:
            sys.path.insert(0, REPO)
        import importlib
        import logging

        _device_mod = importlib.import_module("controller.device")
        _device_mod.time = types.SimpleNamespace(sleep=lambda s: None)  # __reconnect sleeps 5 s
        logging.getLogger("controller.device").setLevel(logging.CRITICAL + 1)
    return _device_mod


def play_with_real_driver(stream):
    """plays a stream containing X lines: events go to an interactive host process, X lines call the real
    ArduinoDevice methods.  Returns canonical lines comparable with the Lean driver's."""
    dev_mod = arduino_device()
    proc = subprocess.Popen([HOST, "-i"], stdin=subprocess.PIPE, stdout=subprocess.PIPE, text=True, bufsize=1, errors="backslashreplace")
    try:
        ser = HostSerial(proc)
        dev = object.__new__(dev_mod.ArduinoDevice)
        dev.name = "arduino"
        dev._ArduinoDevice__serial = ser
        dev._ArduinoDevice__sio = io.TextIOWrapper(io.BufferedRWPair(ser, ser))
        send = dev._ArduinoDevice__send
        out = []
        for line in stream:
            if line.startswith("X "):
                cmd = line[2:]
                res = send(cmd)
                if cmd == "position":
                    val = str(int(res.replace("position ", ""))) if res else "None"  # body of cover_position
                elif cmd == "water":
                    val = str(int(res.replace("water ", ""))) if res else "None"  # body of water_counter
                else:
                    val = "-"
                _, f = ser.event("Q")
                ser.lines.pop()
                state = ser_state_text(proc, ser)
                out.append(f"{line} res={'None' if res is None else escape(res.encode())} val={val} {state}")
            else:
                ser.event(line)
                out.append(ser.lines[-1])
        return out, ser.lines
    finally:
        try:
            proc.stdin.close()
        except OSError:
            pass
        proc.wait(timeout=10)


def ser_state_text(proc, ser):
    proc.stdin.write("Q\n")
    proc.stdin.flush()
    line = proc.stdout.readline().rstrip("\n")
    return line[2:]


def escape(bs: bytes) -> str:
    return "".join(chr(c) if 0x20 <= c <= 0x7E and c != 0x5C else "\\x%02x" % c for c in bs)


# ------------------------------------------------------------------------------------------------ run


def first_diff(a, b):
    for i, (x, y) in enumerate(zip(a, b)):
        if x != y:
            return i, x, y
    if len(a) != len(b):
        i = min(len(a), len(b))
        return i, (a[i] if i < len(a) else "<missing>"), (b[i] if i < len(b) else "<missing>")
    return None


def run(chk):
    chk.level = "proof"
    rng = random.Random(chk.seed)
    quick = chk.tier == "quick"
    # 1. translator ------------------------------------------------------------------------------------------
    consts = None
    try:
        consts = firmware_const.generate()
        chk.obligation("translate:firmware_const (cover.ino has the modelled shape; constants regenerated)", True, json.dumps({k: v for k, v in consts.items() if isinstance(v, (int, bool))}))
    except firmware_const.TranslateError as e:
        chk.obligation("translate:firmware_const (cover.ino has the modelled shape; constants regenerated)", False, str(e))
    # 2. host build ------------------------------------------------------------------------------------------
    t0 = time.time()
    ok, log = build_host()
    chk.obligation("build: host build of the unmodified cover.ino (g++, long = 32 bit, + ASan/UBSan variant)", ok, log[-1500:])
    chk.extra["host_build_s"] = round(time.time() - t0, 1)
    if not ok:
        return
    # 3. theorems --------------------------------------------------------------------------------------------
    t0 = time.time()
    have_generated = os.path.exists(firmware_const.OUT)
    proofs_ok = have_generated and vlean.check_theorems(chk, "Poupool.Properties.C19", THEOREMS)
    chk.extra["lean_build_s"] = round(time.time() - t0, 1)
    if not quick and proofs_ok:
        t0 = time.time()
        try:
            if True:  # reads .olean files only; builds are serialised by vlib.lean.build (check_theorems above)
                p = subprocess.run(["lake", "env", "leanchecker", "Poupool.Model.Firmware", "Poupool.Proofs.Firmware", "Poupool.Proofs.FirmwareMotor", "Poupool.Proofs.FirmwareProto", "Poupool.Properties.C19"], cwd=LEAN_DIR, capture_output=True, text=True, timeout=1200)
            chk.obligation("leanchecker Poupool.Model.Firmware Poupool.Proofs.Firmware* Poupool.Properties.C19", p.returncode == 0, (p.stdout + p.stderr)[-800:])
            chk.checker_cmds.append("lake env leanchecker Poupool.Model.Firmware Poupool.Proofs.Firmware Poupool.Proofs.FirmwareMotor Poupool.Proofs.FirmwareProto Poupool.Properties.C19")
        except (subprocess.TimeoutExpired, FileNotFoundError) as e:
            chk.note(f"leanchecker not run: {e}")
        chk.extra["leanchecker_s"] = round(time.time() - t0, 1)
    # 4./5. streams, in batches (bounded memory): correspondence + monitor ---------------------------------------
    # quick: one batch of 1500 structured + 500 malformed + 150 driver streams; thorough: 5 batches, longer streams
    n_batches = 1 if quick else 5
    n_struct, n_mal, n_x = (1500, 500, 150) if quick else (1800, 600, 200)
    g = Gen(rng, chk.tier)
    gx = Gen(rng, chk.tier)
    tot = Counter()
    hits = Counter()
    lens = Counter()
    xcalls = Counter()
    first = None
    xfirst = None
    seen = {}
    san_log = ""
    nontrivial = set()
    timing = Counter()
    race_full = None
    for batch in range(n_batches):
        streams, labels = [], []
        if batch == 0:
            streams += [RACE_WITNESS, LONGLINE_WITNESS]
            labels += ["witness:race", "witness:longline"]
        for _ in range(n_struct):
            streams.append(g.structured())
            labels.append("structured")
        for _ in range(n_mal):
            streams.append(g.malformed())
            labels.append("malformed")
        xstreams = [gx.structured(with_x=True) for _ in range(n_x)]

        t0 = time.time()
        with ThreadPoolExecutor(4) as ex:
            fh = ex.submit(run_host, HOST, streams)
            fa = ex.submit(run_host, HOST_ASAN, streams)
            fl = ex.submit(lambda: run_lean(streams + xstreams) if have_generated else None)
            fx = ex.submit(lambda: [play_with_real_driver(x) for x in xstreams])
            host_out, host_err, host_rc = fh.result()
            asan_out, asan_err, asan_rc = fa.result()
            real = fx.result()
            try:
                lean_all = fl.result()
            except Exception as e:  # noqa: BLE001
                lean_all = None
                chk.obligation("lean driver runs", False, str(e)[-1500:])
        timing["streams_s"] += time.time() - t0
        if len(host_out) != len(streams) or len(asan_out) != len(streams):
            chk.obligation("host build ran every stream", False, f"{len(host_out)}/{len(asan_out)} of {len(streams)}; stderr {host_err[-500:]}")
            return
        if not (asan_rc == 0 and not asan_err.strip() and host_rc == 0):
            san_log += asan_err[-1500:] + host_err[-300:]
        # correspondence host vs ASan host vs Lean
        t0 = time.time()
        for k, s in enumerate(streams):
            tot["streams"] += 1
            if asan_out[k] != host_out[k]:
                tot["dis_asan"] += 1
            if lean_all is not None:
                tot["lean_streams"] += 1
                d = first_diff(host_out[k], lean_all[k])
                if d:
                    tot["dis"] += 1
                    if first is None:
                        first = {"batch": batch, "stream": k, "label": labels[k], "line": d[0], "host": d[1], "lean": d[2], "events": s[: d[0] + 1][-40:]}
            lens[min(len(s) // 100 * 100, 2000)] += 1
            for l in s:
                hits["ev:" + l[0]] += 1
            nt = False
            for l in host_out[k]:
                if "***" in l:
                    nt = True
                    if "emergency stop" in l:
                        hits["emergency stop blocks"] += 1
                    if "error command" in l:
                        hits["error replies"] += 1
                if " ds=0 " not in l and " ee=" in l:
                    hits["lines with a stop pending (coasting window)"] += 1
            if nt:
                nontrivial.add(hash(tuple(s)))
        if batch == 0:
            for k in (0, 1, 2, 2 + n_struct):
                if k < len(streams):
                    chk.sample({"label": labels[k], "events": streams[k][:40], "host_trace_tail": host_out[k][-2:]})
            if xstreams:
                chk.sample({"label": "driver stream", "events": xstreams[0][:30], "real_driver_trace_tail": real[0][0][-2:]})
        # real ArduinoDevice.__send vs Lean parser model
        for k, s in enumerate(xstreams):
            got, host_lines = real[k]
            tot["xstreams"] += 1
            for l in got:
                if l.startswith("X "):
                    xcalls[f"{l.split()[1]}:{'None' if ' res=None ' in l else 'ok'}"] += 1
            if lean_all is not None:
                tot["lean_xstreams"] += 1
                d = first_diff(got, lean_all[len(streams) + k])
                if d:
                    tot["xdis"] += 1
                    if xfirst is None:
                        xfirst = {"batch": batch, "stream": k, "line": d[0], "real": d[1], "lean": d[2], "events": s[: d[0] + 1][-30:]}
        timing["diff_s"] += time.time() - t0
        # monitor on the host traces
        t0 = time.time()
        for k, s in enumerate(streams):
            tr = asan_out[k] if len(asan_out[k]) >= len(host_out[k]) else host_out[k]
            for key, what, idx in monitor(host_out[k]):
                if key not in seen or len(s[: idx + 1]) < len(seen[key][2]):
                    seen[key] = (what, labels[k], s[: idx + 1], host_out[k][max(0, idx - 2) : idx + 1])
                if batch == 0 and k == 0 and key == RACE_KEY and race_full is None:
                    race_full = (labels[0], streams[0], host_out[0][-3:])
            if any(l.startswith("CRASH") for l in tr) or (asan_out[k] != host_out[k]):
                bad = next((i for i, (a, b) in enumerate(zip(asan_out[k] + ["<end>"], host_out[k] + ["<end>"])) if a != b or a.startswith("CRASH")), 0)
                key = "sanitizer-report-or-crash"
                if key not in seen or len(s[: bad + 1]) < len(seen[key][2]):
                    seen[key] = ("the ASan/UBSan build crashed or diverged: " + "; ".join(l for l in asan_err.split("\n") if "ERROR" in l or "runtime error" in l)[:400], labels[k], s[: bad + 1], tr[-2:])
            tot["lines"] += len(host_out[k])
        for k, s in enumerate(xstreams):
            got, host_lines = real[k]
            tot["lines"] += len(host_lines)
            for key, what, idx in monitor(host_lines):
                if key not in seen:
                    seen[key] = (what, "driver stream", s, host_lines[max(0, idx - 2) : idx + 1])
        timing["monitor_s"] += time.time() - t0
        del host_out, asan_out, lean_all, real, streams, xstreams

    dist = {k: v for k, v in sorted(g.dist.items())}
    dist.update({k: v for k, v in sorted(hits.items())})
    dist["stream length histogram (events, by 100)"] = {str(k): v for k, v in sorted(lens.items())}
    if tot["lean_streams"]:
        chk.correspondence("firmware model vs host build of cover.ino (canonical line per event)", tot["lean_streams"], tot["dis"], distribution=dist, detail=first)
    chk.correspondence("ASan/UBSan host build vs plain host build", tot["streams"], tot["dis_asan"])
    if tot["lean_xstreams"]:
        chk.correspondence("Lean model of ArduinoDevice.__send vs the real method over the host build", tot["lean_xstreams"], tot["xdis"], distribution={**dict(sorted(xcalls.items())), **{k: v for k, v in sorted(gx.dist.items()) if k.startswith(("x:", "preset:"))}}, detail=xfirst)
    chk.obligation("ASan/UBSan host build: no sanitizer report, no crash", not san_log, san_log[-1800:])
    if san_log and "sanitizer-report-or-crash" not in seen:
        seen["sanitizer-report-or-crash"] = (san_log[-600:], "all", [], [])
    chk.extra["monitor"] = {"host trace lines checked": tot["lines"], "violation keys": sorted(seen)}
    for k, v in timing.items():
        chk.extra[k] = round(v, 1)
    broken_all = list(chk.broken)
    if RACE_KEY in seen and race_full is not None:
        # report the full regression stream (`isr_stop_in_delay_regression`): it also shows the `stop` command not
        # stopping the motor and the missing emergency stop
        seen[RACE_KEY] = (seen[RACE_KEY][0] + "; afterwards neither `stop` nor the stall check lowers the pin",) + race_full
    for key, (what, label, evs, tail) in sorted(seen.items()):
        chk.violation(key, what, {"events": evs, "stream_class": label, "host_trace_tail": tail, "how": "./check C19 --replay <this file>", "explains": broken_all if key != RACE_KEY else []})
    chk.extra["distinct_nontrivial"] = len(nontrivial)
    chk.extra["rule"] = (
        "obligations: Lean theorems of Poupool.Properties.C19 over the model regenerated from cover.ino (constants, end-point operators, command table), "
        "host build of the unmodified sketch, sanitizer cleanliness; correspondence cases: event streams generated from VERIF_SEED "
        "(structured: presets incl. open=close/open<close/extreme, commands, pulses nominal/slow/stalled/fast, coasting, buttons, ISR inside delay(); "
        "malformed: 29-130 char lines, CR, NUL, 0x80-0xff) diffed line by line host build vs Lean model; a case is non-trivial when the stream "
        "produced at least one reply or emergency block"
    )
    chk.assumptions += [
        "AVR specifics outside the host build: true interrupt timing (ISR pre-emption is modelled between loop iterations and inside delay() only), EEPROM wear/write time, watchdog, 16-bit int (the sketch's arithmetic is all long / unsigned long, forced to 32 bit on the host)",
        "millis() wrap-around (49.7 days) and m_do_stop_time = 0 at millis() = 0 are not modelled",
        "signed overflow (UB in C++) is modelled as two's complement wrap (host build -fwrapv); INT_MIN / -1 in get_position_percentage (needs open = close - 1 and |position - close| > 2^24) is excluded from the generated presets (traps on x86)",
        "InputDebounce is abstracted to its callbacks (library source not in the repository)",
        "the fake serial port delivers every byte the firmware printed before the driver's next readline(); the real port's 0.1 s timeout can split lines (not modelled)",
    ]


def search(chk):
    """called by ./check when run() itself raised: at least run the monitor on the witnesses"""
    ok, _ = build_host()
    if not ok:
        return
    out, err, rc = run_host(HOST_ASAN, [RACE_WITNESS, LONGLINE_WITNESS])
    for k, tr in enumerate(out):
        for key, what, idx in monitor(tr):
            chk.violation(key, what, {"events": [RACE_WITNESS, LONGLINE_WITNESS][k][: idx + 1]})
            break


def replay(path):
    with open(path) as fh:
        data = json.load(fh)
    evs = data.get("replay", data).get("events", [])
    ok, log = build_host()
    if not ok:
        print(log)
        return 2
    out, err, rc = run_host(HOST_ASAN, [[e for e in evs if not e.startswith("X ")]])
    for l in out[0] if out else []:
        print(l)
    if err.strip():
        print(err[-3000:])
    v = monitor(out[0]) if out else []
    firsts = {}
    for key, what, idx in v:
        firsts.setdefault(key, [what, idx, 0])[2] += 1
    for key, (what, idx, n) in firsts.items():
        print(f"MONITOR {key}: {what} (first at event {idx}: {evs[idx] if idx < len(evs) else '?'}; {n} trace lines flagged)")
    bad = bool(v) or rc != 0 or bool(err.strip())
    print("replay:", "violation reproduced" if bad else "no violation on this tree")
    return 1 if bad else 0
