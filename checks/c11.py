"""C11  Filtration accounting and counters survive a restart.

run(chk):
 1. translate/eco_config.py regenerates Generated/EcoConfig.lean (save interval, keepElapsed, `once` flags, ...);
 2. theorems of Poupool.Properties.C11 are built and audited;
 3. correspondence: (a) the REAL Dispatcher against the model's `once` rule on generated delivery sequences;
    (b) the REAL util.Duration + Heating.DurationEncoderCallback against the model's Counter on generated
    add / kill / restore sequences — including sequences where the restore comes late (the K3 witness on real code);
    (c) the persistence payloads of the real EcoMode are part of the EcoMode correspondence (re-run here);
 4. monitor on the REAL composed system: eco (optionally with a heating interlude) for a whole day with 1-3
    kill / restart cycles at arbitrary instants (kill = drop the whole PoolSystem, restart = fresh PoolSystem at the
    same virtual time, the broker redelivers its retained store — retained publishes of the old process + retained
    settings — in a random permutation, with or without settling between two messages), MQTT reconnects (the
    broker redelivers what it currently retains on the topics still subscribed), and the broker's echo of the
    controller's own retained publishes.  Decided: restored duration vs the accounted one at the kill (<= 300 s
    + rounding), the day's pump-on time vs the quota (180 s + 300 s per restart), the published heating total and
    water counter never decrease, no actor dies.
"""
from __future__ import annotations

import datetime as _dt
import json
import random
import traceback

from vlib import lean as vlean

from . import eco_common as ec

THEOREMS = [
    "Poupool.Eco.C11_persist_bound",
    "Poupool.Eco.C11_restore_rounding",
    "Poupool.Eco.C11_restore_any_order",
    "Poupool.Eco.C11_daily_restore_commute",
    "Poupool.Eco.C11_once_at_most_once",
    "Poupool.Eco.C11_counter_monotone",
    "Poupool.Eco.C11_counter_decrease_counterexample",
]

ASSUMPTIONS = [
    "broker model: retained store = last publish with retain=True per topic + the retained settings; at a restart it is redelivered completely, each message once, in any order; at a reconnect the broker redelivers what it retains on the topics the client still subscribes (Mqtt.__on_connect subscribes dispatcher.topics())",
    "the counters' theorem assumes the restore precedes the first post-restart publish (explicit hypothesis `restoreFirst`); the negation is exhibited in Lean (C11_counter_decrease_counterexample) and on the real Duration class (correspondence b)",
    "'filtration time already done' = the controller's accounted duration (EcoMode.filtration.duration); its distance to the physical pump-on time is C10_loop_accounting (<= one poll + eps + the uncounted transitions)",
    "the relays keep their state while the process is down (the pump-on integration joins the two processes' pin traces at the kill instant); downtime is zero virtual seconds",
]

TOPIC_CODE = {
    "fd": ("/status/filtration/duration", "1234"),
    "ht": ("/status/heating/total_seconds", "5678"),
    "wc": ("/status/water/counter", "42"),
    "ds": ("/settings/filtration/duration", "36000"),
}


# ---------------------------------------------------------------------------------------------------------------
# (a) dispatcher once
# ---------------------------------------------------------------------------------------------------------------
class _FakeMethod:
    def __init__(self, log, name):
        self.log, self.name = log, name

    def defer(self, *a):
        self.log.append((self.name, a))


class _FakeProxy:
    def __init__(self, log):
        self._log = log

    def __getattr__(self, name):
        return _FakeMethod(self._log, name)


def dispatcher_correspondence(chk, n):
    from sim import system

    system.bootstrap()
    from controller.dispatcher import Dispatcher

    rng = random.Random(chk.seed * 17 + 1)
    lines, real = [], []
    dist = {"sequences": n, "deliveries": 0, "invalid_payload_deliveries": 0}
    for _ in range(n):
        seq = [rng.choice(["fd", "ht", "wc", "ds", "fd", "ht", "wc"]) for _ in range(rng.randrange(1, 12))]
        log = []
        d = Dispatcher()
        px = _FakeProxy(log)
        d.register(px, px, px, px, px, px, px, px)
        out = []
        for c in seq:
            topic, payload = TOPIC_CODE[c]
            # an invalid payload first (predicate false): must neither call the handler nor consume the entry
            if rng.random() < 0.2:
                before = len(log)
                d.dispatch(topic, b"-5")
                dist["invalid_payload_deliveries"] += 1
                if len(log) != before:
                    out.append("X")
            before = len(log)
            d.dispatch(topic, payload.encode())
            out.append("1" if len(log) > before else "0")
            dist["deliveries"] += 1
        lines.append("disp " + " ".join(seq))
        real.append("A " + " ".join(out))
    got = vlean.driver(ec.DRIVER, lines)
    bad = [{"seq": l, "real": r, "lean": g} for l, r, g in zip(lines, real, got) if r != g]
    return n, bad, dist


# ---------------------------------------------------------------------------------------------------------------
# (b) Duration counter
# ---------------------------------------------------------------------------------------------------------------
def counter_correspondence(chk, n):
    from sim import runtime, system

    system.bootstrap()
    from controller.heating import Heating
    from controller.util import Duration

    rng = random.Random(chk.seed * 19 + 2)
    lines, real = [], []
    dist = {"sequences": n, "late_restore_sequences": 0, "decreasing_real": 0}
    example_decrease = None
    for i in range(n):
        evs = []
        late = rng.random() < 0.3
        for _ in range(rng.randrange(1, 10)):
            r = rng.random()
            if r < 0.55:
                evs.append("a%d" % rng.choice([1, 499_999, 500_000, 500_001, 1_500_000, rng.randrange(1, 10_000_000), rng.randrange(1, 7200 * ec.US), 86_400 * ec.US, 90_000 * ec.US, 3 * 86_400 * ec.US + 1_234_567]))
            elif r < 0.8:
                evs.append("k")
                if not late or rng.random() < 0.5:
                    evs.append("r")
            else:
                evs.append("r")
        if late:
            dist["late_restore_sequences"] += 1
        w = runtime.World(ec.EPOCH)
        w.now_us = 1_000_000
        enc = ec.RecEncoder()
        pubs = []
        retained = [None]

        def mk():
            d = Duration("heating")
            d.set_callback(Heating.DurationEncoderCallback(enc))
            return d

        d = mk()
        for e in evs:
            if e == "k":
                d = mk()
            elif e == "r":
                if retained[0] is not None:
                    d.init(_dt.timedelta(seconds=int(retained[0])))  # Heating.total_seconds(to_int(payload))
            else:
                enc.calls.clear()
                d.start()
                w.now_us += int(e[1:])
                d.stop()
                name, value, kw = enc.calls[-1]
                assert name == "heating_total__seconds" and kw.get("retain") is True
                pubs.append(int(value))
                retained[0] = value
        total = ec.td_us(d.duration)
        lines.append("counter 1000000 " + " ".join(evs))
        real.append("C %d %d%s" % (total, -1 if retained[0] is None else int(retained[0]), "".join(" %d" % p for p in pubs)))
        restore_first = all(evs[i + 1:i + 2] == ["r"] for i, e in enumerate(evs) if e == "k")
        expected = sum(int(e[1:]) for e in evs if e.startswith("a"))
        n_restores = sum(1 for e in evs if e == "r")
        lost = restore_first and abs(total - expected) > (n_restores + 1) * 500_000 + 1
        if restore_first and (lost or any(b < a for a, b in zip(pubs, pubs[1:]))) and not hasattr(chk, "_c11_counter_viol"):
            # the statement itself: with the restore delivered before the first publish after each restart the retained
            # life counter never goes backwards
            chk._c11_counter_viol = {"events": evs, "published_total_seconds": pubs, "final_total_us": total, "heating_time_us": expected}
        if any(b < a for a, b in zip(pubs, pubs[1:])):
            dist["decreasing_real"] += 1
            if example_decrease is None:
                example_decrease = {"events": evs, "published_total_seconds": pubs}
    got = vlean.driver(ec.DRIVER, lines)
    bad = [{"seq": l, "real": r, "lean": g} for l, r, g in zip(lines, real, got) if r != g]
    return n, bad, dist, example_decrease


# ---------------------------------------------------------------------------------------------------------------
# kill / restart on the real composed system
# ---------------------------------------------------------------------------------------------------------------
def gen_restart_scenario(rng: random.Random, quick: bool):
    kind = rng.choice(["plain", "plain", "p10", "heat", "heat", "long", "elapsed"])
    sc = ec.gen_loop_scenario(rng, kind=kind)
    if sc["daily"] < 3600:
        sc["daily"] = rng.randrange(3600, 50000)
    start = _dt.datetime.fromisoformat(sc["start"])
    reset = start.replace(hour=sc["reset_hour"], minute=0, second=0, microsecond=0)
    start = reset - _dt.timedelta(seconds=rng.randrange(30, 3600))
    sc["start"] = start.isoformat()
    first_reset = reset if reset >= start else reset + _dt.timedelta(days=1)
    lead = (first_reset - start).total_seconds()
    sc["days"] = (lead + 86400 + 120) / 86400
    sc["echo_lag"] = rng.choice([0.2, 1.0, 3.0])
    nk = rng.choice([1, 1, 2, 3])
    # kill instants inside the whole day, biased to pump-on phases by sheer number; any microsecond
    sc["kills"] = sorted(lead + rng.randrange(60, 86000) + rng.random() for _ in range(nk))
    sc["reconnects"] = sorted(lead + rng.randrange(60, 86000) + rng.random() for _ in range(rng.choice([0, 1, 2, 3])))
    # "any mode": in a quarter of the scenarios the pool is opened (standby / overflow) some minutes before the first kill
    sc["mode_switch"] = None
    if rng.random() < 0.25:
        sc["mode_switch"] = [max(lead + 30.0, sc["kills"][0] - rng.randrange(120, 2400)), rng.choice(["standby", "overflow"])]
    sc["perm_seed"] = rng.randrange(1 << 30)
    sc["settle_between"] = rng.choice([False, True])
    sc["water_every_s"] = rng.choice([0, 97, 600])
    return sc


def _eco_of(s):
    return s.world.actor("Filtration")._Filtration__eco_mode


def _deliver(s, msgs, settle_between):
    for t, p in msgs:
        s.mqtt_in(t, str(p))
        if settle_between:
            s.world.settle()
    s.world.settle()


def run_restart_scenario(sc):
    """Returns dict(findings=[...], info=...).  A finding = the property's statement fails on the real code."""
    rng = random.Random(sc["perm_seed"])
    findings = []
    t_origin = _dt.datetime.fromisoformat(sc["start"])
    origin_us = ec.dt_us(t_origin)
    end_s = sc["days"] * 86400
    settings = ec.settings_of(sc) + [("/settings/mode", "eco")]
    broker = dict(settings)  # retained store
    broker["/status/filtration/duration"] = str(sc.get("elapsed") or 0)
    s = ec.new_system(sc)
    msgs = list(broker.items())
    _deliver(s, [m for m in msgs if m[0] != "/settings/mode"] + [("/settings/mode", "eco")], False)
    env = ec.HeatEnv(s, sc.get("heat"))
    events = sorted([(t, "kill") for t in sc["kills"]] + [(t, "reconnect") for t in sc["reconnects"]] + [(end_s, "end")] + ([(sc["mode_switch"][0], "mode")] if sc.get("mode_switch") else []))
    segs = []  # (system, abs start µs)
    seg_start_s = 0.0
    water_pubs, heat_pubs = [], []
    restores = []
    water = 0
    kill_abs = []

    def advance(sys_, until_s):
        nonlocal water
        w = sys_.world
        target = int(round((until_s - seg_start_s) * ec.US))
        step = 20 * ec.US
        while w.now_us < target and w.deadlock is None:
            w.run_until(min(target, w.now_us + step))
            env.step()
            if sc["water_every_s"]:
                # the meter counts while the pump runs
                tot = int((seg_start_s * ec.US + w.now_us) // (sc["water_every_s"] * ec.US))
                if sys_.variable_speed() > 0 and tot > water:
                    water = tot
                sys_.arduino_dev.water = water

    def harvest(sys_):
        for t, kind, data in sys_.world.log:
            if kind == "publish" and data[2]:
                broker[data[0]] = data[1]
                if data[0] == "/status/water/counter":
                    water_pubs.append(int(data[1]))
                elif data[0] == "/status/heating/total_seconds":
                    heat_pubs.append(int(data[1]))

    for t_ev, what in events:
        advance(s, t_ev)
        if s.world.dead or s.world.deadlock:
            findings.append({"key": "actor-died", "what": f"dead={s.world.dead} deadlock={s.world.deadlock}", "at_s": t_ev})
            break
        if what == "end":
            break
        if what == "mode":
            broker["/settings/mode"] = sc["mode_switch"][1]
            s.mqtt_in("/settings/mode", sc["mode_switch"][1])
            continue
        # what the broker holds now
        n_before = len(water_pubs), len(heat_pubs)
        if what == "reconnect":
            snapshot = dict(broker)
            for t, kind, data in s.world.log:
                if kind == "publish" and data[2]:
                    snapshot[data[0]] = data[1]
            before = ec.td_us(_eco_of(s).filtration.duration)
            topics = set(s.dispatcher.topics())
            msgs = [(t, p) for t, p in snapshot.items() if t in topics]
            rng.shuffle(msgs)
            _deliver(s, msgs, sc["settle_between"])
            after = ec.td_us(_eco_of(s).filtration.duration)
            if after != before:
                findings.append({"key": "accounting-changed-by-redelivery", "what": f"a reconnect redelivery changed the accounted duration from {before} to {after} µs", "at_s": t_ev})
            continue
        # ---- kill
        true_dur = ec.td_us(_eco_of(s).filtration.duration)
        state = s.state("Filtration")
        harvest(s)
        segs.append((s, int(round(seg_start_s * ec.US)) + origin_us))
        now_abs = s.world.now()
        kill_abs.append(ec.dt_us(now_abs))
        old_water = s.arduino_dev.water
        pump_was = s.variable_speed() > 0
        # ---- restart
        seg_start_s = (now_abs - t_origin).total_seconds()
        s2 = ec.new_system(sc, start=now_abs)
        s2.arduino_dev.water = old_water
        if sc.get("heat"):
            s2.set_temp("temperature_pool", s.s_temp["temperature_pool"]._value)
        topics = set(s2.dispatcher.topics())
        msgs = [(t, p) for t, p in broker.items() if t in topics]
        rng.shuffle(msgs)
        _deliver(s2, msgs, sc["settle_between"])
        env = ec.HeatEnv(s2, sc.get("heat"))
        restored = ec.td_us(_eco_of(s2).filtration.duration)
        restores.append({"at_s": round(t_ev, 3), "state": state, "accounted_us": true_dur, "restored_us": restored, "order": [m[0] for m in msgs], "pump_on_at_kill": pump_was})
        if true_dur - restored > ec.RESTORE_TOL_US + ec.US or restored - true_dur > ec.US:
            findings.append({"key": "restored-duration", "what": f"kill in {state} at +{t_ev:.3f} s: accounted {true_dur / ec.US:.1f} s, restored {restored / ec.US:.1f} s (loss {(true_dur - restored) / ec.US:.1f} s > 300 s)", "at_s": t_ev, "order": [m[0] for m in msgs]})
        s = s2
    harvest(s)
    segs.append((s, int(round(seg_start_s * ec.US)) + origin_us))
    # ---- pump-on time of the whole day
    iv = []
    for sys_, a0 in segs:
        for a, b in ec.pump_intervals(sys_.world.log, sys_.pins["variable"], sys_.world.now_us):
            iv.append((a + a0, b + a0))
    rh = sc["reset_hour"]
    first = origin_us - origin_us % ec.DAY_US + rh * 3600 * ec.US
    while first < origin_us:
        first += ec.DAY_US
    t_end = segs[-1][1] + segs[-1][0].world.now_us
    day = None
    if first + ec.DAY_US <= t_end and not sc.get("mode_switch") and not any(f["key"] == "actor-died" for f in findings):
        got = ec.on_time(iv, first, first + ec.DAY_US)
        want = min(sc["daily"] * ec.US, ec.DAY_US)
        nrest = sum(1 for k in kill_abs if first <= k < first + ec.DAY_US)
        tol = ec.TOL_US + nrest * ec.RESTORE_TOL_US
        upper = want
        if sc.get("heat"):
            # heating interludes (see eco_common.monitor_days): pump time forced by the heat pump beyond the quota
            for sys_, a0 in segs:
                cur = None
                for t, kind, data in sys_.world.log:
                    if kind == "publish" and data[0] == "/status/filtration/state":
                        if data[1] == "heating_running" and cur is None:
                            cur = t + a0
                        elif data[1] == "eco_compute" and cur is not None:
                            if first <= cur < first + ec.DAY_US:
                                upper = max(upper, ec.on_time(iv, first, min(t + a0 + 5 * ec.US, first + ec.DAY_US)))
                            cur = None
                if cur is not None and first <= cur < first + ec.DAY_US:
                    upper = max(upper, ec.on_time(iv, first, min(a0 + sys_.world.now_us, first + ec.DAY_US)))
        day = {"pump_on_s": got / ec.US, "quota_s": want / ec.US, "upper_s": upper / ec.US, "restarts": nrest, "tolerance_s": tol / ec.US}
        if got < want - tol or got > upper + tol:
            findings.append({"key": "daily-quota-after-restart", "what": f"day with {nrest} restart(s): pump ran {got / ec.US:.1f} s, quota {want / ec.US:.0f} s, tolerance {tol / ec.US:.0f} s", "day": day})
    for name, pubs in (("water-counter", water_pubs), ("heating-total", heat_pubs)):
        if any(b < a for a, b in zip(pubs, pubs[1:])):
            k = next(i for i, (a, b) in enumerate(zip(pubs, pubs[1:])) if b < a)
            findings.append({"key": name + "-decreased", "what": f"published {name} went from {pubs[k]} to {pubs[k + 1]}", "pubs": pubs[max(0, k - 2) : k + 3]})
    info = {"restores": restores, "day": day, "water_pubs": len(water_pubs), "heat_pubs": len(heat_pubs), "heat_last": heat_pubs[-1] if heat_pubs else None, "water_last": water_pubs[-1] if water_pubs else None}
    return {"findings": findings, "info": info}


def restart_case(sc):
    try:
        r = run_restart_scenario(sc)
        r["sc"] = sc
        return r
    except Exception:  # noqa: BLE001
        return {"sc": sc, "error": traceback.format_exc()[-2000:], "findings": [], "info": {}}


WHAT = {
    "restored-duration": "Filtration: the filtration time restored after a restart is more than five minutes short of the accounted one",
    "daily-quota-after-restart": "Filtration: the daily quota is missed by more than 180 s + 300 s per restart",
    "accounting-changed-by-redelivery": "a redelivery of the retained messages to the running process (MQTT reconnect) changed the accounted filtration time (a once-topic applied a second time, or a setting that does not keep today's elapsed time)",
    "water-counter-decreased": "Arduino: the published water counter decreased across a restart",
    "heating-total-decreased": "Heating: the published heat-pump running time decreased across a restart",
    "actor-died": "an actor died / deadlocked during the kill-restart scenario",
}


def restarts(chk, n):
    rng = random.Random(chk.seed * 7001 + 13)
    scs = [gen_restart_scenario(rng, chk.tier == "quick") for _ in range(n)]
    res = ec.pool_map(restart_case, scs)
    dist = {"scenarios": n, "kills": 0, "reconnects": 0, "kill_states": {}, "max_loss_s": 0.0, "orders_distinct": set(), "days_checked": 0, "worst_day_error_s": 0.0, "errors": 0, "heat_pub_scenarios": 0, "water_pub_scenarios": 0, "settle_between": 0}
    seen = {}
    for r in res:
        sc = r["sc"]
        if "error" in r:
            dist["errors"] += 1
            chk.obligation("kill/restart scenario ran", False, r["error"])
            continue
        info = r["info"]
        dist["kills"] += len(info["restores"])
        dist["reconnects"] += len(sc["reconnects"])
        dist["settle_between"] += 1 if sc["settle_between"] else 0
        for x in info["restores"]:
            dist["kill_states"][x["state"]] = dist["kill_states"].get(x["state"], 0) + 1
            dist["max_loss_s"] = max(dist["max_loss_s"], round((x["accounted_us"] - x["restored_us"]) / ec.US, 3))
            dist["orders_distinct"].add(tuple(x["order"]))
        if info["day"]:
            dist["days_checked"] += 1
            e = info["day"]["pump_on_s"] - info["day"]["quota_s"]
            if abs(e) > abs(dist["worst_day_error_s"]):
                dist["worst_day_error_s"] = round(e, 3)
        dist["heat_pub_scenarios"] += 1 if info["heat_pubs"] else 0
        dist["water_pub_scenarios"] += 1 if info["water_pubs"] else 0
        for f in r["findings"]:
            if f["key"] not in seen:
                seen[f["key"]] = (f, sc)
        if len(chk.samples) < 5 and info["restores"]:
            chk.sample({"scenario": {k: sc[k] for k in ("kind", "daily", "period", "reset_hour", "start", "kills", "reconnects", "echo_lag")}, "restores": [{k: x[k] for k in ("at_s", "state", "accounted_us", "restored_us")} for x in info["restores"]], "day": info["day"]})
    dist["orders_distinct"] = len(dist["orders_distinct"])
    chk.extra["restart_monitor"] = dist
    for key, (f, sc) in sorted(seen.items()):
        chk.violation("C11:" + key, WHAT.get(key, key) + " — " + f["what"], {"kind": "restart", "scenario": sc, "finding": f, "explains": ["build:Poupool.Properties.C11"] + THEOREMS + ["translate:eco_config shape of EcoMode/Timer/Filtration eco cycle/dispatcher entries as modelled"]})
    return dist


def run(chk):
    chk.assumptions.extend(ASSUMPTIONS)
    ec.regenerate(chk)
    vlean.check_theorems(chk, "Poupool.Properties.C11", THEOREMS)
    quick = chk.tier == "quick"
    n, bad, dist = dispatcher_correspondence(chk, 300 if quick else 3000)
    chk.correspondence("Dispatcher `once` rule: real Dispatcher.dispatch vs Lean Disp.dispatch (handler called or not, per delivery)", n, len(bad), distribution=dist, detail=bad[:3] if bad else None)
    n, bad, dist, ex = counter_correspondence(chk, 300 if quick else 3000)
    chk.correspondence("Heating total: real util.Duration + DurationEncoderCallback vs Lean Counter (published values, incl. late restores)", n, len(bad), distribution=dist, detail=bad[:3] if bad else None)
    chk.extra["k3_exhibit_on_real_Duration"] = ex
    cv = getattr(chk, "_c11_counter_viol", None)
    if cv is not None:
        chk.violation("heating-total-lost", f"the heat-pump life counter lost running time or went backwards although every restore preceded the first publish after its restart: final total {cv['final_total_us'] / 1e6:.1f} s for {cv['heating_time_us'] / 1e6:.1f} s of heating, published {cv['published_total_seconds']}, history {cv['events']} (aN = N us of heating, k = kill/restart, r = restore of the retained value)", {"kind": "counter", "events": cv["events"], "published": cv["published_total_seconds"]})
    chk.note(
        "K3 (restore after the first post-restart publish) is exhibited on the real Duration class (k3_exhibit_on_real_Duration) but is not reachable "
        "in the normal startup order: the broker delivers the retained burst right after SUBSCRIBE (Mqtt.__on_connect), whereas the first publish of "
        "the heating total needs a heating/forcing state to be entered and left (>= one 10 s poll, the kill/restart monitor never saw one before the "
        "restore) and the water counter is first published by the second Arduino poll (60 s after `run`); it takes a broker that holds a retained "
        "message back for more than that."
    )
    bad, dist, n = ec.eco_correspondence(chk, 150 if quick else 1500, 40)
    chk.correspondence("EcoMode persistence payloads (part of the EcoMode/Timer op-sequence correspondence, exact)", n, len(bad), distribution={k: v for k, v in dist.items() if k != "ops"}, detail=bad[:3] if bad else None)
    restarts(chk, 96 if quick else 1500)
    chk.extra["distinct_nontrivial"] = len(THEOREMS)
    chk.extra["rule"] = "7 Lean theorems (persistence rule over arbitrary poll sequences, restore in any order, once rule, counters) + correspondences with the real Dispatcher / Duration / EcoMode + kill-restart monitor on the real composed system"


def search(chk):
    restarts(chk, 16)


def replay(path):
    with open(path) as fh:
        data = json.load(fh)
    rp = data.get("replay", data)
    if rp.get("kind") == "restart":
        r = run_restart_scenario(rp["scenario"])
        print(json.dumps({"findings": r["findings"], "restores": r["info"]["restores"], "day": r["info"]["day"]}, indent=1, default=str))
        return 1 if r["findings"] else 0
    print("nothing to replay in", path)
    return 2
