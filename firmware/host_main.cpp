// Host harness for the UNMODIFIED sketch arduino/cover/cover.ino (property C19).
//   build.sh compiles this file with  -DCOVER_INO="<path>/arduino/cover/cover.ino" -fno-access-control -fwrapv
// Event line protocol on stdin (one event per line), one canonical state line on stdout per event:
//   R                      new stream (fresh firmware: the stream runs in a forked child of the pristine image)
//   E <pos> <close> <open> only as first event of a stream: preset the EEPROM block, re-run Cover's constructor
//   B <byte>               one serial byte becomes available, then one loop() iteration at the current time
//   L <ms>                 advance millis() by ms, then one loop() iteration
//   T <ms>                 advance millis() by ms (no loop iteration)
//   P                      cover encoder interrupt at the current millis() (the ISR debounces at 10 ms)
//   W                      water-meter interrupt
//   D <n>                  n encoder interrupts will fire inside the next delay() (ISR pre-empting process_direction)
//   K <pin> <p|r|d>        button callback (pressed / released / pressed-duration) delivered by the next
//                          button.process(), then one loop() iteration at the current time
//   Q                      no action (print state)
// setup() runs at the start of every stream (after E if present).
#include <cstdint>
#include <cstdio>
#include <cstdlib>
#include <cstring>
#include <string.h>
#include <deque>
#include <new>
#include <string>
#include <vector>
#include <iostream>
#include <sys/types.h>
#include <sys/wait.h>
#include <unistd.h>

#define long int
static_assert(sizeof(long) == 4 && sizeof(unsigned long) == 4, "long must be 32 bit as on the AVR");
#include <Arduino.h>
namespace shim {
World W;
void fire_isr(int n) {
  if (!W.irq_enabled) { ++W.guard_depth_violations; return; }
  if (W.isr[n]) W.isr[n]();
}
}  // namespace shim
HostSerial Serial;
#include <EEPROMex.h>
EEPROMClassEx EEPROM;

// what the Arduino IDE's preprocessor adds: prototypes of the sketch's functions
void setup();
void loop();
static void cover_isr();
static void water_isr();

#include COVER_INO

static_assert(sizeof(Cover::Position) == 12, "Position is three 32-bit longs");
#undef long

static const char* dname(Cover::Direction d) {
  switch (d) { case Cover::Direction::OPEN: return "O"; case Cover::Direction::CLOSE: return "C"; default: return "S"; }
}

static std::string escape(const std::string& s) {
  std::string r;
  char tmp[8];
  for (unsigned char c : s) {
    if (c >= 0x20 && c <= 0x7e && c != '\\') r.push_back((char)c);
    else { snprintf(tmp, sizeof tmp, "\\x%02x", c); r += tmp; }
  }
  return r;
}

static void print_state(const char* ev) {
  int32_t ee[3];
  memcpy(ee, EEPROM.mem, 12);
  const char* sl = cover.m_set_limits == Cover::SetLimit::OPEN ? "O" : cover.m_set_limits == Cover::SetLimit::CLOSE ? "C" : "N";
  printf("%s po=%d pc=%d d=%s r=%s p=%d c=%d o=%d sl=%s pd=%s pp=%d pt=%u ds=%u bi=%d w=%u t=%u ee=%d,%d,%d pct=%u out=%s\n",
         ev, shim::W.pin_level[Cover::Pins::cover_open] > 0, shim::W.pin_level[Cover::Pins::cover_close] > 0,
         dname(cover.m_direction), dname(cover.m_running_direction), (int)cover.m_position.position,
         (int)cover.m_position.close, (int)cover.m_position.open, sl, dname(cover.m_previous_direction),
         (int)cover.m_previous_position, (unsigned)cover.m_previous_time, (unsigned)cover.m_do_stop_time,
         buffer.m_position, (unsigned)water.m_water_counter, (unsigned)shim::W.now, ee[0], ee[1], ee[2],
         (unsigned)cover.get_position_percentage(), escape(shim::W.tx).c_str());
  shim::W.tx.clear();
}

struct Stream {
  bool started = false;
  void start() {
    if (!started) { started = true; setup(); }
  }
  // returns false on a malformed event line
  bool event(const std::string& line) {
    char k = line.empty() ? '?' : line[0];
    long long a = 0, b = 0, c = 0;
    char kind = 0;
    switch (k) {
      case 'E':
        if (started || sscanf(line.c_str() + 1, "%lld %lld %lld", &a, &b, &c) != 3) return false;
        {
          int32_t v[3] = {(int32_t)a, (int32_t)b, (int32_t)c};
          memcpy(EEPROM.mem, v, 12);
          cover.~Cover();
          new (&cover) Cover();  // what static initialisation does at power-up
        }
        start();
        break;
      case 'B':
        if (sscanf(line.c_str() + 1, "%lld", &a) != 1 || a < 0 || a > 255) return false;
        start();
        shim::W.rx.push_back((uint8_t)a);
        loop();
        break;
      case 'L':
        if (sscanf(line.c_str() + 1, "%lld", &a) != 1 || a < 0) return false;
        start();
        shim::W.now += (uint32_t)a;
        loop();
        break;
      case 'T':
        if (sscanf(line.c_str() + 1, "%lld", &a) != 1 || a < 0) return false;
        start();
        shim::W.now += (uint32_t)a;
        break;
      case 'P': start(); shim::fire_isr(0); break;
      case 'W': start(); shim::fire_isr(1); break;
      case 'D':
        if (sscanf(line.c_str() + 1, "%lld", &a) != 1 || a < 0) return false;
        start();
        shim::W.in_delay_pulses = (unsigned)a;
        break;
      case 'K':
        if (sscanf(line.c_str() + 1, "%lld %c", &a, &kind) != 2) return false;
        start();
        shim::W.pending_button_pin = (int)a;
        shim::W.pending_button_kind = kind;
        loop();
        shim::W.pending_button_pin = -1;
        break;
      case 'Q': start(); break;
      default: return false;
    }
    print_state(line.c_str());
    return true;
  }
};

static int run_stream(const std::vector<std::string>& lines) {
  Stream s;
  for (const auto& l : lines)
    if (!s.event(l)) { printf("BAD EVENT %s\n", l.c_str()); fflush(stdout); return 3; }
  if (shim::W.guard_depth_violations || EEPROM.oob) { printf("HARNESS guard=%d eeprom_oob=%d\n", shim::W.guard_depth_violations, EEPROM.oob); }
  fflush(stdout);
  return 0;
}

int main(int argc, char** argv) {
  const bool interactive = argc > 1 && std::string(argv[1]) == "-i";
  std::string line;
  if (interactive) {
    Stream s;
    while (std::getline(std::cin, line)) {
      if (!s.event(line)) printf("BAD EVENT %s\n", line.c_str());
      fflush(stdout);
    }
    return 0;
  }
  std::vector<std::vector<std::string>> streams;
  streams.emplace_back();
  bool first = true;
  while (std::getline(std::cin, line)) {
    if (line == "R") { if (!first || !streams.back().empty()) streams.emplace_back(); first = false; continue; }
    first = false;
    if (!line.empty()) streams.back().push_back(line);
  }
  int rc = 0;
  for (size_t i = 0; i < streams.size(); ++i) {
    printf("# R %zu\n", i);
    fflush(stdout);
    pid_t pid = fork();
    if (pid == 0) { int r = run_stream(streams[i]); fflush(stdout); exit(r); }  // exit(): lets LeakSanitizer etc. run
    int st = 0;
    waitpid(pid, &st, 0);
    if (!(WIFEXITED(st) && WEXITSTATUS(st) == 0)) {
      printf("CRASH stream=%zu exited=%d status=%d signal=%d\n", i, WIFEXITED(st), WIFEXITED(st) ? WEXITSTATUS(st) : -1,
             WIFSIGNALED(st) ? WTERMSIG(st) : 0);
      fflush(stdout);
      rc = 1;
    }
  }
  return rc;
}
