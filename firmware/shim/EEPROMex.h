// Host shim of EEPROMex: a 1 KiB block in memory, erased state 0xFF.  The write limit of _EEPROMEX_DEBUG is not
// modelled (the sketch's header comment says it is disabled on the device).
#ifndef POUPOOL_SHIM_EEPROMEX_H
#define POUPOOL_SHIM_EEPROMEX_H
#include <Arduino.h>
#define EEPROMSizeUno 1024
class EEPROMClassEx {
 public:
  uint8_t mem[EEPROMSizeUno];
  uint64_t byte_writes = 0;
  int oob = 0;
  EEPROMClassEx() { memset(mem, 0xFF, sizeof mem); }
  void setMemPool(int, int) {}
  void setMaxAllowedWrites(int) {}
  template <class T> int readBlock(int address, const T& value) {
    if (address < 0 || address + (int)sizeof(T) > EEPROMSizeUno) { ++oob; return 0; }
    memcpy((void*)&value, mem + address, sizeof(T));
    return sizeof(T);
  }
  template <class T> int updateBlock(int address, const T& value) {
    if (address < 0 || address + (int)sizeof(T) > EEPROMSizeUno) { ++oob; return 0; }
    const uint8_t* p = (const uint8_t*)(const void*)&value;
    int n = 0;
    for (size_t i = 0; i < sizeof(T); ++i)
      if (mem[address + i] != p[i]) { mem[address + i] = p[i]; ++n; ++byte_writes; }
    return n;
  }
};
extern EEPROMClassEx EEPROM;
#endif
