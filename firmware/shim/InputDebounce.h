// Host shim of InputDebounce.  The library's debouncing itself is abstracted away (its source is not part of the
// repository): process(now) delivers the callback the harness queued for this pin (`K <pin> <kind>` event), which
// is exactly the interface through which the sketch sees the buttons.
#ifndef POUPOOL_SHIM_INPUTDEBOUNCE_H
#define POUPOOL_SHIM_INPUTDEBOUNCE_H
#include <Arduino.h>
typedef void (*inputdebounce_state_cb)(uint8_t);
typedef void (*inputdebounce_duration_cb)(uint8_t, unsigned long);
class InputDebounce {
 public:
  enum PinInMode { PIM_EXT_PULL_DOWN_RES, PIM_EXT_PULL_UP_RES, PIM_INT_PULL_UP_RES };
  enum SwitchType { ST_NORMALLY_OPEN, ST_NORMALLY_CLOSED };
  void registerCallbacks(inputdebounce_state_cb pressed, inputdebounce_state_cb released,
                         inputdebounce_duration_cb pressedDuration = nullptr,
                         inputdebounce_duration_cb releasedDuration = nullptr) {
    m_pressed = pressed; m_released = released; m_pressed_duration = pressedDuration; (void)releasedDuration;
  }
  void setup(int8_t pin, unsigned long = 20, PinInMode = PIM_INT_PULL_UP_RES, unsigned long = 0,
             SwitchType = ST_NORMALLY_OPEN) { m_pin = pin; }
  unsigned long process(unsigned long) {
    if (shim::W.pending_button_pin == m_pin) {
      const char k = shim::W.pending_button_kind;
      shim::W.pending_button_pin = -1;
      if (k == 'p' && m_pressed) m_pressed((uint8_t)m_pin);
      if (k == 'r' && m_released) m_released((uint8_t)m_pin);
      if (k == 'd' && m_pressed_duration) m_pressed_duration((uint8_t)m_pin, 2000);
    }
    return 0;
  }
 private:
  int m_pin = -1;
  inputdebounce_state_cb m_pressed = nullptr, m_released = nullptr;
  inputdebounce_duration_cb m_pressed_duration = nullptr;
};
#endif
