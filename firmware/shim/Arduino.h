// Host shim of the Arduino core for the cover sketch (C19).  Deterministic: millis() is a virtual clock that only
// the harness (and delay()) advances; Serial has an input queue and captured output; digitalWrite records levels.
// NOTE: host_main.cpp does `#define long int` *after* including every system header, so that inside this file and
// inside the sketch `long` / `unsigned long` are 32 bit as on the AVR (x86-64 multilib for -m32 is not installed).
#ifndef POUPOOL_SHIM_ARDUINO_H
#define POUPOOL_SHIM_ARDUINO_H

typedef uint8_t byte;
typedef bool boolean;

#define HIGH 0x1
#define LOW 0x0
#define INPUT 0x0
#define OUTPUT 0x1
#define INPUT_PULLUP 0x2
#define RISING 3
#define FALLING 2
#define CHANGE 1
#define LED_BUILTIN 13
#define DEC 10
#define F(x) (x)
#define digitalPinToInterrupt(p) ((p) == 2 ? 0 : ((p) == 3 ? 1 : -1))
// exactly the Arduino.h macros (double evaluation included)
#define constrain(amt, low, high) ((amt) < (low) ? (low) : ((amt) > (high) ? (high) : (amt)))
#ifdef abs
#undef abs
#endif
#define abs(x) ((x) > 0 ? (x) : -(x))
// the Arduino core also defines min/max as macros (a sketch may use them on mixed integer types)
#ifdef min
#undef min
#endif
#ifdef max
#undef max
#endif
#define min(a, b) ((a) < (b) ? (a) : (b))
#define max(a, b) ((a) > (b) ? (a) : (b))

namespace shim {
struct World {
  uint32_t now = 0;                 // virtual millis()
  int pin_level[32];                // -1 = never written
  int pin_mode[32];
  std::deque<uint8_t> rx;           // bytes waiting for Serial.read()
  std::string tx;                   // bytes printed since the harness last took them
  void (*isr[2])() = {nullptr, nullptr};
  bool irq_enabled = true;
  int guard_depth_violations = 0;   // ISR delivered while interrupts are disabled (never, by construction)
  unsigned in_delay_pulses = 0;     // encoder pulses to deliver inside the next delay()
  uint64_t wdt_resets = 0;
  bool wdt_on = false;
  int pending_button_pin = -1;      // button callback to deliver in the next InputDebounce::process of that pin
  char pending_button_kind = 0;     // 'p' pressed, 'r' released, 'd' pressed-duration
  World() { for (int i = 0; i < 32; ++i) { pin_level[i] = -1; pin_mode[i] = -1; } }
};
extern World W;
void fire_isr(int n);
}  // namespace shim

inline unsigned long millis() { return shim::W.now; }
inline void noInterrupts() { shim::W.irq_enabled = false; }
inline void interrupts() { shim::W.irq_enabled = true; }
inline void pinMode(int pin, int mode) { shim::W.pin_mode[pin & 31] = mode; }
inline void digitalWrite(int pin, int v) { shim::W.pin_level[pin & 31] = v ? 1 : 0; }
inline int digitalRead(int pin) { return shim::W.pin_level[pin & 31] > 0; }
inline void attachInterrupt(int n, void (*f)(), int) { if (n >= 0 && n < 2) shim::W.isr[n] = f; }

// delay(ms): the virtual clock advances by ms; `in_delay_pulses` encoder interrupts fire inside it, pulse k of n at
// t0 + k*ms/(n+1) (interrupts are enabled during delay() on the AVR; the motor pin has just been energised).
inline void delay(unsigned long ms) {
  const uint32_t t0 = shim::W.now;
  const unsigned n = shim::W.in_delay_pulses;
  shim::W.in_delay_pulses = 0;
  for (unsigned k = 1; k <= n; ++k) {
    shim::W.now = t0 + (uint32_t)(((uint64_t)k * ms) / (n + 1));
    shim::fire_isr(0);
  }
  shim::W.now = t0 + ms;
}

class HostSerial {
 public:
  void begin(unsigned long) {}
  int available() { return (int)shim::W.rx.size(); }
  int read() {
    if (shim::W.rx.empty()) return -1;
    int b = shim::W.rx.front();
    shim::W.rx.pop_front();
    return b;
  }
  size_t write(uint8_t c) { shim::W.tx.push_back((char)c); return 1; }
  // Print.h overload set (the `long` ones are the 32-bit ones because of the macro; `int` on the AVR is 16 bit but
  // the sketch never prints an int)
  size_t print(const char s[]) { size_t n = 0; while (*s) { write((uint8_t)*s++); ++n; } return n; }
  size_t print(char c) { return write((uint8_t)c); }
  size_t print(unsigned char b, int = DEC) { return printU(b); }
  size_t print(int32_t v, int = DEC) { return printS(v); }
  size_t print(uint32_t v, int = DEC) { return printU(v); }
  size_t println() { return print("\r\n"); }
  size_t println(const char s[]) { size_t n = print(s); return n + println(); }
  size_t println(char c) { size_t n = print(c); return n + println(); }
  size_t println(unsigned char b, int = DEC) { size_t n = print(b); return n + println(); }
  size_t println(int32_t v, int = DEC) { size_t n = print(v); return n + println(); }
  size_t println(uint32_t v, int = DEC) { size_t n = print(v); return n + println(); }

 private:
  size_t printU(uint32_t v) {
    char tmp[16]; int i = 0;
    do { tmp[i++] = (char)('0' + v % 10); v /= 10; } while (v);
    size_t n = 0; while (i) { write((uint8_t)tmp[--i]); ++n; }
    return n;
  }
  size_t printS(int32_t v) {
    if (v < 0) { write('-'); return 1 + printU((uint32_t)0 - (uint32_t)v); }
    return printU((uint32_t)v);
  }
};
extern HostSerial Serial;

#endif
