#ifndef POUPOOL_SHIM_WDT_H
#define POUPOOL_SHIM_WDT_H
#include <Arduino.h>
#define WDTO_1S 6
inline void wdt_enable(int) { shim::W.wdt_on = true; }
inline void wdt_reset() { ++shim::W.wdt_resets; }
#endif
