#!/bin/sh
# Host build of the unmodified cover sketch: build/cover_host and build/cover_host_asan (ASan + UBSan).
# The sketch is read from $POUPOOL_REPO (default /repo).  -fwrapv: signed overflow wraps (what the Lean model states
# explicitly with wrap32); -fno-access-control: the harness prints private members; long is forced to 32 bit.
set -e
HERE="$(cd "$(dirname "$0")" && pwd)"
REPO="${POUPOOL_REPO:-/repo}"
INO="$REPO/arduino/cover/cover.ino"
OUT="${COVER_HOST_OUT:-$HERE/build}"
CXX="${CXX:-g++}"
mkdir -p "$OUT"
[ -f "$INO" ] || { echo "missing $INO" >&2; exit 2; }
COMMON="-std=c++17 -x c++ -fno-access-control -fwrapv -Wno-unused-parameter -I$HERE/shim -DCOVER_INO=\"$INO\""
$CXX $COMMON -O1 -o "$OUT/cover_host" "$HERE/host_main.cpp" &
P1=$!
$CXX $COMMON -O1 -g -fsanitize=address,undefined -fno-sanitize-recover=undefined -fno-omit-frame-pointer \
    -o "$OUT/cover_host_asan" "$HERE/host_main.cpp" &
P2=$!
wait $P1
wait $P2
