import Poupool.Model.Compose3
import Poupool.Proofs.ComposeRun
/-!
  The chain  A → B → C  (`Model/Compose3.lean`) projects onto the two pair systems of `Model/Compose.lean`:

  * `treach_projAB` – every reachable triple state, seen as (A, B, B's inbox, A's pending effects), is a reachable
    state of the pair system `SAB`;
  * `treach_projBC` – seen as (B, C, C's inbox, B's pending effects), it is a reachable state of `SBC`.

  Steps of the third actor and of its inbox are stutters of the pair; B's service of a message is `deliver` in `SAB`
  and `mBegin` in `SBC` at once (`stepE_sound`).  Hence every theorem about `CReach SAB` and about `CReach SBC` holds
  of the same triple state; `chain_halted_when_served` chains `halted_when_served` through B.

  `run3_sound`: the executable scheduler only produces triple steps.
-/
namespace Poupool.Compose3
open Poupool Poupool.Compose

theorem projAB_tinit (S : TSpec) : projAB (tinit S) = cinit S.SAB := by
  simp only [projAB, tinit, cinit, S.agree]

theorem projBC_tinit (S : TSpec) : projBC (tinit S) = cinit S.SBC := rfl

/-- **Projection onto the upper link.** -/
theorem treach_projAB (S : TSpec) {g : TSt} (h : TReach S g) : CReach S.SAB (projAB g) := by
  induction h with
  | init => rw [projAB_tinit]; exact CReach.init
  | @step g g' _ hs ih =>
      cases hs with
      | aBegin msg a' effs hidle hmsg h => exact CReach.step ih (CStep.mBegin (projAB g) msg a' effs hidle hmsg h)
      | aTell t rest msg h ht => exact CReach.step ih (CStep.mTell (projAB g) t rest msg h ht)
      | aEmit t rest h ht => exact CReach.step ih (CStep.mEmit (projAB g) t rest h ht)
      | aAsk ans t f rest h hq => exact CReach.step ih (CStep.mAsk (projAB g) ans t f rest h hq)
      | otherB m hm =>
          have hm' : m ∈ allMsgs S.SAB.DX := by rw [S.agree]; exact hm
          exact CReach.step ih (CStep.other (projAB g) m hm')
      | bServe e rest b' effs h hidle hm hs =>
          have hm' : e.2 ∈ allMsgs S.SAB.DX := by rw [S.agree]; exact hm
          have conv : (b', effs) ∈ stepE S.DB g.b e.2 → b' ∈ step S.SAB.DX g.b e.2 := by
            intro hmem
            rw [S.agree]
            exact stepE_sound hmem
          refine CReach.step ih (CStep.deliver (projAB g) e rest b' h hm' ?_)
          by_cases hc : e.1 = false ∧ S.SAB.isStart e.2 = true
          · rw [if_pos hc] at hs ⊢
            refine ⟨hs.1, ?_⟩
            by_cases ha : S.SAB.allowed.contains g.a.leaf = true
            · have hs2 := hs.2
              rw [if_pos ha] at hs2
              show if S.SAB.allowed.contains g.a.leaf = true then _ else _
              rw [if_pos ha]
              exact conv hs2
            · have hs2 := hs.2
              rw [if_neg ha] at hs2
              show if S.SAB.allowed.contains g.a.leaf = true then _ else _
              rw [if_neg ha]
              exact hs2.1
          · rw [if_neg hc] at hs ⊢
            exact conv hs
      | bTell => exact ih
      | bEmit => exact ih
      | bAsk => exact ih
      | otherC => exact ih
      | cServe => exact ih

/-- **Projection onto the lower link.** -/
theorem treach_projBC (S : TSpec) {g : TSt} (h : TReach S g) : CReach S.SBC (projBC g) := by
  induction h with
  | init => exact CReach.init
  | @step g g' _ hs ih =>
      cases hs with
      | aBegin => exact ih
      | aTell => exact ih
      | aEmit => exact ih
      | aAsk => exact ih
      | otherB => exact ih
      | bServe e rest b' effs h hidle hm hs =>
          have begin : (b', effs) ∈ stepE S.DB g.b e.2 →
              CReach S.SBC (projBC { g with b := b', inboxB := rest, todoB := effs }) := fun hmem =>
            CReach.step ih (CStep.mBegin (projBC g) e.2 b' effs hidle hm hmem)
          by_cases hc : e.1 = false ∧ S.SAB.isStart e.2 = true
          · rw [if_pos hc] at hs
            by_cases ha : S.SAB.allowed.contains g.a.leaf = true
            · have hs2 := hs.2
              rw [if_pos ha] at hs2
              exact begin hs2
            · -- refused: B does nothing, a stutter of `SBC`
              have hs2 := hs.2
              rw [if_neg ha] at hs2
              obtain ⟨hb, he⟩ := hs2
              subst hb he
              have : projBC { g with b := g.b, inboxB := rest, todoB := [] } = projBC g := by
                simp only [projBC, hidle]
              rw [this]
              exact ih
          · rw [if_neg hc] at hs
            exact begin hs
      | bTell t rest msg h ht => exact CReach.step ih (CStep.mTell (projBC g) t rest msg h ht)
      | bEmit t rest h ht => exact CReach.step ih (CStep.mEmit (projBC g) t rest h ht)
      | bAsk ans t f rest h hq => exact CReach.step ih (CStep.mAsk (projBC g) ans t f rest h hq)
      | otherC m hm => exact CReach.step ih (CStep.other (projBC g) m hm)
      | cServe e rest c' h hm hs => exact CReach.step ih (CStep.deliver (projBC g) e rest c' h hm hs)

/-- each component of a reachable triple state is a reachable state of that actor's own model -/
theorem treach_a (S : TSpec) {g : TSt} (h : TReach S g) : Reach S.DA g.a := creach_m S.SAB (treach_projAB S h)

theorem treach_b (S : TSpec) {g : TSt} (h : TReach S g) : Reach S.DB g.b := creach_m S.SBC (treach_projBC S h)

theorem treach_c (S : TSpec) {g : TSt} (h : TReach S g) : Reach S.DC g.c := creach_x S.SBC (treach_projBC S h)

/-- **Chain theorem.** In one execution of A → B → C, for every interleaving: A and B between two handlers, A's
    ghost variable says "B halted", none of A's messages waits in B's inbox, none of B's messages waits in C's
    inbox, and (the link, an invariant of B's own model) whenever B is halted its ghost variable says "C halted"
    ⇒ B is halted and C is halted. -/
theorem chain_halted_when_served (S : TSpec) (mAB : MasterOK S.SAB) (sAB : SlaveOK S.SAB)
    (mBC : MasterOK S.SBC) (sBC : SlaveOK S.SBC)
    (link : ∀ b, Reach S.DB b → S.SAB.isHalt b = true → S.SBC.isG (getNth b.vars S.SBC.v) = true)
    {g : TSt} (h : TReach S g) (hA : g.todoA = []) (hB : g.todoB = [])
    (hg : S.SAB.isG (getNth g.a.vars S.SAB.v) = true) (hsB : noMaster g.inboxB) (hsC : noMaster g.inboxC) :
    S.SAB.isHalt g.b = true ∧ S.SBC.isHalt g.c = true := by
  have hb : S.SAB.isHalt g.b = true := halted_when_served S.SAB mAB sAB (treach_projAB S h) hA hg hsB
  exact ⟨hb, halted_when_served S.SBC mBC sBC (treach_projBC S h) hB (link g.b (treach_b S h) hb) hsC⟩

/-! ## the executable scheduler only produces triple steps -/

theorem effA_sound (S : TSpec) (g : TSt) (p : CSt) (h : eff1 S.SAB (projAB g) = some p) :
    TStep S g (liftAB g p) := by
  simp only [eff1] at h
  split at h
  · cases h
  · rename_i t rest htodo
    split at h
    · rename_i msg ht
      simp only [Option.some.injEq] at h
      subst h
      exact TStep.aTell g t rest msg htodo ht
    · rename_i ht
      simp only [Option.some.injEq] at h
      subst h
      exact TStep.aEmit g t rest htodo ht
  · rename_i ans t f rest htodo
    by_cases hc : (!askHalting S.SAB (if ans then t else f) ||
        ((projAB g).inbox.all (fun e => !e.1) && S.SAB.isHalt (projAB g).x)) = true
    · rw [if_pos hc] at h
      simp only [Option.some.injEq] at h
      subst h
      refine TStep.aAsk g ans t f rest htodo ?_
      intro hq
      simp only [hq, Bool.not_true, Bool.false_or, Bool.and_eq_true, List.all_eq_true,
        Bool.not_eq_true'] at hc
      exact ⟨fun e he => hc.1 e he, hc.2⟩
    · rw [if_neg hc] at h
      cases h

theorem effB_sound (S : TSpec) (g : TSt) (p : CSt) (h : eff1 S.SBC (projBC g) = some p) :
    TStep S g (liftBC g p) := by
  simp only [eff1] at h
  split at h
  · cases h
  · rename_i t rest htodo
    split at h
    · rename_i msg ht
      simp only [Option.some.injEq] at h
      subst h
      exact TStep.bTell g t rest msg htodo ht
    · rename_i ht
      simp only [Option.some.injEq] at h
      subst h
      exact TStep.bEmit g t rest htodo ht
  · rename_i ans t f rest htodo
    by_cases hc : (!askHalting S.SBC (if ans then t else f) ||
        ((projBC g).inbox.all (fun e => !e.1) && S.SBC.isHalt (projBC g).x)) = true
    · rw [if_pos hc] at h
      simp only [Option.some.injEq] at h
      subst h
      refine TStep.bAsk g ans t f rest htodo ?_
      intro hq
      simp only [hq, Bool.not_true, Bool.false_or, Bool.and_eq_true, List.all_eq_true,
        Bool.not_eq_true'] at hc
      exact ⟨fun e he => hc.1 e he, hc.2⟩
    · rw [if_neg hc] at h
      cases h

theorem drainA_reach (S : TSpec) (n : Nat) : ∀ (g : TSt) (p : CSt), TReach S g →
    drainN S.SAB n (projAB g) = some p → TReach S (liftAB g p) := by
  induction n with
  | zero =>
      intro g p hr h
      simp only [drainN, Option.some.injEq] at h
      subst h; exact hr
  | succ n ih =>
      intro g p hr h
      simp only [drainN] at h
      split at h
      · simp only [Option.some.injEq] at h
        subst h; exact hr
      · cases he : eff1 S.SAB (projAB g) with
        | none => simp [he] at h
        | some p1 =>
            simp only [he] at h
            exact ih (liftAB g p1) p (TReach.step hr (effA_sound S g p1 he)) h

theorem drainB_reach (S : TSpec) (n : Nat) : ∀ (g : TSt) (p : CSt), TReach S g →
    drainN S.SBC n (projBC g) = some p → TReach S (liftBC g p) := by
  induction n with
  | zero =>
      intro g p hr h
      simp only [drainN, Option.some.injEq] at h
      subst h; exact hr
  | succ n ih =>
      intro g p hr h
      simp only [drainN] at h
      split at h
      · simp only [Option.some.injEq] at h
        subst h; exact hr
      · cases he : eff1 S.SBC (projBC g) with
        | none => simp [he] at h
        | some p1 =>
            simp only [he] at h
            exact ih (liftBC g p1) p (TReach.step hr (effB_sound S g p1 he)) h

theorem deliverC_sound (S : TSpec) (pick : St → Bool) (g : TSt) (p : CSt)
    (h : deliver1 S.SBC pick (projBC g) = some p) : TStep S g (liftBC g p) := by
  simp only [deliver1] at h
  split at h
  · cases h
  · rename_i e rest hin
    by_cases hm : (allMsgs S.SBC.DX).contains e.2 = true
    · have hm' : e.2 ∈ allMsgs S.DC := by simpa using hm
      simp only [hm, if_true] at h
      by_cases hc : (!e.1 && S.SBC.isStart e.2) = true
      · have hc' : e.1 = false ∧ S.SBC.isStart e.2 = true := by simpa using hc
        simp only [hc, if_true] at h
        by_cases hidle : (projBC g).todo.isEmpty = true
        · simp only [hidle, if_true] at h
          have hidle' : g.todoB = [] := by simpa [projBC] using hidle
          by_cases hal : S.SBC.allowed.contains (projBC g).m.leaf = true
          · simp only [hal, if_true] at h
            cases hf : (step S.SBC.DX (projBC g).x e.2).find? pick with
            | none => simp [hf] at h
            | some c' =>
                simp only [hf, Option.map_some, Option.some.injEq] at h
                subst h
                refine TStep.cServe g e rest c' hin hm' ?_
                rw [if_pos hc']
                refine ⟨hidle', ?_⟩
                show if S.SBC.allowed.contains (projBC g).m.leaf = true then _ else _
                rw [if_pos hal]
                exact List.mem_of_find?_eq_some hf
          · simp only [hal, Bool.false_eq_true, if_false, Option.some.injEq] at h
            subst h
            have : TStep S g { g with c := g.c, inboxC := rest } := by
              refine TStep.cServe g e rest g.c hin hm' ?_
              rw [if_pos hc']
              refine ⟨hidle', ?_⟩
              show if S.SBC.allowed.contains (projBC g).m.leaf = true then _ else _
              rw [if_neg hal]
            exact this
        · simp only [hidle, Bool.false_eq_true, if_false] at h
          cases h
      · have hc' : ¬(e.1 = false ∧ S.SBC.isStart e.2 = true) := by simpa using hc
        simp only [hc, Bool.false_eq_true, if_false] at h
        cases hf : (step S.SBC.DX (projBC g).x e.2).find? pick with
        | none => simp [hf] at h
        | some c' =>
            simp only [hf, Option.map_some, Option.some.injEq] at h
            subst h
            refine TStep.cServe g e rest c' hin hm' ?_
            rw [if_neg hc']
            exact List.mem_of_find?_eq_some hf
    · simp only [hm, Bool.false_eq_true, if_false] at h
      cases h

theorem serveC_reach (S : TSpec) (pick : St → Bool) (n : Nat) : ∀ (g : TSt) (p : CSt), TReach S g →
    serveN S.SBC pick n (projBC g) = some p → TReach S (liftBC g p) := by
  induction n with
  | zero =>
      intro g p hr h
      simp only [serveN, Option.some.injEq] at h
      subst h; exact hr
  | succ n ih =>
      intro g p hr h
      simp only [serveN] at h
      split at h
      · simp only [Option.some.injEq] at h
        subst h; exact hr
      · cases he : deliver1 S.SBC pick (projBC g) with
        | none => simp [he] at h
        | some p1 =>
            simp only [he] at h
            exact ih (liftBC g p1) p (TReach.step hr (deliverC_sound S pick g p1 he)) h

theorem serveB1_sound (S : TSpec) (pick : St × List Eff → Bool) (g g' : TSt) (h : serveB1 S pick g = some g') :
    TStep S g g' := by
  simp only [serveB1] at h
  split at h
  · cases h
  · rename_i e rest hin
    by_cases h0 : (g.todoB.isEmpty && (allMsgs S.DB).contains e.2) = true
    · have h0' : g.todoB = [] ∧ e.2 ∈ allMsgs S.DB := by simpa using h0
      obtain ⟨hidleB, hm⟩ := h0'
      rw [if_pos h0] at h
      by_cases hc : (!e.1 && S.SAB.isStart e.2) = true
      · have hc' : e.1 = false ∧ S.SAB.isStart e.2 = true := by simpa using hc
        rw [if_pos hc] at h
        by_cases hidle : g.todoA.isEmpty = true
        · rw [if_pos hidle] at h
          have hidle' : g.todoA = [] := by simpa using hidle
          by_cases hal : S.SAB.allowed.contains g.a.leaf = true
          · rw [if_pos hal] at h
            cases hf : (stepE S.DB g.b e.2).find? pick with
            | none => simp [hf] at h
            | some o =>
                obtain ⟨b', effs⟩ := o
                simp only [hf, Option.map_some, Option.some.injEq] at h
                subst h
                refine TStep.bServe g e rest b' effs hin hidleB hm ?_
                rw [if_pos hc', if_pos hal]
                exact ⟨hidle', List.mem_of_find?_eq_some hf⟩
          · rw [if_neg hal] at h
            simp only [Option.some.injEq] at h
            subst h
            have : TStep S g { g with b := g.b, inboxB := rest, todoB := [] } := by
              refine TStep.bServe g e rest g.b [] hin hidleB hm ?_
              rw [if_pos hc', if_neg hal]
              exact ⟨hidle', rfl, rfl⟩
            have heq : ({ g with b := g.b, inboxB := rest, todoB := [] } : TSt) = { g with inboxB := rest } := by
              rw [← hidleB]
            rw [← heq]
            exact this
        · rw [if_neg hidle] at h
          cases h
      · have hc' : ¬(e.1 = false ∧ S.SAB.isStart e.2 = true) := by simpa using hc
        rw [if_neg hc] at h
        cases hf : (stepE S.DB g.b e.2).find? pick with
        | none => simp [hf] at h
        | some o =>
            obtain ⟨b', effs⟩ := o
            simp only [hf, Option.map_some, Option.some.injEq] at h
            subst h
            refine TStep.bServe g e rest b' effs hin hidleB hm ?_
            rw [if_neg hc']
            exact List.mem_of_find?_eq_some hf
    · rw [if_neg h0] at h
      cases h

theorem act3_reach (S : TSpec) (g g' : TSt) (a : Act3) (hr : TReach S g) (h : act3 S g a = some g') :
    TReach S g' := by
  cases a with
  | a msg pick =>
      simp only [act3, act] at h
      split at h
      · rename_i hc
        simp only [Bool.and_eq_true, List.isEmpty_iff, List.contains_iff_mem] at hc
        cases hf : (stepE S.SAB.DM (projAB g).m msg).find? pick with
        | none => simp [hf] at h
        | some o =>
            obtain ⟨a', effs⟩ := o
            simp only [hf, Option.map_some, Option.some.injEq] at h
            subst h
            exact TReach.step hr (TStep.aBegin g msg a' effs hc.1 hc.2 (List.mem_of_find?_eq_some hf))
      · simp at h
  | effA =>
      simp only [act3] at h
      cases he : eff1 S.SAB (projAB g) with
      | none => simp [he] at h
      | some p =>
          simp only [he, Option.map_some, Option.some.injEq] at h
          subst h
          exact TReach.step hr (effA_sound S g p he)
  | drainA =>
      simp only [act3] at h
      cases he : drainN S.SAB g.todoA.length (projAB g) with
      | none => simp [he] at h
      | some p =>
          simp only [he, Option.map_some, Option.some.injEq] at h
          subst h
          exact drainA_reach S _ g p hr he
  | otherB m =>
      simp only [act3] at h
      split at h
      · rename_i hc
        simp only [Option.some.injEq] at h
        subst h
        exact TReach.step hr (TStep.otherB g m (by simpa using hc))
      · cases h
  | serveB pick => exact TReach.step hr (serveB1_sound S pick g g' h)
  | effB =>
      simp only [act3] at h
      cases he : eff1 S.SBC (projBC g) with
      | none => simp [he] at h
      | some p =>
          simp only [he, Option.map_some, Option.some.injEq] at h
          subst h
          exact TReach.step hr (effB_sound S g p he)
  | drainB =>
      simp only [act3] at h
      cases he : drainN S.SBC g.todoB.length (projBC g) with
      | none => simp [he] at h
      | some p =>
          simp only [he, Option.map_some, Option.some.injEq] at h
          subst h
          exact drainB_reach S _ g p hr he
  | otherC m =>
      simp only [act3] at h
      split at h
      · rename_i hc
        simp only [Option.some.injEq] at h
        subst h
        exact TReach.step hr (TStep.otherC g m (by simpa using hc))
      · cases h
  | deliverC pick =>
      simp only [act3] at h
      cases he : deliver1 S.SBC pick (projBC g) with
      | none => simp [he] at h
      | some p =>
          simp only [he, Option.map_some, Option.some.injEq] at h
          subst h
          exact TReach.step hr (deliverC_sound S pick g p he)
  | serveC pick =>
      simp only [act3] at h
      cases he : serveN S.SBC pick g.inboxC.length (projBC g) with
      | none => simp [he] at h
      | some p =>
          simp only [he, Option.map_some, Option.some.injEq] at h
          subst h
          exact serveC_reach S pick _ g p hr he

/-- every state produced by the executable scheduler is a reachable state of the triple -/
theorem run3_sound (S : TSpec) (as : List Act3) : ∀ (g g' : TSt), TReach S g → run3 S as g = some g' →
    TReach S g' := by
  induction as with
  | nil =>
      intro g g' hr h
      simp only [run3, Option.some.injEq] at h
      subst h
      exact hr
  | cons a as ih =>
      intro g g' hr h
      simp only [run3] at h
      cases ha : act3 S g a with
      | none => simp [ha] at h
      | some g1 =>
          simp only [ha] at h
          exact ih g1 g' (act3_reach S g g1 a hr ha) h

end Poupool.Compose3
