import Poupool.Generated.ActorCerts
import Poupool.Model.Glue
/-! Helpers shared by the per-actor property files. -/
namespace Poupool
open Poupool.Gen

/-- value of modelled variable `i` -/
def St.v (s : St) (i : Nat) : Int := getNth s.vars i

/-- every state of a certificate satisfies `P` (evaluated by the kernel over the whole certificate) -/
def allStates (B : Buckets) (P : St → Bool) : Bool := (statesOf B).all P

/-- for every certified state and every successor under message `m` -/
def allSucc (D : ActorDesc) (B : Buckets) (m : Msg) (P : St → St → Bool) : Bool :=
  (statesOf B).all fun s => (step D s m).all fun s' => P s s'

theorem reach_in_cert {D : ActorDesc} {B : Buckets} (hc : closed D B = true) {s : St} (h : Reach D s) :
    s ∈ statesOf B := memB_mem (reach_mem_of_closed D B hc s h)

theorem allSucc_sound {D : ActorDesc} {B : Buckets} {m : Msg} {P : St → St → Bool}
    (hc : closed D B = true) (hP : allSucc D B m P = true) {s s' : St} (h : Reach D s) (hs : s' ∈ step D s m) :
    P s s' = true := by
  have hm := reach_in_cert hc h
  simp only [allSucc, List.all_eq_true] at hP
  exact hP s hm s' hs

/-- for every certified state, every message of the alphabet that satisfies `sel`, and every successor -/
def allSuccSel (D : ActorDesc) (B : Buckets) (sel : Msg → Bool) (P : St → St → Bool) : Bool :=
  (statesOf B).all fun s => (allMsgs D).all fun m => !sel m || (step D s m).all fun s' => P s s'

theorem allSuccSel_sound {D : ActorDesc} {B : Buckets} {sel : Msg → Bool} {P : St → St → Bool}
    (hc : closed D B = true) (hP : allSuccSel D B sel P = true) {s s' : St} {m : Msg} (h : Reach D s)
    (hm : m ∈ allMsgs D) (hsel : sel m = true) (hs : s' ∈ step D s m) : P s s' = true := by
  have hmem := reach_in_cert hc h
  simp only [allSuccSel, List.all_eq_true, Bool.or_eq_true, Bool.not_eq_true'] at hP
  rcases hP s hmem m hm with h1 | h2
  · simp [hsel] at h1
  · exact h2 s' hs

theorem imp_of_or {a b : Bool} (h : (!a || b) = true) (ha : a = true) : b = true := by
  cases a <;> simp_all

end Poupool
