/-
  Preservation of the closed-loop invariant (Proofs/EcoLoop.lean) by every `tick` event.
-/
import Poupool.Proofs.EcoLoop

set_option linter.unusedSimpArgs false
set_option linter.unusedVariables false
namespace Poupool.Eco
open Poupool.Generated

section adv
variable (s : Loop) (t : Int)
@[simp] theorem adv_now : (s.advance t).now = t := rfl
@[simp] theorem adv_due : (s.advance t).due = s.due := rfl
@[simp] theorem adv_phase : (s.advance t).phase = s.phase := rfl
@[simp] theorem adv_pump : (s.advance t).pumpOn = s.pumpOn := rfl
@[simp] theorem adv_on : (s.advance t).onToday = s.onToday + (if s.pumpOn then t - s.now else 0) := rfl
@[simp] theorem adv_days : (s.advance t).days = s.days := rfl
@[simp] theorem adv_full : (s.advance t).full = s.full := rfl
@[simp] theorem adv_toN : (s.advance t).toNormal = s.toNormal := rfl
@[simp] theorem adv_eco : (s.advance t).eco = s.eco := rfl
@[simp] theorem adv_gTc : (s.advance t).gTc = s.gTc := rfl
@[simp] theorem adv_gDc : (s.advance t).gDc = s.gDc := rfl
@[simp] theorem adv_gNr : (s.advance t).gNr = s.gNr := rfl
@[simp] theorem adv_gN : (s.advance t).gN = s.gN := rfl
@[simp] theorem adv_gD : (s.advance t).gD = s.gD := rfl
@[simp] theorem adv_gRc : (s.advance t).gRc = s.gRc := rfl
@[simp] theorem adv_gJ : (s.advance t).gJ = s.gJ := rfl
@[simp] theorem adv_gWoff : (s.advance t).gWoff = s.gWoff := rfl
@[simp] theorem adv_gW : (s.advance t).gW = s.gW := rfl
@[simp] theorem adv_gCredit : (s.advance t).gCredit = s.gCredit := rfl
@[simp] theorem adv_gCyc : (s.advance t).gCyc = s.gCyc := rfl
@[simp] theorem adv_gU : (s.advance t).gU = s.gU := rfl
@[simp] theorem adv_gPlain : (s.advance t).gPlain = s.gPlain := rfl
end adv

/-- facts about a freshly computed plan -/
theorem compute_plan (e : EcoMode) (now : Int) :
    0 ≤ (e.compute now).offD ∧ 0 < (e.compute now).onD ∧ 0 < (e.compute now).tankD
    ∧ 2 * (e.remainingPeriods * (e.compute now).offD) ≤ max 0 (2 * (e.remainingTime now - e.remainingDuration) + e.remainingPeriods)
    ∧ (e.remainingTime now ≤ (e.compute now).onD + (e.compute now).tankD
        ∨ 2 * e.remainingDuration - e.remainingPeriods ≤ 2 * (e.remainingPeriods * ((e.compute now).onD + (e.compute now).tankD)))
    ∧ (e.compute now).filtration = e.filtration ∧ (e.compute now).current = e.current
    ∧ (e.compute now).nextReset = e.nextReset ∧ 1 ≤ e.remainingPeriods := by
  have hmin := cfg_minOn
  have htk := cfg_tankMin
  have hcl := cfg_offClamp
  have hn : 1 ≤ e.remainingPeriods := by unfold EcoMode.remainingPeriods; omega
  have hon : EcoConfig.minOnUs ≤ e.onTotal now ∧ min (e.remainingTime now) (divNearest e.remainingDuration e.remainingPeriods) ≤ e.onTotal now := by
    unfold EcoMode.onTotal; simp only; split <;> omega
  have htank : EcoConfig.tankMinUs ≤ e.tankOf now := by
    unfold EcoMode.tankOf; simp only; split <;> omega
  have hb1 := (divNearest_bounds (e.remainingTime now - e.remainingDuration) e.remainingPeriods (by omega)).1
  have hb2 := (divNearest_bounds e.remainingDuration e.remainingPeriods (by omega)).2
  refine ⟨?_, ?_, ?_, ?_, ?_, rfl, rfl, rfl, hn⟩
  · show 0 ≤ e.offOf now
    unfold EcoMode.offOf; simp only [hcl, Bool.true_and]
    split
    · omega
    · rename_i h; simp at h; omega
  · show 0 < (if e.tankOf now < e.onTotal now then e.onTotal now - e.tankOf now else e.onTotal now)
    split <;> omega
  · show 0 < e.tankOf now
    omega
  · show 2 * (e.remainingPeriods * e.offOf now) ≤ _
    unfold EcoMode.offOf; simp only [hcl, Bool.true_and]
    split
    · rw [Int.mul_zero]; omega
    · omega
  · show e.remainingTime now ≤ (if e.tankOf now < e.onTotal now then e.onTotal now - e.tankOf now else e.onTotal now) + e.tankOf now ∨
      2 * e.remainingDuration - e.remainingPeriods ≤ 2 * (e.remainingPeriods * ((if e.tankOf now < e.onTotal now then e.onTotal now - e.tankOf now else e.onTotal now) + e.tankOf now))
    have hP : e.onTotal now ≤ (if e.tankOf now < e.onTotal now then e.onTotal now - e.tankOf now else e.onTotal now) + e.tankOf now := by
      split <;> omega
    generalize (if e.tankOf now < e.onTotal now then e.onTotal now - e.tankOf now else e.onTotal now) + e.tankOf now = P at *
    by_cases hc : e.remainingTime now ≤ divNearest e.remainingDuration e.remainingPeriods
    · left; omega
    · right
      have : divNearest e.remainingDuration e.remainingPeriods ≤ P := by omega
      have := Int.mul_le_mul_of_nonneg_left this (show 0 ≤ e.remainingPeriods by omega)
      omega

/-- what `on_enter_eco_compute` needs -/
structure PreCompute (eps : Int) (s : Loop) : Prop where
  heps : 0 ≤ eps
  heps2 : eps ≤ HOUR
  hdelay : 0 ≤ s.eco.filtration.delay
  hnr : s.now < s.eco.nextReset
  hplain : s.gPlain = true
  hacc1 : s.full = true → s.eco.filtration.duration ≤ s.onToday
  hacc2 : s.full = true → s.onToday ≤ s.eco.filtration.duration + s.gU
  hub : s.full = true → s.eco.filtration.duration ≤ s.eco.filtration.delay + EcoConfig.pollDelayUs + eps
  hdays : ∀ r ∈ s.days, DayOK r

theorem doUpdate_noreset (s : Loop) (eps fnum fden : Int) (h : ¬ s.eco.nextReset ≤ s.now) :
    (s.doUpdate eps fnum fden).2.reset = false ∧ (s.doUpdate eps fnum fden).1.now = s.now
    ∧ (s.doUpdate eps fnum fden).1.due = s.due ∧ (s.doUpdate eps fnum fden).1.phase = s.phase
    ∧ (s.doUpdate eps fnum fden).1.pumpOn = s.pumpOn
    ∧ (s.doUpdate eps fnum fden).1.onToday = s.onToday ∧ (s.doUpdate eps fnum fden).1.days = s.days
    ∧ (s.doUpdate eps fnum fden).1.full = s.full ∧ (s.doUpdate eps fnum fden).1.toNormal = s.toNormal
    ∧ (s.doUpdate eps fnum fden).1.gTc = s.gTc ∧ (s.doUpdate eps fnum fden).1.gDc = s.gDc
    ∧ (s.doUpdate eps fnum fden).1.gNr = s.gNr ∧ (s.doUpdate eps fnum fden).1.gN = s.gN
    ∧ (s.doUpdate eps fnum fden).1.gD = s.gD ∧ (s.doUpdate eps fnum fden).1.gRc = s.gRc
    ∧ (s.doUpdate eps fnum fden).1.gJ = s.gJ ∧ (s.doUpdate eps fnum fden).1.gWoff = s.gWoff
    ∧ (s.doUpdate eps fnum fden).1.gW = s.gW ∧ (s.doUpdate eps fnum fden).1.gCredit = s.gCredit
    ∧ (s.doUpdate eps fnum fden).1.gCyc = s.gCyc
    ∧ (s.doUpdate eps fnum fden).1.gU = s.gU ∧ (s.doUpdate eps fnum fden).1.gPlain = s.gPlain
    ∧ (s.doUpdate eps fnum fden).1.eco.onD = s.eco.onD ∧ (s.doUpdate eps fnum fden).1.eco.offD = s.eco.offD
    ∧ (s.doUpdate eps fnum fden).1.eco.tankD = s.eco.tankD
    ∧ (s.doUpdate eps fnum fden).1.eco.nextReset = s.eco.nextReset
    ∧ (s.doUpdate eps fnum fden).1.eco.filtration = s.eco.filtration.update s.now fnum fden
    ∧ (s.doUpdate eps fnum fden).1.eco.current = s.eco.current.update s.now 1 1 := by
  simp [Loop.doUpdate, EcoMode.update, h]

theorem enterCompute_inv (eps : Int) (s : Loop) (h : PreCompute eps s) : Inv eps (s.enterCompute eps).1 := by
  obtain ⟨heps, heps2, hdelay, hnr, hplain, hacc1, hacc2, hub, hdays⟩ := h
  have hfc := cfg_fC
  have hcd := cfg_cd
  have hpoll := cfg_poll
  have hsp := doUpdate_noreset { s with eco := s.eco.clear } eps EcoConfig.factorComputeNum EcoConfig.factorComputeDen
    (by show ¬ s.eco.nextReset ≤ s.now; omega)
  simp only [Loop.enterCompute]
  simp only [hfc.1, hfc.2, EcoMode.clear, Timer.clear, Timer.setDelay, Timer.update] at hsp ⊢
  generalize Loop.doUpdate _ eps 0 1 = r at *
  obtain ⟨h1, h2, h3, h4, h5, h6, h7, h8, h9, h10, h11, h12, h13, h14, h15, h16, h17, h18, h19, h20, h21, h22, h23, h24, h25, h26, h27, h28⟩ := hsp
  obtain ⟨p1, p2, p3, p4, p5, p6, p7, p8, p9⟩ := compute_plan r.1.eco s.now
  have hrd : r.1.eco.remainingDuration = max 0 (s.eco.filtration.delay - s.eco.filtration.duration) := by
    unfold EcoMode.remainingDuration; rw [h27]
  have hrt : r.1.eco.remainingTime s.now = max 0 (s.eco.nextReset - s.now) := by
    unfold EcoMode.remainingTime; rw [h26]
  rw [hrd, hrt] at p4 p5
  cases hfull : s.full <;> simp only [hfull, Bool.false_eq_true, false_implies, true_implies] at hacc1 hacc2 hub
  all_goals
    refine ⟨⟨?_, ?_, ?_, ?_, ?_, ?_, ?_, ?_, ?_, ?_, ?_, ?_, ?_, ?_, ?_, ?_, ?_, ?_, ?_, ?_, ?_, ?_⟩, ?_, ?_, Or.inl ⟨?_, ?_, ?_, ?_, ?_, ?_, ?_, ?_, ?_, ?_, ?_⟩⟩
  all_goals (try simp only [p6, p7, p8, h2, h3, h4, h5, h6, h7, h8, h9, h10, h11, h12, h13, h14, h15, h16, h17, h18, h19, h20, h21, h22, h23, h24, h25, h26, h27, h28, hrd, hrt, hfull, Bool.false_eq_true, false_implies, true_implies, Int.zero_mul])
  all_goals (first | assumption | omega | skip)

/-- the state right after a poll that saw the reset -/
structure PostReset (eps : Int) (s : Loop) : Prop where
  heps : 0 ≤ eps
  heps2 : eps ≤ HOUR
  hdelay : 0 ≤ s.eco.filtration.delay
  hnr : s.now + 2 * eps < s.eco.nextReset
  hplain : s.gPlain = true
  hon0 : s.onToday = 0
  hu0 : s.gU = 0
  hdur0 : s.eco.filtration.duration = 0
  hdays : ∀ r ∈ s.days, DayOK r

theorem reload_inv (eps : Int) (s : Loop) (h : PostReset eps s) (j1 j2 : Int) (hj1 : 0 ≤ j1 ∧ j1 ≤ eps) (hj2 : 0 ≤ j2 ∧ j2 ≤ eps) :
    Inv eps (s.reloadEco eps j1 j2).1 := by
  obtain ⟨heps, heps2, hdelay, hnr, hplain, hon0, hu0, hdur0, hdays⟩ := h
  have hpoll := cfg_poll
  simp only [Loop.reloadEco]
  apply enterCompute_inv
  constructor
  all_goals (try simp only [Loop.advance, EcoMode.clear, Timer.clear, Timer.setDelay, hon0, hu0, hdur0])
  all_goals (first | assumption | omega | skip)
  all_goals (intro _; split <;> split <;> omega)

theorem doUpdate_reset (s : Loop) (eps fnum fden : Int) (h : s.eco.nextReset ≤ s.now) :
    (s.doUpdate eps fnum fden).2.reset = true ∧ (s.doUpdate eps fnum fden).1.now = s.now
    ∧ (s.doUpdate eps fnum fden).1.onToday = 0 ∧ (s.doUpdate eps fnum fden).1.gU = 0
    ∧ (s.doUpdate eps fnum fden).1.gPlain = true
    ∧ (s.doUpdate eps fnum fden).1.eco.nextReset = s.eco.nextReset + DAY
    ∧ (s.doUpdate eps fnum fden).1.eco.filtration.duration = 0
    ∧ (s.doUpdate eps fnum fden).1.eco.filtration.delay = s.eco.filtration.delay
    ∧ (s.doUpdate eps fnum fden).1.days =
        { on := s.onToday, full := s.full, plain := s.gPlain, dur := (s.eco.filtration.update s.now fnum fden).duration, u := s.gU,
          lb := min s.eco.filtration.delay (s.gDc + s.gRc) - slackOf eps s.gJ s.gN,
          ub := s.eco.filtration.delay + EcoConfig.pollDelayUs + eps, cyc := s.gCyc, n := s.gN, j := s.gJ } :: s.days := by
  simp [Loop.doUpdate, EcoMode.update, h, Loop.roll, Timer.reset, Timer.update]
  cases s.eco.filtration.last <;> simp

theorem slack_nonneg (eps j n : Int) (he : 0 ≤ eps) (hj : 0 ≤ j) (hn : 1 ≤ n) : 0 ≤ slackOf eps j n := by
  unfold slackOf
  have hp := cfg_poll
  have := Int.mul_nonneg (show 0 ≤ n by omega) (show 0 ≤ EcoConfig.pollDelayUs + eps by omega)
  omega

theorem tick_waiting (eps : Int) (s : Loop) (h : Inv eps s) (hp : s.phase = .waiting) (j0 j1 j2 : Int)
    (hj0 : 0 ≤ j0 ∧ j0 ≤ eps) (hj1 : 0 ≤ j1 ∧ j1 ≤ eps) (hj2 : 0 ≤ j2 ∧ j2 ≤ eps) :
    Inv eps (ecoStep eps s (.tick j0 j1 j2)).1 := by
  have hfw := cfg_fW
  have hpoll := cfg_poll
  have hcd := cfg_cd
  obtain ⟨⟨heps, heps2, hdelay, hnext, hTc, hN, hoff, hon, htank, hNoff, hNP, hD, hRc, hNr, hplain, hW, hC, hW0, hJ0,
    hacc1, hub, hdays⟩, hWC, hcur0, hphase⟩ := h
  rcases hphase with ⟨hc, _⟩ | ⟨_, hpump, htim, hcd', hacc2, hnr, hb⟩ | ⟨hc, _⟩ | ⟨hc, _⟩
  · rw [hp] at hc; cases hc
  · simp only [hp, if_true] at hWC
    by_cases hr : s.eco.nextReset ≤ max s.now s.due + j0
    · -- the poll sees the reset
      have hsp := doUpdate_reset (s.advance (max s.now s.due + j0)) eps 0 1 (by simpa using hr)
      have hstep : (ecoStep eps s (.tick j0 j1 j2)).1 =
          (((s.advance (max s.now s.due + j0)).doUpdate eps 0 1).1.reloadEco eps j1 j2).1 := by
        simp only [ecoStep, adv_phase, hp, hfw.1, hfw.2]
        simp [hsp.1]
      rw [hstep]
      apply reload_inv _ _ _ _ _ hj1 hj2
      simp only [adv_now, adv_due, adv_phase, adv_pump, adv_on, adv_days, adv_full, adv_toN, adv_eco, adv_gTc, adv_gDc, adv_gNr,
        adv_gN, adv_gD, adv_gRc, adv_gJ, adv_gWoff, adv_gW, adv_gCredit, adv_gCyc, adv_gU, adv_gPlain, hpump,
        Bool.false_eq_true, if_false, Int.add_zero] at hsp
      generalize (s.advance (max s.now s.due + j0)).doUpdate eps 0 1 = r at *
      obtain ⟨r1, r2, r3, r4, r5, r6, r7, r8, r9⟩ := hsp
      have hDAY : DAY = 86400000000 := rfl
      have hHOUR : HOUR = 3600000000 := rfl
      refine ⟨heps, heps2, by omega, ?_, r5, r3, r4, r7, ?_⟩
      · rcases htim with ⟨hfl, hcl, hcz, hdue⟩ | ⟨hfl, hcl, hdue⟩ <;> omega
      · intro d hd
        rw [r9] at hd
        rcases List.mem_cons.mp hd with hd | hd
        · subst hd
          intro hfull hpl
          simp only at hfull hpl ⊢
          simp only [hfull, true_implies] at hacc1 hub hacc2
          have hsl := slack_nonneg eps s.gJ s.gN heps hJ0 hN
          rcases htim with ⟨hfl, hcl, hcz, hdue⟩ | ⟨hfl, hcl, hdue⟩
          · simp only [Timer.update, hfl, hcl]
            refine ⟨?_, by omega, by omega, by omega⟩
            rcases hb with hb | ⟨hb1, hb2, hb3⟩
            · simp only [Timer.elapsed, decide_eq_true_eq] at hb; omega
            · simp only [idle, res, hfl, if_true] at hb1
              simp only [slackOf, Int.add_zero]
              exact final_arith s.eco.filtration.delay s.gDc s.gRc s.gD s.gN s.eco.offD (s.eco.onD + s.eco.tankD) s.gJ s.gWoff s.gW
                s.gCyc s.gCredit s.eco.filtration.duration (max s.now s.due + j0 - s.gTc) 0 (EcoConfig.pollDelayUs + eps) true
                hN hoff (by omega) (by omega) hW0 hJ0 hNoff hNP hD hW hC (by simpa using hWC) (by omega) (by omega)
                (by simp; omega) hb3
          · simp only [Timer.update, hfl, hcl, scale_zero, scale_one]
            refine ⟨?_, by omega, by omega, by omega⟩
            rcases hb with hb | ⟨hb1, hb2, hb3⟩
            · simp only [Timer.elapsed, decide_eq_true_eq] at hb; omega
            · simp only [idle, res, hfl, if_false] at hb1
              rcases hb2 with hb2 | hb2
              · rw [hfl] at hb2; cases hb2
              · simp only [slackOf, Int.add_zero]
                exact final_arith s.eco.filtration.delay s.gDc s.gRc s.gD s.gN s.eco.offD (s.eco.onD + s.eco.tankD) s.gJ s.gWoff s.gW
                  s.gCyc s.gCredit s.eco.filtration.duration (max s.now s.due + j0 - s.gTc)
                  (s.eco.current.duration + (max s.now s.due + j0 - s.now)) (EcoConfig.pollDelayUs + eps) true
                  hN hoff (by omega) (by omega) hW0 hJ0 hNoff hNP hD hW hC (by simpa using hWC) (by omega) (by omega)
                  (by simp; omega) hb3
        · exact hdays d hd
    · -- no reset
      have hsp := doUpdate_noreset (s.advance (max s.now s.due + j0)) eps 0 1 (by simpa using hr)
      simp only [adv_now, adv_due, adv_phase, adv_pump, adv_on, adv_days, adv_full, adv_toN, adv_eco, adv_gTc, adv_gDc, adv_gNr,
        adv_gN, adv_gD, adv_gRc, adv_gJ, adv_gWoff, adv_gW, adv_gCredit, adv_gCyc, adv_gU, adv_gPlain, hpump,
        Bool.false_eq_true, if_false, Int.add_zero] at hsp
      cases he : ((s.advance (max s.now s.due + j0)).doUpdate eps 0 1).1.eco.elapsedOff
      · -- stay in eco_waiting
        have hstep : (ecoStep eps s (.tick j0 j1 j2)).1 =
            { ((s.advance (max s.now s.due + j0)).doUpdate eps 0 1).1 with
              due := ((s.advance (max s.now s.due + j0)).doUpdate eps 0 1).1.now + EcoConfig.pollDelayUs } := by
          simp only [ecoStep, adv_phase, hp, hfw.1, hfw.2]
          simp [hsp.1, he]
        rw [hstep]
        simp only [EcoMode.elapsedOff, Timer.elapsed, Bool.and_eq_false_iff, decide_eq_false_iff_not, Bool.not_eq_false',
          decide_eq_true_eq] at he
        generalize (s.advance (max s.now s.due + j0)).doUpdate eps 0 1 = r at *
        obtain ⟨h1, h2, h3, h4, h5, h6, h7, h8, h9, h10, h11, h12, h13, h14, h15, h16, h17, h18, h19, h20, h21, h22, h23, h24, h25, h26, h27, h28⟩ := hsp
        rw [h27, h28] at he
        cases hfull : s.full <;> simp only [hfull, Bool.false_eq_true, false_implies, true_implies] at hacc1 hub hacc2 <;>
        rcases htim with ⟨hfl, hcl, hcz, hdue⟩ | ⟨hfl, hcl, hdue⟩ <;>
        simp only [Timer.update, hfl, hcl, scale_zero, scale_one, hcd'] at he <;>
        refine ⟨⟨?_, ?_, ?_, ?_, ?_, ?_, ?_, ?_, ?_, ?_, ?_, ?_, ?_, ?_, ?_, ?_, ?_, ?_, ?_, ?_, ?_, ?_⟩, ?_, ?_,
          Or.inr (Or.inl ⟨?_, ?_, Or.inr ⟨?_, ?_, ?_⟩, ?_, ?_, Or.inr ?_, ?_⟩)⟩
        all_goals (try simp only [hpump, h2, h3, h4, h5, h6, h7, h8, h9, h10, h11, h12, h13, h14, h15, h16, h17, h18, h19, h20, h21, h22, h23, h24, h25, h26, h27, h28, Timer.update, Timer.elapsed, idle, res, hfl, hcl, hfull, Bool.false_eq_true, false_implies, true_implies, scale_zero, scale_one, hp, if_true, if_false, decide_eq_true_eq])
        all_goals (first | assumption | omega | skip)
        all_goals (simp only [Timer.elapsed, idle, res, hfl, hcl, decide_eq_true_eq, if_true, if_false, reduceCtorEq, false_or, true_or, Int.add_zero] at hb ⊢ ; omega)
      · -- eco_waiting -> eco_normal
        have hstep : (ecoStep eps s (.tick j0 j1 j2)).1 =
            (Loop.enterNormal (Loop.advance { ((s.advance (max s.now s.due + j0)).doUpdate eps 0 1).1 with
                gW := ((s.advance (max s.now s.due + j0)).doUpdate eps 0 1).1.gW + 1,
                gWoff := ((s.advance (max s.now s.due + j0)).doUpdate eps 0 1).1.gWoff +
                  (((s.advance (max s.now s.due + j0)).doUpdate eps 0 1).1.eco.offD + EcoConfig.pollDelayUs + eps) }
              (((s.advance (max s.now s.due + j0)).doUpdate eps 0 1).1.now + j1)) eps).1 := by
          simp only [ecoStep, adv_phase, hp, hfw.1, hfw.2]
          simp [hsp.1, he]
        rw [hstep]
        simp only [EcoMode.elapsedOff, Timer.elapsed, Bool.and_eq_true, decide_eq_true_eq, Bool.not_eq_true', decide_eq_false_iff_not] at he
        generalize (s.advance (max s.now s.due + j0)).doUpdate eps 0 1 = r at *
        obtain ⟨h1, h2, h3, h4, h5, h6, h7, h8, h9, h10, h11, h12, h13, h14, h15, h16, h17, h18, h19, h20, h21, h22, h23, h24, h25, h26, h27, h28⟩ := hsp
        rw [h27, h28] at he
        simp only [Loop.enterNormal, Loop.advance, EcoMode.clear, EcoMode.setCurrent, Timer.clear, Timer.setDelay]
        have hk : (s.gW + 1) * (s.eco.offD + (EcoConfig.pollDelayUs + eps)) = s.gW * (s.eco.offD + (EcoConfig.pollDelayUs + eps)) + (s.eco.offD + (EcoConfig.pollDelayUs + eps)) := by
          rw [Int.add_mul, Int.one_mul]
        cases hfull : s.full <;> simp only [hfull, Bool.false_eq_true, false_implies, true_implies] at hacc1 hub hacc2 <;>
        rcases htim with ⟨hfl, hcl, hcz, hdue⟩ | ⟨hfl, hcl, hdue⟩ <;>
        simp only [Timer.update, hfl, hcl, scale_zero, scale_one, hcd'] at he <;>
        refine ⟨⟨?_, ?_, ?_, ?_, ?_, ?_, ?_, ?_, ?_, ?_, ?_, ?_, ?_, ?_, ?_, ?_, ?_, ?_, ?_, ?_, ?_, ?_⟩, ?_, ?_,
          Or.inr (Or.inr (Or.inl ⟨?_, ?_, Or.inl ⟨?_, ?_, ?_, ?_⟩, ?_, ?_, Or.inl ?_, Or.inl ?_, ?_⟩))⟩
        all_goals (try simp only [hpump, h2, h3, h4, h5, h6, h7, h8, h9, h10, h11, h12, h13, h14, h15, h16, h17, h18, h19, h20, h21, h22, h23, h24, h25, h26, h27, h28, Timer.update, Timer.elapsed, idle, res, hfl, hcl, hfull, Bool.false_eq_true, false_implies, true_implies, scale_zero, scale_one, hp, if_true, if_false, decide_eq_true_eq, reduceCtorEq])
        all_goals (first | assumption | omega | skip)
        all_goals (simp only [Timer.elapsed, idle, res, hfl, hcl, decide_eq_true_eq, if_true, if_false, reduceCtorEq, false_or, true_or, Int.add_zero] at hb ⊢ ; omega)
  · rw [hp] at hc; cases hc
  · rw [hp] at hc; cases hc


theorem tick_normal (eps : Int) (s : Loop) (h : Inv eps s) (hp : s.phase = .normal) (j0 j1 j2 : Int)
    (hj0 : 0 ≤ j0 ∧ j0 ≤ eps) (hj1 : 0 ≤ j1 ∧ j1 ≤ eps) (hj2 : 0 ≤ j2 ∧ j2 ≤ eps) :
    Inv eps (ecoStep eps s (.tick j0 j1 j2)).1 := by
  have hfw := cfg_fN
  have hpoll := cfg_poll
  have hcd := cfg_cd
  obtain ⟨⟨heps, heps2, hdelay, hnext, hTc, hN, hoff, hon, htank, hNoff, hNP, hD, hRc, hNr, hplain, hW, hC, hW0, hJ0,
    hacc1, hub, hdays⟩, hWC, hcur0, hphase⟩ := h
  rcases hphase with ⟨hc, _⟩ | ⟨hc, _⟩ | ⟨_, hpump, htim, hcd', hacc2, hnr, hlt, hb⟩ | ⟨hc, _⟩
  · rw [hp] at hc; cases hc
  · rw [hp] at hc; cases hc
  · simp only [hp, reduceCtorEq, if_false, Int.add_zero] at hWC
    by_cases hr : s.eco.nextReset ≤ max s.now s.due + j0
    · -- the poll sees the reset
      have hsp := doUpdate_reset (s.advance (max s.now s.due + j0)) eps 1 1 (by simpa using hr)
      have hstep : (ecoStep eps s (.tick j0 j1 j2)).1 =
          (((s.advance (max s.now s.due + j0)).doUpdate eps 1 1).1.reloadEco eps j1 j2).1 := by
        simp only [ecoStep, adv_phase, hp, hfw.1, hfw.2]
        simp [hsp.1]
      rw [hstep]
      apply reload_inv _ _ _ _ _ hj1 hj2
      simp only [adv_now, adv_due, adv_phase, adv_pump, adv_on, adv_days, adv_full, adv_toN, adv_eco, adv_gTc, adv_gDc, adv_gNr,
        adv_gN, adv_gD, adv_gRc, adv_gJ, adv_gWoff, adv_gW, adv_gCredit, adv_gCyc, adv_gU, adv_gPlain, hpump,
        if_true] at hsp
      generalize (s.advance (max s.now s.due + j0)).doUpdate eps 1 1 = r at *
      obtain ⟨r1, r2, r3, r4, r5, r6, r7, r8, r9⟩ := hsp
      have hDAY : DAY = 86400000000 := rfl
      have hHOUR : HOUR = 3600000000 := rfl
      refine ⟨heps, heps2, by omega, ?_, r5, r3, r4, r7, ?_⟩
      · rcases htim with ⟨hfl, hcl, hcz, hdue⟩ | ⟨hfl, hcl, hdue⟩ <;> omega
      · intro d hd
        rw [r9] at hd
        rcases List.mem_cons.mp hd with hd | hd
        · subst hd
          intro hfull hpl
          simp only at hfull hpl ⊢
          simp only [hfull, true_implies] at hacc1 hub hacc2
          have hsl := slack_nonneg eps s.gJ s.gN heps hJ0 hN
          rcases htim with ⟨hfl, hcl, hcz, hdue⟩ | ⟨hfl, hcl, hdue⟩
          · simp only [Timer.update, hfl, hcl]
            simp only [res, hfl, if_true] at hacc2
            refine ⟨?_, by omega, by omega, by omega⟩
            rcases hb with hb | ⟨hb1, hb3⟩
            · simp only [Timer.elapsed, decide_eq_true_eq] at hb; omega
            · simp only [idle, res, hfl, if_true] at hb1
              simp only [slackOf]
              exact final_arith s.eco.filtration.delay s.gDc s.gRc s.gD s.gN s.eco.offD (s.eco.onD + s.eco.tankD) s.gJ s.gWoff s.gW
                s.gCyc s.gCredit s.eco.filtration.duration (max s.now s.due + j0 - s.gTc) 0 (EcoConfig.pollDelayUs + eps) false
                hN hoff (by omega) (by omega) hW0 hJ0 hNoff hNP hD hW hC (by simpa using hWC) (by omega) (by omega)
                (by simp) (by omega)
          · simp only [Timer.update, hfl, hcl, scale_zero, scale_one]
            simp only [res, hfl, reduceCtorEq, if_false, Int.add_zero] at hacc2
            rcases hlt with hlt | hlt
            · rw [hfl] at hlt; cases hlt
            refine ⟨?_, by omega, by omega, by omega⟩
            rcases hb with hb | ⟨hb1, hb3⟩
            · simp only [Timer.elapsed, decide_eq_true_eq] at hb; omega
            · simp only [idle, res, hfl, reduceCtorEq, if_false] at hb1
              simp only [slackOf]
              exact final_arith s.eco.filtration.delay s.gDc s.gRc s.gD s.gN s.eco.offD (s.eco.onD + s.eco.tankD) s.gJ s.gWoff s.gW
                s.gCyc s.gCredit (s.eco.filtration.duration + (max s.now s.due + j0 - s.now)) (max s.now s.due + j0 - s.gTc)
                0 (EcoConfig.pollDelayUs + eps) false
                hN hoff (by omega) (by omega) hW0 hJ0 hNoff hNP hD hW hC (by simpa using hWC) (by omega) (by omega)
                (by simp) (by omega)
        · exact hdays d hd
    · -- no reset
      have hsp := doUpdate_noreset (s.advance (max s.now s.due + j0)) eps 1 1 (by simpa using hr)
      simp only [adv_now, adv_due, adv_phase, adv_pump, adv_on, adv_days, adv_full, adv_toN, adv_eco, adv_gTc, adv_gDc, adv_gNr,
        adv_gN, adv_gD, adv_gRc, adv_gJ, adv_gWoff, adv_gW, adv_gCredit, adv_gCyc, adv_gU, adv_gPlain, hpump,
        if_true] at hsp
      cases he : (((s.advance (max s.now s.due + j0)).doUpdate eps 1 1).1.eco.elapsedOn
          && decide (0 < ((s.advance (max s.now s.due + j0)).doUpdate eps 1 1).1.eco.tankD))
      · -- stay in eco_normal
        have hstep : (ecoStep eps s (.tick j0 j1 j2)).1 =
            { ((s.advance (max s.now s.due + j0)).doUpdate eps 1 1).1 with
              due := ((s.advance (max s.now s.due + j0)).doUpdate eps 1 1).1.now + EcoConfig.pollDelayUs } := by
          simp only [ecoStep, adv_phase, hp, hfw.1, hfw.2]
          simp [hsp.1, he]
        rw [hstep]
        simp only [EcoMode.elapsedOn, Timer.elapsed, Bool.and_eq_false_iff, Bool.or_eq_false_iff, decide_eq_false_iff_not] at he
        generalize (s.advance (max s.now s.due + j0)).doUpdate eps 1 1 = r at *
        obtain ⟨h1, h2, h3, h4, h5, h6, h7, h8, h9, h10, h11, h12, h13, h14, h15, h16, h17, h18, h19, h20, h21, h22, h23, h24, h25, h26, h27, h28⟩ := hsp
        rw [h27, h28, h25] at he
        cases hfull : s.full <;> simp only [hfull, Bool.false_eq_true, false_implies, true_implies] at hacc1 hub hacc2 <;>
        rcases htim with ⟨hfl, hcl, hcz, hdue⟩ | ⟨hfl, hcl, hdue⟩ <;>
        simp only [Timer.update, hfl, hcl, scale_zero, scale_one, hcd'] at he <;>
        refine ⟨⟨?_, ?_, ?_, ?_, ?_, ?_, ?_, ?_, ?_, ?_, ?_, ?_, ?_, ?_, ?_, ?_, ?_, ?_, ?_, ?_, ?_, ?_⟩, ?_, ?_,
          Or.inr (Or.inr (Or.inl ⟨?_, ?_, Or.inr ⟨?_, ?_, ?_⟩, ?_, ?_, Or.inr ?_, Or.inr ?_, ?_⟩))⟩
        all_goals (try simp only [hpump, h2, h3, h4, h5, h6, h7, h8, h9, h10, h11, h12, h13, h14, h15, h16, h17, h18, h19, h20, h21, h22, h23, h24, h25, h26, h27, h28, Timer.update, Timer.elapsed, idle, res, hfl, hcl, hfull, Bool.false_eq_true, false_implies, true_implies, scale_zero, scale_one, hp, if_true, if_false, decide_eq_true_eq, reduceCtorEq])
        all_goals (first | assumption | omega | skip)
        all_goals (simp only [Timer.elapsed, idle, res, hfl, hcl, decide_eq_true_eq, if_true, if_false, reduceCtorEq, false_or, true_or, Int.add_zero] at hb hlt hacc2 ⊢ ; omega)
      · -- eco_normal -> eco_tank
        have hstep : (ecoStep eps s (.tick j0 j1 j2)).1 =
            (Loop.enterTank (Loop.advance ((s.advance (max s.now s.due + j0)).doUpdate eps 1 1).1
              (((s.advance (max s.now s.due + j0)).doUpdate eps 1 1).1.now + j1)) eps).1 := by
          simp only [ecoStep, adv_phase, hp, hfw.1, hfw.2]
          simp [hsp.1, he]
        rw [hstep]
        simp only [EcoMode.elapsedOn, Timer.elapsed, Bool.and_eq_true, Bool.or_eq_true, decide_eq_true_eq] at he
        generalize (s.advance (max s.now s.due + j0)).doUpdate eps 1 1 = r at *
        obtain ⟨h1, h2, h3, h4, h5, h6, h7, h8, h9, h10, h11, h12, h13, h14, h15, h16, h17, h18, h19, h20, h21, h22, h23, h24, h25, h26, h27, h28⟩ := hsp
        rw [h27, h28, h25] at he
        simp only [Loop.enterTank, Loop.advance, EcoMode.clear, EcoMode.setCurrent, Timer.clear, Timer.setDelay]
        cases hfull : s.full <;> simp only [hfull, Bool.false_eq_true, false_implies, true_implies] at hacc1 hub hacc2 <;>
        rcases htim with ⟨hfl, hcl, hcz, hdue⟩ | ⟨hfl, hcl, hdue⟩ <;>
        simp only [Timer.update, hfl, hcl, scale_zero, scale_one, hcd'] at he <;>
        refine ⟨⟨?_, ?_, ?_, ?_, ?_, ?_, ?_, ?_, ?_, ?_, ?_, ?_, ?_, ?_, ?_, ?_, ?_, ?_, ?_, ?_, ?_, ?_⟩, ?_, ?_,
          Or.inr (Or.inr (Or.inr ⟨?_, ?_, Or.inl ⟨?_, ?_, ?_, ?_⟩, ?_, ?_, Or.inl ?_, Or.inl ?_, ?_⟩))⟩
        all_goals (try simp only [hpump, h2, h3, h4, h5, h6, h7, h8, h9, h10, h11, h12, h13, h14, h15, h16, h17, h18, h19, h20, h21, h22, h23, h24, h25, h26, h27, h28, Timer.update, Timer.elapsed, idle, res, hfl, hcl, hfull, Bool.false_eq_true, false_implies, true_implies, scale_zero, scale_one, hp, if_true, if_false, decide_eq_true_eq, reduceCtorEq])
        all_goals (first | assumption | omega | skip)
        all_goals (simp only [Timer.elapsed, idle, res, hfl, hcl, decide_eq_true_eq, if_true, if_false, reduceCtorEq, false_or, true_or, Int.add_zero] at hb hlt hacc2 ⊢ ; omega)
  · rw [hp] at hc; cases hc

theorem tick_tank (eps : Int) (s : Loop) (h : Inv eps s) (hp : s.phase = .tank) (j0 j1 j2 : Int)
    (hj0 : 0 ≤ j0 ∧ j0 ≤ eps) (hj1 : 0 ≤ j1 ∧ j1 ≤ eps) (hj2 : 0 ≤ j2 ∧ j2 ≤ eps) :
    Inv eps (ecoStep eps s (.tick j0 j1 j2)).1 := by
  have hfw := cfg_fT
  have hpoll := cfg_poll
  have hcd := cfg_cd
  obtain ⟨⟨heps, heps2, hdelay, hnext, hTc, hN, hoff, hon, htank, hNoff, hNP, hD, hRc, hNr, hplain, hW, hC, hW0, hJ0,
    hacc1, hub, hdays⟩, hWC, hcur0, hphase⟩ := h
  rcases hphase with ⟨hc, _⟩ | ⟨hc, _⟩ | ⟨hc, _⟩ | ⟨_, hpump, htim, hcd', hacc2, hnr, hlt, hb⟩
  · rw [hp] at hc; cases hc
  · rw [hp] at hc; cases hc
  · rw [hp] at hc; cases hc
  · simp only [hp, reduceCtorEq, if_false, Int.add_zero] at hWC
    by_cases hr : s.eco.nextReset ≤ max s.now s.due + j0
    · -- the poll sees the reset
      have hsp := doUpdate_reset (s.advance (max s.now s.due + j0)) eps 1 1 (by simpa using hr)
      have hstep : (ecoStep eps s (.tick j0 j1 j2)).1 =
          (((s.advance (max s.now s.due + j0)).doUpdate eps 1 1).1.reloadEco eps j1 j2).1 := by
        simp only [ecoStep, adv_phase, hp, hfw.1, hfw.2]
        simp [hsp.1]
      rw [hstep]
      apply reload_inv _ _ _ _ _ hj1 hj2
      simp only [adv_now, adv_due, adv_phase, adv_pump, adv_on, adv_days, adv_full, adv_toN, adv_eco, adv_gTc, adv_gDc, adv_gNr,
        adv_gN, adv_gD, adv_gRc, adv_gJ, adv_gWoff, adv_gW, adv_gCredit, adv_gCyc, adv_gU, adv_gPlain, hpump,
        if_true] at hsp
      generalize (s.advance (max s.now s.due + j0)).doUpdate eps 1 1 = r at *
      obtain ⟨r1, r2, r3, r4, r5, r6, r7, r8, r9⟩ := hsp
      have hDAY : DAY = 86400000000 := rfl
      have hHOUR : HOUR = 3600000000 := rfl
      refine ⟨heps, heps2, by omega, ?_, r5, r3, r4, r7, ?_⟩
      · rcases htim with ⟨hfl, hcl, hcz, hdue⟩ | ⟨hfl, hcl, hdue⟩ <;> omega
      · intro d hd
        rw [r9] at hd
        rcases List.mem_cons.mp hd with hd | hd
        · subst hd
          intro hfull hpl
          simp only at hfull hpl ⊢
          simp only [hfull, true_implies] at hacc1 hub hacc2
          have hsl := slack_nonneg eps s.gJ s.gN heps hJ0 hN
          rcases htim with ⟨hfl, hcl, hcz, hdue⟩ | ⟨hfl, hcl, hdue⟩
          · simp only [Timer.update, hfl, hcl]
            simp only [res, hfl, if_true] at hacc2
            refine ⟨?_, by omega, by omega, by omega⟩
            rcases hb with hb | ⟨hb1, hb3⟩
            · simp only [Timer.elapsed, decide_eq_true_eq] at hb; omega
            · simp only [idle, res, hfl, if_true] at hb1
              simp only [slackOf]
              exact final_arith s.eco.filtration.delay s.gDc s.gRc s.gD s.gN s.eco.offD (s.eco.onD + s.eco.tankD) s.gJ s.gWoff s.gW
                s.gCyc s.gCredit s.eco.filtration.duration (max s.now s.due + j0 - s.gTc) 0 (EcoConfig.pollDelayUs + eps) false
                hN hoff (by omega) (by omega) hW0 hJ0 hNoff hNP hD hW hC (by simpa using hWC) (by omega) (by omega)
                (by simp) (by omega)
          · simp only [Timer.update, hfl, hcl, scale_zero, scale_one]
            simp only [res, hfl, reduceCtorEq, if_false, Int.add_zero] at hacc2
            rcases hlt with hlt | hlt
            · rw [hfl] at hlt; cases hlt
            refine ⟨?_, by omega, by omega, by omega⟩
            rcases hb with hb | ⟨hb1, hb3⟩
            · simp only [Timer.elapsed, decide_eq_true_eq] at hb; omega
            · simp only [idle, res, hfl, reduceCtorEq, if_false] at hb1
              simp only [slackOf]
              exact final_arith s.eco.filtration.delay s.gDc s.gRc s.gD s.gN s.eco.offD (s.eco.onD + s.eco.tankD) s.gJ s.gWoff s.gW
                s.gCyc s.gCredit (s.eco.filtration.duration + (max s.now s.due + j0 - s.now)) (max s.now s.due + j0 - s.gTc)
                0 (EcoConfig.pollDelayUs + eps) false
                hN hoff (by omega) (by omega) hW0 hJ0 hNoff hNP hD hW hC (by simpa using hWC) (by omega) (by omega)
                (by simp) (by omega)
        · exact hdays d hd
    · -- no reset
      have hsp := doUpdate_noreset (s.advance (max s.now s.due + j0)) eps 1 1 (by simpa using hr)
      simp only [adv_now, adv_due, adv_phase, adv_pump, adv_on, adv_days, adv_full, adv_toN, adv_eco, adv_gTc, adv_gDc, adv_gNr,
        adv_gN, adv_gD, adv_gRc, adv_gJ, adv_gWoff, adv_gW, adv_gCredit, adv_gCyc, adv_gU, adv_gPlain, hpump,
        if_true] at hsp
      cases he : ((s.advance (max s.now s.due + j0)).doUpdate eps 1 1).1.eco.elapsedOn
      · -- stay in eco_tank
        have hstep : (ecoStep eps s (.tick j0 j1 j2)).1 =
            { ((s.advance (max s.now s.due + j0)).doUpdate eps 1 1).1 with
              due := ((s.advance (max s.now s.due + j0)).doUpdate eps 1 1).1.now + EcoConfig.pollDelayUs } := by
          simp only [ecoStep, adv_phase, hp, hfw.1, hfw.2]
          simp [hsp.1, he]
        rw [hstep]
        simp only [EcoMode.elapsedOn, Timer.elapsed, Bool.and_eq_false_iff, Bool.or_eq_false_iff, decide_eq_false_iff_not] at he
        generalize (s.advance (max s.now s.due + j0)).doUpdate eps 1 1 = r at *
        obtain ⟨h1, h2, h3, h4, h5, h6, h7, h8, h9, h10, h11, h12, h13, h14, h15, h16, h17, h18, h19, h20, h21, h22, h23, h24, h25, h26, h27, h28⟩ := hsp
        rw [h27, h28] at he
        cases hfull : s.full <;> simp only [hfull, Bool.false_eq_true, false_implies, true_implies] at hacc1 hub hacc2 <;>
        rcases htim with ⟨hfl, hcl, hcz, hdue⟩ | ⟨hfl, hcl, hdue⟩ <;>
        simp only [Timer.update, hfl, hcl, scale_zero, scale_one, hcd'] at he <;>
        refine ⟨⟨?_, ?_, ?_, ?_, ?_, ?_, ?_, ?_, ?_, ?_, ?_, ?_, ?_, ?_, ?_, ?_, ?_, ?_, ?_, ?_, ?_, ?_⟩, ?_, ?_,
          Or.inr (Or.inr (Or.inr ⟨?_, ?_, Or.inr ⟨?_, ?_, ?_⟩, ?_, ?_, Or.inr ?_, Or.inr ?_, ?_⟩))⟩
        all_goals (try simp only [hpump, h2, h3, h4, h5, h6, h7, h8, h9, h10, h11, h12, h13, h14, h15, h16, h17, h18, h19, h20, h21, h22, h23, h24, h25, h26, h27, h28, Timer.update, Timer.elapsed, idle, res, hfl, hcl, hfull, Bool.false_eq_true, false_implies, true_implies, scale_zero, scale_one, hp, if_true, if_false, decide_eq_true_eq, reduceCtorEq])
        all_goals (first | assumption | omega | skip)
        all_goals (simp only [Timer.elapsed, idle, res, hfl, hcl, decide_eq_true_eq, if_true, if_false, reduceCtorEq, false_or, true_or, Int.add_zero] at hb hlt hacc2 ⊢ ; omega)
      · -- eco_tank -> eco_waiting
        have hstep : (ecoStep eps s (.tick j0 j1 j2)).1 =
            (Loop.enterWaiting (Loop.advance { ((s.advance (max s.now s.due + j0)).doUpdate eps 1 1).1 with
                gCyc := ((s.advance (max s.now s.due + j0)).doUpdate eps 1 1).1.gCyc + 1,
                gCredit := ((s.advance (max s.now s.due + j0)).doUpdate eps 1 1).1.gCredit +
                  (((s.advance (max s.now s.due + j0)).doUpdate eps 1 1).1.eco.onD + ((s.advance (max s.now s.due + j0)).doUpdate eps 1 1).1.eco.tankD) }
              (((s.advance (max s.now s.due + j0)).doUpdate eps 1 1).1.now + j1)) eps).1 := by
          simp only [ecoStep, adv_phase, hp, hfw.1, hfw.2]
          simp [hsp.1, he]
        rw [hstep]
        simp only [EcoMode.elapsedOn, Timer.elapsed, Bool.and_eq_true, Bool.or_eq_true, decide_eq_true_eq] at he
        generalize (s.advance (max s.now s.due + j0)).doUpdate eps 1 1 = r at *
        obtain ⟨h1, h2, h3, h4, h5, h6, h7, h8, h9, h10, h11, h12, h13, h14, h15, h16, h17, h18, h19, h20, h21, h22, h23, h24, h25, h26, h27, h28⟩ := hsp
        rw [h27, h28] at he
        simp only [Loop.enterWaiting, Loop.advance, EcoMode.clear, EcoMode.setCurrent, Timer.clear, Timer.setDelay]
        have hk : (s.gCyc + 1) * (s.eco.onD + s.eco.tankD) = s.gCyc * (s.eco.onD + s.eco.tankD) + (s.eco.onD + s.eco.tankD) := by
          rw [Int.add_mul, Int.one_mul]
        cases hfull : s.full <;> simp only [hfull, Bool.false_eq_true, false_implies, true_implies] at hacc1 hub hacc2 <;>
        rcases htim with ⟨hfl, hcl, hcz, hdue⟩ | ⟨hfl, hcl, hdue⟩ <;>
        simp only [Timer.update, hfl, hcl, scale_zero, scale_one, hcd'] at he <;>
        refine ⟨⟨?_, ?_, ?_, ?_, ?_, ?_, ?_, ?_, ?_, ?_, ?_, ?_, ?_, ?_, ?_, ?_, ?_, ?_, ?_, ?_, ?_, ?_⟩, ?_, ?_,
          Or.inr (Or.inl ⟨?_, ?_, Or.inl ⟨?_, ?_, ?_, ?_⟩, ?_, ?_, Or.inl ?_, ?_⟩)⟩
        all_goals (try simp only [hpump, h2, h3, h4, h5, h6, h7, h8, h9, h10, h11, h12, h13, h14, h15, h16, h17, h18, h19, h20, h21, h22, h23, h24, h25, h26, h27, h28, Timer.update, Timer.elapsed, idle, res, hfl, hcl, hfull, Bool.false_eq_true, false_implies, true_implies, scale_zero, scale_one, hp, if_true, if_false, decide_eq_true_eq, reduceCtorEq])
        all_goals (first | assumption | omega | skip)
        all_goals (simp only [Timer.elapsed, idle, res, hfl, hcl, decide_eq_true_eq, if_true, if_false, reduceCtorEq, false_or, true_or, true_and, and_true, Int.add_zero] at hb hlt hacc2 ⊢)
        all_goals (first | omega | trace_state)


theorem tick_compute (eps : Int) (s : Loop) (h : Inv eps s) (hp : s.phase = .compute) (j0 j1 j2 : Int)
    (hj0 : 0 ≤ j0 ∧ j0 ≤ eps) :
    Inv eps (ecoStep eps s (.tick j0 j1 j2)).1 := by
  have hpoll := cfg_poll
  have hcd := cfg_cd
  obtain ⟨⟨heps, heps2, hdelay, hnext, hTc, hN, hoff, hon, htank, hNoff, hNP, hD, hRc, hNr, hplain, hW, hC, hW0, hJ0,
    hacc1, hub, hdays⟩, hWC, hcur0, hphase⟩ := h
  rcases hphase with ⟨_, c1, c2, c3, c4, c5, c6, c7, c8, c9, c10⟩ | ⟨hc, _⟩ | ⟨hc, _⟩ | ⟨hc, _⟩
  · cases htn : s.toNormal
    · have hstep : (ecoStep eps s (.tick j0 j1 j2)).1 = (Loop.enterWaiting (s.advance (max s.now s.due + j0)) eps).1 := by
        simp only [ecoStep, adv_phase, hp, adv_toN, htn]; simp
      rw [hstep]
      simp only [Loop.enterWaiting, Loop.advance, EcoMode.clear, EcoMode.setCurrent, Timer.clear, Timer.setDelay]
      cases hfull : s.full <;> simp only [hfull, Bool.false_eq_true, false_implies, true_implies] at hacc1 hub c10 <;>
      refine ⟨⟨?_, ?_, ?_, ?_, ?_, ?_, ?_, ?_, ?_, ?_, ?_, ?_, ?_, ?_, ?_, ?_, ?_, ?_, ?_, ?_, ?_, ?_⟩, ?_, ?_,
        Or.inr (Or.inl ⟨?_, ?_, Or.inl ⟨?_, ?_, ?_, ?_⟩, ?_, ?_, Or.inl ?_, ?_⟩)⟩
      all_goals (try simp only [Timer.elapsed, idle, res, hfull, Bool.false_eq_true, false_implies, true_implies, hp, if_true, if_false, decide_eq_true_eq, reduceCtorEq, true_and, and_true, true_or, or_true])
      all_goals (first | assumption | omega | skip)
      all_goals (split <;> omega)
    · have hstep : (ecoStep eps s (.tick j0 j1 j2)).1 = (Loop.enterNormal (s.advance (max s.now s.due + j0)) eps).1 := by
        simp only [ecoStep, adv_phase, hp, adv_toN, htn]; simp
      rw [hstep]
      simp only [Loop.enterNormal, Loop.advance, EcoMode.clear, EcoMode.setCurrent, Timer.clear, Timer.setDelay]
      cases hfull : s.full <;> simp only [hfull, Bool.false_eq_true, false_implies, true_implies] at hacc1 hub c10 <;>
      refine ⟨⟨?_, ?_, ?_, ?_, ?_, ?_, ?_, ?_, ?_, ?_, ?_, ?_, ?_, ?_, ?_, ?_, ?_, ?_, ?_, ?_, ?_, ?_⟩, ?_, ?_,
        Or.inr (Or.inr (Or.inl ⟨?_, ?_, Or.inl ⟨?_, ?_, ?_, ?_⟩, ?_, ?_, Or.inl ?_, Or.inl ?_, ?_⟩))⟩
      all_goals (try simp only [Timer.elapsed, idle, res, hfull, Bool.false_eq_true, false_implies, true_implies, hp, if_true, if_false, decide_eq_true_eq, reduceCtorEq, true_and, and_true, true_or, or_true])
      all_goals (first | assumption | omega | skip)
      all_goals (split <;> omega)
  · rw [hp] at hc; cases hc
  · rw [hp] at hc; cases hc
  · rw [hp] at hc; cases hc

/-- a `tick` whose handlers are each at most `eps` late -/
def TickOK (eps : Int) : Ev → Prop
  | .tick j0 j1 j2 => 0 ≤ j0 ∧ j0 ≤ eps ∧ 0 ≤ j1 ∧ j1 ≤ eps ∧ 0 ≤ j2 ∧ j2 ≤ eps
  | _ => False

theorem not_heating_of_inv (eps : Int) (s : Loop) (h : Inv eps s) :
    s.phase = .compute ∨ s.phase = .waiting ∨ s.phase = .normal ∨ s.phase = .tank := by
  rcases h.hphase with ⟨hc, _⟩ | ⟨hc, _⟩ | ⟨hc, _⟩ | ⟨hc, _⟩
  · exact Or.inl hc
  · exact Or.inr (Or.inl hc)
  · exact Or.inr (Or.inr (Or.inl hc))
  · exact Or.inr (Or.inr (Or.inr hc))

theorem step_inv (eps : Int) (s : Loop) (h : Inv eps s) (e : Ev) (he : TickOK eps e) : Inv eps (ecoStep eps s e).1 := by
  cases e with
  | tick j0 j1 j2 =>
    obtain ⟨a1, a2, a3, a4, a5, a6⟩ := he
    rcases not_heating_of_inv eps s h with hp | hp | hp | hp
    · exact tick_compute eps s h hp j0 j1 j2 ⟨a1, a2⟩
    · exact tick_waiting eps s h hp j0 j1 j2 ⟨a1, a2⟩ ⟨a3, a4⟩ ⟨a5, a6⟩
    · exact tick_normal eps s h hp j0 j1 j2 ⟨a1, a2⟩ ⟨a3, a4⟩ ⟨a5, a6⟩
    · exact tick_tank eps s h hp j0 j1 j2 ⟨a1, a2⟩ ⟨a3, a4⟩ ⟨a5, a6⟩
  | heat dt => exact he.elim
  | heatEnd dt => exact he.elim

theorem run_inv (eps : Int) (evs : List Ev) : ∀ (s : Loop), Inv eps s → (∀ e ∈ evs, TickOK eps e) → Inv eps (ecoFinal eps s evs) := by
  induction evs with
  | nil => intro s h _; exact h
  | cons e es ih =>
    intro s h hall
    show Inv eps (ecoFinal eps (ecoStep eps s e).1 es)
    exact ih _ (step_inv eps s h e (hall e (List.mem_cons_self ..))) (fun x hx => hall x (List.mem_cons_of_mem _ hx))


/-- the state in which the pool enters eco satisfies the invariant -/
theorem start_inv (eps : Int) (p : Params) (he : 0 ≤ eps) (he2 : eps ≤ HOUR) (hd : 0 ≤ p.dailyS)
    (hs : p.start < nextResetAt p.start p.resetHour) : Inv eps (Loop.start eps p).1 := by
  have hk : EcoConfig.keepElapsed = true := by decide
  have hU : US = 1000000 := rfl
  unfold Loop.start
  apply enterCompute_inv
  constructor
  all_goals (try simp only [Params.ecoMode, EcoMode.restore, EcoMode.fltDuration, hk, if_true, EcoMode.setDaily, EcoMode.recompute,
    EcoMode.setResetHour, EcoMode.setTank, EcoMode.setPeriod, Timer.setDuration, Timer.setDelay])
  all_goals (first | assumption | omega | skip)
  case hdelay => rw [hU]; omega
  case hdays => intro r hr; cases hr
  all_goals (intro h; cases h)

end Poupool.Eco
