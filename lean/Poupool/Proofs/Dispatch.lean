/-
Generic lemmas about Model/Dispatch.lean (any table, any parse/lower/decode).  Used by Properties/C14.lean and
Properties/C15Ui.lean.
-/
import Poupool.Model.Dispatch

namespace Poupool.Dispatch

variable {table : List Entry} {bt : List String}
  {parse : String → Option PyNum} {lower : String → String} {decode : ByteArray → Option String}

/-! ### inversion of `dispatch` -/

theorem lookup_some {s : State} {topic : String} {e : Entry} (h : lookup table s topic = some e) :
    e ∈ table ∧ e.topic = topic ∧ s.removed.contains topic = false ∧ entryOf table topic = some e := by
  unfold lookup at h
  split at h
  · cases h
  · rename_i hc
    refine ⟨List.mem_of_find?_eq_some h, ?_, by simpa using hc, h⟩
    have := List.find?_some h
    simpa using this

theorem dispatch_tell_inv {s s' : State} {topic : String} {payload : ByteArray} {tl : Tell}
    (h : dispatch table bt parse lower decode s topic payload = (s', some tl)) :
    ∃ e data, lookup table s topic = some e ∧ decode payload = some data ∧
      evalPred parse lower e.pred data = some true ∧
      evalConv bt parse lower e.conv data = some tl.arg ∧
      tl.target = e.target ∧ tl.method = methodName e.method data ∧
      s' = (if e.once then { removed := topic :: s.removed } else s) := by
  unfold dispatch at h
  split at h
  · cases h
  · rename_i e he
    split at h
    · cases h
    · rename_i data hd
      split at h
      · rename_i hp
        split at h
        · cases h
        · rename_i v hv
          refine ⟨e, data, he, hd, hp, ?_⟩
          cases h
          exact ⟨hv, rfl, rfl, rfl⟩
      · cases h

theorem dispatch_none_state {s : State} {topic : String} {payload : ByteArray}
    (h : (dispatch table bt parse lower decode s topic payload).2 = none) :
    (dispatch table bt parse lower decode s topic payload).1 = s := by
  unfold dispatch at h ⊢
  split
  · rfl
  · split
    · rfl
    · split
      · split
        · rfl
        · rename_i e _ _ _ _ _ hv
          simp_all
      · rfl

/-- unknown topics (and consumed once-topics) tell nothing and change nothing -/
theorem dispatch_unknown {s : State} {topic : String} {payload : ByteArray}
    (h : lookup table s topic = none) :
    dispatch table bt parse lower decode s topic payload = (s, none) := by
  unfold dispatch
  rw [h]

theorem lookup_none_of_not_mem {s : State} {topic : String} (h : ∀ e ∈ table, e.topic ≠ topic) :
    lookup table s topic = none := by
  unfold lookup
  split
  · rfl
  · rw [List.find?_eq_none]
    intro e he
    simpa using h e he

/-! ### truncation keeps an integer-bounded value inside the bounds -/

theorem le_tdiv_of_mul_le {L n : Int} {d : Nat} (hd : 0 < d) (h : L * (d : Int) ≤ n) : L ≤ n.tdiv d := by
  have hd' : (0 : Int) < d := by exact_mod_cast hd
  have h1 : L ≤ n / (d : Int) := (Int.le_ediv_iff_mul_le hd').2 h
  rw [Int.tdiv_eq_ediv]
  split
  · omega
  · have : Int.sign (d : Int) = 1 := Int.sign_eq_one_of_pos hd'
    omega

theorem tdiv_le_of_le_mul {H n : Int} {d : Nat} (hd : 0 < d) (h : n ≤ H * (d : Int)) : n.tdiv d ≤ H := by
  have hd' : (0 : Int) < d := by exact_mod_cast hd
  rw [Int.tdiv_eq_ediv]
  split
  · have : n / (d : Int) ≤ H := Int.ediv_le_of_le_mul hd' h
    omega
  · rename_i hc
    have hs : Int.sign (d : Int) = 1 := Int.sign_eq_one_of_pos hd'
    have hnd : ¬ (d : Int) ∣ n := fun hh => hc (Or.inr hh)
    have hne : n ≠ H * (d : Int) := fun hh => hnd ⟨H, by rw [hh, Int.mul_comm]⟩
    have hlt : n < H * (d : Int) := by omega
    have : n / (d : Int) < H := (Int.ediv_lt_iff_lt_mul hd').2 hlt
    omega

theorem trunc_ge {lo x : Q} (hi : lo.isInt = true) (h : lo ≤ x) : lo ≤ Q.ofInt x.trunc := by
  have hden : lo.den = 1 := by simpa [Q.isInt] using hi
  show lo.num * ((Q.ofInt x.trunc).den : Int) ≤ (Q.ofInt x.trunc).num * (lo.den : Int)
  have h' : lo.num * (x.den : Int) ≤ x.num * (lo.den : Int) := h
  rw [hden] at h' ⊢
  simp only [Q.ofInt, Q.trunc]
  have := le_tdiv_of_mul_le (L := lo.num) (n := x.num) x.pos (by simpa using h')
  simpa using this

theorem trunc_le {hi x : Q} (hint : hi.isInt = true) (h : x ≤ hi) : Q.ofInt x.trunc ≤ hi := by
  have hden : hi.den = 1 := by simpa [Q.isInt] using hint
  show (Q.ofInt x.trunc).num * (hi.den : Int) ≤ hi.num * ((Q.ofInt x.trunc).den : Int)
  have h' : x.num * (hi.den : Int) ≤ hi.num * (x.den : Int) := h
  rw [hden] at h' ⊢
  simp only [Q.ofInt, Q.trunc]
  have := tdiv_le_of_le_mul (H := hi.num) (n := x.num) x.pos (by simpa using h')
  simpa using this

/-! ### the value told satisfies the entry's predicate (C14(2), value part) -/

theorem value_ok {e : Entry} {data : String} {v : Val} (hwf : e.wf = true)
    (hp : evalPred parse lower e.pred data = some true)
    (hv : evalConv bt parse lower e.conv data = some v) : ValueOk e v := by
  obtain ⟨topic, target, pred, method, conv, once⟩ := e
  simp only [Entry.wf] at hwf
  simp only [ValueOk]
  cases pred with
  | between lo hi =>
    cases conv <;> cases method <;> simp at hwf
    · -- toInt
      simp only [evalPred, evalConv] at hp hv
      cases hx : parse data with
      | none => simp [hx] at hp
      | some x =>
        cases x with
        | fin x =>
          simp [hx, PyNum.geQ, PyNum.leQ] at hp hv
          exact ⟨x.trunc, hv.symm, trunc_ge hwf.1 hp.1, trunc_le hwf.2 hp.2⟩
        | pinf => simp [hx] at hv
        | ninf => simp [hx] at hv
        | nan => simp [hx] at hv
    · -- toFloat
      simp only [evalPred, evalConv] at hp hv
      cases hx : parse data with
      | none => simp [hx] at hp
      | some x =>
        cases x with
        | fin x =>
          simp [hx, PyNum.geQ, PyNum.leQ] at hp hv
          exact ⟨x, hv.symm, hp.1, hp.2⟩
        | pinf => simp [hx, PyNum.geQ, PyNum.leQ] at hp
        | ninf => simp [hx, PyNum.geQ, PyNum.leQ] at hp
        | nan => simp [hx, PyNum.geQ, PyNum.leQ] at hp
  | greaterEqual lo =>
    cases conv <;> cases method <;> simp at hwf
    simp only [evalPred, evalConv] at hp hv
    cases hx : parse data with
    | none => simp [hx] at hp
    | some x =>
      cases x with
      | fin x =>
        simp [hx, PyNum.geQ] at hp hv
        exact ⟨x.trunc, hv.symm, trunc_ge hwf hp⟩
      | pinf => simp [hx] at hv
      | ninf => simp [hx] at hv
      | nan => simp [hx] at hv
  | inSet s ci =>
    cases ci <;> cases conv <;> cases method <;> simp at hwf <;> simp only [evalConv] at hv <;>
      first
        | exact (show ∃ b, v = Val.bool b from ⟨_, (Option.some.inj hv).symm⟩)
        | exact (show v = Val.none from (Option.some.inj hv).symm)
  | always =>
    cases conv <;> cases method <;> simp at hwf
    simp only [evalConv] at hv
    exact ⟨_, (Option.some.inj hv).symm⟩

theorem method_ok {e : Entry} {data : String} (hwf : e.wf = true)
    (hp : evalPred parse lower e.pred data = some true) : MethodOk e (methodName e.method data) := by
  obtain ⟨topic, target, pred, method, conv, once⟩ := e
  simp only [MethodOk, methodName]
  cases method with
  | const n => rfl
  | identity =>
    simp only [Entry.wf] at hwf
    cases pred with
    | inSet s ci =>
      cases ci <;> cases conv <;> simp at hwf
      refine ⟨s, rfl, ?_⟩
      simpa [evalPred] using hp
    | between lo hi => cases conv <;> simp at hwf
    | greaterEqual lo => cases conv <;> simp at hwf
    | always => cases conv <;> simp at hwf

/-! ### once-topics -/

theorem removed_mono {s : State} {topic : String} {payload : ByteArray} {t : String}
    (h : s.removed.contains t = true) :
    (dispatch table bt parse lower decode s topic payload).1.removed.contains t = true := by
  cases hr : (dispatch table bt parse lower decode s topic payload) with
  | mk s' r =>
    cases r with
    | none =>
      have := dispatch_none_state (table := table) (bt := bt) (parse := parse) (lower := lower) (decode := decode)
        (s := s) (topic := topic) (payload := payload) (by rw [hr])
      rw [hr] at this
      simp only at this ⊢
      rw [this]; exact h
    | some tl =>
      obtain ⟨e, data, _, _, _, _, _, _, hs⟩ := dispatch_tell_inv hr
      simp only
      rw [hs]
      split
      · have h' : t ∈ s.removed := by simpa using h
        simp [h']
      · exact h

theorem run_removed_silent {t : String} :
    ∀ (msgs : List (String × ByteArray)) (s : State), s.removed.contains t = true →
      (run table bt parse lower decode s msgs).filter (fun x => x.1 == t) = [] := by
  intro msgs
  induction msgs with
  | nil => intro s _; simp [run]
  | cons m rest ih =>
    intro s hs
    obtain ⟨t', p⟩ := m
    simp only [run, List.filter_append]
    rw [ih _ (removed_mono hs)]
    by_cases htt : t' = t
    · subst htt
      have hs' : t' ∈ s.removed := by simpa using hs
      have : lookup table s t' = none := by simp [lookup, hs']
      rw [dispatch_unknown this]
      simp
    · cases (dispatch table bt parse lower decode s t' p).2 <;> simp [htt]

/-- C14(3), generic: along any sequence of deliveries a once-topic is told at most once. -/
theorem run_once_at_most_once {t : String} {e : Entry} (he : entryOf table t = some e) (honce : e.once = true) :
    ∀ (msgs : List (String × ByteArray)) (s : State),
      ((run table bt parse lower decode s msgs).filter (fun x => x.1 == t)).length ≤ 1 := by
  intro msgs
  induction msgs with
  | nil => intro s; simp [run]
  | cons m rest ih =>
    intro s
    obtain ⟨t', p⟩ := m
    simp only [run, List.filter_append, List.length_append]
    by_cases htt : t' = t
    · subst htt
      cases hr : (dispatch table bt parse lower decode s t' p) with
      | mk s' r =>
        cases r with
        | none =>
          simp only
          have := ih s'
          simpa using this
        | some tl =>
          obtain ⟨e', data, hl, _, _, _, _, _, hs'⟩ := dispatch_tell_inv hr
          have he' : e' = e := by
            have := (lookup_some hl).2.2.2
            rw [he] at this
            exact (Option.some.inj this).symm
          subst he'
          simp only [honce, if_true] at hs'
          have hrem : s'.removed.contains t' = true := by rw [hs']; simp
          simp only
          rw [run_removed_silent rest s' hrem]
          simp
    · have ih' := ih (dispatch table bt parse lower decode s t' p).1
      generalize (dispatch table bt parse lower decode s t' p).2 = r
      cases r with
      | none => simpa using ih'
      | some tl => simpa [htt] using ih'

/-! ### setter arithmetic (C14(5)) -/

theorem guardOkInt_sound {p : Prim} {lo hi k : Int} (h : guardOkInt p lo hi = true) (h1 : lo ≤ k) (h2 : k ≤ hi) :
    primSafeInt p k := by
  cases p with
  | td u =>
    simp only [guardOkInt, Bool.and_eq_true, decide_eq_true_eq] at h
    cases u <;> simp only [primSafeInt, tdOk, TdUnit.seconds_per] at h ⊢ <;> omega
  | hourReplace =>
    simp only [guardOkInt, Bool.and_eq_true, decide_eq_true_eq] at h
    simp only [primSafeInt]; omega
  | divByPeriod =>
    simp only [guardOkInt, decide_eq_true_eq] at h
    simp only [primSafeInt]; omega
  | strptimeGuarded => simp [guardOkInt] at h
  | strptimeUnguarded => simp [guardOkInt] at h
  | assertPeriodDuration => simp [guardOkInt] at h
  | unknown w => simp [guardOkInt] at h

/-- a value told through an entry that passed `guardOkEntry` satisfies the primitive's guard -/
theorem guardOkEntry_sound {p : Prim} {e : Entry} {v : Val} (hk : p.isIntGuard = true)
    (h : guardOkEntry table p e = true) (hv : ValueOk e v) : ∃ k, v = .int k ∧ primSafeInt p k := by
  obtain ⟨topic, target, pred, method, conv, once⟩ := e
  have key : ∀ lo hi : Q, pred = .between lo hi → conv = .toInt →
      (lo.isInt && hi.isInt && guardOkInt p lo.num hi.num) = true → ∃ k, v = .int k ∧ primSafeInt p k := by
    intro lo hi hp hc hg
    subst hp; subst hc
    simp only [Bool.and_eq_true] at hg
    obtain ⟨⟨hlo, hhi⟩, hg⟩ := hg
    simp only [ValueOk] at hv
    obtain ⟨k, rfl, h1, h2⟩ := hv
    refine ⟨k, rfl, guardOkInt_sound hg ?_ ?_⟩
    · have hden : lo.den = 1 := by simpa [Q.isInt] using hlo
      have h1' : lo.num * ((Q.ofInt k).den : Int) ≤ (Q.ofInt k).num * (lo.den : Int) := h1
      simp only [Q.ofInt, hden] at h1'
      omega
    · have hden : hi.den = 1 := by simpa [Q.isInt] using hhi
      have h2' : (Q.ofInt k).num * (hi.den : Int) ≤ hi.num * ((Q.ofInt k).den : Int) := h2
      simp only [Q.ofInt, hden] at h2'
      omega
  cases p with
  | td u =>
    cases pred <;> cases conv <;>
      first
        | exact key _ _ rfl rfl (by simpa only [guardOkEntry] using h)
        | simp [guardOkEntry] at h
  | hourReplace =>
    cases pred <;> cases conv <;>
      first
        | exact key _ _ rfl rfl (by simpa only [guardOkEntry] using h)
        | simp [guardOkEntry] at h
  | divByPeriod =>
    cases pred <;> cases conv <;>
      first
        | exact key _ _ rfl rfl (by simpa only [guardOkEntry] using h)
        | simp [guardOkEntry] at h
  | strptimeGuarded => cases hk
  | strptimeUnguarded => cases hk
  | assertPeriodDuration => cases hk
  | unknown w => cases hk

theorem guardOk_sound {tmp : String × String × Prim} (h : guardOk table tmp = true) (hk : tmp.2.2.isIntGuard = true) :
    (∃ e ∈ table, e.target = tmp.1 ∧ e.method = .const tmp.2.1) ∧
    ∀ e ∈ table, e.target = tmp.1 → e.method = .const tmp.2.1 →
      ∀ v, ValueOk e v → ∃ k, v = .int k ∧ primSafeInt tmp.2.2 k := by
  simp only [guardOk, Bool.and_eq_true, Bool.not_eq_true', List.all_eq_true] at h
  obtain ⟨hne, hall⟩ := h
  constructor
  · cases hc : callers table tmp.1 tmp.2.1 with
    | nil => simp [hc] at hne
    | cons e rest =>
      have he : e ∈ callers table tmp.1 tmp.2.1 := by rw [hc]; exact List.mem_cons_self
      simp only [callers, List.mem_filter, Bool.and_eq_true, beq_iff_eq] at he
      exact ⟨e, he.1, he.2.1, he.2.2⟩
  · intro e he ht hm v hv
    have hmem : e ∈ callers table tmp.1 tmp.2.1 := by
      simp only [callers, List.mem_filter, Bool.and_eq_true, beq_iff_eq]
      exact ⟨he, ht, hm⟩
    exact guardOkEntry_sound hk (hall e hmem) hv

theorem divRound_pos {a b : Int} (hb : 0 < b) (h : b ≤ a) : 0 < divRoundHalfEven a b := by
  have h1 : 1 ≤ a / b := (Int.le_ediv_iff_mul_le hb).2 (by omega)
  unfold divRoundHalfEven
  simp only
  split
  · omega
  · split
    · omega
    · split <;> omega

end Poupool.Dispatch
