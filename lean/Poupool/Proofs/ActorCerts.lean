import Poupool.Generated.ActorsReach
/-! Kernel-checked certificates: each generated state set contains the initial state and is closed under `step`
    for every message of the actor's alphabet.  With `Poupool.reach_mem_of_closed` this bounds the reachable
    states for message sequences of ANY length and order. -/
namespace Poupool.Cert
open Poupool Poupool.Gen

theorem tankSafety_closed : closed (safetyView tankDesc) tankSafetyReach = true := by decide +kernel
theorem tankTimer_closed : closed (timerView tankDesc) tankTimerReach = true := by decide +kernel
theorem heatingSafety_closed : closed (safetyView heatingDesc) heatingSafetyReach = true := by decide +kernel
theorem heatingTimer_closed : closed (timerView heatingDesc) heatingTimerReach = true := by decide +kernel

end Poupool.Cert
