import Poupool.Proofs.ComposeInv
/-!
  The ghost discipline of a generated master, as a decidable checker on its generated programs, and its
  soundness with respect to the effect-reporting interpreter `execE` (induction over `Stmt`).

  The checker is a three-valued abstract interpretation of the relation between
    c = "the ghost variable currently holds a `known halted` value"   (concrete, in the master's `vars`)
    a = "reading the effects performed so far in order, the last thing done towards X is a halt-class tell or an
         `is_halt` answered TRUE"                                          (`ghostAfter`)
  * `T` : a holds;          * `S` : c → a;          * `B` : nothing known (a start message has been told to X and
  the ghost variable has not been overwritten yet, or the ghost variable was set to a halted value without a
  halt-class tell / TRUE answer before it).
  A program is accepted if, started in `S`, no path ends in `B`.  Hence on every path the variable is given a
  halted value only right after a halt-class tell tag (state `T`) or by a TRUE refinement, and a non-halted value
  after every tell of a start message to X; assigning a non-halted value elsewhere is harmless and accepted, and so
  is telling X a message that is neither halt-class nor a start message without touching the variable.
-/
namespace Poupool.Compose
open Poupool

inductive Abs | T | S | B
  deriving DecidableEq, Repr, Inhabited

def Abs.ok : Abs → Bool
  | .B => false
  | _ => true

/-- concretisation: `c` concrete knowledge, `a` abstract knowledge -/
def γ : Abs → Bool → Bool → Prop
  | .T, _, a => a = true
  | .S, c, a => c = true → a = true
  | .B, _, _ => True

/-- the ghost variable is assigned a constant; `g` = is it a "known halted" value -/
def absSet (g : Bool) : Abs → Abs
  | .T => .T
  | _ => if g then .B else .S

def absSetUnknown : Abs → Abs
  | .T => .T
  | _ => .B

def absTag (S : CSpec) (t : Nat) (ab : Abs) : Abs :=
  match S.tells.lookup t with
  | some m => if S.isHaltMsg m then .T else if S.isStart m then .B else ab
  | none => ab

def absRef (S : CSpec) (t : List (VarId × Int)) (ab : Abs) : Abs :=
  match lastAssign S.v t with
  | some x => absSet (S.isG x) ab
  | none => ab

/-- the answer whose refinement list is `r` has been taken -/
def absAsk (S : CSpec) (r : List (VarId × Int)) (ab : Abs) : Abs :=
  if askHalting S r then .T else absRef S r ab

def absCond (S : CSpec) : Cond → Abs → List (Bool × Abs)
  | .nondet, a => [(true, a), (false, a)]
  | .tt, a => [(true, a)]
  | .ff, a => [(false, a)]
  | .leafIn _, a => [(true, a), (false, a)]
  | .cmp _ _ _, a => [(true, a), (false, a)]
  | .ask t f, a => [(true, absAsk S t a), (false, absAsk S f a)]
  | .not c, a => (absCond S c a).map fun (b, a') => (!b, a')
  | .and x y, a => (absCond S x a).flatMap fun (b, a') => if b then absCond S y a' else [(false, a')]
  | .or x y, a => (absCond S x a).flatMap fun (b, a') => if b then [(true, a')] else absCond S y a'

def dedupA : List (Flow × Abs) → List (Flow × Abs)
  | [] => []
  | x :: xs => if xs.contains x then dedupA xs else x :: dedupA xs

def absExec (S : CSpec) : Stmt → Abs → List (Flow × Abs)
  | .skip, a => [(.normal, a)]
  | .seq p q, a =>
      (dedupA (absExec S p a)).flatMap fun (f, a') =>
        match f with
        | .normal => absExec S q a'
        | _ => [(f, a')]
  | .set w e, a =>
      if w = S.v then
        match e with
        | .const n => [(.normal, absSet (S.isG n) a)]
        | _ => [(.normal, absSetUnknown a)]
      else [(.normal, a)]
  | .ite c t e, a => (absCond S c a).flatMap fun (b, a') => if b then absExec S t a' else absExec S e a'
  | .choose p q, a => absExec S p a ++ absExec S q a
  | .forSetting _ _ body, a => absExec S body a
  | .delay _, a => [(.normal, a)]
  | .cancel, a => [(.normal, a)]
  | .selfTell _, a => [(.normal, a)]
  | .ret, a => [(.returned, a)]
  | .stopRepeat, a => [(.stopped, a)]
  | .doRepeat body _, a => (absExec S body a).map fun (_, a') => (.normal, a')
  | .emit t, a => [(.normal, absTag S t a)]
  | .scope body, a =>
      (absExec S body a).map fun (f, a') =>
        match f with
        | .returned => (.normal, a')
        | _ => (f, a')
  | .opaque _, a => [(.normal, a)]

/-- a program keeps the discipline: started with c → a, every path ends with c → a -/
def progOK (S : CSpec) (p : Stmt) : Bool := (absExec S p .S).all fun x => x.2.ok

/-- `havoc` can only forget the knowledge … -/
def havocOK (S : CSpec) : Bool := S.DM.havoc.all fun (w, _, x) => w != S.v || !S.isG x

/-- … and does forget it in every allowed phase -/
def allowedOK (S : CSpec) : Bool :=
  S.allowed.all fun l => S.DM.havoc.any fun (w, ls, x) => w == S.v && ls.contains l && !S.isG x

/-- **The checker.** -/
def ghostDiscipline (S : CSpec) : Bool :=
  decide (S.v < S.DM.initVars.length) &&
  (!S.isG (getNth S.DM.initVars S.v) || (S.isHalt (initSt S.DX) && !S.allowed.contains S.DM.initLeaf)) &&
  S.DM.callbacks.all (progOK S) &&
  S.DM.methods.all (fun mp => progOK S mp.2) &&
  havocOK S && allowedOK S

/-! ## list / variable lemmas -/

theorem length_setNth (vs : List Int) (n : Nat) (x : Int) : (setNth vs n x).length = vs.length := by
  induction vs generalizing n with
  | nil => simp [setNth]
  | cons y ys ih => cases n <;> simp [setNth, ih]

theorem getNth_setNth_eq (vs : List Int) (n : Nat) (x : Int) (h : n < vs.length) : getNth (setNth vs n x) n = x := by
  induction vs generalizing n with
  | nil => simp at h
  | cons y ys ih =>
      cases n with
      | zero => simp [setNth, getNth]
      | succ k =>
          have hk : k < ys.length := by simpa using h
          have := ih k hk
          simpa [setNth, getNth] using this

theorem getNth_setNth_ne (vs : List Int) (n m : Nat) (x : Int) (h : n ≠ m) : getNth (setNth vs n x) m = getNth vs m := by
  induction vs generalizing n m with
  | nil => simp [setNth]
  | cons y ys ih =>
      cases n with
      | zero =>
          cases m with
          | zero => exact absurd rfl h
          | succ j => simp [setNth, getNth]
      | succ k =>
          cases m with
          | zero => simp [setNth, getNth]
          | succ j =>
              have := ih k j (by intro hkj; exact h (by rw [hkj]))
              simpa [setNth, getNth] using this

theorem refine_length (t : List (VarId × Int)) : ∀ (vs : List Int),
    (t.foldl (fun vs (p : VarId × Int) => setNth vs p.1 p.2) vs).length = vs.length := by
  induction t with
  | nil => intro vs; rfl
  | cons p t ih => intro vs; simp only [List.foldl_cons, ih, length_setNth]

theorem refine_get (v : VarId) (t : List (VarId × Int)) : ∀ (vs : List Int), v < vs.length →
    getNth (t.foldl (fun vs (p : VarId × Int) => setNth vs p.1 p.2) vs) v =
      match lastAssign v t with
      | some x => x
      | none => getNth vs v := by
  induction t with
  | nil => intro vs _; rfl
  | cons p t ih =>
      intro vs hv
      obtain ⟨w, x⟩ := p
      simp only [List.foldl_cons, lastAssign]
      rw [ih _ (by simpa [length_setNth] using hv)]
      cases lastAssign v t with
      | some y => rfl
      | none =>
          by_cases hw : w = v
          · subst hw
            simp [getNth_setNth_eq _ _ _ hv]
          · simp [hw, getNth_setNth_ne _ _ _ _ hw]

theorem mem_dedupA {x : Flow × Abs} {l : List (Flow × Abs)} : x ∈ dedupA l ↔ x ∈ l := by
  induction l with
  | nil => simp [dedupA]
  | cons y ys ih =>
      simp only [dedupA]
      by_cases h : ys.contains y = true
      · simp only [h, if_true, ih, List.mem_cons]
        constructor
        · exact Or.inr
        · rintro (rfl | h')
          · simpa using h
          · exact h'
      · simp only [h, List.mem_cons, ih, Bool.false_eq_true, if_false]

/-! ## the abstract knowledge bit -/

theorem ghostAfter_nil (S : CSpec) (a : Bool) : ghostAfter S a [] = a := rfl

theorem ghostAfter_append (S : CSpec) (a : Bool) (e1 e2 : List Eff) :
    ghostAfter S a (e1 ++ e2) = ghostAfter S (ghostAfter S a e1) e2 := by
  simp [ghostAfter, List.foldl_append]

theorem ghost1_emit (S : CSpec) (a : Bool) (t : Nat) :
    ghost1 S a (.emit t) =
      match S.tells.lookup t with
      | some m => if S.isHaltMsg m then true else if S.isStart m then false else a
      | none => a := rfl

theorem ghost1_mono (S : CSpec) {a a' : Bool} (h : a = true → a' = true) (e : Eff) :
    ghost1 S a e = true → ghost1 S a' e = true := by
  cases e with
  | emit t =>
      simp only [ghost1]
      cases S.tells.lookup t with
      | some m =>
          dsimp only
          cases S.isHaltMsg m with
          | true => exact id
          | false =>
              cases S.isStart m with
              | true => exact id
              | false => simpa using h
      | none => exact h
  | ask ans t f =>
      simp only [ghost1, Bool.or_eq_true]
      rintro (h1 | h1)
      · exact Or.inl (h h1)
      · exact Or.inr h1

theorem ghostAfter_mono (S : CSpec) (e : List Eff) : ∀ {a a' : Bool}, (a = true → a' = true) →
    ghostAfter S a e = true → ghostAfter S a' e = true := by
  induction e with
  | nil => intro a a' h; simpa [ghostAfter] using h
  | cons x xs ih =>
      intro a a' h
      simp only [ghostAfter, List.foldl_cons]
      exact ih (ghost1_mono S h x)

/-! ## soundness of the abstract interpretation -/

theorem γ_absSet {ab : Abs} {c a : Bool} (g : Bool) (h : γ ab c a) : γ (absSet g ab) g a := by
  cases ab <;> cases g <;> simp_all [γ, absSet]

theorem γ_absSetUnknown {ab : Abs} {c a : Bool} (c' : Bool) (h : γ ab c a) : γ (absSetUnknown ab) c' a := by
  cases ab <;> simp_all [γ, absSetUnknown]

/-- a refinement list applied to the variables, abstractly -/
theorem absRef_sound (S : CSpec) (t : List (VarId × Int)) (vs : List Int) (hv : S.v < vs.length) {ab : Abs} {a : Bool}
    (h : γ ab (S.isG (getNth vs S.v)) a) :
    γ (absRef S t ab) (S.isG (getNth (t.foldl (fun vs (p : VarId × Int) => setNth vs p.1 p.2) vs) S.v)) a := by
  rw [refine_get S.v t vs hv]
  simp only [absRef]
  cases lastAssign S.v t with
  | some x => exact γ_absSet _ h
  | none => exact h

theorem absCond_sound (S : CSpec) (l : List Int) (c : Cond) :
    ∀ (s : St) (ab : Abs) (a : Bool) (b : Bool) (s' : St) (e : List Eff),
      S.v < s.vars.length → γ ab (S.G s) a → (b, s', e) ∈ evalCondE l c s →
      s'.vars.length = s.vars.length ∧
        ∃ ab', (b, ab') ∈ absCond S c ab ∧ γ ab' (S.G s') (ghostAfter S a e) := by
  induction c with
  | nondet =>
      intro s ab a b s' e hv hγ h
      simp only [evalCondE, List.mem_cons, Prod.mk.injEq, List.not_mem_nil, or_false] at h
      rcases h with ⟨rfl, rfl, rfl⟩ | ⟨rfl, rfl, rfl⟩ <;> exact ⟨rfl, ab, by simp [absCond], hγ⟩
  | tt =>
      intro s ab a b s' e hv hγ h
      simp only [evalCondE, List.mem_cons, Prod.mk.injEq, List.not_mem_nil, or_false] at h
      obtain ⟨rfl, rfl, rfl⟩ := h
      exact ⟨rfl, ab, by simp [absCond], hγ⟩
  | ff =>
      intro s ab a b s' e hv hγ h
      simp only [evalCondE, List.mem_cons, Prod.mk.injEq, List.not_mem_nil, or_false] at h
      obtain ⟨rfl, rfl, rfl⟩ := h
      exact ⟨rfl, ab, by simp [absCond], hγ⟩
  | leafIn ls =>
      intro s ab a b s' e hv hγ h
      simp only [evalCondE, List.mem_cons, Prod.mk.injEq, List.not_mem_nil, or_false] at h
      obtain ⟨hb, rfl, rfl⟩ := h
      exact ⟨rfl, ab, by cases b <;> simp [absCond], hγ⟩
  | cmp op x y =>
      intro s ab a b s' e hv hγ h
      have : s' = s ∧ e = [] := by
        simp only [evalCondE] at h
        split at h <;> simp only [List.mem_cons, Prod.mk.injEq, List.not_mem_nil, or_false] at h <;> grind
      obtain ⟨rfl, rfl⟩ := this
      exact ⟨rfl, ab, by cases b <;> simp [absCond], hγ⟩
  | ask t f =>
      intro s ab a b s' e hv hγ h
      simp only [evalCondE, List.mem_cons, Prod.mk.injEq, List.not_mem_nil, or_false] at h
      have key : ∀ (r : List (VarId × Int)) (ans : Bool), (if ans then t else f) = r →
          γ (absAsk S r ab)
            (S.isG (getNth (r.foldl (fun vs (p : VarId × Int) => setNth vs p.1 p.2) s.vars) S.v))
            (ghostAfter S a [.ask ans t f]) := by
        intro r ans hr
        simp only [ghostAfter, List.foldl_cons, List.foldl_nil, ghost1, absAsk, hr]
        by_cases hh : askHalting S r = true
        · simp [hh, γ]
        · have hh' : askHalting S r = false := by simpa using hh
          simp only [hh', Bool.or_false, Bool.false_eq_true, if_false]
          exact absRef_sound S r s.vars hv hγ
      rcases h with ⟨rfl, rfl, rfl⟩ | ⟨rfl, rfl, rfl⟩
      · exact ⟨refine_length t _, absAsk S t ab, by simp [absCond], key t true rfl⟩
      · exact ⟨refine_length f _, absAsk S f ab, by simp [absCond], key f false (by simp)⟩
  | not c ih =>
      intro s ab a b s' e hv hγ h
      simp only [evalCondE, List.mem_map, Prod.exists, Prod.mk.injEq] at h
      obtain ⟨b0, s0, e0, h0, rfl, rfl, rfl⟩ := h
      obtain ⟨hl, ab', hm, hγ'⟩ := ih s ab a b0 s0 e0 hv hγ h0
      exact ⟨hl, ab', by simp only [absCond]; exact List.mem_map.2 ⟨(b0, ab'), hm, rfl⟩, hγ'⟩
  | and x y ihx ihy =>
      intro s ab a b s' e hv hγ h
      simp only [evalCondE, List.mem_flatMap, Prod.exists] at h
      obtain ⟨b1, s1, e1, h1, h2⟩ := h
      obtain ⟨hl1, ab1, hm1, hγ1⟩ := ihx s ab a b1 s1 e1 hv hγ h1
      cases b1 with
      | true =>
          simp only [if_true, List.mem_map, Prod.exists, Prod.mk.injEq] at h2
          obtain ⟨b2, s2, e2, h2, rfl, rfl, rfl⟩ := h2
          obtain ⟨hl2, ab2, hm2, hγ2⟩ := ihy s1 ab1 _ b2 s2 e2 (by simpa [hl1] using hv) hγ1 h2
          refine ⟨by rw [hl2, hl1], ab2, ?_, by rw [ghostAfter_append]; exact hγ2⟩
          simp only [absCond, List.mem_flatMap, Prod.exists]
          exact ⟨true, ab1, hm1, by simpa using hm2⟩
      | false =>
          simp only [Bool.false_eq_true, if_false, List.mem_singleton, Prod.mk.injEq] at h2
          obtain ⟨rfl, rfl, rfl⟩ := h2
          refine ⟨hl1, ab1, ?_, hγ1⟩
          simp only [absCond, List.mem_flatMap, Prod.exists]
          exact ⟨false, ab1, hm1, by simp⟩
  | or x y ihx ihy =>
      intro s ab a b s' e hv hγ h
      simp only [evalCondE, List.mem_flatMap, Prod.exists] at h
      obtain ⟨b1, s1, e1, h1, h2⟩ := h
      obtain ⟨hl1, ab1, hm1, hγ1⟩ := ihx s ab a b1 s1 e1 hv hγ h1
      cases b1 with
      | false =>
          simp only [Bool.false_eq_true, if_false, List.mem_map, Prod.exists, Prod.mk.injEq] at h2
          obtain ⟨b2, s2, e2, h2, rfl, rfl, rfl⟩ := h2
          obtain ⟨hl2, ab2, hm2, hγ2⟩ := ihy s1 ab1 _ b2 s2 e2 (by simpa [hl1] using hv) hγ1 h2
          refine ⟨by rw [hl2, hl1], ab2, ?_, by rw [ghostAfter_append]; exact hγ2⟩
          simp only [absCond, List.mem_flatMap, Prod.exists]
          exact ⟨false, ab1, hm1, by simpa using hm2⟩
      | true =>
          simp only [if_true, List.mem_singleton, Prod.mk.injEq] at h2
          obtain ⟨rfl, rfl, rfl⟩ := h2
          refine ⟨hl1, ab1, ?_, hγ1⟩
          simp only [absCond, List.mem_flatMap, Prod.exists]
          exact ⟨true, ab1, hm1, by simp⟩

theorem absExec_sound (S : CSpec) (p : Stmt) :
    ∀ (l : List Int) (s : St) (ab : Abs) (a : Bool) (f : Flow) (s' : St) (e : List Eff),
      S.v < s.vars.length → γ ab (S.G s) a → (f, s', e) ∈ execE p l s →
      s'.vars.length = s.vars.length ∧
        ∃ ab', (f, ab') ∈ absExec S p ab ∧ γ ab' (S.G s') (ghostAfter S a e) := by
  induction p with
  | skip =>
      intro l s ab a f s' e hv hγ h
      simp only [execE, List.mem_singleton, Prod.mk.injEq] at h
      obtain ⟨rfl, rfl, rfl⟩ := h
      exact ⟨rfl, ab, by simp [absExec], hγ⟩
  | seq p q ihp ihq =>
      intro l s ab a f s' e hv hγ h
      simp only [execE, List.mem_flatMap, Prod.exists] at h
      obtain ⟨f1, s1, e1, h1, h2⟩ := h
      obtain ⟨hl1, ab1, hm1, hγ1⟩ := ihp l s ab a f1 s1 e1 hv hγ h1
      cases f1 with
      | normal =>
          simp only [List.mem_map, Prod.exists, Prod.mk.injEq] at h2
          obtain ⟨f2, s2, e2, h2, rfl, rfl, rfl⟩ := h2
          obtain ⟨hl2, ab2, hm2, hγ2⟩ := ihq l s1 ab1 _ f2 s2 e2 (by simpa [hl1] using hv) hγ1 h2
          refine ⟨by rw [hl2, hl1], ab2, ?_, by rw [ghostAfter_append]; exact hγ2⟩
          simp only [absExec, List.mem_flatMap, Prod.exists, mem_dedupA]
          exact ⟨.normal, ab1, hm1, hm2⟩
      | returned =>
          simp only [List.mem_singleton, Prod.mk.injEq] at h2
          obtain ⟨rfl, rfl, rfl⟩ := h2
          refine ⟨hl1, ab1, ?_, hγ1⟩
          simp only [absExec, List.mem_flatMap, Prod.exists, mem_dedupA]
          exact ⟨.returned, ab1, hm1, by simp⟩
      | stopped =>
          simp only [List.mem_singleton, Prod.mk.injEq] at h2
          obtain ⟨rfl, rfl, rfl⟩ := h2
          refine ⟨hl1, ab1, ?_, hγ1⟩
          simp only [absExec, List.mem_flatMap, Prod.exists, mem_dedupA]
          exact ⟨.stopped, ab1, hm1, by simp⟩
  | set w x =>
      intro l s ab a f s' e hv hγ h
      simp only [execE] at h
      by_cases hw : w = S.v
      · subst hw
        cases x with
        | const n =>
            simp only [evalExpr, List.mem_singleton, Prod.mk.injEq] at h
            obtain ⟨rfl, rfl, rfl⟩ := h
            refine ⟨length_setNth _ _ _, absSet (S.isG n) ab, by simp [absExec], ?_⟩
            simp only [CSpec.G, getNth_setNth_eq _ _ _ hv, ghostAfter_nil]
            exact γ_absSet _ hγ
        | loc i =>
            cases hx : evalExpr l s.vars (.loc i) <;>
              simp only [hx, List.mem_singleton, Prod.mk.injEq] at h <;> obtain ⟨rfl, rfl, rfl⟩ := h
            · exact ⟨rfl, absSetUnknown ab, by simp [absExec], γ_absSetUnknown _ hγ⟩
            · exact ⟨length_setNth _ _ _, absSetUnknown ab, by simp [absExec], γ_absSetUnknown _ hγ⟩
        | var i =>
            cases hx : evalExpr l s.vars (.var i) <;>
              simp only [hx, List.mem_singleton, Prod.mk.injEq] at h <;> obtain ⟨rfl, rfl, rfl⟩ := h
            · exact ⟨rfl, absSetUnknown ab, by simp [absExec], γ_absSetUnknown _ hγ⟩
            · exact ⟨length_setNth _ _ _, absSetUnknown ab, by simp [absExec], γ_absSetUnknown _ hγ⟩
        | min p q =>
            cases hx : evalExpr l s.vars (.min p q) <;>
              simp only [hx, List.mem_singleton, Prod.mk.injEq] at h <;> obtain ⟨rfl, rfl, rfl⟩ := h
            · exact ⟨rfl, absSetUnknown ab, by simp [absExec], γ_absSetUnknown _ hγ⟩
            · exact ⟨length_setNth _ _ _, absSetUnknown ab, by simp [absExec], γ_absSetUnknown _ hγ⟩
        | unknown =>
            simp only [evalExpr, List.mem_singleton, Prod.mk.injEq] at h
            obtain ⟨rfl, rfl, rfl⟩ := h
            exact ⟨rfl, absSetUnknown ab, by simp [absExec], γ_absSetUnknown _ hγ⟩
      · have hmem : (Flow.normal, ab) ∈ absExec S (.set w x) ab := by simp [absExec, hw]
        cases hx : evalExpr l s.vars x <;>
          simp only [hx, List.mem_singleton, Prod.mk.injEq] at h <;> obtain ⟨rfl, rfl, rfl⟩ := h
        · exact ⟨rfl, ab, hmem, hγ⟩
        · refine ⟨length_setNth _ _ _, ab, hmem, ?_⟩
          simpa only [CSpec.G, getNth_setNth_ne _ _ _ _ hw, ghostAfter_nil] using hγ
  | ite c t el iht ihe =>
      intro l s ab a f s' e hv hγ h
      simp only [execE, List.mem_flatMap, Prod.exists] at h
      obtain ⟨b, s1, ec, hc, h2⟩ := h
      obtain ⟨hl1, ab1, hm1, hγ1⟩ := absCond_sound S l c s ab a b s1 ec hv hγ hc
      simp only [List.mem_map, Prod.exists, Prod.mk.injEq] at h2
      obtain ⟨f2, s2, e2, h2, rfl, rfl, rfl⟩ := h2
      cases b with
      | true =>
          simp only [if_true] at h2
          obtain ⟨hl2, ab2, hm2, hγ2⟩ := iht l s1 ab1 _ f2 s2 e2 (by simpa [hl1] using hv) hγ1 h2
          refine ⟨by rw [hl2, hl1], ab2, ?_, by rw [ghostAfter_append]; exact hγ2⟩
          simp only [absExec, List.mem_flatMap, Prod.exists]
          exact ⟨true, ab1, hm1, by simpa using hm2⟩
      | false =>
          simp only [Bool.false_eq_true, if_false] at h2
          obtain ⟨hl2, ab2, hm2, hγ2⟩ := ihe l s1 ab1 _ f2 s2 e2 (by simpa [hl1] using hv) hγ1 h2
          refine ⟨by rw [hl2, hl1], ab2, ?_, by rw [ghostAfter_append]; exact hγ2⟩
          simp only [absExec, List.mem_flatMap, Prod.exists]
          exact ⟨false, ab1, hm1, by simpa using hm2⟩
  | choose p q ihp ihq =>
      intro l s ab a f s' e hv hγ h
      simp only [execE, List.mem_append] at h
      rcases h with h | h
      · obtain ⟨hl, ab', hm, hγ'⟩ := ihp l s ab a f s' e hv hγ h
        exact ⟨hl, ab', by simp only [absExec, List.mem_append]; exact Or.inl hm, hγ'⟩
      · obtain ⟨hl, ab', hm, hγ'⟩ := ihq l s ab a f s' e hv hγ h
        exact ⟨hl, ab', by simp only [absExec, List.mem_append]; exact Or.inr hm, hγ'⟩
  | forSetting loc vals body ih =>
      intro l s ab a f s' e hv hγ h
      simp only [execE, List.mem_flatMap] at h
      obtain ⟨x, _, h⟩ := h
      obtain ⟨hl, ab', hm, hγ'⟩ := ih (l ++ [x]) s ab a f s' e hv hγ h
      exact ⟨hl, ab', by simpa only [absExec] using hm, hγ'⟩
  | delay m =>
      intro l s ab a f s' e hv hγ h
      simp only [execE, List.mem_singleton, Prod.mk.injEq] at h
      obtain ⟨rfl, rfl, rfl⟩ := h
      exact ⟨rfl, ab, by simp [absExec], hγ⟩
  | cancel =>
      intro l s ab a f s' e hv hγ h
      simp only [execE, List.mem_singleton, Prod.mk.injEq] at h
      obtain ⟨rfl, rfl, rfl⟩ := h
      exact ⟨rfl, ab, by simp [absExec], hγ⟩
  | selfTell m =>
      intro l s ab a f s' e hv hγ h
      simp only [execE, List.mem_singleton, Prod.mk.injEq] at h
      obtain ⟨rfl, rfl, rfl⟩ := h
      exact ⟨rfl, ab, by simp [absExec], hγ⟩
  | ret =>
      intro l s ab a f s' e hv hγ h
      simp only [execE, List.mem_singleton, Prod.mk.injEq] at h
      obtain ⟨rfl, rfl, rfl⟩ := h
      exact ⟨rfl, ab, by simp [absExec], hγ⟩
  | stopRepeat =>
      intro l s ab a f s' e hv hγ h
      simp only [execE, List.mem_singleton, Prod.mk.injEq] at h
      obtain ⟨rfl, rfl, rfl⟩ := h
      exact ⟨rfl, ab, by simp [absExec], hγ⟩
  | doRepeat body poll ih =>
      intro l s ab a f s' e hv hγ h
      simp only [execE, List.mem_map, Prod.exists] at h
      obtain ⟨f1, s1, e1, h1, h2⟩ := h
      obtain ⟨hl, ab', hm, hγ'⟩ := ih l s ab a f1 s1 e1 hv hγ h1
      have hmem : (Flow.normal, ab') ∈ absExec S (.doRepeat body poll) ab := by
        simp only [absExec]; exact List.mem_map.2 ⟨(f1, ab'), hm, rfl⟩
      cases f1 <;> simp only [Prod.mk.injEq] at h2 <;> obtain ⟨rfl, rfl, rfl⟩ := h2 <;>
        exact ⟨hl, ab', hmem, hγ'⟩
  | emit t =>
      intro l s ab a f s' e hv hγ h
      simp only [execE, List.mem_singleton, Prod.mk.injEq] at h
      obtain ⟨rfl, rfl, rfl⟩ := h
      refine ⟨rfl, absTag S t ab, by simp [absExec], ?_⟩
      show γ (absTag S t ab) (S.G s') (ghost1 S a (.emit t))
      rw [ghost1_emit]
      unfold absTag
      cases S.tells.lookup t with
      | none => exact hγ
      | some m =>
          dsimp only
          cases hm : S.isHaltMsg m with
          | true => simp [γ]
          | false =>
              cases hst : S.isStart m with
              | true => simp [γ]
              | false => simpa using hγ
  | scope body ih =>
      intro l s ab a f s' e hv hγ h
      simp only [execE, List.mem_map, Prod.exists] at h
      obtain ⟨f1, s1, e1, h1, h2⟩ := h
      obtain ⟨hl, ab', hm, hγ'⟩ := ih l s ab a f1 s1 e1 hv hγ h1
      cases f1 <;> simp only [Prod.mk.injEq] at h2 <;> obtain ⟨rfl, rfl, rfl⟩ := h2 <;>
        exact ⟨hl, ab', by simp only [absExec]; exact List.mem_map.2 ⟨(_, ab'), hm, rfl⟩, hγ'⟩
  | «opaque» t =>
      intro l s ab a f s' e hv hγ h
      simp only [execE, List.mem_singleton, Prod.mk.injEq] at h
      obtain ⟨rfl, rfl, rfl⟩ := h
      exact ⟨rfl, ab, by simp [absExec], hγ⟩

/-! ## from programs to handlers -/

/-- the discipline relation between the variables before a piece of a handler, its effects, and the variables
    after it -/
def R (S : CSpec) (vs : List Int) (e : List Eff) (vs' : List Int) : Prop :=
  vs'.length = vs.length ∧
  (S.isG (getNth vs' S.v) = true → ghostAfter S (S.isG (getNth vs S.v)) e = true)

theorem R_nil (S : CSpec) (vs : List Int) : R S vs [] vs := ⟨rfl, fun h => h⟩

theorem R_trans (S : CSpec) {vs vs1 vs2 : List Int} {e1 e2 : List Eff} (h1 : R S vs e1 vs1) (h2 : R S vs1 e2 vs2) :
    R S vs (e1 ++ e2) vs2 := by
  refine ⟨by rw [h2.1, h1.1], fun hg => ?_⟩
  rw [ghostAfter_append]
  exact ghostAfter_mono S e2 h1.2 (h2.2 hg)

theorem progOK_sound (S : CSpec) {p : Stmt} (hp : progOK S p = true) {l : List Int} {s : St} {f : Flow} {s' : St}
    {e : List Eff} (hv : S.v < s.vars.length) (h : (f, s', e) ∈ execE p l s) : R S s.vars e s'.vars := by
  obtain ⟨hl, ab', hm, hγ⟩ := absExec_sound S p l s .S (S.G s) f s' e hv (fun h => h) h
  refine ⟨hl, fun hg => ?_⟩
  simp only [progOK, List.all_eq_true] at hp
  have hok := hp _ hm
  cases ab' with
  | T => exact hγ
  | S => exact hγ hg
  | B => simp [Abs.ok] at hok

theorem progOK_opaque (S : CSpec) (n : Nat) : progOK S (.opaque n) = true := by
  simp [progOK, absExec, Abs.ok]

theorem cb_ok (S : CSpec) (hcb : S.DM.callbacks.all (progOK S) = true) (i : Nat) :
    progOK S (S.DM.callbacks.getD i (.opaque 999)) = true := by
  simp only [List.getD]
  cases h : S.DM.callbacks[i]? with
  | none => exact progOK_opaque S 999
  | some p =>
      simp only [Option.getD_some]
      exact (List.all_eq_true.mp hcb) p (List.mem_of_getElem? h)

theorem runSeqE_R (S : CSpec) (hcb : S.DM.callbacks.all (progOK S) = true) (ids : List Nat) :
    ∀ (s s' : St) (e : List Eff), S.v < s.vars.length → (s', e) ∈ runSeqE S.DM.callbacks ids s →
      R S s.vars e s'.vars := by
  induction ids with
  | nil =>
      intro s s' e _ h
      simp only [runSeqE, List.mem_singleton, Prod.mk.injEq] at h
      obtain ⟨rfl, rfl⟩ := h
      exact R_nil S _
  | cons i is ih =>
      intro s s' e hv h
      simp only [runSeqE, List.mem_flatMap, List.mem_map, Prod.exists, Prod.mk.injEq] at h
      obtain ⟨f, s1, e1, h1, s2, e2, h2, rfl, rfl⟩ := h
      have r1 := progOK_sound S (cb_ok S hcb i) hv h1
      have r2 := ih s1 s2 e2 (by simpa [r1.1] using hv) h2
      exact R_trans S r1 r2

theorem fireE_R (S : CSpec) (hcb : S.DM.callbacks.all (progOK S) = true) (t : MsgId) (s s' : St) (e : List Eff)
    (hv : S.v < s.vars.length) (h : (s', e) ∈ fireE S.DM t s) : R S s.vars e s'.vars := by
  simp only [fireE, List.mem_append, List.mem_flatMap, List.mem_map, Prod.exists, Prod.mk.injEq] at h
  rcases h with h | ⟨r, _, s1, e1, h1, s2, e2, h2, rfl, rfl⟩
  · by_cases hc : S.DM.total.contains (s.leaf, t) = true
    · simp only [hc, if_true, List.not_mem_nil] at h
    · simp only [hc, Bool.false_eq_true, if_false, List.mem_singleton, Prod.mk.injEq] at h
      obtain ⟨rfl, rfl⟩ := h
      exact R_nil S _
  · have r1 := runSeqE_R S hcb r.pre s s1 e1 hv h1
    have hv1 : S.v < s1.vars.length := by simpa [r1.1] using hv
    have r2 := runSeqE_R S hcb r.post _ s2 e2 (by cases r.internal <;> simpa using hv1) h2
    have r2' : R S s1.vars e2 s2.vars := by cases hi : r.internal <;> simpa [hi] using r2
    exact R_trans S r1 r2'

theorem callE_R (S : CSpec) (hcb : S.DM.callbacks.all (progOK S) = true)
    (hme : S.DM.methods.all (fun mp => progOK S mp.2) = true) (m : MsgId) (s s' : St) (e : List Eff)
    (hv : S.v < s.vars.length) (h : (s', e) ∈ callE S.DM m s) : R S s.vars e s'.vars := by
  simp only [callE] at h
  by_cases ht : S.DM.triggers.contains m = true
  · simp only [ht, if_true] at h
    exact fireE_R S hcb m s s' e hv h
  · simp only [ht, Bool.false_eq_true, if_false] at h
    cases hf : S.DM.methods.find? (·.1 == m) with
    | none =>
        simp only [hf, List.mem_singleton, Prod.mk.injEq] at h
        obtain ⟨rfl, rfl⟩ := h
        exact R_nil S _
    | some mp =>
        obtain ⟨m', p⟩ := mp
        simp only [hf, List.mem_map, Prod.exists, Prod.mk.injEq] at h
        obtain ⟨f, s1, e1, h1, rfl, rfl⟩ := h
        have hp : progOK S p = true := (List.all_eq_true.mp hme) (m', p) (List.mem_of_find?_eq_some hf)
        exact progOK_sound S hp hv h1

/-- `havoc` only ever turns the knowledge off -/
theorem havoc_fold (S : CSpec) (leaf : LeafId) (hv : List (VarId × List LeafId × Int))
    (hok : hv.all (fun (w, _, x) => w != S.v || !S.isG x) = true) : ∀ (vs : List Int), S.v < vs.length →
    let vs' := hv.foldl (fun vs (p : VarId × List LeafId × Int) => if p.2.1.contains leaf then setNth vs p.1 p.2.2 else vs) vs
    vs'.length = vs.length ∧ (S.isG (getNth vs' S.v) = true → S.isG (getNth vs S.v) = true) := by
  induction hv with
  | nil => intro vs _; exact ⟨rfl, fun h => h⟩
  | cons p rest ih =>
      intro vs hlt
      obtain ⟨w, ls, x⟩ := p
      simp only [List.all_cons, Bool.and_eq_true, Bool.or_eq_true, bne_iff_ne, ne_eq, Bool.not_eq_true'] at hok
      obtain ⟨hp, hrest⟩ := hok
      simp only [List.foldl_cons]
      by_cases hc : ls.contains leaf = true
      · simp only [hc, if_true]
        obtain ⟨hl, hg⟩ := ih hrest (setNth vs w x) (by simpa [length_setNth] using hlt)
        refine ⟨by rw [hl, length_setNth], fun h => ?_⟩
        have h1 := hg h
        by_cases hw : w = S.v
        · subst hw
          rw [getNth_setNth_eq _ _ _ hlt] at h1
          rcases hp with hp | hp
          · exact absurd rfl hp
          · rw [hp] at h1; cases h1
        · rwa [getNth_setNth_ne _ _ _ _ hw] at h1
      · simp only [hc, Bool.false_eq_true, if_false]
        exact ih hrest vs hlt

/-- … and does turn it off in the allowed phases -/
theorem havoc_fold_allowed (S : CSpec) (leaf : LeafId) (hv : List (VarId × List LeafId × Int))
    (hok : hv.all (fun (w, _, x) => w != S.v || !S.isG x) = true)
    (hany : hv.any (fun (w, ls, x) => w == S.v && ls.contains leaf && !S.isG x) = true) :
    ∀ (vs : List Int), S.v < vs.length →
    S.isG (getNth (hv.foldl (fun vs (p : VarId × List LeafId × Int) =>
      if p.2.1.contains leaf then setNth vs p.1 p.2.2 else vs) vs) S.v) = false := by
  induction hv with
  | nil => simp at hany
  | cons p rest ih =>
      intro vs hlt
      obtain ⟨w, ls, x⟩ := p
      have hok' := hok
      simp only [List.all_cons, Bool.and_eq_true] at hok'
      obtain ⟨_, hrest⟩ := hok'
      simp only [List.any_cons, Bool.or_eq_true, Bool.and_eq_true, beq_iff_eq, Bool.not_eq_true'] at hany
      simp only [List.foldl_cons]
      rcases hany with ⟨⟨hw, hc⟩, hx⟩ | hany
      · subst hw
        simp only [hc, if_true]
        have := (havoc_fold S leaf rest hrest (setNth vs S.v x) (by simpa [length_setNth] using hlt)).2
        rw [getNth_setNth_eq _ _ _ hlt, hx] at this
        cases hfin : S.isG (getNth (rest.foldl (fun vs (p : VarId × List LeafId × Int) =>
            if p.2.1.contains leaf then setNth vs p.1 p.2.2 else vs) (setNth vs S.v x)) S.v) with
        | false => rfl
        | true => exact absurd (this hfin) (by simp)
      · have hany' : rest.any (fun (w, ls, x) => w == S.v && ls.contains leaf && !S.isG x) = true := by
          simpa [List.any_eq_true] using hany
        by_cases hc : ls.contains leaf = true
        · simp only [hc, if_true]
          exact ih hrest hany' _ (by simpa [length_setNth] using hlt)
        · simp only [hc, Bool.false_eq_true, if_false]
          exact ih hrest hany' _ hlt

theorem applyHavoc_R (S : CSpec) (hh : havocOK S = true) (ha : allowedOK S = true) (s : St) (hv : S.v < s.vars.length) :
    (applyHavoc S.DM s).leaf = s.leaf ∧ (applyHavoc S.DM s).vars.length = s.vars.length ∧
    (S.G (applyHavoc S.DM s) = true → S.G s = true ∧ S.allowed.contains s.leaf = false) := by
  have h1 := havoc_fold S s.leaf S.DM.havoc hh s.vars hv
  refine ⟨rfl, h1.1, fun hg => ⟨h1.2 hg, ?_⟩⟩
  cases hc : S.allowed.contains s.leaf with
  | false => rfl
  | true =>
      have hmem : s.leaf ∈ S.allowed := by simpa using hc
      have hany := (List.all_eq_true.mp ha) s.leaf hmem
      have := havoc_fold_allowed S s.leaf S.DM.havoc hh hany s.vars hv
      simp only [CSpec.G, applyHavoc] at hg
      rw [this] at hg
      cases hg

/-- **Soundness of the checker**: a master whose generated description passes `ghostDiscipline` satisfies the
    hypotheses of the composition theorem. -/
theorem masterOK_of_discipline (S : CSpec) (h : ghostDiscipline S = true) : MasterOK S := by
  simp only [ghostDiscipline, Bool.and_eq_true, decide_eq_true_eq] at h
  obtain ⟨⟨⟨⟨⟨hvlt, hinit⟩, hcb⟩, hme⟩, hh⟩, ha⟩ := h
  refine ⟨hvlt, ?_, ?_⟩
  · intro hg
    simpa [hg] using hinit
  · intro s msg s' effs hv hstep
    have key : ∀ (s0 s1 : St) (m : MsgId), s0.vars = s.vars → (s1, effs) ∈ callE S.DM m s0 →
        (applyHavoc S.DM s1).vars.length = s.vars.length ∧
        (S.G (applyHavoc S.DM s1) = true → ghostAfter S (S.G s) effs = true) ∧
        ((S.G s = true → S.allowed.contains s.leaf = false) →
          S.G (applyHavoc S.DM s1) = true → S.allowed.contains (applyHavoc S.DM s1).leaf = false) := by
      intro s0 s1 m h0 hc
      have r := callE_R S hcb hme m s0 s1 effs (by simpa [h0] using hv) hc
      have hv1 : S.v < s1.vars.length := by rw [r.1, h0]; exact hv
      obtain ⟨hleaf, hlen, hG⟩ := applyHavoc_R S hh ha s1 hv1
      refine ⟨by rw [hlen, r.1, h0], fun hg => ?_, fun _ hg => by rw [hleaf]; exact (hG hg).2⟩
      have := r.2 (hG hg).1
      simpa only [CSpec.G, h0] using this
    cases msg with
    | plain m =>
        simp only [stepE, List.mem_map, Prod.exists, Prod.mk.injEq] at hstep
        obtain ⟨s1, e1, hc, rfl, rfl⟩ := hstep
        exact key { s with pend := removeMsg m s.pend } s1 m rfl hc
    | delayed m =>
        simp only [stepE] at hstep
        by_cases harm : (s.armed == some m) = true
        · simp only [harm, if_true, List.mem_map, Prod.exists, Prod.mk.injEq] at hstep
          obtain ⟨s1, e1, hc, rfl, rfl⟩ := hstep
          exact key { s with armed := none } s1 m rfl hc
        · simp only [harm, Bool.false_eq_true, if_false, List.mem_singleton, Prod.mk.injEq] at hstep
          obtain ⟨rfl, rfl⟩ := hstep
          exact ⟨rfl, fun hg => hg, fun h => h⟩

end Poupool.Compose
