/-
Helper lemmas for C20, clause "over any whole number of PWM periods at constant duty the pump's on-fraction equals the
duty to within two timer ticks per period": phase-length bounds of the PWM model at constant value / period /
min_runtime, no cancel, security cap not reached.

Ghost semantics.  A run is a state at a CYCLE BOUNDARY (`Boundary`: pump off, phase accumulator 0, `__last` = the instant
`t0` of the do_run that has just been executed: the first do_run after construction / after do_cancel, or any do_run
that has just switched the pump off) followed by a list `ds` of tick gaps in microseconds: the k-th further do_run
happens at `t0 + ds[0] + … + ds[k-1]`.  The ghost records the instant of the do_run that started the phase in progress,
the energised time of the pump device since `t0`, the lengths of all completed on-pulses and off-pauses, and whether some
do_run found the security timer elapsed.  The pump is energised between two consecutive do_runs iff the earlier one left
`pumpOn = true` (the device is only written inside do_run).
-/
import Poupool.Proofs.PwmDuty

namespace Poupool.Pwm

/-! ### seconds of microseconds -/

theorem secs_add (a b : Int) : secs (a + b) = secs a + secs b := by unfold secs; grind
theorem secs_sub (a b : Int) : secs (a - b) = secs a - secs b := by unfold secs; grind
theorem secs_zero : secs 0 = 0 := by decide +kernel
theorem secs_nonneg {a : Int} (h : 0 ≤ a) : 0 ≤ secs a := by
  have := secs_mono h; rw [secs_zero] at this; exact this
theorem secs_lt {a b : Int} (h : a < b) : secs a < secs b := by
  have := Rat.intCast_lt_intCast.mpr h
  unfold secs; grind
theorem secs_natMul (n : Nat) (a : Int) : secs ((n : Int) * a) = (n : Rat) * secs a := by
  induction n with
  | zero => simp [secs_zero]
  | succ k ih =>
    have : ((k + 1 : Nat) : Int) * a = (k : Int) * a + a := by grind
    rw [this, secs_add, ih]; grind

/-! ### ghost run -/

structure F where
  s : PwmState
  /-- instant (µs) of the do_run at the cycle boundary the run starts from -/
  t0 : Int
  /-- instant of the most recent do_run -/
  clock : Int
  /-- instant of the do_run that started the phase in progress (`t0`, or the last do_run that switched the pump) -/
  phaseStart : Int
  /-- µs the pump device has been energised since `t0` -/
  onTime : Int
  /-- lengths (µs) of the completed on-pulses, most recent first -/
  pulses : List Int
  /-- lengths (µs) of the completed off-pauses, most recent first (the first one is measured from `t0`) -/
  pauses : List Int
  /-- some do_run since `t0` found the security timer elapsed -/
  capHit : Bool

/-- the security timer as the do_run at instant `t` consults it (`update(now)` when on, `update(now, 0)` when off) -/
def capAt (t : Int) (s : PwmState) : Bool :=
  match s.last with
  | some _ => (s.sec.update t (if s.state then 1 else 0)).elapsed
  | none => false

def F.begin (s : PwmState) (t0 : Int) : F :=
  { s := s, t0 := t0, clock := t0, phaseStart := t0, onTime := 0, pulses := [], pauses := [], capHit := false }

/-- one further do_run, `d` µs after the previous one -/
def stepF (c : Cfg) (f : F) (d : Int) : F :=
  let t := f.clock + d
  let s' := tick c t f.s
  { s := s', t0 := f.t0, clock := t
    phaseStart := if f.s.pumpOn = s'.pumpOn then f.phaseStart else t
    onTime := f.onTime + (if f.s.pumpOn then d else 0)
    pulses := if f.s.pumpOn = true ∧ s'.pumpOn = false then (t - f.phaseStart) :: f.pulses else f.pulses
    pauses := if f.s.pumpOn = false ∧ s'.pumpOn = true then (t - f.phaseStart) :: f.pauses else f.pauses
    capHit := f.capHit || capAt t f.s }

def runF (c : Cfg) (f : F) (ds : List Int) : F := ds.foldl (stepF c) f

/-- a state at a cycle boundary: pump off, accumulator 0, the do_run at `t0` has just been executed -/
structure Boundary (v P m : Rat) (s : PwmState) (t0 : Int) : Prop where
  hv : s.value = v
  hP : s.period = P
  hm : s.minRuntime = m
  hlast : s.last = some (secs t0)
  hdur : s.duration = 0
  hstate : s.state = false
  hpump : s.pumpOn = false

/-- fresh start: after construction (+ writes of value / period) or after do_cancel -/
structure Fresh (v P m : Rat) (s : PwmState) : Prop where
  hv : s.value = v
  hP : s.period = P
  hm : s.minRuntime = m
  hlast : s.last = none
  hdur : s.duration = 0
  hstate : s.state = false
  hpump : s.pumpOn = false

theorem fresh_init (c : Cfg) (v P m : Rat) (S start : Int) :
    Fresh v P m (setValue v (PwmState.init c P m S start)) := ⟨rfl, rfl, rfl, rfl, rfl, rfl, rfl⟩

theorem fresh_cancel (t : Int) (s : PwmState) : Fresh s.value s.period s.minRuntime (cancel t s) :=
  ⟨rfl, rfl, rfl, rfl, rfl, rfl, rfl⟩

/-- the first do_run after a fresh start only records the instant: the state is at a cycle boundary -/
theorem boundary_of_fresh (c : Cfg) {v P m : Rat} {s : PwmState} (t0 : Int) (h : Fresh v P m s) :
    Boundary v P m (tick c t0 s) t0 := by
  obtain ⟨f1, f2, f3, f4, _, f6⟩ := tick_fields c t0 s
  obtain ⟨a1, a2, a3⟩ := f6 h.hlast
  exact ⟨by rw [f4, h.hv], by rw [f3, h.hP], by rw [f2, h.hm], f1, by rw [a3, h.hdur], by rw [a2, h.hstate],
    by rw [a1, h.hpump]⟩

/-! ### bookkeeping invariant (holds whatever the security timer does) -/

structure Base (v P m : Rat) (f : F) : Prop where
  hv : f.s.value = v
  hP : f.s.period = P
  hm : f.s.minRuntime = m
  hlast : f.s.last = some (secs f.clock)
  hst : f.s.pumpOn = f.s.state
  hord : f.t0 ≤ f.phaseStart ∧ f.phaseStart ≤ f.clock
  hdur : f.s.duration = constrain (secs f.clock - secs f.phaseStart) 0 P
  hon : f.onTime = f.pulses.sum + (if f.s.pumpOn then f.clock - f.phaseStart else 0)
  hel : f.clock - f.t0 = f.pulses.sum + f.pauses.sum + (f.clock - f.phaseStart)
  hlen : f.pauses.length = f.pulses.length + (if f.s.pumpOn then 1 else 0)

theorem base_begin {v P m : Rat} {s : PwmState} {t0 : Int} (h : Boundary v P m s t0) (hP0 : 0 ≤ P) :
    Base v P m (F.begin s t0) := by
  obtain ⟨h1, h2, h3, h4, h5, h6, h7⟩ := h
  refine ⟨h1, h2, h3, h4, ?_, ?_, ?_, ?_, ?_, ?_⟩ <;> simp [F.begin, h5, h6, h7]
  unfold constrain; grind

/-- the accumulator after the `+= diff` / `constrain` of the next do_run -/
def dAt (P : Rat) (f : F) (d : Int) : Rat := constrain (secs (f.clock + d) - secs f.phaseStart) 0 P

/-- What one further do_run does to the ghost: the four cases of `block`, in terms of the ghost fields. -/
theorem stepF_spec (c : Cfg) (v P m : Rat) (f : F) (d : Int) (hb : Base v P m f) (hd : 0 ≤ d) (hP0 : 0 ≤ P) :
    Base v P m (stepF c f d) ∧ (stepF c f d).clock = f.clock + d ∧ (stepF c f d).t0 = f.t0 ∧
    (stepF c f d).capHit = (f.capHit || capAt (f.clock + d) f.s) ∧
    (f.s.pumpOn = true →
      ((stepF c f d).s.pumpOn = false ∧ (stepF c f d).phaseStart = f.clock + d ∧
        (stepF c f d).s.duration = 0 ∧
        (stepF c f d).pulses = (f.clock + d - f.phaseStart) :: f.pulses ∧ (stepF c f d).pauses = f.pauses ∧
        (capAt (f.clock + d) f.s = true ∨
          (dAt P f d ≥ dutyOn v P m ∧ dAt P f d ≥ m ∧ dutyOn v P m ≠ P))) ∨
      ((stepF c f d).s.pumpOn = true ∧ (stepF c f d).phaseStart = f.phaseStart ∧
        (stepF c f d).pulses = f.pulses ∧ (stepF c f d).pauses = f.pauses ∧
        capAt (f.clock + d) f.s = false ∧
        ¬ (dAt P f d ≥ dutyOn v P m ∧ dAt P f d ≥ m ∧ dutyOn v P m ≠ P))) ∧
    (f.s.pumpOn = false →
      ((stepF c f d).s.pumpOn = true ∧ (stepF c f d).phaseStart = f.clock + d ∧
        (stepF c f d).pulses = f.pulses ∧ (stepF c f d).pauses = (f.clock + d - f.phaseStart) :: f.pauses ∧
        capAt (f.clock + d) f.s = false ∧
        dAt P f d ≥ P - dutyOn v P m ∧ P - dutyOn v P m ≠ P) ∨
      ((stepF c f d).s.pumpOn = false ∧ (stepF c f d).phaseStart = f.phaseStart ∧
        (stepF c f d).pulses = f.pulses ∧ (stepF c f d).pauses = f.pauses ∧
        (capAt (f.clock + d) f.s = true ∨ ¬ (dAt P f d ≥ P - dutyOn v P m ∧ P - dutyOn v P m ≠ P)))) := by
  obtain ⟨hv, hP, hm, hlast, hst, hord, hdur, hon, hel, hlen⟩ := hb
  obtain ⟨f1, f2, f3, f4, f5, _⟩ := tick_fields c (f.clock + d) f.s
  obtain ⟨a1, a2, a3⟩ := f5 _ hlast
  obtain ⟨_, _, _, bon, boff⟩ := block_phase (f.clock + d) (secs f.clock) f.s
  have hon' : onOf f.s = dutyOn v P m := by unfold onOf; rw [hv, hP, hm]
  have hD : durAt (f.clock + d) (secs f.clock) f.s = dAt P f d := by
    unfold durAt dAt
    rw [hdur, hP, secs_add]
    have h1 := secs_mono hord.2
    have h2 := secs_nonneg hd
    unfold constrain; grind
  have hcap : capAt (f.clock + d) f.s = (f.s.sec.update (f.clock + d) (if f.s.state then 1 else 0)).elapsed := by
    unfold capAt; rw [hlast]
  rw [hon', hD, hP, hm] at bon
  rw [hon', hD, hP] at boff
  refine ⟨?_, rfl, rfl, rfl, ?_, ?_⟩
  · -- Base
    cases hs : f.s.state
    · have hp : f.s.pumpOn = false := by rw [hst, hs]
      rcases boff hs with ⟨d1, d2, d3, _⟩ | ⟨d1, d2, d3, _⟩
      · have e1 : (tick c (f.clock + d) f.s).pumpOn = true := by rw [a1, d1]
        refine ⟨f4.trans hv, f3.trans hP, f2.trans hm, f1, ?_, ?_, ?_, ?_, ?_, ?_⟩
        · simp only [stepF]; rw [a1, a2, d1, d2]
        · simp only [stepF, hp, e1]; simp; omega
        · simp only [stepF, hp, e1]; simp; rw [a3, d3]; unfold constrain; grind
        · simp only [stepF, hp, e1]; simp; simp [hp] at hon; omega
        · simp only [stepF, hp, e1]; simp; omega
        · simp only [stepF, hp, e1]; simp; simp [hp] at hlen; omega
      · have e1 : (tick c (f.clock + d) f.s).pumpOn = false := by rw [a1, d1, hp]
        refine ⟨f4.trans hv, f3.trans hP, f2.trans hm, f1, ?_, ?_, ?_, ?_, ?_, ?_⟩
        · simp only [stepF]; rw [a1, a2, d1, d2, hp]
        · simp only [stepF, hp, e1]; simp; omega
        · simp only [stepF, hp, e1]; simp; rw [a3, d3]; rfl
        · simp only [stepF, hp, e1]; simp; simp [hp] at hon; omega
        · simp only [stepF, hp, e1]; simp; omega
        · simp only [stepF, hp, e1]; simp; simp [hp] at hlen; omega
    · have hp : f.s.pumpOn = true := by rw [hst, hs]
      rcases bon hs with ⟨d1, d2, d3, _⟩ | ⟨d1, d2, d3, _⟩
      · have e1 : (tick c (f.clock + d) f.s).pumpOn = false := by rw [a1, d1]
        refine ⟨f4.trans hv, f3.trans hP, f2.trans hm, f1, ?_, ?_, ?_, ?_, ?_, ?_⟩
        · simp only [stepF]; rw [a1, a2, d1, d2]
        · simp only [stepF, hp, e1]; simp; omega
        · simp only [stepF, hp, e1]; simp; rw [a3, d3]; unfold constrain; grind
        · simp only [stepF, hp, e1]; simp; simp [hp] at hon; omega
        · simp only [stepF, hp, e1]; simp; omega
        · simp only [stepF, hp, e1]; simp; simp [hp] at hlen; omega
      · have e1 : (tick c (f.clock + d) f.s).pumpOn = true := by rw [a1, d1, hp]
        refine ⟨f4.trans hv, f3.trans hP, f2.trans hm, f1, ?_, ?_, ?_, ?_, ?_, ?_⟩
        · simp only [stepF]; rw [a1, a2, d1, d2, hp]
        · simp only [stepF, hp, e1]; simp; omega
        · simp only [stepF, hp, e1]; simp; rw [a3, d3]; rfl
        · simp only [stepF, hp, e1]; simp; simp [hp] at hon; omega
        · simp only [stepF, hp, e1]; simp; omega
        · simp only [stepF, hp, e1]; simp; simp [hp] at hlen; omega
  · intro hp
    have hs : f.s.state = true := by rw [← hst, hp]
    rw [hcap, hs]
    rcases bon hs with ⟨d1, d2, d3, d4⟩ | ⟨d1, d2, d3, d4, d5⟩
    · left
      have e1 : (tick c (f.clock + d) f.s).pumpOn = false := by rw [a1, d1]
      refine ⟨e1, ?_, ?_, ?_, ?_, ?_⟩
      · simp only [stepF, hp, e1]; simp
      · simp only [stepF]; rw [a3, d3]
      · simp only [stepF, hp, e1]; simp
      · simp only [stepF, hp, e1]; simp
      · simpa using d4
    · right
      have e1 : (tick c (f.clock + d) f.s).pumpOn = true := by rw [a1, d1, hp]
      refine ⟨e1, ?_, ?_, ?_, ?_, d4⟩
      · simp only [stepF, hp, e1]; simp
      · simp only [stepF, hp, e1]; simp
      · simp only [stepF, hp, e1]; simp
      · simpa using d5
  · intro hp
    have hs : f.s.state = false := by rw [← hst, hp]
    rw [hcap, hs]
    rcases boff hs with ⟨d1, d2, d3, d4, d5, d6⟩ | ⟨d1, d2, d3, d4⟩
    · left
      have e1 : (tick c (f.clock + d) f.s).pumpOn = true := by rw [a1, d1]
      refine ⟨e1, ?_, ?_, ?_, ?_, d4, d5⟩
      · simp only [stepF, hp, e1]; simp
      · simp only [stepF, hp, e1]; simp
      · simp only [stepF, hp, e1]; simp
      · simpa using d6
    · right
      have e1 : (tick c (f.clock + d) f.s).pumpOn = false := by rw [a1, d1, hp]
      refine ⟨e1, ?_, ?_, ?_, ?_⟩
      · simp only [stepF, hp, e1]; simp
      · simp only [stepF, hp, e1]; simp
      · simp only [stepF, hp, e1]; simp
      · rcases d4 with d4 | d4
        · right; exact d4
        · left; simpa using d4

/-! ### runs -/

theorem runF_cons (c : Cfg) (f : F) (d : Int) (ds : List Int) : runF c f (d :: ds) = runF c (stepF c f d) ds := rfl

theorem capHit_mono (c : Cfg) (ds : List Int) : ∀ f : F, (runF c f ds).capHit = false → f.capHit = false := by
  induction ds with
  | nil => intro f h; exact h
  | cons d ds ih =>
    intro f h
    have := ih _ h
    simp only [stepF, Bool.or_eq_false_iff] at this
    exact this.1

/-- every gap of the run is within [0, Δ] -/
def Gaps (Δ : Int) (ds : List Int) : Prop := ∀ d ∈ ds, 0 ≤ d ∧ d ≤ Δ

instance (Δ : Int) (ds : List Int) : Decidable (Gaps Δ ds) := by unfold Gaps; infer_instance

theorem base_run (c : Cfg) (v P m : Rat) (Δ : Int) (hP0 : 0 ≤ P) (ds : List Int) :
    ∀ f : F, Base v P m f → Gaps Δ ds → Base v P m (runF c f ds) ∧ (runF c f ds).t0 = f.t0 := by
  induction ds with
  | nil => intro f h _; exact ⟨h, rfl⟩
  | cons d ds ih =>
    intro f h hg
    obtain ⟨hb, _, ht, _⟩ := stepF_spec c v P m f d h (hg d (by simp)).1 hP0
    have := ih _ hb (fun x hx => hg x (by simp [hx]))
    rw [runF_cons]
    exact ⟨this.1, this.2.trans ht⟩

/-! ### the non-degenerate case 0 < dutyOn' < period -/

/-- the phase in progress is not overdue, and every completed phase has the right length -/
structure NonDeg (on P : Rat) (Δ : Int) (f : F) : Prop where
  hoff : f.s.pumpOn = false → secs f.clock - secs f.phaseStart < P - on
  hon : f.s.pumpOn = true → secs f.clock - secs f.phaseStart < on
  hpulses : ∀ p ∈ f.pulses, on ≤ secs p ∧ secs p < on + secs Δ
  hpauses : ∀ p ∈ f.pauses, P - on ≤ secs p ∧ secs p < P - on + secs Δ

theorem nondeg_begin (on P : Rat) (Δ : Int) (s : PwmState) (t0 : Int) (h1 : on < P)
    (hp : s.pumpOn = false) : NonDeg on P Δ (F.begin s t0) := by
  refine ⟨?_, ?_, ?_, ?_⟩ <;> simp [F.begin, hp] <;> grind

theorem nondeg_step (c : Cfg) (v P m : Rat) (Δ : Int) (f : F) (d : Int) (hb : Base v P m f)
    (hn : NonDeg (dutyOn v P m) P Δ f) (hd0 : 0 ≤ d) (hdΔ : d ≤ Δ)
    (h0 : 0 < dutyOn v P m) (h1 : dutyOn v P m < P) (hm : m ≤ dutyOn v P m)
    (hcap : capAt (f.clock + d) f.s = false) : NonDeg (dutyOn v P m) P Δ (stepF c f d) := by
  have hP0 : 0 ≤ P := by grind
  obtain ⟨hb', hck, _, _, son, soff⟩ := stepF_spec c v P m f d hb hd0 hP0
  obtain ⟨n1, n2, n3, n4⟩ := hn
  have ho := hb.hord
  have e1 := secs_mono ho.2
  have e2 := secs_nonneg hd0
  have e3 := secs_mono hdΔ
  have e4 : secs (f.clock + d) = secs f.clock + secs d := secs_add _ _
  have e5 : secs (f.clock + d - f.phaseStart) = secs (f.clock + d) - secs f.phaseStart := secs_sub _ _
  have hD : dAt P f d = constrain (secs (f.clock + d) - secs f.phaseStart) 0 P := rfl
  cases hp : f.s.pumpOn
  · rcases soff hp with ⟨d1, d2, d3, d4, d5, d6, d7⟩ | ⟨d1, d2, d3, d4, d5⟩
    · refine ⟨?_, ?_, ?_, ?_⟩
      · intro h; rw [d1] at h; cases h
      · intro _; rw [hck, d2]; grind
      · rw [d3]; exact n3
      · rw [d4]; intro p hp'
        rcases List.mem_cons.mp hp' with rfl | hp'
        · have := n1 hp
          rw [hD] at d6
          unfold constrain at d6
          grind
        · exact n4 p hp'
    · refine ⟨?_, ?_, ?_, ?_⟩
      · intro _; rw [hck, d2]
        rcases d5 with d5 | d5
        · rw [hcap] at d5; cases d5
        · rw [hD] at d5; unfold constrain at d5; grind
      · intro h; rw [d1] at h; cases h
      · rw [d3]; exact n3
      · rw [d4]; exact n4
  · rcases son hp with ⟨d1, d2, _, d3, d4, d5⟩ | ⟨d1, d2, d3, d4, d5, d6⟩
    · refine ⟨?_, ?_, ?_, ?_⟩
      · intro _; rw [hck, d2]; grind
      · intro h; rw [d1] at h; cases h
      · rw [d3]; intro p hp'
        rcases List.mem_cons.mp hp' with rfl | hp'
        · have := n2 hp
          rcases d5 with d5 | d5
          · rw [hcap] at d5; cases d5
          · rw [hD] at d5; unfold constrain at d5; grind
        · exact n3 p hp'
      · rw [d4]; exact n4
    · refine ⟨?_, ?_, ?_, ?_⟩
      · intro h; rw [d1] at h; cases h
      · intro _; rw [hck, d2]
        rw [hD] at d6; unfold constrain at d6; grind
      · rw [d3]; exact n3
      · rw [d4]; exact n4

theorem nondeg_run (c : Cfg) (v P m : Rat) (Δ : Int) (h0 : 0 < dutyOn v P m) (h1 : dutyOn v P m < P)
    (hm : m ≤ dutyOn v P m) (ds : List Int) :
    ∀ f : F, Base v P m f → NonDeg (dutyOn v P m) P Δ f → Gaps Δ ds → (runF c f ds).capHit = false →
      NonDeg (dutyOn v P m) P Δ (runF c f ds) := by
  induction ds with
  | nil => intro f _ h _ _; exact h
  | cons d ds ih =>
    intro f hb hn hg hc
    rw [runF_cons] at hc ⊢
    have hd := hg d (by simp)
    have hP0 : 0 ≤ P := by grind
    have hc1 := capHit_mono c ds _ hc
    obtain ⟨hb', _, _, hcap, _⟩ := stepF_spec c v P m f d hb hd.1 hP0
    rw [hcap, Bool.or_eq_false_iff] at hc1
    exact ih _ hb' (nondeg_step c v P m Δ f d hb hn hd.1 hd.2 h0 h1 hm hc1.2)
      (fun x hx => hg x (by simp [hx])) hc

/-! ### sums of phase lengths -/

theorem sum_bounds (lo hi : Rat) (l : List Int) (h : ∀ p ∈ l, lo ≤ secs p ∧ secs p < hi) :
    (l.length : Rat) * lo ≤ secs l.sum ∧ secs l.sum ≤ (l.length : Rat) * hi ∧
    (l ≠ [] → secs l.sum < (l.length : Rat) * hi) := by
  induction l with
  | nil => simp [secs_zero]
  | cons p l ih =>
    obtain ⟨i1, i2, _⟩ := ih (fun x hx => h x (by simp [hx]))
    obtain ⟨p1, p2⟩ := h p (by simp)
    have e : secs (p + l.sum) = secs p + secs l.sum := secs_add _ _
    simp only [List.sum_cons, List.length_cons, ne_eq, reduceCtorEq, not_false_eq_true, forall_const]
    rw [e]
    refine ⟨?_, ?_, ?_⟩ <;> grind

/-- the most recent do_run is a cycle boundary: it switched the pump off (or it is the one at `t0`) -/
def AtBoundary (f : F) : Prop := f.s.pumpOn = false ∧ f.phaseStart = f.clock

instance (f : F) : Decidable (AtBoundary f) := by unfold AtBoundary; infer_instance

/-- (2): over a window of do_runs that starts and ends at a cycle boundary and contains n completed (pause, pulse)
cycles, energised time within [n·on, n·(on+Δ)) and elapsed time within [n·P, n·(P+2Δ)). -/
theorem cycles_bounds {v P m : Rat} {on : Rat} {Δ : Int} {f : F} (hb : Base v P m f) (hn : NonDeg on P Δ f)
    (hat : AtBoundary f) :
    ((f.pulses.length : Rat) * on ≤ secs f.onTime ∧ secs f.onTime ≤ (f.pulses.length : Rat) * (on + secs Δ) ∧
      (f.pulses ≠ [] → secs f.onTime < (f.pulses.length : Rat) * (on + secs Δ))) ∧
    ((f.pulses.length : Rat) * P ≤ secs (f.clock - f.t0) ∧
      secs (f.clock - f.t0) ≤ (f.pulses.length : Rat) * (P + 2 * secs Δ) ∧
      (f.pulses ≠ [] → secs (f.clock - f.t0) < (f.pulses.length : Rat) * (P + 2 * secs Δ))) := by
  obtain ⟨hp, hps⟩ := hat
  obtain ⟨a1, a2, a3⟩ := sum_bounds on (on + secs Δ) f.pulses hn.hpulses
  obtain ⟨b1, b2, b3⟩ := sum_bounds (P - on) (P - on + secs Δ) f.pauses hn.hpauses
  have e1 : f.onTime = f.pulses.sum := by have := hb.hon; simp [hp] at this; exact this
  have e2 : f.clock - f.t0 = f.pulses.sum + f.pauses.sum := by have := hb.hel; omega
  have e3 : f.pauses.length = f.pulses.length := by have := hb.hlen; simp [hp] at this; exact this
  have e4 : f.pauses ≠ [] ↔ f.pulses ≠ [] := by
    rw [← List.length_pos_iff, ← List.length_pos_iff, e3]
  rw [e1, e2, secs_add]
  rw [e3] at b1 b2 b3
  refine ⟨⟨a1, a2, a3⟩, ?_, ?_, ?_⟩
  · grind
  · grind
  · intro h; have := a3 h; have := b3 (e4.mpr h); grind

/-- pure arithmetic behind (3): n ≥ 1 cycles with on-total A in [n·on, n·(on+δ)) and off-total B in [n·off, n·(off+δ))
have on-fraction within δ/period of on/period -/
theorem fraction_arith (n A B on off δ : Rat) (hn : 1 ≤ n) (hon : 0 < on) (hoff : 0 < off) (hδ : 0 ≤ δ)
    (hA1 : n * on ≤ A) (hA2 : A < n * (on + δ)) (hB1 : n * off ≤ B) (hB2 : B < n * (off + δ)) :
    A / (A + B) - on / (on + off) < δ / (on + off) ∧ on / (on + off) - A / (A + B) < δ / (on + off) := by
  have hn0 : 0 ≤ n := by grind
  have hP : 0 < on + off := by grind
  have hnP : n * (on + off) ≤ A + B := by grind
  have h1P : 1 * (on + off) ≤ n * (on + off) := Rat.mul_le_mul_of_nonneg_right hn (by grind)
  have hT : 0 < A + B := by grind
  have h1 : A * off < (n * (on + δ)) * off := Rat.mul_lt_mul_of_pos_right hA2 hoff
  have h2 : on * (n * off) ≤ on * B := Rat.mul_le_mul_of_nonneg_left hB1 (by grind)
  have h3 : δ * (n * (on + off)) ≤ δ * (A + B) := Rat.mul_le_mul_of_nonneg_left hnP hδ
  have h4 : 0 ≤ δ * (n * on) := Rat.mul_nonneg hδ (Rat.mul_nonneg hn0 (by grind))
  have h5 : 0 ≤ δ * (n * off) := Rat.mul_nonneg hδ (Rat.mul_nonneg hn0 (by grind))
  have k1 : on * B < on * (n * (off + δ)) := Rat.mul_lt_mul_of_pos_left hB2 hon
  have k2 : (n * on) * off ≤ A * off := Rat.mul_le_mul_of_nonneg_right hA1 (by grind)
  have c1 : A * (on + off) < (on + δ) * (A + B) := by grind
  have c2 : (on - δ) * (A + B) < A * (on + off) := by grind
  have d1 : A / (A + B) < (on + δ) / (on + off) := by
    rw [Rat.lt_div_iff hP]
    have : A / (A + B) * (on + off) = (A * (on + off)) / (A + B) := by grind
    rw [this, Rat.div_lt_iff hT]; exact c1
  have d2 : (on - δ) / (on + off) < A / (A + B) := by
    rw [Rat.div_lt_iff hP]
    have : A / (A + B) * (on + off) = (A * (on + off)) / (A + B) := by grind
    rw [this, Rat.lt_div_iff hT]; exact c2
  have e1 : (on + δ) / (on + off) = on / (on + off) + δ / (on + off) := by grind
  have e2 : (on - δ) / (on + off) = on / (on + off) - δ / (on + off) := by grind
  constructor <;> grind

/-- (3): on-fraction over such a window (n ≥ 1) within one maximal tick gap per period of dutyOn'/period -/
theorem cycles_fraction {v P m : Rat} {on : Rat} {Δ : Int} {f : F} (hb : Base v P m f) (hn : NonDeg on P Δ f)
    (hat : AtBoundary f) (h0 : 0 < on) (h1 : on < P) (hΔ : 0 ≤ Δ) (hne : f.pulses ≠ []) :
    secs f.onTime / secs (f.clock - f.t0) - on / P < secs Δ / P ∧
    on / P - secs f.onTime / secs (f.clock - f.t0) < secs Δ / P := by
  obtain ⟨hp, hps⟩ := hat
  obtain ⟨a1, _, a3⟩ := sum_bounds on (on + secs Δ) f.pulses hn.hpulses
  obtain ⟨b1, _, b3⟩ := sum_bounds (P - on) (P - on + secs Δ) f.pauses hn.hpauses
  have e1 : f.onTime = f.pulses.sum := by have := hb.hon; simp [hp] at this; exact this
  have e2 : f.clock - f.t0 = f.pulses.sum + f.pauses.sum := by have := hb.hel; omega
  have e3 : f.pauses.length = f.pulses.length := by have := hb.hlen; simp [hp] at this; exact this
  have hne' : f.pauses ≠ [] := by
    rw [← List.length_pos_iff, e3, List.length_pos_iff]; exact hne
  have hlen : (1 : Rat) ≤ (f.pulses.length : Rat) := by
    have : 1 ≤ f.pulses.length := List.length_pos_iff.mpr hne
    have := Rat.natCast_le_natCast.mpr this
    simpa using this
  rw [e3] at b1 b3
  have := fraction_arith (f.pulses.length : Rat) (secs f.pulses.sum) (secs f.pauses.sum) on (P - on) (secs Δ) hlen h0
    (by grind) (secs_nonneg hΔ) a1 (a3 hne) b1 (b3 hne')
  have eP : on + (P - on) = P := by grind
  rw [eP] at this
  rw [e1, e2, secs_add]
  exact this

/-! ### the degenerate cases -/

/-- dutyOn' = 0: never on -/
structure ZeroI (f : F) : Prop where
  hp : f.s.pumpOn = false
  hpl : f.pulses = []
  hpa : f.pauses = []

theorem zero_run (c : Cfg) (v P m : Rat) (Δ : Int) (hP0 : 0 ≤ P) (h0 : dutyOn v P m = 0) (ds : List Int) :
    ∀ f : F, Base v P m f → ZeroI f → Gaps Δ ds → ZeroI (runF c f ds) := by
  induction ds with
  | nil => intro f _ h _; exact h
  | cons d ds ih =>
    intro f hb hz hg
    obtain ⟨hb', _, _, _, _, soff⟩ := stepF_spec c v P m f d hb (hg d (by simp)).1 hP0
    rw [runF_cons]
    refine ih _ hb' ?_ (fun x hx => hg x (by simp [hx]))
    rcases soff hz.hp with ⟨_, _, _, _, _, _, d7⟩ | ⟨d1, _, d3, d4, _⟩
    · rw [h0] at d7; exact absurd (by grind) d7
    · exact ⟨d1, d3.trans hz.hpl, d4.trans hz.hpa⟩

/-- dutyOn' = period: on from the second do_run on, for ever -/
structure FullI (Δ : Int) (f : F) : Prop where
  hpl : f.pulses = []
  hoff : f.s.pumpOn = false → f.clock = f.t0 ∧ f.pauses = []
  hsum : 0 ≤ f.pauses.sum ∧ f.pauses.sum ≤ Δ

theorem full_step (c : Cfg) (v P m : Rat) (Δ : Int) (f : F) (d : Int) (hb : Base v P m f) (hf : FullI Δ f)
    (hd0 : 0 ≤ d) (hdΔ : d ≤ Δ) (hP : 0 < P) (h1 : dutyOn v P m = P)
    (hcap : capAt (f.clock + d) f.s = false) : FullI Δ (stepF c f d) ∧ (stepF c f d).s.pumpOn = true := by
  have hP0 : 0 ≤ P := by grind
  obtain ⟨hb', hck, ht0, _, son, soff⟩ := stepF_spec c v P m f d hb hd0 hP0
  obtain ⟨g1, g2, g3⟩ := hf
  have hD := (constrain_bounds (secs (f.clock + d) - secs f.phaseStart) 0 P hP0).1
  cases hp : f.s.pumpOn
  · obtain ⟨k1, k2⟩ := g2 hp
    have ho := hb.hord
    rcases soff hp with ⟨d1, d2, d3, d4, _⟩ | ⟨_, _, _, _, d5⟩
    · refine ⟨⟨d3.trans g1, ?_, ?_⟩, d1⟩
      · intro h; rw [d1] at h; cases h
      · rw [d4, k2]; simp; omega
    · rcases d5 with d5 | d5
      · rw [hcap] at d5; cases d5
      · rw [h1] at d5; unfold dAt at d5; exact absurd ⟨by grind, by grind⟩ d5
  · rcases son hp with ⟨_, _, _, _, _, d5⟩ | ⟨d1, d2, d3, d4, _⟩
    · rcases d5 with d5 | d5
      · rw [hcap] at d5; cases d5
      · exact absurd h1 d5.2.2
    · refine ⟨⟨d3.trans g1, ?_, ?_⟩, d1⟩
      · intro h; rw [d1] at h; cases h
      · rw [d4]; exact g3

theorem full_run (c : Cfg) (v P m : Rat) (Δ : Int) (hP : 0 < P) (h1 : dutyOn v P m = P) (ds : List Int) :
    ∀ f : F, Base v P m f → FullI Δ f → Gaps Δ ds → (runF c f ds).capHit = false →
      FullI Δ (runF c f ds) ∧ (ds ≠ [] ∨ f.s.pumpOn = true → (runF c f ds).s.pumpOn = true) := by
  induction ds with
  | nil => intro f _ h _ _; exact ⟨h, fun h' => h'.elim (fun x => absurd rfl x) id⟩
  | cons d ds ih =>
    intro f hb hf hg hc
    rw [runF_cons] at hc ⊢
    have hd := hg d (by simp)
    have hP0 : 0 ≤ P := by grind
    have hc1 := capHit_mono c ds _ hc
    obtain ⟨hb', _, _, hcap, _⟩ := stepF_spec c v P m f d hb hd.1 hP0
    rw [hcap, Bool.or_eq_false_iff] at hc1
    obtain ⟨s1, s2⟩ := full_step c v P m Δ f d hb hf hd.1 hd.2 hP h1 hc1.2
    obtain ⟨r1, r2⟩ := ih _ hb' s1 (fun x hx => hg x (by simp [hx])) hc
    exact ⟨r1, fun _ => r2 (Or.inr s2)⟩

theorem full_bounds {v P m : Rat} {Δ : Int} {f : F} (hb : Base v P m f) (hf : FullI Δ f) :
    f.clock - f.t0 - Δ ≤ f.onTime ∧ f.onTime ≤ f.clock - f.t0 := by
  obtain ⟨g1, g2, g3⟩ := hf
  have e1 := hb.hon
  have e2 := hb.hel
  rw [g1] at e1 e2
  cases hp : f.s.pumpOn
  · obtain ⟨k1, k2⟩ := g2 hp
    simp [hp] at e1
    omega
  · simp [hp] at e1
    simp at e2
    omega

/-! ### a sufficient condition for "the security cap is not reached" -/

theorem tick_sec (c : Cfg) (t : Int) (l : Rat) (s : PwmState) (hl : s.last = some l) :
    (tick c t s).sec.delay = s.sec.delay ∧
    (((tick c t s).sec.last = some t ∧
        (tick c t s).sec.duration = (s.sec.update t (if s.state then 1 else 0)).duration) ∨
      ((tick c t s).sec.last = none ∧ (tick c t s).sec.duration = 0)) := by
  obtain ⟨_, b2, b3, _, bon, boff⟩ := block_spec t l s
  unfold tick dailyReset
  rw [hl]
  simp only []
  split
  · exact ⟨by simpa [Timer.reset] using b2, Or.inr ⟨rfl, rfl⟩⟩
  · refine ⟨b2, Or.inl ⟨b3, ?_⟩⟩
    cases hs : s.state
    · simp only [Bool.false_eq_true, if_false]
      rw [(boff hs).1]
      simp only [Timer.update]; cases s.sec.last <;> simp
    · simp only [if_true]; exact (bon hs).1

/-- the security timer's reference instant is the most recent do_run (or none) and its count is not negative -/
def SecOK (f : F) : Prop := (f.s.sec.last = none ∨ f.s.sec.last = some f.clock) ∧ 0 ≤ f.s.sec.duration

theorem nocap_run (c : Cfg) (v P m : Rat) (Δ : Int) (hP0 : 0 ≤ P) (ds : List Int) :
    ∀ f : F, Base v P m f → SecOK f → Gaps Δ ds → f.s.sec.duration + ds.sum < f.s.sec.delay →
      (runF c f ds).capHit = f.capHit := by
  induction ds with
  | nil => intro f _ _ _ _; rfl
  | cons d ds ih =>
    intro f hb ⟨hs1, hs2⟩ hg hbud
    have hd := hg d (by simp)
    have hg' : Gaps Δ ds := fun x hx => hg x (by simp [hx])
    have hsum : 0 ≤ ds.sum := by
      clear ih hbud hg
      induction ds with
      | nil => simp
      | cons x xs ih2 =>
        have := hg' x (by simp)
        have := ih2 (fun y hy => hg' y (by simp [hy]))
        simp only [List.sum_cons]; omega
    simp only [List.sum_cons] at hbud
    obtain ⟨hb', hck, _, hcap, _⟩ := stepF_spec c v P m f d hb hd.1 hP0
    obtain ⟨t1, t2⟩ := tick_sec c (f.clock + d) _ f.s hb.hlast
    have hupd : f.s.sec.duration ≤ (f.s.sec.update (f.clock + d) (if f.s.state then 1 else 0)).duration ∧
        (f.s.sec.update (f.clock + d) (if f.s.state then 1 else 0)).duration ≤ f.s.sec.duration + d := by
      simp only [Timer.update]
      rcases hs1 with h | h <;> rw [h] <;> cases f.s.state <;> simp <;> omega
    have hno : capAt (f.clock + d) f.s = false := by
      unfold capAt; rw [hb.hlast]; simp only [Timer.elapsed, decide_eq_false_iff_not]
      have : (f.s.sec.update (f.clock + d) (if f.s.state then 1 else 0)).delay = f.s.sec.delay := rfl
      rw [this]; omega
    rw [runF_cons, ih _ hb' ?_ hg' ?_, hcap, hno, Bool.or_false]
    · show ((tick c (f.clock + d) f.s).sec.last = none ∨ (tick c (f.clock + d) f.s).sec.last = some (stepF c f d).clock) ∧
        0 ≤ (tick c (f.clock + d) f.s).sec.duration
      rw [hck]
      rcases t2 with ⟨u1, u2⟩ | ⟨u1, u2⟩
      · exact ⟨Or.inr u1, by rw [u2]; omega⟩
      · exact ⟨Or.inl u1, by rw [u2]; omega⟩
    · show (tick c (f.clock + d) f.s).sec.duration + ds.sum < (tick c (f.clock + d) f.s).sec.delay
      rw [t1]
      rcases t2 with ⟨_, u2⟩ | ⟨_, u2⟩ <;> rw [u2] <;> omega

/-! ### wall-clock windows [t0, t0 + n·period] -/

/-- energised µs within [t0, x] for an instant `x` between the most recent do_run and the next one -/
def onUpTo (f : F) (x : Int) : Int := f.onTime + (if f.s.pumpOn then x - f.clock else 0)

theorem nat_succ_le_of_mul {a b : Nat} {P e : Rat} (hP : 0 < P) (he : 0 < e) (h : (a : Rat) * P + e ≤ (b : Rat) * P) :
    (a : Rat) + 1 ≤ (b : Rat) := by
  rcases Nat.lt_or_ge a b with hab | hab
  · have h1 : a + 1 ≤ b := hab
    have := Rat.natCast_le_natCast.mpr h1
    grind
  · have := Rat.natCast_le_natCast.mpr hab
    have := Rat.mul_le_mul_of_nonneg_right this (Rat.le_of_lt hP)
    grind

theorem nat_le_of_mul {a b : Nat} {P e : Rat} (hP : 0 < P) (he : 0 ≤ e) (h : (a : Rat) * P + e ≤ (b : Rat) * P) :
    (a : Rat) ≤ (b : Rat) := Rat.le_of_mul_le_mul_right (by grind) hP

/-- Over the wall-clock window [t0, x] with x - t0 ≤ n·period (x not later than the next do_run, which comes within Δ of
the most recent one): the pump is energised for at most n·(on+Δ) and de-energised for at most n·(off+Δ). -/
theorem wall_bounds {v P m : Rat} {on : Rat} {Δ : Int} {f : F} (hb : Base v P m f) (hn : NonDeg on P Δ f)
    (h0 : 0 < on) (h1 : on < P) (x : Int) (hx0 : f.clock ≤ x) (hx1 : x ≤ f.clock + Δ) (n : Nat)
    (hw : secs (x - f.t0) ≤ (n : Rat) * P) :
    secs (onUpTo f x) ≤ (n : Rat) * (on + secs Δ) ∧
    secs (x - f.t0 - onUpTo f x) ≤ (n : Rat) * (P - on + secs Δ) := by
  obtain ⟨a1, a2, _⟩ := sum_bounds on (on + secs Δ) f.pulses hn.hpulses
  obtain ⟨b1, b2, _⟩ := sum_bounds (P - on) (P - on + secs Δ) f.pauses hn.hpauses
  have hP : 0 < P := by grind
  have hΔ : 0 ≤ Δ := by omega
  have hδ := secs_nonneg hΔ
  have e2 : x - f.t0 = f.pulses.sum + f.pauses.sum + (x - f.phaseStart) := by have := hb.hel; omega
  have hr0 : 0 ≤ secs (x - f.phaseStart) := secs_nonneg (by have := hb.hord; omega)
  have hr1 : secs (x - f.phaseStart) ≤ secs f.clock - secs f.phaseStart + secs Δ := by
    have : x - f.phaseStart ≤ (f.clock - f.phaseStart) + Δ := by omega
    have h' := secs_mono this
    have e : secs (f.clock - f.phaseStart + Δ) = secs f.clock - secs f.phaseStart + secs Δ := by
      rw [secs_add, secs_sub]
    rw [e] at h'; exact h'
  have hw' : secs f.pulses.sum + secs f.pauses.sum + secs (x - f.phaseStart) ≤ (n : Rat) * P := by
    rw [e2, secs_add, secs_add] at hw; exact hw
  have hn0 : (0 : Rat) ≤ (n : Rat) := Rat.natCast_nonneg
  cases hp : f.s.pumpOn
  · have e1 : onUpTo f x = f.pulses.sum := by
      have := hb.hon; simp [hp] at this; simp [onUpTo, hp, this]
    have e3 : f.pauses.length = f.pulses.length := by have := hb.hlen; simp [hp] at this; exact this
    have e4 : x - f.t0 - onUpTo f x = f.pauses.sum + (x - f.phaseStart) := by rw [e1]; omega
    rw [e3] at b1 b2
    have hk : (f.pulses.length : Rat) ≤ (n : Rat) :=
      nat_le_of_mul (e := secs (x - f.phaseStart)) hP hr0 (by grind)
    have m1 := Rat.mul_le_mul_of_nonneg_right hk (show 0 ≤ on + secs Δ by grind)
    have m2 := Rat.mul_le_mul_of_nonneg_right hk (show 0 ≤ P - on + secs Δ by grind)
    have hage := hn.hoff hp
    rw [e4, e1, secs_add]
    refine ⟨by grind, ?_⟩
    rcases Nat.lt_or_ge f.pulses.length n with hlt | hge
    · have h1' : f.pulses.length + 1 ≤ n := hlt
      have c1 := Rat.natCast_le_natCast.mpr h1'
      have m3 := Rat.mul_le_mul_of_nonneg_right c1 (show 0 ≤ P - on + secs Δ by grind)
      grind
    · have c1 := Rat.natCast_le_natCast.mpr hge
      have m3 := Rat.mul_le_mul_of_nonneg_right c1 (Rat.le_of_lt hP)
      grind
  · have e1 : onUpTo f x = f.pulses.sum + (x - f.phaseStart) := by
      have := hb.hon; simp [hp] at this; simp [onUpTo, hp, this]; omega
    have e3 : f.pauses.length = f.pulses.length + 1 := by have := hb.hlen; simp [hp] at this; exact this
    have e4 : x - f.t0 - onUpTo f x = f.pauses.sum := by rw [e1]; omega
    have e5 : (f.pauses.length : Rat) = (f.pulses.length : Rat) + 1 := by rw [e3]; grind
    rw [e5] at b1 b2
    have hk : (f.pulses.length : Rat) + 1 ≤ (n : Rat) :=
      nat_succ_le_of_mul (e := P - on) hP (by grind) (by grind)
    have m1 := Rat.mul_le_mul_of_nonneg_right hk (show 0 ≤ on + secs Δ by grind)
    have m2 := Rat.mul_le_mul_of_nonneg_right hk (show 0 ≤ P - on + secs Δ by grind)
    have hage := hn.hon hp
    rw [e4, e1, secs_add]
    constructor <;> grind

/-! ### all duties: the three cases of a run from a cycle boundary -/

theorem dutyOn_cases (v P m : Rat) (hv0 : 0 ≤ v) (hv1 : v ≤ 1) (hm0 : 0 ≤ m) (hm : m ≤ P) :
    dutyOn v P m = 0 ∨ dutyOn v P m = P ∨ (0 < dutyOn v P m ∧ dutyOn v P m < P ∧ m ≤ dutyOn v P m) := by
  have := dutyOn_range v P m hv0 hv1 hm0 hm
  grind

theorem full_nonneg {v P m : Rat} {Δ : Int} {f : F} (hb : Base v P m f) (hf : FullI Δ f) : 0 ≤ f.onTime := by
  have e1 := hb.hon
  have := hb.hord
  rw [hf.hpl] at e1
  cases hp : f.s.pumpOn <;> simp [hp] at e1 <;> omega

theorem run_cases (c : Cfg) (v P m : Rat) (Δ : Int) (s : PwmState) (t0 : Int) (ds : List Int)
    (hs : Boundary v P m s t0) (hv0 : 0 ≤ v) (hv1 : v ≤ 1) (hP : 0 < P) (hm0 : 0 ≤ m) (hm : m ≤ P) (hΔ : 0 ≤ Δ)
    (hg : Gaps Δ ds) (hcap : (runF c (F.begin s t0) ds).capHit = false) :
    Base v P m (runF c (F.begin s t0) ds) ∧ (runF c (F.begin s t0) ds).t0 = t0 ∧
    ((dutyOn v P m = 0 ∧ ZeroI (runF c (F.begin s t0) ds)) ∨
     (dutyOn v P m = P ∧ FullI Δ (runF c (F.begin s t0) ds) ∧
        (ds ≠ [] → (runF c (F.begin s t0) ds).s.pumpOn = true)) ∨
     (0 < dutyOn v P m ∧ dutyOn v P m < P ∧ NonDeg (dutyOn v P m) P Δ (runF c (F.begin s t0) ds))) := by
  have hP0 : 0 ≤ P := Rat.le_of_lt hP
  have hb0 := base_begin hs hP0
  obtain ⟨hb, ht⟩ := base_run c v P m Δ hP0 ds _ hb0 hg
  refine ⟨hb, ht, ?_⟩
  rcases dutyOn_cases v P m hv0 hv1 hm0 hm with h | h | ⟨h0, h1, h2⟩
  · exact Or.inl ⟨h, zero_run c v P m Δ hP0 h ds _ hb0 ⟨hs.hpump, rfl, rfl⟩ hg⟩
  · obtain ⟨r1, r2⟩ := full_run c v P m Δ hP h ds _ hb0
      ⟨rfl, fun _ => ⟨rfl, rfl⟩, by simp [F.begin]; exact hΔ⟩ hg hcap
    exact Or.inr (Or.inl ⟨h, r1, fun hne => r2 (Or.inl hne)⟩)
  · exact Or.inr (Or.inr ⟨h0, h1, nondeg_run c v P m Δ h0 h1 h2 ds _ hb0
      (nondeg_begin _ P Δ s t0 h1 hs.hpump) hg hcap⟩)

end Poupool.Pwm
