/-
Helper lemmas for C20, clause "over any whole number of PWM periods at constant duty the pump's on-fraction equals the
duty to within two timer ticks per period": phase-length bounds of the PWM model at constant value / period /
min_runtime, no cancel, security cap not reached.

Ghost semantics.  A run is a state at a CYCLE BOUNDARY (`Boundary`: pump off, phase accumulator 0, `__last` = the instant
`t0` of the do_run that has just been executed: the first do_run after construction / after do_cancel, or any do_run
that has just switched the pump off) followed by a list `ds` of tick gaps in microseconds: the k-th further do_run
happens at `t0 + ds[0] + … + ds[k-1]`.  The ghost records the instant of the do_run that started the phase in progress,
the energised time of the pump device since `t0`, the lengths of all completed on-pulses and off-pauses, and whether some
do_run found the security timer elapsed.  The pump is energised between two consecutive do_runs iff the earlier one left
`pumpOn = true` (the device is only written inside do_run).
-/
import Poupool.Proofs.PwmDuty

namespace Poupool.Pwm

/-! ### seconds of microseconds -/

theorem secs_add (a b : Int) : secs (a + b) = secs a + secs b := by unfold secs; grind
theorem secs_sub (a b : Int) : secs (a - b) = secs a - secs b := by unfold secs; grind
theorem secs_zero : secs 0 = 0 := by decide +kernel
theorem secs_nonneg {a : Int} (h : 0 ≤ a) : 0 ≤ secs a := by
  have := secs_mono h; rw [secs_zero] at this; exact this
theorem secs_lt {a b : Int} (h : a < b) : secs a < secs b := by
  have := Rat.intCast_lt_intCast.mpr h
  unfold secs; grind
theorem secs_natMul (n : Nat) (a : Int) : secs ((n : Int) * a) = (n : Rat) * secs a := by
  induction n with
  | zero => simp [secs_zero]
  | succ k ih =>
    have : ((k + 1 : Nat) : Int) * a = (k : Int) * a + a := by grind
    rw [this, secs_add, ih]; grind

/-! ### ghost run -/

structure F where
  s : PwmState
  /-- instant (µs) of the do_run at the cycle boundary the run starts from -/
  t0 : Int
  /-- instant of the most recent do_run -/
  clock : Int
  /-- instant of the do_run that started the phase in progress (`t0`, or the last do_run that switched the pump) -/
  phaseStart : Int
  /-- µs the pump device has been energised since `t0` -/
  onTime : Int
  /-- lengths (µs) of the completed on-pulses, most recent first -/
  pulses : List Int
  /-- lengths (µs) of the completed off-pauses, most recent first (the first one is measured from `t0`) -/
  pauses : List Int
  /-- some do_run since `t0` found the security timer elapsed -/
  capHit : Bool

/-- the security timer as the do_run at instant `t` consults it (`update(now)` when on, `update(now, 0)` when off) -/
def capAt (t : Int) (s : PwmState) : Bool :=
  match s.last with
  | some _ => (s.sec.update t (if s.state then 1 else 0)).elapsed
  | none => false

def F.begin (s : PwmState) (t0 : Int) : F :=
  { s := s, t0 := t0, clock := t0, phaseStart := t0, onTime := 0, pulses := [], pauses := [], capHit := false }

/-- one further do_run, `d` µs after the previous one -/
def stepF (c : Cfg) (f : F) (d : Int) : F :=
  let t := f.clock + d
  let s' := tick c t f.s
  { s := s', t0 := f.t0, clock := t
    phaseStart := if f.s.pumpOn = s'.pumpOn then f.phaseStart else t
    onTime := f.onTime + (if f.s.pumpOn then d else 0)
    pulses := if f.s.pumpOn = true ∧ s'.pumpOn = false then (t - f.phaseStart) :: f.pulses else f.pulses
    pauses := if f.s.pumpOn = false ∧ s'.pumpOn = true then (t - f.phaseStart) :: f.pauses else f.pauses
    capHit := f.capHit || capAt t f.s }

def runF (c : Cfg) (f : F) (ds : List Int) : F := ds.foldl (stepF c) f

/-- a state at a cycle boundary: pump off, accumulator 0, the do_run at `t0` has just been executed -/
structure Boundary (v P m : Rat) (s : PwmState) (t0 : Int) : Prop where
  hv : s.value = v
  hP : s.period = P
  hm : s.minRuntime = m
  hlast : s.last = some (secs t0)
  hdur : s.duration = 0
  hstate : s.state = false
  hpump : s.pumpOn = false

/-- fresh start: after construction (+ writes of value / period) or after do_cancel -/
structure Fresh (v P m : Rat) (s : PwmState) : Prop where
  hv : s.value = v
  hP : s.period = P
  hm : s.minRuntime = m
  hlast : s.last = none
  hdur : s.duration = 0
  hstate : s.state = false
  hpump : s.pumpOn = false

theorem fresh_init (c : Cfg) (v P m : Rat) (S start : Int) :
    Fresh v P m (setValue v (PwmState.init c P m S start)) := ⟨rfl, rfl, rfl, rfl, rfl, rfl, rfl⟩

theorem fresh_cancel (t : Int) (s : PwmState) : Fresh s.value s.period s.minRuntime (cancel t s) :=
  ⟨rfl, rfl, rfl, rfl, rfl, rfl, rfl⟩

/-- the first do_run after a fresh start only records the instant: the state is at a cycle boundary -/
theorem boundary_of_fresh (c : Cfg) {v P m : Rat} {s : PwmState} (t0 : Int) (h : Fresh v P m s) :
    Boundary v P m (tick c t0 s) t0 := by
  obtain ⟨f1, f2, f3, f4, _, f6⟩ := tick_fields c t0 s
  obtain ⟨a1, a2, a3⟩ := f6 h.hlast
  exact ⟨by rw [f4, h.hv], by rw [f3, h.hP], by rw [f2, h.hm], f1, by rw [a3, h.hdur], by rw [a2, h.hstate],
    by rw [a1, h.hpump]⟩

/-! ### bookkeeping invariant (holds whatever the security timer does) -/

structure Base (v P m : Rat) (f : F) : Prop where
  hv : f.s.value = v
  hP : f.s.period = P
  hm : f.s.minRuntime = m
  hlast : f.s.last = some (secs f.clock)
  hst : f.s.pumpOn = f.s.state
  hord : f.t0 ≤ f.phaseStart ∧ f.phaseStart ≤ f.clock
  hdur : f.s.duration = constrain (secs f.clock - secs f.phaseStart) 0 P
  hon : f.onTime = f.pulses.sum + (if f.s.pumpOn then f.clock - f.phaseStart else 0)
  hel : f.clock - f.t0 = f.pulses.sum + f.pauses.sum + (f.clock - f.phaseStart)
  hlen : f.pauses.length = f.pulses.length + (if f.s.pumpOn then 1 else 0)

theorem base_begin {v P m : Rat} {s : PwmState} {t0 : Int} (h : Boundary v P m s t0) (hP0 : 0 ≤ P) :
    Base v P m (F.begin s t0) := by
  obtain ⟨h1, h2, h3, h4, h5, h6, h7⟩ := h
  refine ⟨h1, h2, h3, h4, ?_, ?_, ?_, ?_, ?_, ?_⟩ <;> simp [F.begin, h5, h6, h7]
  unfold constrain; grind

/-- the accumulator after the `+= diff` / `constrain` of the next do_run -/
def dAt (P : Rat) (f : F) (d : Int) : Rat := constrain (secs (f.clock + d) - secs f.phaseStart) 0 P

/-- What one further do_run does to the ghost: the four cases of `block`, in terms of the ghost fields. -/
theorem stepF_spec (c : Cfg) (v P m : Rat) (f : F) (d : Int) (hb : Base v P m f) (hd : 0 ≤ d) (hP0 : 0 ≤ P) :
    Base v P m (stepF c f d) ∧ (stepF c f d).clock = f.clock + d ∧ (stepF c f d).t0 = f.t0 ∧
    (stepF c f d).capHit = (f.capHit || capAt (f.clock + d) f.s) ∧
    (f.s.pumpOn = true →
      ((stepF c f d).s.pumpOn = false ∧ (stepF c f d).phaseStart = f.clock + d ∧
        (stepF c f d).s.duration = 0 ∧
        (stepF c f d).pulses = (f.clock + d - f.phaseStart) :: f.pulses ∧ (stepF c f d).pauses = f.pauses ∧
        (capAt (f.clock + d) f.s = true ∨
          (dAt P f d ≥ dutyOn v P m ∧ dAt P f d ≥ m ∧ dutyOn v P m ≠ P))) ∨
      ((stepF c f d).s.pumpOn = true ∧ (stepF c f d).phaseStart = f.phaseStart ∧
        (stepF c f d).pulses = f.pulses ∧ (stepF c f d).pauses = f.pauses ∧
        capAt (f.clock + d) f.s = false ∧
        ¬ (dAt P f d ≥ dutyOn v P m ∧ dAt P f d ≥ m ∧ dutyOn v P m ≠ P))) ∧
    (f.s.pumpOn = false →
      ((stepF c f d).s.pumpOn = true ∧ (stepF c f d).phaseStart = f.clock + d ∧
        (stepF c f d).pulses = f.pulses ∧ (stepF c f d).pauses = (f.clock + d - f.phaseStart) :: f.pauses ∧
        capAt (f.clock + d) f.s = false ∧
        dAt P f d ≥ P - dutyOn v P m ∧ P - dutyOn v P m ≠ P) ∨
      ((stepF c f d).s.pumpOn = false ∧ (stepF c f d).phaseStart = f.phaseStart ∧
        (stepF c f d).pulses = f.pulses ∧ (stepF c f d).pauses = f.pauses ∧
        (capAt (f.clock + d) f.s = true ∨ ¬ (dAt P f d ≥ P - dutyOn v P m ∧ P - dutyOn v P m ≠ P)))) := by
  obtain ⟨hv, hP, hm, hlast, hst, hord, hdur, hon, hel, hlen⟩ := hb
  obtain ⟨f1, f2, f3, f4, f5, _⟩ := tick_fields c (f.clock + d) f.s
  obtain ⟨a1, a2, a3⟩ := f5 _ hlast
  obtain ⟨_, _, _, bon, boff⟩ := block_phase (f.clock + d) (secs f.clock) f.s
  have hon' : onOf f.s = dutyOn v P m := by unfold onOf; rw [hv, hP, hm]
  have hD : durAt (f.clock + d) (secs f.clock) f.s = dAt P f d := by
    unfold durAt dAt
    rw [hdur, hP, secs_add]
    have h1 := secs_mono hord.2
    have h2 := secs_nonneg hd
    unfold constrain; grind
  have hcap : capAt (f.clock + d) f.s = (f.s.sec.update (f.clock + d) (if f.s.state then 1 else 0)).elapsed := by
    unfold capAt; rw [hlast]
  rw [hon', hD, hP, hm] at bon
  rw [hon', hD, hP] at boff
  refine ⟨?_, rfl, rfl, rfl, ?_, ?_⟩
  · -- Base
    cases hs : f.s.state
    · have hp : f.s.pumpOn = false := by rw [hst, hs]
      rcases boff hs with ⟨d1, d2, d3, _⟩ | ⟨d1, d2, d3, _⟩
      · have e1 : (tick c (f.clock + d) f.s).pumpOn = true := by rw [a1, d1]
        refine ⟨by rw [f4, hv], by rw [f3, hP], by rw [f2, hm], f1, ?_, ?_, ?_, ?_, ?_, ?_⟩
        · simp only [stepF]; rw [a1, a2, d1, d2]
        · simp only [stepF, hp, e1]; simp; omega
        · simp only [stepF, hp, e1]; simp; rw [a3, d3]; unfold constrain; grind
        · simp only [stepF, hp, e1]; simp; simp [hp] at hon; omega
        · simp only [stepF, hp, e1]; simp; omega
        · simp only [stepF, hp, e1]; simp; simp [hp] at hlen; omega
      · have e1 : (tick c (f.clock + d) f.s).pumpOn = false := by rw [a1, d1, hp]
        refine ⟨by rw [f4, hv], by rw [f3, hP], by rw [f2, hm], f1, ?_, ?_, ?_, ?_, ?_, ?_⟩
        · simp only [stepF]; rw [a1, a2, d1, d2, hp]
        · simp only [stepF, hp, e1]; simp; omega
        · simp only [stepF, hp, e1]; simp; rw [a3, d3]; rfl
        · simp only [stepF, hp, e1]; simp; simp [hp] at hon; omega
        · simp only [stepF, hp, e1]; simp; omega
        · simp only [stepF, hp, e1]; simp; simp [hp] at hlen; omega
    · have hp : f.s.pumpOn = true := by rw [hst, hs]
      rcases bon hs with ⟨d1, d2, d3, _⟩ | ⟨d1, d2, d3, _⟩
      · have e1 : (tick c (f.clock + d) f.s).pumpOn = false := by rw [a1, d1]
        refine ⟨by rw [f4, hv], by rw [f3, hP], by rw [f2, hm], f1, ?_, ?_, ?_, ?_, ?_, ?_⟩
        · simp only [stepF]; rw [a1, a2, d1, d2]
        · simp only [stepF, hp, e1]; simp; omega
        · simp only [stepF, hp, e1]; simp; rw [a3, d3]; unfold constrain; grind
        · simp only [stepF, hp, e1]; simp; simp [hp] at hon; omega
        · simp only [stepF, hp, e1]; simp; omega
        · simp only [stepF, hp, e1]; simp; simp [hp] at hlen; omega
      · have e1 : (tick c (f.clock + d) f.s).pumpOn = true := by rw [a1, d1, hp]
        refine ⟨by rw [f4, hv], by rw [f3, hP], by rw [f2, hm], f1, ?_, ?_, ?_, ?_, ?_, ?_⟩
        · simp only [stepF]; rw [a1, a2, d1, d2, hp]
        · simp only [stepF, hp, e1]; simp; omega
        · simp only [stepF, hp, e1]; simp; rw [a3, d3]; rfl
        · simp only [stepF, hp, e1]; simp; simp [hp] at hon; omega
        · simp only [stepF, hp, e1]; simp; omega
        · simp only [stepF, hp, e1]; simp; simp [hp] at hlen; omega
  · intro hp
    have hs : f.s.state = true := by rw [← hst, hp]
    rw [hcap, hs]
    rcases bon hs with ⟨d1, d2, d3, d4⟩ | ⟨d1, d2, d3, d4, d5⟩
    · left
      have e1 : (tick c (f.clock + d) f.s).pumpOn = false := by rw [a1, d1]
      refine ⟨e1, ?_, ?_, ?_, ?_, ?_⟩
      · simp only [stepF, hp, e1]; simp
      · simp only [stepF]; rw [a3, d3]
      · simp only [stepF, hp, e1]; simp
      · simp only [stepF, hp, e1]; simp
      · simpa using d4
    · right
      have e1 : (tick c (f.clock + d) f.s).pumpOn = true := by rw [a1, d1, hp]
      refine ⟨e1, ?_, ?_, ?_, ?_, d4⟩
      · simp only [stepF, hp, e1]; simp
      · simp only [stepF, hp, e1]; simp
      · simp only [stepF, hp, e1]; simp
      · simpa using d5
  · intro hp
    have hs : f.s.state = false := by rw [← hst, hp]
    rw [hcap, hs]
    rcases boff hs with ⟨d1, d2, d3, d4, d5, d6⟩ | ⟨d1, d2, d3, d4⟩
    · left
      have e1 : (tick c (f.clock + d) f.s).pumpOn = true := by rw [a1, d1]
      refine ⟨e1, ?_, ?_, ?_, ?_, d4, d5⟩
      · simp only [stepF, hp, e1]; simp
      · simp only [stepF, hp, e1]; simp
      · simp only [stepF, hp, e1]; simp
      · simpa using d6
    · right
      have e1 : (tick c (f.clock + d) f.s).pumpOn = false := by rw [a1, d1, hp]
      refine ⟨e1, ?_, ?_, ?_, ?_⟩
      · simp only [stepF, hp, e1]; simp
      · simp only [stepF, hp, e1]; simp
      · simp only [stepF, hp, e1]; simp
      · rcases d4 with d4 | d4
        · right; exact d4
        · left; simpa using d4

end Poupool.Pwm
