import Poupool.Model.Compose
import Poupool.Model.Glue
/-!
  The settled-state theorem for the composition of a generated master and a generated slave
  (`Model/Compose.lean`), from two hypothesis structures:

  * `MasterOK` – what the master's generated handlers do to the ghost variable, relative to the effects they
    perform (derived from the decidable checker `ghostDiscipline`, see `Proofs/ComposeDiscipline.lean`);
  * `SlaveOK`  – H1/H2 of `Model/Glue.lean` on the slave (decided on the slave's certificate).
-/
namespace Poupool.Compose
open Poupool

/-- the master's knowledge in state `s`: "X is halted" -/
def CSpec.G (S : CSpec) (s : St) : Bool := S.isG (getNth s.vars S.v)

/-- What the master's handlers guarantee (for EVERY state with the ghost variable in range, reachable or not):
    if the handler ends knowing "X halted" then, reading its effects in order from the knowledge it started with,
    the last thing it did towards X was a halt-class tell or an `is_halt` answered TRUE; and it does not end in a
    phase in which X may start on its own. -/
structure MasterOK (S : CSpec) : Prop where
  vlt : S.v < S.DM.initVars.length
  init : S.isG (getNth S.DM.initVars S.v) = true →
    S.isHalt (initSt S.DX) = true ∧ S.allowed.contains S.DM.initLeaf = false
  step : ∀ (s : St) (msg : Msg) (s' : St) (effs : List Eff), S.v < s.vars.length → (s', effs) ∈ stepE S.DM s msg →
    s'.vars.length = s.vars.length ∧
    (S.G s' = true → ghostAfter S (S.G s) effs = true) ∧
    ((S.G s = true → S.allowed.contains s.leaf = false) → S.G s' = true → S.allowed.contains s'.leaf = false)

/-- H1 processing a halt-class message always ends halted; H2 while halted only a start message un-halts. -/
structure SlaveOK (S : CSpec) : Prop where
  h1 : ∀ s s' m, Reach S.DX s → S.isHaltMsg m = true → s' ∈ step S.DX s m → S.isHalt s' = true
  h2 : ∀ s s' m, Reach S.DX s → S.isHalt s = true → m ∈ allMsgs S.DX → S.isStart m = false →
        s' ∈ step S.DX s m → S.isHalt s' = true

/-- the pair model of `Model/Glue.lean` that talks about the same slave -/
def CSpec.toGlue (S : CSpec) : Glue.Spec :=
  { D := S.DX, isHaltMsg := S.isHaltMsg, isHalt := S.isHalt, isStart := S.isStart }

theorem slaveOK_of_glue {S : CSpec} (h : Glue.SlaveOK S.toGlue) : SlaveOK S := ⟨h.h1, h.h2⟩

/-- the master component of a reachable composed state is a reachable state of the master's own model -/
theorem creach_m (S : CSpec) {g : CSt} (h : CReach S g) : Reach S.DM g.m := by
  induction h with
  | init => exact Reach.init
  | @step g0 g1 _ hs ih =>
      cases hs with
      | mBegin msg m' effs hidle hmsg h => exact Reach.step msg ih hmsg (stepE_sound h)
      | mTell => exact ih
      | mEmit => exact ih
      | mAsk => exact ih
      | other => exact ih
      | deliver => exact ih

/-- the slave component of a reachable composed state is a reachable state of the slave's own model -/
theorem creach_x (S : CSpec) {g : CSt} (h : CReach S g) : Reach S.DX g.x := by
  induction h with
  | init => exact Reach.init
  | @step g0 g1 _ hs ih =>
      cases hs with
      | mBegin => exact ih
      | mTell => exact ih
      | mEmit => exact ih
      | mAsk => exact ih
      | other => exact ih
      | deliver e rest x' h hm hs =>
          by_cases hc : e.1 = false ∧ S.isStart e.2 = true
          · rw [if_pos hc] at hs
            by_cases ha : S.allowed.contains g0.m.leaf = true
            · rw [if_pos ha] at hs
              exact Reach.step e.2 ih hm hs.2
            · rw [if_neg ha] at hs
              simp only
              rw [hs.2]
              exact ih
          · rw [if_neg hc] at hs
            exact Reach.step e.2 ih hm hs

/-- what the slave's inbox will do to "X is halted" (`h`), as far as the MASTER's messages are concerned: a
    halt-class message establishes it, a start message destroys it, anything else keeps it -/
def upd (S : CSpec) (h : Bool) (e : Bool × Msg) : Bool :=
  if e.1 then (if S.isHaltMsg e.2 then true else if S.isStart e.2 then false else h) else h

def settle (S : CSpec) (h : Bool) (inbox : List (Bool × Msg)) : Bool := inbox.foldl (upd S) h

theorem settle_append (S : CSpec) (h : Bool) (l : List (Bool × Msg)) (e : Bool × Msg) :
    settle S h (l ++ [e]) = upd S (settle S h l) e := by
  simp [settle, List.foldl_append]

theorem settle_noMaster (S : CSpec) (h : Bool) {l : List (Bool × Msg)} (hn : noMaster l) : settle S h l = h := by
  induction l generalizing h with
  | nil => rfl
  | cons e rest ih =>
      have he : e.1 = false := hn e (by simp)
      have hr : noMaster rest := fun e' he' => hn e' (by simp [he'])
      simp only [settle, List.foldl_cons, upd, he, Bool.false_eq_true, if_false]
      exact ih h hr

theorem upd_mono (S : CSpec) {h h' : Bool} (hh : h = true → h' = true) (e : Bool × Msg) :
    upd S h e = true → upd S h' e = true := by
  simp only [upd]
  cases e.1 <;> cases S.isHaltMsg e.2 <;> cases S.isStart e.2 <;> simp <;> exact hh

theorem settle_mono (S : CSpec) (l : List (Bool × Msg)) : ∀ {h h' : Bool}, (h = true → h' = true) →
    settle S h l = true → settle S h' l = true := by
  induction l with
  | nil => intro h h' hh; simpa [settle] using hh
  | cons e rest ih =>
      intro h h' hh
      simp only [settle, List.foldl_cons]
      exact ih (upd_mono S hh e)

/-- under the abstract knowledge bit `a`: once X has served what is in its inbox now, it is halted (in
    particular: if nothing of the master waits, it is halted now) -/
def K (S : CSpec) (a : Bool) (inbox : List (Bool × Msg)) (x : St) : Prop :=
  a = true → settle S (S.isHalt x) inbox = true

theorem K_false (S : CSpec) (inbox : List (Bool × Msg)) (x : St) : K S false inbox x := by
  intro h; cases h

def Inv (S : CSpec) (g : CSt) : Prop :=
  S.v < g.m.vars.length ∧
  (S.G g.m = true → S.allowed.contains g.m.leaf = false) ∧
  ∃ a : Bool, K S a g.inbox g.x ∧ (S.G g.m = true → ghostAfter S a g.todo = true)

theorem inv_of_creach (S : CSpec) (mok : MasterOK S) (sok : SlaveOK S) {g : CSt} (h : CReach S g) : Inv S g := by
  induction h with
  | init =>
      refine ⟨mok.vlt, fun hg => (mok.init hg).2, S.isG (getNth S.DM.initVars S.v), ?_, fun hg => hg⟩
      intro ha
      exact (mok.init ha).1
  | @step g g' hr hs ih =>
      have hx := creach_x S hr
      obtain ⟨hv, hal, a, hK, hT⟩ := ih
      cases hs with
      | mBegin msg m' effs hidle hmsg h =>
          obtain ⟨hlen, hstep, hal'⟩ := mok.step g.m msg m' effs hv h
          refine ⟨by simpa [hlen] using hv, hal' hal, S.G g.m, ?_, hstep⟩
          intro hg
          have ha : a = true := by simpa [hidle, ghostAfter] using hT hg
          exact hK ha
      | mTell t rest msg h ht =>
          refine ⟨hv, hal, ghost1 S a (.emit t), ?_, ?_⟩
          · intro ha
            simp only [ghost1, ht] at ha
            simp only [settle_append, upd, if_true]
            cases hh : S.isHaltMsg msg with
            | true => rfl
            | false =>
                cases hst : S.isStart msg with
                | true => simp [hh, hst] at ha
                | false =>
                    simp only [hh, hst, Bool.false_eq_true, if_false] at ha ⊢
                    exact hK ha
          · intro hg
            have := hT hg
            simpa [h, ghostAfter] using this
      | mEmit t rest h ht =>
          refine ⟨hv, hal, ghost1 S a (.emit t), ?_, ?_⟩
          · simpa only [ghost1, ht] using hK
          · intro hg
            have := hT hg
            simpa [h, ghostAfter] using this
      | mAsk ans t f rest h hq =>
          refine ⟨hv, hal, ghost1 S a (.ask ans t f), ?_, ?_⟩
          · intro ha
            simp only [ghost1, Bool.or_eq_true] at ha
            rcases ha with ha | ha
            · exact hK ha
            · obtain ⟨h1, h2⟩ := hq ha
              rw [settle_noMaster S _ h1]
              exact h2
          · intro hg
            have := hT hg
            simpa [h, ghostAfter] using this
      | other m hm =>
          refine ⟨hv, hal, a, ?_, hT⟩
          intro ha
          have := hK ha
          simpa only [settle_append, upd, Bool.false_eq_true, if_false] using this
      | deliver e rest x' hin hm hs =>
          obtain ⟨b, m⟩ := e
          simp only at hs hm
          -- generic argument for a message that is really processed by X's `step`
          have served : x' ∈ step S.DX g.x m → (b = false → S.isStart m = false) → K S a rest x' := by
            intro hstep hns ha
            have hI := hK ha
            simp only [hin, settle, List.foldl_cons] at hI
            refine settle_mono S rest ?_ hI
            simp only [upd]
            cases b with
            | true =>
                simp only [if_true]
                cases hh : S.isHaltMsg m with
                | true => intro _; exact sok.h1 _ _ _ hx hh hstep
                | false =>
                    cases hst : S.isStart m with
                    | true => simp
                    | false =>
                        simp only [Bool.false_eq_true, if_false]
                        intro hxh
                        exact sok.h2 _ _ _ hx hxh hm hst hstep
            | false =>
                simp only [Bool.false_eq_true, if_false]
                intro hxh
                exact sok.h2 _ _ _ hx hxh hm (hns rfl) hstep
          by_cases hc : b = false ∧ S.isStart m = true
          · rw [if_pos hc] at hs
            obtain ⟨hidle, hs⟩ := hs
            obtain ⟨hb, hst⟩ := hc
            subst hb
            by_cases hg : S.G g.m = true
            · -- the master knows X halted: it is not in an allowed phase, the foreign start is refused
              have hna := hal hg
              rw [if_neg (by rw [hna]; exact Bool.false_ne_true)] at hs
              refine ⟨hv, hal, a, ?_, hT⟩
              intro ha
              have hI := hK ha
              simp only [hin, settle, List.foldl_cons, upd, Bool.false_eq_true, if_false] at hI
              simpa only [hs, settle] using hI
            · -- the master claims nothing
              exact ⟨hv, hal, false, K_false S _ _, fun hg' => absurd hg' hg⟩
          · rw [if_neg hc] at hs
            refine ⟨hv, hal, a, served hs ?_, hT⟩
            intro hb
            cases hst : S.isStart m with
            | false => rfl
            | true => exact absurd ⟨hb, hst⟩ hc

/-- In every reachable composed state with the master between two handlers and knowing "X halted": once X has
    served the messages now in its inbox (whatever third parties add meanwhile is covered by applying this again
    later), X is halted. -/
theorem will_be_halted (S : CSpec) (mok : MasterOK S) (sok : SlaveOK S) {g : CSt} (h : CReach S g)
    (hidle : g.todo = []) (hg : S.isG (getNth g.m.vars S.v) = true) : settle S (S.isHalt g.x) g.inbox = true := by
  obtain ⟨_, _, a, hK, hT⟩ := inv_of_creach S mok sok h
  have ha : a = true := by simpa [hidle, ghostAfter] using hT hg
  exact hK ha

/-- **Composition theorem.** In every reachable state of (generated master ∥ generated slave), for every
    interleaving: if the master is between two handlers, its ghost variable says "X halted" and none of the
    master's messages is still waiting in X's inbox, then X is halted. -/
theorem halted_when_served (S : CSpec) (mok : MasterOK S) (sok : SlaveOK S) {g : CSt} (h : CReach S g)
    (hidle : g.todo = []) (hg : S.isG (getNth g.m.vars S.v) = true) (hserved : noMaster g.inbox) :
    S.isHalt g.x = true := by
  have := will_be_halted S mok sok h hidle hg
  rwa [settle_noMaster S _ hserved] at this

end Poupool.Compose
