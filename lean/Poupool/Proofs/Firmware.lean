/-
Helper lemmas for property C19 (cover firmware).  No Mathlib.
-/
import Poupool.Model.Firmware

namespace Poupool.Firmware
open Poupool.FirmwareConst

/-! ### generalities -/

theorem wrap32_id {x : Int} (h1 : -2147483648 ≤ x) (h2 : x < 2147483648) : wrap32 x = x := by
  unfold wrap32; omega

theorem wrap32_range (x : Int) : -2147483648 ≤ wrap32 x ∧ wrap32 x < 2147483648 := by
  unfold wrap32; omega

theorem foldl_inv {α β : Type} (P : α → Prop) (f : α → β → α) (h : ∀ a b, P a → P (f a b)) :
    ∀ (l : List β) (a : α), P a → P (l.foldl f a) := by
  intro l
  induction l with
  | nil => intro a ha; exact ha
  | cons x xs ih => intro a ha; exact ih _ (h a x ha)

/-! ### the ReadBuffer sub-state: only the serial part of `loop()` touches it -/

/-- the ReadBuffer part of the state (with the ghost fields that concern it) -/
structure RB where
  idx : Nat
  buf : List Nat
  oobWrite : Bool
  oobRead : Bool
  nDispatch : Nat
  lastCmd : List Nat
  deriving DecidableEq, Repr

def rbOf (s : St) : RB := ⟨s.idx, s.buf, s.oobWrite, s.oobRead, s.nDispatch, s.lastCmd⟩

/-- same ReadBuffer state -/
def SameBuf (a b : St) : Prop := rbOf a = rbOf b

theorem SameBuf.rfl' (a : St) : SameBuf a a := rfl
theorem SameBuf.trans {a b c : St} (h1 : SameBuf a b) (h2 : SameBuf b c) : SameBuf a c := Eq.trans h1 h2
theorem SameBuf.symm {a b : St} (h : SameBuf a b) : SameBuf b a := Eq.symm h

/-- case split on every `if` / `match` of an unfolded definition and close each case by reflexivity -/
macro "sb_cases" : tactic =>
  `(tactic| ((try dsimp only) <;> (repeat' split) <;> rfl))

theorem sameBuf_emit (s : St) (b : List Nat) : SameBuf (emit s b) s := rfl
theorem sameBuf_emitLn (s : St) (b : List Nat) : SameBuf (emitLn s b) s := rfl

theorem sameBuf_setDirection (s : St) (d : Dir) : SameBuf (setDirection s d) s := by
  cases d <;> simp only [setDirection] <;> (try split) <;> rfl

theorem sameBuf_setLimit (s : St) (d : Dir) : SameBuf (setLimit s d) s := by
  cases d <;> simp only [setLimit] <;> (try split) <;> rfl

theorem sameBuf_stepCover (s : St) : SameBuf (stepCover s) s := by
  unfold stepCover; sb_cases

theorem sameBuf_coverIsr (s : St) : SameBuf (coverIsr s) s := by
  unfold coverIsr
  split
  · exact SameBuf.trans (b := stepCover s) rfl (sameBuf_stepCover s)
  · rfl

theorem sameBuf_waterIsr (s : St) : SameBuf (waterIsr s) s := by
  unfold waterIsr; sb_cases

theorem sameBuf_delayWithPulses (s : St) : SameBuf (delayWithPulses s) s := by
  unfold delayWithPulses
  have h := foldl_inv (fun a => SameBuf a s) (delayPulse s.clk s.dpulses)
    (fun a k ha => SameBuf.trans (SameBuf.trans (sameBuf_coverIsr _) rfl) ha)
    (List.range s.dpulses) { s with dpulses := 0 } rfl
  exact SameBuf.trans rfl h

theorem sameBuf_processDirection (s : St) (now : Nat) : SameBuf (processDirection s now) s := by
  unfold processDirection
  split
  · split
    · exact SameBuf.trans (b := delayWithPulses { s with run := .opn, pinClose := true }) rfl
        (SameBuf.trans (sameBuf_delayWithPulses _) rfl)
    · exact SameBuf.trans (b := delayWithPulses { s with run := .cls, pinOpen := true }) rfl
        (SameBuf.trans (sameBuf_delayWithPulses _) rfl)
    · rfl
  · rfl

theorem sameBuf_emergencyStop (s : St) : SameBuf (emergencyStop s) s := rfl

theorem sameBuf_stallCheck (s : St) (now : Nat) : SameBuf (stallCheck s now) s := by
  unfold stallCheck; sb_cases

theorem sameBuf_envelopeCheck (s : St) : SameBuf (envelopeCheck s) s := by
  unfold envelopeCheck; sb_cases

theorem sameBuf_ensureConsistency (s : St) (now : Nat) : SameBuf (ensureConsistency s now) s := by
  unfold ensureConsistency
  split
  · exact SameBuf.trans (sameBuf_envelopeCheck _) (sameBuf_stallCheck s now)
  · rfl

theorem sameBuf_processStop (s : St) (now : Nat) : SameBuf (processStop s now) s := by
  unfold processStop; sb_cases

theorem sameBuf_button (s : St) (k : Btn) : SameBuf (button s k) s := by
  cases k <;> simp only [button] <;> first | exact sameBuf_setDirection _ _ | exact sameBuf_setLimit _ _

theorem sameBuf_actions (s : St) (btn : Option Btn) : SameBuf (actions s btn) s := by
  unfold actions
  refine SameBuf.trans (sameBuf_processStop _ _) (SameBuf.trans (sameBuf_ensureConsistency _ _)
    (SameBuf.trans (sameBuf_processDirection _ _) ?_))
  cases btn with
  | none => rfl
  | some k => exact sameBuf_button s k

theorem sameBuf_debugPrint (s : St) : SameBuf (debugPrint s) s := by
  unfold debugPrint
  exact foldl_inv (fun a => SameBuf a s) _
    (fun a lf ha => SameBuf.trans (SameBuf.trans (sameBuf_emitLn _ _) (sameBuf_emit _ _)) ha) _ s rfl

theorem sameBuf_runOp (s : St) (op : Op) : SameBuf (runOp s op) s := by
  cases op with
  | print b => exact sameBuf_emit s b
  | println b => exact sameBuf_emitLn s b
  | printlnPct => exact sameBuf_emitLn s _
  | printlnWater => exact sameBuf_emitLn s _
  | printlnBuf => exact sameBuf_emitLn s _
  | setOpen => exact sameBuf_setDirection s .opn
  | setClose => exact sameBuf_setDirection s .cls
  | setStop => exact sameBuf_setDirection s .stop
  | debug => exact sameBuf_debugPrint s
  | reset => rfl

theorem sameBuf_ops (ops : List Op) (s : St) : SameBuf (ops.foldl runOp s) s :=
  foldl_inv (fun a => SameBuf a s) runOp (fun a op ha => SameBuf.trans (sameBuf_runOp a op) ha) ops s rfl

/-! ### the pure ReadBuffer automaton -/

def rbStore (r : RB) (v : Nat) : RB :=
  if r.idx < bufSize then { r with buf := r.buf.set r.idx v, idx := r.idx + 1 }
  else { r with oobWrite := true, idx := r.idx + 1 }

def rbCstr (r : RB) : List Nat := r.buf.takeWhile (fun x => x != 0)

def rbDispatch (r : RB) : RB :=
  { idx := 0, buf := List.replicate bufSize 0, oobWrite := r.oobWrite,
    oobRead := if r.buf.any (fun x => x == 0) then r.oobRead else true,
    nDispatch := r.nDispatch + 1, lastCmd := rbCstr r }

/-- `ReadBuffer::add` followed, when it returns true, by the dispatch and `clear()` -/
def rbStep (r : RB) (b : Nat) : RB :=
  if b = 13 then r
  else if r.idx = bufFullAt then rbDispatch (rbStore r 0)
  else if r.idx ≥ bufIgnoreAt then rbDispatch r
  else if b = 10 then rbDispatch (rbStore r 0)
  else rbStore r b

def rbFeed (r : RB) (bs : List Nat) : RB := bs.foldl rbStep r

theorem rbOf_bufStore (s : St) (v : Nat) : rbOf (bufStore s v) = rbStore (rbOf s) v := by
  unfold bufStore bufWrite rbStore
  by_cases h : s.idx < bufSize
  · simp only [h, if_true, rbOf]
  · simp only [h, if_false, rbOf]

theorem rbOf_dispatchCore (s : St) :
    rbOf (dispatchCore s) =
      { idx := 0, buf := List.replicate bufSize 0, oobWrite := s.oobWrite, oobRead := s.oobRead,
        nDispatch := s.nDispatch + 1, lastCmd := cstr s } := by
  have h := sameBuf_ops (findCmd (cstr s) commands) s
  have h3 := congrArg RB.oobWrite h
  have h4 := congrArg RB.oobRead h
  have h5 := congrArg RB.nDispatch h
  simp only [rbOf] at h3 h4 h5
  simp only [rbOf, dispatchCore, bufClear, emitLn, h3, h4, h5]

theorem rbOf_dispatch (s : St) : rbOf (dispatch s) = rbDispatch (rbOf s) := by
  unfold dispatch
  rw [rbOf_dispatchCore]
  by_cases h : s.buf.any (fun x => x == 0) = true
  · simp only [h, if_true, rbDispatch, rbOf, rbCstr, cstr]
  · simp only [h, rbDispatch, rbOf, rbCstr, cstr]; simp

/-- the ReadBuffer part of the serial step is the pure automaton -/
theorem rbOf_serialStep (s : St) (b : Nat) : rbOf (serialStep s b) = rbStep (rbOf s) b := by
  unfold serialStep bufAdd rbStep
  by_cases hb : b = 13
  · simp [hb]
  · by_cases hf : s.idx = bufFullAt
    · have hf' : (rbOf s).idx = bufFullAt := hf
      simp only [hb, hf, hf', if_false, if_true]
      rw [rbOf_dispatch, rbOf_bufStore]
    · have hf' : ¬ (rbOf s).idx = bufFullAt := hf
      by_cases hg : s.idx ≥ bufIgnoreAt
      · have hg' : (rbOf s).idx ≥ bufIgnoreAt := hg
        simp only [hb, hf, hf', hg, hg', if_false, if_true]
        rw [rbOf_dispatch]
      · have hg' : ¬ (rbOf s).idx ≥ bufIgnoreAt := hg
        by_cases hn : b = 10
        · subst hn
          simp [hf, hf', hg, hg', rbOf_dispatch, rbOf_bufStore]
        · simp [hb, hf, hf', hg, hg', hn, rbOf_bufStore]

def bytesOf : List Ev → List Nat
  | [] => []
  | .byte b :: r => b :: bytesOf r
  | _ :: r => bytesOf r

theorem rbOf_step (s : St) (e : Ev) :
    rbOf (step s e) = match e with
      | .byte b => rbStep (rbOf s) b
      | _ => rbOf s := by
  cases e with
  | byte b =>
    show rbOf (actions (serialStep s b) none) = rbStep (rbOf s) b
    rw [← rbOf_serialStep]; exact sameBuf_actions _ _
  | tick ms => exact SameBuf.trans (sameBuf_actions _ _) rfl
  | adv ms => rfl
  | pulse => exact sameBuf_coverIsr s
  | wpulse => exact sameBuf_waterIsr s
  | delayPulses n => rfl
  | btn k => exact sameBuf_actions _ _
  | query => rfl

/-- the ReadBuffer state after ANY event sequence is the pure automaton run over the bytes alone -/
theorem rbOf_run (evs : List Ev) : ∀ s : St, rbOf (run s evs) = rbFeed (rbOf s) (bytesOf evs) := by
  induction evs with
  | nil => intro s; rfl
  | cons e es ih =>
    intro s
    show rbOf (run (step s e) es) = _
    rw [ih, rbOf_step]
    cases e <;> rfl

/-! ### invariant of the automaton -/

def RBOK (r : RB) : Prop := r.idx ≤ 31 ∧ r.buf.length = 32 ∧ r.oobWrite = false ∧ r.oobRead = false

theorem any_zero_set (l : List Nat) (i : Nat) (h : i < l.length) : (l.set i 0).any (fun x => x == 0) = true := by
  rw [List.any_eq_true]
  exact ⟨0, List.mem_iff_getElem.mpr ⟨i, by simpa using h, by simp⟩, by simp⟩

theorem rbStore_ok (r : RB) (v : Nat) (h : RBOK r) :
    rbStore r v = { r with buf := r.buf.set r.idx v, idx := r.idx + 1 } := by
  unfold rbStore; rw [if_pos (by have := h.1; simp only [bufSize]; omega)]

theorem rbDispatch_store_ok (r : RB) (h : RBOK r) :
    rbDispatch (rbStore r 0) =
      { idx := 0, buf := List.replicate 32 0, oobWrite := false, oobRead := false, nDispatch := r.nDispatch + 1,
        lastCmd := (r.buf.set r.idx 0).takeWhile (fun x => x != 0) } := by
  obtain ⟨h1, h2, h3, h4⟩ := h
  rw [rbStore_ok r 0 ⟨h1, h2, h3, h4⟩]
  simp only [rbDispatch, rbCstr, any_zero_set r.buf r.idx (by omega), if_true, h3, h4, bufSize]

theorem rbStep_ok (r : RB) (b : Nat) (h : RBOK r) : RBOK (rbStep r b) := by
  unfold rbStep
  by_cases hb : b = 13
  · simp only [hb, if_true]; exact h
  · by_cases hf : r.idx = bufFullAt
    · simp only [hb, hf, if_false, if_true]
      rw [rbDispatch_store_ok r h]
      exact ⟨Nat.zero_le _, by simp, rfl, rfl⟩
    · have hg : ¬ r.idx ≥ bufIgnoreAt := by have := h.1; simp only [bufFullAt] at hf; simp only [bufIgnoreAt]; omega
      by_cases hn : b = 10
      · subst hn
        simp only [hf, hg, if_false, if_true, show ¬ ((10 : Nat) = 13) by decide]
        rw [rbDispatch_store_ok r h]
        exact ⟨Nat.zero_le _, by simp, rfl, rfl⟩
      · simp only [hb, hf, hg, hn, if_false]
        rw [rbStore_ok r b h]
        obtain ⟨h1, h2, h3, h4⟩ := h
        simp only [bufFullAt] at hf
        exact ⟨by show r.idx + 1 ≤ 31; omega, by show (r.buf.set r.idx b).length = 32; simp [h2], h3, h4⟩

theorem rbFeed_ok (bs : List Nat) (r : RB) (h : RBOK r) : RBOK (rbFeed r bs) :=
  foldl_inv RBOK rbStep (fun a b ha => rbStep_ok a b ha) bs r h

theorem rbOf_init (p c o : Int) : rbOf (init p c o) = ⟨0, List.replicate 32 0, false, false, 0, []⟩ := rfl

theorem rbok_init (p c o : Int) : RBOK (rbOf (init p c o)) := by
  rw [rbOf_init]; exact ⟨Nat.zero_le _, by simp, rfl, rfl⟩

/-- a newline always ends in a dispatch and leaves the buffer empty -/
theorem rbStep_newline (r : RB) (h : RBOK r) :
    (rbStep r 10).idx = 0 ∧ (rbStep r 10).buf = List.replicate 32 0 ∧ (rbStep r 10).nDispatch = r.nDispatch + 1 := by
  unfold rbStep
  by_cases hf : r.idx = bufFullAt
  · simp only [hf, if_true, show ¬ (10 : Nat) = 13 by decide, if_false]
    rw [rbDispatch_store_ok r h]; exact ⟨rfl, rfl, rfl⟩
  · have hg : ¬ r.idx ≥ bufIgnoreAt := by have := h.1; simp only [bufFullAt] at hf; simp only [bufIgnoreAt]; omega
    simp only [hf, hg, if_true, show ¬ (10 : Nat) = 13 by decide, if_false]
    rw [rbDispatch_store_ok r h]; exact ⟨rfl, rfl, rfl⟩

/-! ### lines -/

/-- the buffer is empty and the firmware is "in step" -/
def Empty (r : RB) : Prop := r.idx = 0 ∧ r.buf = List.replicate 32 0 ∧ r.oobWrite = false ∧ r.oobRead = false

theorem Empty.ok {r : RB} (h : Empty r) : RBOK r := by
  obtain ⟨h1, h2, h3, h4⟩ := h
  exact ⟨by omega, by rw [h2]; simp, h3, h4⟩

theorem empty_init (p c o : Int) : Empty (rbOf (init p c o)) := ⟨rfl, rfl, rfl, rfl⟩

theorem rbFeed_append (r : RB) (a b : List Nat) : rbFeed r (a ++ b) = rbFeed (rbFeed r a) b := by
  simp [rbFeed, List.foldl_append]

theorem set_append_replicate (pre : List Nat) (n c : Nat) :
    (pre ++ List.replicate (n + 1) 0).set pre.length c = (pre ++ [c]) ++ List.replicate n 0 := by
  rw [List.set_append]
  simp [List.replicate_succ]

theorem takeWhile_append_zeros (line : List Nat) (k : Nat) :
    (line ++ List.replicate (k + 1) 0).takeWhile (fun x => x != 0) = line.takeWhile (fun x => x != 0) := by
  induction line with
  | nil => simp [List.replicate_succ]
  | cons c cs ih =>
    simp only [List.cons_append, List.takeWhile_cons]
    split
    · rw [ih]
    · rfl

/-- ordinary characters (no CR, no LF) are stored one after the other as long as the index stays below 31 -/
theorem rbFeed_chars (line : List Nat) : ∀ (r : RB) (pre : List Nat), RBOK r →
    r.idx = pre.length → r.buf = pre ++ List.replicate (32 - pre.length) 0 →
    pre.length + line.length ≤ 31 → (∀ c ∈ line, c ≠ 10 ∧ c ≠ 13) →
    rbFeed r line = { r with idx := pre.length + line.length,
                             buf := (pre ++ line) ++ List.replicate (32 - (pre.length + line.length)) 0 } := by
  induction line with
  | nil =>
    intro r pre _ h1 h2 _ _
    simp only [rbFeed, List.foldl_nil, List.length_nil, Nat.add_zero, List.append_nil]
    cases r with
    | mk i bf ow ord nd lc =>
      simp only at h1 h2
      simp only [h1, h2]
  | cons c cs ih =>
    intro r pre hok h1 h2 hlen hc
    have hc0 := hc c (List.mem_cons_self ..)
    simp only [List.length_cons] at hlen
    have hstep : rbStep r c = { r with buf := r.buf.set r.idx c, idx := r.idx + 1 } := by
      unfold rbStep
      have e1 : ¬ r.idx = bufFullAt := by simp only [bufFullAt]; omega
      have e2 : ¬ r.idx ≥ bufIgnoreAt := by simp only [bufIgnoreAt]; omega
      simp only [hc0.1, hc0.2, e1, e2, if_false]
      exact rbStore_ok r c hok
    have hbuf : r.buf.set r.idx c = (pre ++ [c]) ++ List.replicate (32 - (pre ++ [c]).length) 0 := by
      rw [h1, h2]
      have : 32 - pre.length = (32 - (pre ++ [c]).length) + 1 := by simp only [List.length_append, List.length_cons, List.length_nil]; omega
      rw [this, set_append_replicate]
    show rbFeed (rbStep r c) cs = _
    rw [hstep]
    have hok' : RBOK { r with buf := r.buf.set r.idx c, idx := r.idx + 1 } := by
      obtain ⟨o1, o2, o3, o4⟩ := hok
      exact ⟨by show r.idx + 1 ≤ 31; omega, by show (r.buf.set r.idx c).length = 32; simp [o2], o3, o4⟩
    have := ih { r with buf := r.buf.set r.idx c, idx := r.idx + 1 } (pre ++ [c]) hok'
      (by simp [h1]) hbuf (by simp only [List.length_append, List.length_cons, List.length_nil]; omega)
      (fun x hx => hc x (List.mem_cons_of_mem _ hx))
    rw [this]
    have e : (pre ++ [c]).length + cs.length = pre.length + (cs.length + 1) := by
      simp only [List.length_append, List.length_cons, List.length_nil]; omega
    rw [e]
    simp only [List.length_cons, List.append_assoc, List.cons_append, List.nil_append]

/-- state after a dispatch from a line of at most 31 stored characters -/
theorem rbFeed_line_le31 (r : RB) (line : List Nat) (b : Nat) (he : Empty r) (hlen : line.length ≤ 31)
    (hc : ∀ c ∈ line, c ≠ 10 ∧ c ≠ 13) (hb : b ≠ 13) (hfull : line.length = 31 ∨ b = 10) :
    rbFeed r line = { r with idx := line.length, buf := line ++ List.replicate (32 - line.length) 0 } ∧
    rbFeed r (line ++ [b]) =
      { idx := 0, buf := List.replicate 32 0, oobWrite := false, oobRead := false, nDispatch := r.nDispatch + 1,
        lastCmd := line.takeWhile (fun x => x != 0) } := by
  obtain ⟨e1, e2, e3, e4⟩ := he
  have h1 := rbFeed_chars line r [] (Empty.ok ⟨e1, e2, e3, e4⟩) (by simpa using e1) (by simpa using e2)
    (by simpa using hlen) hc
  simp only [List.length_nil, Nat.zero_add, List.nil_append] at h1
  refine ⟨h1, ?_⟩
  rw [rbFeed_append, h1]
  show rbStep _ b = _
  have hok : RBOK { r with idx := line.length, buf := line ++ List.replicate (32 - line.length) 0 } :=
    ⟨hlen, by simp; omega, e3, e4⟩
  have hset : (line ++ List.replicate (32 - line.length) 0).set line.length 0
      = line ++ List.replicate (32 - line.length) 0 := by
    have : 32 - line.length = (31 - line.length) + 1 := by omega
    rw [this, set_append_replicate]; simp [List.replicate_succ]
  have hd := rbDispatch_store_ok _ hok
  simp only [hset] at hd
  have htw : (line ++ List.replicate (32 - line.length) 0).takeWhile (fun x => x != 0)
      = line.takeWhile (fun x => x != 0) := by
    have : 32 - line.length = (31 - line.length) + 1 := by omega
    rw [this, takeWhile_append_zeros]
  rw [htw] at hd
  unfold rbStep
  by_cases hf : line.length = 31
  · simp only [hb, hf, bufFullAt, if_true, if_false]
    simp only [hf] at hd
    exact hd
  · have hb10 : b = 10 := by cases hfull with
      | inl h => exact absurd h hf
      | inr h => exact h
    have e2' : ¬ line.length ≥ bufIgnoreAt := by simp only [bufIgnoreAt]; omega
    simp only [hf, bufFullAt, e2', hb10, if_true, if_false]
    exact hd

end Poupool.Firmware
