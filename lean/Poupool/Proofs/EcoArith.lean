/-
  Arithmetic of `divNearest` (CPython's round-half-even division) and of `Timer` — helper lemmas for C10 / C11.
-/
import Poupool.Model.Eco

namespace Poupool.Eco

theorem divNearest_cases (a b : Int) : divNearest a b = a / b ∨ divNearest a b = a / b + 1 := by
  unfold divNearest; split <;> simp

/-- nearest: `|b * divNearest a b - a| ≤ b / 2` -/
theorem divNearest_bounds (a b : Int) (hb : 0 < b) :
    2 * (b * divNearest a b) ≤ 2 * a + b ∧ 2 * a - b ≤ 2 * (b * divNearest a b) := by
  have h1 := Int.emod_add_mul_ediv a b
  have h2 := Int.emod_nonneg a (Int.ne_of_gt hb)
  have h3 := Int.emod_lt_of_pos a hb
  unfold divNearest
  split
  · rename_i h
    rw [Int.mul_add]
    constructor <;> omega
  · rename_i h
    constructor <;> omega

theorem divNearest_nonneg (a b : Int) (ha : 0 ≤ a) (hb : 0 < b) : 0 ≤ divNearest a b := by
  have := Int.ediv_nonneg ha (Int.le_of_lt hb)
  rcases divNearest_cases a b with h | h <;> omega

theorem divNearest_one (a : Int) : divNearest a 1 = a := by
  unfold divNearest
  simp [Int.emod_one, Int.ediv_one]

theorem divNearest_mul_self (v q : Int) (hq : 0 < q) : divNearest (v * q) q = v := by
  unfold divNearest
  have h1 : v * q % q = 0 := Int.mul_emod_left v q
  have h2 : v * q / q = v := Int.mul_ediv_cancel v (Int.ne_of_gt hq)
  rw [h1, h2]
  split <;> omega

theorem divNearest_mono (a a' b : Int) (hb : 0 < b) (h : a ≤ a') : divNearest a b ≤ divNearest a' b := by
  have hq : a / b ≤ a' / b := Int.ediv_le_ediv hb h
  have e1 := Int.emod_add_mul_ediv a b
  have e2 := Int.emod_add_mul_ediv a' b
  by_cases hlt : a / b < a' / b
  · rcases divNearest_cases a b with h1 | h1 <;> rcases divNearest_cases a' b with h2 | h2 <;> omega
  · have heq : a / b = a' / b := by omega
    rw [heq] at e1
    have hr : a % b ≤ a' % b := by omega
    unfold divNearest
    rw [heq]
    split <;> split <;> omega

theorem divNearest_zero (b : Int) (hb : 0 < b) : divNearest 0 b = 0 := by
  unfold divNearest
  simp only [Int.zero_emod, Int.zero_ediv]
  split <;> omega

/-- the assertion `period_duration > 0`: exactly when the daily duration is more than half a period count of µs -/
theorem divNearest_pos_iff (d p : Int) (hd : 0 ≤ d) (hp : 0 < p) : 0 < divNearest d p ↔ p < 2 * d := by
  by_cases hlt : d < p
  · have h1 : d / p = 0 := Int.ediv_eq_zero_of_lt hd hlt
    have h2 : d % p = d := Int.emod_eq_of_lt hd hlt
    unfold divNearest
    rw [h1, h2]
    split <;> omega
  · have h1 : 1 ≤ d / p := by
      have he := Int.emod_add_mul_ediv d p
      have hl := Int.emod_lt_of_pos d hp
      have h0 := Int.ediv_nonneg hd (Int.le_of_lt hp)
      by_cases hz : d / p = 0
      · rw [hz] at he; omega
      · omega
    rcases divNearest_cases d p with h | h <;> constructor <;> intro <;> omega

/-- `factor * timedelta` for a factor in [0, 1] stays in [0, x] -/
theorem scale_bounds (x fnum fden : Int) (hx : 0 ≤ x) (h0 : 0 ≤ fnum) (h1 : fnum ≤ fden) (hd : 0 < fden) :
    0 ≤ scale x fnum fden ∧ scale x fnum fden ≤ x := by
  unfold scale
  constructor
  · exact divNearest_nonneg _ _ (Int.mul_nonneg hx h0) hd
  · have hb := (divNearest_bounds (x * fnum) fden hd).1
    have hm : x * fnum ≤ x * fden := Int.mul_le_mul_of_nonneg_left h1 hx
    have h2 : fden * (2 * divNearest (x * fnum) fden) ≤ fden * (2 * x + 1) := by
      rw [Int.mul_add, Int.mul_one]
      have e1 : fden * (2 * divNearest (x * fnum) fden) = 2 * (fden * divNearest (x * fnum) fden) := by
        rw [Int.mul_left_comm]
      have e2 : fden * (2 * x) = 2 * (x * fden) := by rw [Int.mul_left_comm, Int.mul_comm fden x]
      omega
    have := Int.le_of_mul_le_mul_left h2 hd
    omega

theorem scale_one (x : Int) : scale x 1 1 = x := by
  unfold scale; rw [Int.mul_one, divNearest_one]

theorem scale_zero (x : Int) : scale x 0 1 = 0 := by
  unfold scale; rw [Int.mul_zero, divNearest_one]

end Poupool.Eco
