/-
  Heating interlude (`heating_running`): a poll accounts the whole time since the previous poll at factor 1, keeps the
  pump on and never looks at the quota — the mechanism behind "scheduled heating time counts towards the quota" and
  behind the literal-reading violation `Filtration.eco-cycle:quota-exceeded-by-late-heating`.
-/
import Poupool.Proofs.EcoDaySteps

set_option linter.unusedSimpArgs false
set_option linter.unusedVariables false
namespace Poupool.Eco
open Poupool.Generated

theorem cfg_fH : EcoConfig.factorHeatingNum = 1 ∧ EcoConfig.factorHeatingDen = 1 := by decide

/-- a polled `heating_running` state: pump on, both timers updated at `now`, next poll armed -/
structure HeatPolled (s : Loop) : Prop where
  hphase : s.phase = .heating
  hpump : s.pumpOn = true
  hlast : s.eco.filtration.last = some s.now
  hdue : s.due = s.now + EcoConfig.pollDelayUs

/-- one poll of `heating_running` that does not see the reset, handled `j0 ≥ 0` late -/
theorem heating_poll (eps : Int) (s : Loop) (j0 j1 j2 : Int) (h : HeatPolled s) (hj : 0 ≤ j0)
    (hnr : s.now + EcoConfig.pollDelayUs + j0 < s.eco.nextReset) :
    HeatPolled (ecoStep eps s (.tick j0 j1 j2)).1
    ∧ (ecoStep eps s (.tick j0 j1 j2)).1.now = s.now + EcoConfig.pollDelayUs + j0
    ∧ (ecoStep eps s (.tick j0 j1 j2)).1.onToday = s.onToday + (EcoConfig.pollDelayUs + j0)
    ∧ (ecoStep eps s (.tick j0 j1 j2)).1.eco.filtration.duration = s.eco.filtration.duration + (EcoConfig.pollDelayUs + j0)
    ∧ (ecoStep eps s (.tick j0 j1 j2)).1.eco.filtration.delay = s.eco.filtration.delay
    ∧ (ecoStep eps s (.tick j0 j1 j2)).1.eco.nextReset = s.eco.nextReset
    ∧ (ecoStep eps s (.tick j0 j1 j2)).1.full = s.full
    ∧ (ecoStep eps s (.tick j0 j1 j2)).1.days = s.days := by
  obtain ⟨hp, hpump, hl, hdue⟩ := h
  have hpoll := cfg_poll
  have hfh := cfg_fH
  have ht : max s.now s.due + j0 = s.now + EcoConfig.pollDelayUs + j0 := by omega
  have hsp := doUpdate_noreset (s.advance (max s.now s.due + j0)) eps 1 1 (by simp; omega)
  have hsm := doUpdate_noreset_more (s.advance (max s.now s.due + j0)) eps 1 1 (by simp; omega)
  simp only [adv_now, adv_due, adv_phase, adv_pump, adv_on, adv_days, adv_full, adv_toN, adv_eco, adv_gTc, adv_gDc, adv_gNr,
    adv_gN, adv_gD, adv_gRc, adv_gJ, adv_gWoff, adv_gW, adv_gCredit, adv_gCyc, adv_gU, adv_gPlain, hpump, if_true] at hsp hsm
  have hstep : (ecoStep eps s (.tick j0 j1 j2)).1 =
      { ((s.advance (max s.now s.due + j0)).doUpdate eps 1 1).1 with
        due := ((s.advance (max s.now s.due + j0)).doUpdate eps 1 1).1.now + EcoConfig.pollDelayUs } := by
    simp only [ecoStep, adv_phase, hp, hfh.1, hfh.2]
  rw [hstep]
  generalize (s.advance (max s.now s.due + j0)).doUpdate eps 1 1 = r at *
  obtain ⟨h1, h2, h3, h4, h5, h6, h7, h8, h9, h10, h11, h12, h13, h14, h15, h16, h17, h18, h19, h20, h21, h22, h23, h24, h25, h26, h27, h28⟩ := hsp
  obtain ⟨m1, m2, m3, m4, m5⟩ := hsm
  refine ⟨⟨?_, ?_, ?_, ?_⟩, ?_, ?_, ?_, ?_, ?_, ?_, ?_⟩
  all_goals (try simp only [h2, h3, h4, h5, h6, h7, h8, h26, h27, m3, hp, Timer.update, hl, scale_one])
  all_goals (first | rfl | omega | skip)

/-- `n` consecutive on-time polls of `heating_running` before the reset: the pump stays on and the whole time is
accounted AND added to the pump-on time of the day, whatever the daily duration: there is no quota cut-off. -/
theorem heating_polls (eps : Int) (n : Nat) : ∀ (s : Loop), HeatPolled s →
    s.now + n * EcoConfig.pollDelayUs < s.eco.nextReset →
    HeatPolled (ecoFinal eps s (List.replicate n (.tick 0 0 0)))
    ∧ (ecoFinal eps s (List.replicate n (.tick 0 0 0))).now = s.now + n * EcoConfig.pollDelayUs
    ∧ (ecoFinal eps s (List.replicate n (.tick 0 0 0))).onToday = s.onToday + n * EcoConfig.pollDelayUs
    ∧ (ecoFinal eps s (List.replicate n (.tick 0 0 0))).eco.filtration.duration = s.eco.filtration.duration + n * EcoConfig.pollDelayUs
    ∧ (ecoFinal eps s (List.replicate n (.tick 0 0 0))).eco.filtration.delay = s.eco.filtration.delay
    ∧ (ecoFinal eps s (List.replicate n (.tick 0 0 0))).full = s.full := by
  have hpoll := cfg_poll
  induction n with
  | zero => intro s h _; simp [ecoFinal]; exact h
  | succ k ih =>
    intro s h hnr
    have hk : ((k + 1 : Nat) : Int) = (k : Int) + 1 := by omega
    rw [hk] at hnr ⊢
    have hmul : ((k : Int) + 1) * EcoConfig.pollDelayUs = k * EcoConfig.pollDelayUs + EcoConfig.pollDelayUs := by
      rw [Int.add_mul, Int.one_mul]
    have hk0 : (0 : Int) ≤ k * EcoConfig.pollDelayUs := Int.mul_nonneg (by omega) (by omega)
    obtain ⟨p1, p2, p3, p4, p5, p6, p7, p8⟩ := heating_poll eps s 0 0 0 h (by omega) (by omega)
    show HeatPolled (ecoFinal eps (ecoStep eps s (.tick 0 0 0)).1 (List.replicate k (.tick 0 0 0))) ∧ _
    obtain ⟨q1, q2, q3, q4, q5, q6⟩ := ih (ecoStep eps s (.tick 0 0 0)).1 p1 (by rw [p2, p6]; omega)
    have e : ecoFinal eps s (List.replicate (k + 1) (.tick 0 0 0)) = ecoFinal eps (ecoStep eps s (.tick 0 0 0)).1 (List.replicate k (.tick 0 0 0)) := rfl
    rw [e]
    refine ⟨q1, ?_, ?_, ?_, ?_, ?_⟩
    · rw [q2, p2]; omega
    · rw [q3, p3]; omega
    · rw [q4, p4]; omega
    · rw [q5, p5]
    · rw [q6, p7]

end Poupool.Eco
