/-
  Step equations of `ecoStep` for `tick` events (one lemma per phase and branch) and the values of the fields after
  the building blocks `doUpdate`, `enterCompute`, `reloadEco` — used by the day-level invariants (EcoDayInv.lean,
  EcoDayHeat.lean).
-/
import Poupool.Proofs.EcoLoopStep

set_option linter.unusedSimpArgs false
set_option linter.unusedVariables false
namespace Poupool.Eco
open Poupool.Generated

/-! ### step equations -/

theorem step_compute_waiting (eps : Int) (s : Loop) (hp : s.phase = .compute) (htn : s.toNormal = false) (j0 j1 j2 : Int) :
    (ecoStep eps s (.tick j0 j1 j2)).1 = (Loop.enterWaiting (s.advance (max s.now s.due + j0)) eps).1 := by
  simp only [ecoStep, adv_phase, hp, adv_toN, htn]; simp

theorem step_compute_normal (eps : Int) (s : Loop) (hp : s.phase = .compute) (htn : s.toNormal = true) (j0 j1 j2 : Int) :
    (ecoStep eps s (.tick j0 j1 j2)).1 = (Loop.enterNormal (s.advance (max s.now s.due + j0)) eps).1 := by
  simp only [ecoStep, adv_phase, hp, adv_toN, htn]; simp

/-- the state in which the poll of a tick runs, after `eco_mode.update` -/
def polled (eps : Int) (s : Loop) (j0 fnum fden : Int) : Loop := ((s.advance (max s.now s.due + j0)).doUpdate eps fnum fden).1

theorem step_waiting_reset (eps : Int) (s : Loop) (hp : s.phase = .waiting) (j0 j1 j2 : Int)
    (hr : s.eco.nextReset ≤ max s.now s.due + j0) :
    (ecoStep eps s (.tick j0 j1 j2)).1 = ((polled eps s j0 0 1).reloadEco eps j1 j2).1 := by
  have hfw := cfg_fW
  have hsp := doUpdate_reset (s.advance (max s.now s.due + j0)) eps 0 1 (by simpa using hr)
  simp only [ecoStep, adv_phase, hp, hfw.1, hfw.2, polled]
  simp [hsp.1]

theorem step_waiting_stay (eps : Int) (s : Loop) (hp : s.phase = .waiting) (j0 j1 j2 : Int)
    (hr : ¬ s.eco.nextReset ≤ max s.now s.due + j0) (he : (polled eps s j0 0 1).eco.elapsedOff = false) :
    (ecoStep eps s (.tick j0 j1 j2)).1 = { polled eps s j0 0 1 with due := (polled eps s j0 0 1).now + EcoConfig.pollDelayUs } := by
  have hfw := cfg_fW
  have hsp := doUpdate_noreset (s.advance (max s.now s.due + j0)) eps 0 1 (by simpa using hr)
  simp only [polled] at he ⊢
  simp only [ecoStep, adv_phase, hp, hfw.1, hfw.2]
  simp [hsp.1, he]

theorem step_waiting_go (eps : Int) (s : Loop) (hp : s.phase = .waiting) (j0 j1 j2 : Int)
    (hr : ¬ s.eco.nextReset ≤ max s.now s.due + j0) (he : (polled eps s j0 0 1).eco.elapsedOff = true) :
    (ecoStep eps s (.tick j0 j1 j2)).1 =
      (Loop.enterNormal (Loop.advance { polled eps s j0 0 1 with
          gW := (polled eps s j0 0 1).gW + 1,
          gWoff := (polled eps s j0 0 1).gWoff + ((polled eps s j0 0 1).eco.offD + EcoConfig.pollDelayUs + eps) }
        ((polled eps s j0 0 1).now + j1)) eps).1 := by
  have hfw := cfg_fW
  have hsp := doUpdate_noreset (s.advance (max s.now s.due + j0)) eps 0 1 (by simpa using hr)
  simp only [polled] at he ⊢
  simp only [ecoStep, adv_phase, hp, hfw.1, hfw.2]
  simp [hsp.1, he]

theorem step_normal_reset (eps : Int) (s : Loop) (hp : s.phase = .normal) (j0 j1 j2 : Int)
    (hr : s.eco.nextReset ≤ max s.now s.due + j0) :
    (ecoStep eps s (.tick j0 j1 j2)).1 = ((polled eps s j0 1 1).reloadEco eps j1 j2).1 := by
  have hfw := cfg_fN
  have hsp := doUpdate_reset (s.advance (max s.now s.due + j0)) eps 1 1 (by simpa using hr)
  simp only [ecoStep, adv_phase, hp, hfw.1, hfw.2, polled]
  simp [hsp.1]

theorem step_normal_stay (eps : Int) (s : Loop) (hp : s.phase = .normal) (j0 j1 j2 : Int)
    (hr : ¬ s.eco.nextReset ≤ max s.now s.due + j0)
    (he : ((polled eps s j0 1 1).eco.elapsedOn && decide (0 < (polled eps s j0 1 1).eco.tankD)) = false) :
    (ecoStep eps s (.tick j0 j1 j2)).1 = { polled eps s j0 1 1 with due := (polled eps s j0 1 1).now + EcoConfig.pollDelayUs } := by
  have hfw := cfg_fN
  have hsp := doUpdate_noreset (s.advance (max s.now s.due + j0)) eps 1 1 (by simpa using hr)
  simp only [polled] at he ⊢
  have he' : ¬ (((s.advance (max s.now s.due + j0)).doUpdate eps 1 1).1.eco.elapsedOn = true
      ∧ 0 < ((s.advance (max s.now s.due + j0)).doUpdate eps 1 1).1.eco.tankD) := by
    intro hh; simp [hh.1, hh.2] at he
  simp only [ecoStep, adv_phase, hp, hfw.1, hfw.2]
  simp [hsp.1, he']

theorem step_normal_go (eps : Int) (s : Loop) (hp : s.phase = .normal) (j0 j1 j2 : Int)
    (hr : ¬ s.eco.nextReset ≤ max s.now s.due + j0)
    (he : ((polled eps s j0 1 1).eco.elapsedOn && decide (0 < (polled eps s j0 1 1).eco.tankD)) = true) :
    (ecoStep eps s (.tick j0 j1 j2)).1 =
      (Loop.enterTank (Loop.advance (polled eps s j0 1 1) ((polled eps s j0 1 1).now + j1)) eps).1 := by
  have hfw := cfg_fN
  have hsp := doUpdate_noreset (s.advance (max s.now s.due + j0)) eps 1 1 (by simpa using hr)
  simp only [polled] at he ⊢
  have he' : ((s.advance (max s.now s.due + j0)).doUpdate eps 1 1).1.eco.elapsedOn = true
      ∧ 0 < ((s.advance (max s.now s.due + j0)).doUpdate eps 1 1).1.eco.tankD := by
    rw [Bool.and_eq_true] at he
    exact ⟨he.1, of_decide_eq_true he.2⟩
  simp only [ecoStep, adv_phase, hp, hfw.1, hfw.2]
  simp [hsp.1, he'.1, he'.2]

theorem step_tank_reset (eps : Int) (s : Loop) (hp : s.phase = .tank) (j0 j1 j2 : Int)
    (hr : s.eco.nextReset ≤ max s.now s.due + j0) :
    (ecoStep eps s (.tick j0 j1 j2)).1 = ((polled eps s j0 1 1).reloadEco eps j1 j2).1 := by
  have hfw := cfg_fT
  have hsp := doUpdate_reset (s.advance (max s.now s.due + j0)) eps 1 1 (by simpa using hr)
  simp only [ecoStep, adv_phase, hp, hfw.1, hfw.2, polled]
  simp [hsp.1]

theorem step_tank_stay (eps : Int) (s : Loop) (hp : s.phase = .tank) (j0 j1 j2 : Int)
    (hr : ¬ s.eco.nextReset ≤ max s.now s.due + j0) (he : (polled eps s j0 1 1).eco.elapsedOn = false) :
    (ecoStep eps s (.tick j0 j1 j2)).1 = { polled eps s j0 1 1 with due := (polled eps s j0 1 1).now + EcoConfig.pollDelayUs } := by
  have hfw := cfg_fT
  have hsp := doUpdate_noreset (s.advance (max s.now s.due + j0)) eps 1 1 (by simpa using hr)
  simp only [polled] at he ⊢
  simp only [ecoStep, adv_phase, hp, hfw.1, hfw.2]
  simp [hsp.1, he]

theorem step_tank_go (eps : Int) (s : Loop) (hp : s.phase = .tank) (j0 j1 j2 : Int)
    (hr : ¬ s.eco.nextReset ≤ max s.now s.due + j0) (he : (polled eps s j0 1 1).eco.elapsedOn = true) :
    (ecoStep eps s (.tick j0 j1 j2)).1 =
      (Loop.enterWaiting (Loop.advance { polled eps s j0 1 1 with
          gCyc := (polled eps s j0 1 1).gCyc + 1,
          gCredit := (polled eps s j0 1 1).gCredit + ((polled eps s j0 1 1).eco.onD + (polled eps s j0 1 1).eco.tankD) }
        ((polled eps s j0 1 1).now + j1)) eps).1 := by
  have hfw := cfg_fT
  have hsp := doUpdate_noreset (s.advance (max s.now s.due + j0)) eps 1 1 (by simpa using hr)
  simp only [polled] at he ⊢
  simp only [ecoStep, adv_phase, hp, hfw.1, hfw.2]
  simp [hsp.1, he]

/-! ### fields after the building blocks -/

theorem doUpdate_noreset_more (s : Loop) (eps fnum fden : Int) (h : ¬ s.eco.nextReset ≤ s.now) :
    (s.doUpdate eps fnum fden).1.eco.period = s.eco.period
    ∧ (s.doUpdate eps fnum fden).1.eco.periodDuration = s.eco.periodDuration
    ∧ (s.doUpdate eps fnum fden).1.eco.filtration.delay = s.eco.filtration.delay
    ∧ (s.doUpdate eps fnum fden).1.eco.tankNum = s.eco.tankNum
    ∧ (s.doUpdate eps fnum fden).1.eco.tankDen = s.eco.tankDen := by
  simp [Loop.doUpdate, EcoMode.update, h, Timer.update]
  cases s.eco.filtration.last <;> simp

theorem doUpdate_reset_more (s : Loop) (eps fnum fden : Int) (h : s.eco.nextReset ≤ s.now) :
    (s.doUpdate eps fnum fden).1.eco.period = s.eco.period
    ∧ (s.doUpdate eps fnum fden).1.eco.periodDuration = s.eco.periodDuration
    ∧ (s.doUpdate eps fnum fden).1.eco.tankNum = s.eco.tankNum
    ∧ (s.doUpdate eps fnum fden).1.eco.tankDen = s.eco.tankDen
    ∧ (s.doUpdate eps fnum fden).1.full = true
    ∧ (s.doUpdate eps fnum fden).1.pumpOn = s.pumpOn
    ∧ (s.doUpdate eps fnum fden).1.phase = s.phase := by
  simp [Loop.doUpdate, EcoMode.update, h, Loop.roll]

/-- the pool + tank phases of a plan last at least the minimal on-duration (one hour) -/
theorem compute_P (e : EcoMode) (now : Int) : EcoConfig.minOnUs ≤ (e.compute now).onD + (e.compute now).tankD := by
  have hmin := cfg_minOn
  have htk := cfg_tankMin
  have hon : EcoConfig.minOnUs ≤ e.onTotal now := by
    unfold EcoMode.onTotal; simp only; split <;> omega
  have htank : EcoConfig.tankMinUs ≤ e.tankOf now := by
    unfold EcoMode.tankOf; simp only; split <;> omega
  show EcoConfig.minOnUs ≤ (if e.tankOf now < e.onTotal now then e.onTotal now - e.tankOf now else e.onTotal now) + e.tankOf now
  split <;> omega

/-- `on_enter_eco_compute` that does not see the reset: the fields the day-level invariants talk about -/
theorem enterCompute_fields (eps : Int) (s : Loop) (h : s.now < s.eco.nextReset) :
    (s.enterCompute eps).1.phase = .compute ∧ (s.enterCompute eps).1.now = s.now
    ∧ (s.enterCompute eps).1.full = s.full ∧ (s.enterCompute eps).1.onToday = s.onToday
    ∧ (s.enterCompute eps).1.days = s.days ∧ (s.enterCompute eps).1.pumpOn = s.pumpOn
    ∧ (s.enterCompute eps).1.gTc = s.now ∧ (s.enterCompute eps).1.gDc = s.eco.filtration.duration
    ∧ (s.enterCompute eps).1.eco.filtration.duration = s.eco.filtration.duration
    ∧ (s.enterCompute eps).1.gN = max 1 (max 0 (s.eco.filtration.delay - s.eco.filtration.duration) / s.eco.periodDuration)
    ∧ (s.enterCompute eps).1.gRc = max 0 (s.eco.nextReset - s.now)
    ∧ (s.enterCompute eps).1.gNr = s.eco.nextReset
    ∧ (s.enterCompute eps).1.gJ = EcoConfig.computeDelayUs + eps ∧ (s.enterCompute eps).1.gCyc = 0
    ∧ (s.enterCompute eps).1.gU = s.gU + (EcoConfig.computeDelayUs + eps)
    ∧ (s.enterCompute eps).1.gPlain = s.gPlain
    ∧ (s.enterCompute eps).1.eco.period = s.eco.period
    ∧ (s.enterCompute eps).1.eco.periodDuration = s.eco.periodDuration
    ∧ (s.enterCompute eps).1.eco.filtration.delay = s.eco.filtration.delay
    ∧ EcoConfig.minOnUs ≤ (s.enterCompute eps).1.eco.onD + (s.enterCompute eps).1.eco.tankD := by
  have hfc := cfg_fC
  have hsp := doUpdate_noreset { s with eco := s.eco.clear } eps EcoConfig.factorComputeNum EcoConfig.factorComputeDen
    (by show ¬ s.eco.nextReset ≤ s.now; omega)
  have hsm := doUpdate_noreset_more { s with eco := s.eco.clear } eps EcoConfig.factorComputeNum EcoConfig.factorComputeDen
    (by show ¬ s.eco.nextReset ≤ s.now; omega)
  simp only [Loop.enterCompute]
  simp only [hfc.1, hfc.2, EcoMode.clear, Timer.clear, Timer.setDelay, Timer.update] at hsp hsm ⊢
  generalize Loop.doUpdate _ eps 0 1 = r at *
  obtain ⟨h1, h2, h3, h4, h5, h6, h7, h8, h9, h10, h11, h12, h13, h14, h15, h16, h17, h18, h19, h20, h21, h22, h23, h24, h25, h26, h27, h28⟩ := hsp
  obtain ⟨m1, m2, m3, m4, m5⟩ := hsm
  have hP := compute_P r.1.eco s.now
  have hrd : r.1.eco.remainingDuration = max 0 (s.eco.filtration.delay - s.eco.filtration.duration) := by
    unfold EcoMode.remainingDuration; rw [h27]
  have hrp : r.1.eco.remainingPeriods = max 1 (max 0 (s.eco.filtration.delay - s.eco.filtration.duration) / s.eco.periodDuration) := by
    unfold EcoMode.remainingPeriods; rw [hrd, m2]
  have hrt : r.1.eco.remainingTime s.now = max 0 (s.eco.nextReset - s.now) := by
    unfold EcoMode.remainingTime; rw [h26]
  have hc : (r.1.eco.compute s.now).filtration = r.1.eco.filtration ∧ (r.1.eco.compute s.now).period = r.1.eco.period
      ∧ (r.1.eco.compute s.now).periodDuration = r.1.eco.periodDuration ∧ (r.1.eco.compute s.now).nextReset = r.1.eco.nextReset :=
    ⟨rfl, rfl, rfl, rfl⟩
  refine ⟨?_, ?_, ?_, ?_, ?_, ?_, ?_, ?_, ?_, ?_, ?_, ?_, ?_, ?_, ?_, ?_, ?_, ?_, ?_, ?_⟩
  all_goals (try simp only [hc.1, hc.2.1, hc.2.2.1, hc.2.2.2, h2, h3, h4, h5, h6, h7, h8, h9, h10, h11, h12, h13, h14, h15, h16, h17, h18, h19, h20, h21, h22, h23, h24, h25, h26, h27, h28, hrd, hrp, hrt, m1, m2, m3])
  all_goals (first | trivial | assumption | rfl | omega | skip)

end Poupool.Eco
