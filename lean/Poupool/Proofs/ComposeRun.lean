import Poupool.Proofs.ComposeInv
/-! The executable scheduler `run` of `Model/Compose.lean` only produces composed steps. -/
namespace Poupool.Compose
open Poupool

theorem eff1_sound (S : CSpec) (g g' : CSt) (h : eff1 S g = some g') : CStep S g g' := by
  simp only [eff1] at h
  split at h
  · cases h
  · rename_i t rest htodo
    split at h
    · rename_i msg ht
      simp only [Option.some.injEq] at h
      subst h
      exact CStep.mTell g t rest msg htodo ht
    · rename_i ht
      simp only [Option.some.injEq] at h
      subst h
      exact CStep.mEmit g t rest htodo ht
  · rename_i ans t f rest htodo
    by_cases hc : (!askHalting S (if ans then t else f) || (g.inbox.all (fun e => !e.1) && S.isHalt g.x)) = true
    · rw [if_pos hc] at h
      simp only [Option.some.injEq] at h
      subst h
      refine CStep.mAsk g ans t f rest htodo ?_
      intro hq
      simp only [hq, Bool.not_true, Bool.false_or, Bool.and_eq_true, List.all_eq_true,
        Bool.not_eq_true'] at hc
      exact ⟨fun e he => hc.1 e he, hc.2⟩
    · rw [if_neg hc] at h
      cases h

theorem drainN_reach (S : CSpec) (n : Nat) : ∀ (g g' : CSt), CReach S g → drainN S n g = some g' → CReach S g' := by
  induction n with
  | zero =>
      intro g g' hr h
      simp only [drainN, Option.some.injEq] at h
      subst h; exact hr
  | succ n ih =>
      intro g g' hr h
      simp only [drainN] at h
      split at h
      · simp only [Option.some.injEq] at h
        subst h; exact hr
      · cases he : eff1 S g with
        | none => simp [he] at h
        | some g1 =>
            simp only [he] at h
            exact ih g1 g' (CReach.step hr (eff1_sound S g g1 he)) h

theorem deliver1_sound (S : CSpec) (pick : St → Bool) (g g' : CSt) (h : deliver1 S pick g = some g') :
    CStep S g g' := by
  simp only [deliver1] at h
  split at h
  · cases h
  · rename_i e rest hin
    by_cases hm : (allMsgs S.DX).contains e.2 = true
    · have hm' : e.2 ∈ allMsgs S.DX := by simpa using hm
      simp only [hm, if_true] at h
      by_cases hc : (!e.1 && S.isStart e.2) = true
      · have hc' : e.1 = false ∧ S.isStart e.2 = true := by simpa using hc
        simp only [hc, if_true] at h
        by_cases hidle : g.todo.isEmpty = true
        · simp only [hidle, if_true] at h
          have hidle' : g.todo = [] := by simpa using hidle
          by_cases hal : S.allowed.contains g.m.leaf = true
          · simp only [hal, if_true] at h
            cases hf : (step S.DX g.x e.2).find? pick with
            | none => simp [hf] at h
            | some x' =>
                simp only [hf, Option.map_some, Option.some.injEq] at h
                subst h
                refine CStep.deliver g e rest x' hin hm' ?_
                rw [if_pos hc', if_pos hal]
                exact ⟨hidle', List.mem_of_find?_eq_some hf⟩
          · simp only [hal, Bool.false_eq_true, if_false, Option.some.injEq] at h
            subst h
            have : CStep S g { g with x := g.x, inbox := rest } := by
              refine CStep.deliver g e rest g.x hin hm' ?_
              rw [if_pos hc', if_neg hal]
              exact ⟨hidle', rfl⟩
            exact this
        · simp only [hidle, Bool.false_eq_true, if_false] at h
          cases h
      · have hc' : ¬(e.1 = false ∧ S.isStart e.2 = true) := by simpa using hc
        simp only [hc, Bool.false_eq_true, if_false] at h
        cases hf : (step S.DX g.x e.2).find? pick with
        | none => simp [hf] at h
        | some x' =>
            simp only [hf, Option.map_some, Option.some.injEq] at h
            subst h
            refine CStep.deliver g e rest x' hin hm' ?_
            rw [if_neg hc']
            exact List.mem_of_find?_eq_some hf
    · simp only [hm, Bool.false_eq_true, if_false] at h
      cases h

theorem serveN_reach (S : CSpec) (pick : St → Bool) (n : Nat) :
    ∀ (g g' : CSt), CReach S g → serveN S pick n g = some g' → CReach S g' := by
  induction n with
  | zero =>
      intro g g' hr h
      simp only [serveN, Option.some.injEq] at h
      subst h; exact hr
  | succ n ih =>
      intro g g' hr h
      simp only [serveN] at h
      split at h
      · simp only [Option.some.injEq] at h
        subst h; exact hr
      · cases he : deliver1 S pick g with
        | none => simp [he] at h
        | some g1 =>
            simp only [he] at h
            exact ih g1 g' (CReach.step hr (deliver1_sound S pick g g1 he)) h

theorem act_reach (S : CSpec) (g g' : CSt) (a : Act) (hr : CReach S g) (h : act S g a = some g') : CReach S g' := by
  cases a with
  | drain => exact drainN_reach S _ g g' hr h
  | eff => exact CReach.step hr (eff1_sound S g g' h)
  | deliver pick => exact CReach.step hr (deliver1_sound S pick g g' h)
  | serve pick => exact serveN_reach S pick _ g g' hr h
  | master msg pick =>
      refine CReach.step hr ?_
      simp only [act] at h
      split at h
      · rename_i hc
        simp only [Bool.and_eq_true, List.isEmpty_iff, List.contains_iff_mem] at hc
        cases hf : (stepE S.DM g.m msg).find? pick with
        | none => simp [hf] at h
        | some o =>
            obtain ⟨m', effs⟩ := o
            simp only [hf, Option.map_some, Option.some.injEq] at h
            subst h
            exact CStep.mBegin g msg m' effs hc.1 hc.2 (List.mem_of_find?_eq_some hf)
      · cases h
  | other m =>
      refine CReach.step hr ?_
      simp only [act] at h
      split at h
      · rename_i hc
        simp only [Option.some.injEq] at h
        subst h
        exact CStep.other g m (by simpa using hc)
      · cases h

theorem run_sound (S : CSpec) (as : List Act) : ∀ (g g' : CSt), CReach S g → run S as g = some g' → CReach S g' := by
  induction as with
  | nil =>
      intro g g' hr h
      simp only [run, Option.some.injEq] at h
      subst h
      exact hr
  | cons a as ih =>
      intro g g' hr h
      simp only [run] at h
      cases ha : act S g a with
      | none => simp [ha] at h
      | some g1 =>
          simp only [ha] at h
          exact ih g1 g' (act_reach S g g1 a hr ha) h

end Poupool.Compose
