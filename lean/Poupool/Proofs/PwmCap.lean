/-
Helper lemmas for C03: the security timer of the PWM model bounds the energised time of the pump.

Ghost semantics: an op list (`wait d`, `tick`, `cancel`, `setValue`, `setPeriod`) is run from an arbitrary start; the
ghost state records the current instant, the instant of the last `do_run`, and the energised time (µs the pump device
was on) since the last daily reset.  Time only passes in `wait`.
-/
import Poupool.Model.Pwm

namespace Poupool.Pwm

inductive Op where
  | wait (d : Int)
  | tick
  | cancel
  | setValue (v : Rat)
  | setPeriod (p : Rat)

structure G where
  s : PwmState
  /-- current instant (µs) -/
  clock : Int
  /-- instant of the most recent `do_run` -/
  lastTick : Int
  /-- energised time of the pump since the last daily reset (or construction), µs -/
  energ : Int
  /-- number of daily resets so far -/
  resets : Nat

def stepG (c : Cfg) (g : G) : Op → G
  | .wait d => { g with clock := g.clock + d, energ := g.energ + (if g.s.pumpOn then d else 0) }
  | .tick =>
    { g with
      s := tick c g.clock g.s
      lastTick := g.clock
      energ := if g.clock > g.s.securityReset then 0 else g.energ
      resets := if g.clock > g.s.securityReset then g.resets + 1 else g.resets }
  | .cancel => { g with s := cancel g.clock g.s }
  | .setValue v => { g with s := setValue v g.s }
  | .setPeriod p => { g with s := setPeriod p g.s }

def runG (c : Cfg) (g : G) (ops : List Op) : G := ops.foldl (stepG c) g

/-- The only assumption on the schedule: time does not run backwards, and while the pump is energised the next
`do_run` (or `do_cancel`) comes at most `Δ` after the previous `do_run`. -/
def okOp (Δ : Int) (g : G) : Op → Prop
  | .wait d => 0 ≤ d ∧ (g.s.pumpOn = true → g.clock + d - g.lastTick ≤ Δ)
  | _ => True

def Valid (c : Cfg) (Δ : Int) : G → List Op → Prop
  | _, [] => True
  | g, op :: ops => okOp Δ g op ∧ Valid c Δ (stepG c g op) ops

instance decOkOp (Δ : Int) (g : G) (op : Op) : Decidable (okOp Δ g op) := by
  cases op <;> unfold okOp <;> infer_instance

def decValid (c : Cfg) (Δ : Int) : (g : G) → (ops : List Op) → Decidable (Valid c Δ g ops)
  | _, [] => isTrue trivial
  | g, op :: ops => @instDecidableAnd _ _ (decOkOp Δ g op) (decValid c Δ (stepG c g op) ops)

instance (c : Cfg) (Δ : Int) (g : G) (ops : List Op) : Decidable (Valid c Δ g ops) := decValid c Δ g ops

/-- freshly constructed PWM at instant `start` -/
def G.init (c : Cfg) (period minRt : Rat) (secDur : Int) (start : Int) : G :=
  { s := PwmState.init c period minRt secDur start, clock := start, lastTick := start, energ := 0, resets := 0 }

/-- The invariant relating the security timer to the energised time. -/
structure Inv (Δ : Int) (g : G) : Prop where
  hstate : g.s.pumpOn = g.s.state
  hlast : g.s.pumpOn = true → g.s.last ≠ none
  hclk : g.lastTick ≤ g.clock
  hu : g.s.pumpOn = true → g.clock - g.lastTick ≤ Δ
  hsecl : g.s.pumpOn = true → g.s.sec.last = some g.lastTick ∨ g.s.sec.last = none
  hd0 : 0 ≤ g.s.sec.duration
  hdon : g.s.pumpOn = true → g.s.sec.duration < g.s.sec.delay
  hdall : g.s.sec.duration ≤ g.s.sec.delay + Δ
  /-- energised ≤ counted + (running, to be counted at the next tick) + one tick, the one tick being already spent
      when the timer has no reference instant (right after a daily reset with the pump on) -/
  he : g.energ ≤ g.s.sec.duration
        + (if g.s.pumpOn then g.clock - g.lastTick else 0)
        + (if g.s.pumpOn = true ∧ g.s.sec.last = none then 0 else Δ)

theorem block_spec (t : Int) (l : Rat) (s : PwmState) :
    (block t l s).securityReset = s.securityReset ∧ (block t l s).sec.delay = s.sec.delay ∧
    (block t l s).sec.last = some t ∧ (block t l s).last = s.last ∧
    (s.state = true →
      (block t l s).sec.duration = (s.sec.update t 1).duration ∧
      (((block t l s).state = false ∧ (block t l s).pumpOn = false) ∨
       ((block t l s).state = true ∧ (block t l s).pumpOn = s.pumpOn ∧
          (block t l s).sec.duration < s.sec.delay))) ∧
    (s.state = false →
      (block t l s).sec.duration = s.sec.duration ∧
      (((block t l s).state = true ∧ (block t l s).pumpOn = true ∧ s.sec.duration < s.sec.delay) ∨
       ((block t l s).state = false ∧ (block t l s).pumpOn = s.pumpOn))) := by
  unfold block
  cases hs : s.state
  · simp only [Bool.false_eq_true, if_false]
    split
    · rename_i h
      have h3 := h.2.2
      simp [Timer.update, Timer.elapsed] at h3 ⊢
      cases hl : s.sec.last <;> simp [hl] at h3 ⊢ <;> omega
    · simp [Timer.update]
      cases hl : s.sec.last <;> simp
  · simp only [if_true]
    split
    · simp [Timer.update]
    · rename_i h
      simp [Timer.update, Timer.elapsed] at h ⊢
      omega

theorem inv_init (c : Cfg) (period minRt : Rat) (secDur start Δ : Int)
    (hS : 0 ≤ secDur * c.securityUnitUs) (hΔ : 0 ≤ Δ) : Inv Δ (G.init c period minRt secDur start) := by
  refine ⟨rfl, ?_, ?_, ?_, ?_, ?_, ?_, ?_, ?_⟩ <;>
    simp [G.init, PwmState.init, Timer.mk'] <;> omega

theorem inv_wait {Δ : Int} {g : G} (c : Cfg) (d : Int) (h : Inv Δ g) (ok : okOp Δ g (.wait d)) :
    Inv Δ (stepG c g (.wait d)) := by
  obtain ⟨hd, hdl⟩ := ok
  obtain ⟨h1, h2, h3, h4, h5, h6, h7, h8, h9⟩ := h
  refine ⟨h1, h2, ?_, ?_, h5, h6, h7, h8, ?_⟩
  · simp only [stepG]; omega
  · intro hp; simp only [stepG] at hp ⊢; have := hdl hp; omega
  · simp only [stepG]
    by_cases hp : g.s.pumpOn = true
    · by_cases hn : g.s.sec.last = none
      · simp only [hp, hn, if_true, and_self] at h9 ⊢; omega
      · simp only [hp, hn, if_true, and_false, if_false] at h9 ⊢; omega
    · have hp' : g.s.pumpOn = false := by simpa using hp
      simp only [hp', Bool.false_eq_true, if_false, false_and] at h9 ⊢; omega

/-- the `if self.__last is not None:` block, executed at the current instant -/
theorem inv_block {Δ : Int} {g : G} (l : Rat) (h : Inv Δ g) (hΔ : 0 ≤ Δ) (hl : g.s.last = some l) :
    Inv Δ { g with s := block g.clock l g.s, lastTick := g.clock } := by
  obtain ⟨b1, b2, b3, b4, bon, boff⟩ := block_spec g.clock l g.s
  obtain ⟨h1, h2, h3, h4, h5, h6, h7, h8, h9⟩ := h
  cases hs : g.s.state
  · -- pump off before
    have hp : g.s.pumpOn = false := by rw [h1, hs]
    obtain ⟨c1, c2⟩ := boff hs
    simp only [hp, Bool.false_eq_true, false_and, if_false] at h9
    rcases c2 with ⟨d1, d2, d3⟩ | ⟨d1, d2⟩
    · refine ⟨?_, ?_, ?_, ?_, ?_, ?_, ?_, ?_, ?_⟩ <;> grind
    · refine ⟨?_, ?_, ?_, ?_, ?_, ?_, ?_, ?_, ?_⟩ <;> grind
  · have hp : g.s.pumpOn = true := by rw [h1, hs]
    obtain ⟨c1, c2⟩ := bon hs
    have hu := h4 hp
    have hdon := h7 hp
    simp only [hp, if_true, true_and] at h9
    simp only [Timer.update] at c1
    rcases h5 hp with hsl | hsl <;> simp only [hsl] at c1 h9 <;>
    rcases c2 with ⟨d1, d2⟩ | ⟨d1, d2, d3⟩ <;>
    refine ⟨?_, ?_, ?_, ?_, ?_, ?_, ?_, ?_, ?_⟩ <;> grind

/-- the daily reset and `self.__last = now`, right after the block (so `lastTick = clock`) -/
theorem inv_finish {Δ : Int} {g : G} (c : Cfg) (x : Rat) (h : Inv Δ g) (hΔ : 0 ≤ Δ) (hlt : g.lastTick = g.clock) :
    Inv Δ { g with
      s := { dailyReset c g.clock g.s with last := some x }
      energ := if g.clock > g.s.securityReset then 0 else g.energ
      resets := if g.clock > g.s.securityReset then g.resets + 1 else g.resets } := by
  obtain ⟨h1, h2, h3, h4, h5, h6, h7, h8, h9⟩ := h
  unfold dailyReset
  by_cases hr : g.clock > g.s.securityReset
  · simp only [hr, if_true, Timer.reset]
    refine ⟨?_, ?_, ?_, ?_, ?_, ?_, ?_, ?_, ?_⟩ <;> grind
  · simp only [hr, if_false]
    refine ⟨?_, ?_, ?_, ?_, ?_, ?_, ?_, ?_, ?_⟩ <;> grind

theorem inv_tick {Δ : Int} {g : G} (c : Cfg) (h : Inv Δ g) (hΔ : 0 ≤ Δ) : Inv Δ (stepG c g .tick) := by
  simp only [stepG, tick]
  cases hl : g.s.last with
  | none =>
    have hp : g.s.pumpOn = false := by
      cases hq : g.s.pumpOn
      · rfl
      · exact absurd hl (h.hlast hq)
    have h' : Inv Δ { g with lastTick := g.clock } := by
      obtain ⟨h1, h2, h3, h4, h5, h6, h7, h8, h9⟩ := h
      refine ⟨?_, ?_, ?_, ?_, ?_, ?_, ?_, ?_, ?_⟩ <;> grind
    exact inv_finish c (secs g.clock) h' hΔ rfl
  | some l =>
    have h' := inv_block l h hΔ hl
    have := inv_finish c (secs g.clock) h' hΔ rfl
    have hsr : (block g.clock l g.s).securityReset = g.s.securityReset := (block_spec g.clock l g.s).1
    simpa [hsr] using this

theorem inv_cancel {Δ : Int} {g : G} (c : Cfg) (h : Inv Δ g) (_hΔ : 0 ≤ Δ) : Inv Δ (stepG c g .cancel) := by
  obtain ⟨h1, h2, h3, h4, h5, h6, h7, h8, h9⟩ := h
  simp only [stepG, cancel, Timer.clear, Timer.update]
  cases hs : g.s.state
  · have hp : g.s.pumpOn = false := by rw [h1, hs]
    refine ⟨?_, ?_, ?_, ?_, ?_, ?_, ?_, ?_, ?_⟩ <;> grind
  · have hp : g.s.pumpOn = true := by rw [h1, hs]
    have hu := h4 hp
    have hdon := h7 hp
    rcases h5 hp with hsl | hsl <;>
    refine ⟨?_, ?_, ?_, ?_, ?_, ?_, ?_, ?_, ?_⟩ <;> grind

theorem inv_step {Δ : Int} {g : G} (c : Cfg) (op : Op) (h : Inv Δ g) (hΔ : 0 ≤ Δ) (ok : okOp Δ g op) :
    Inv Δ (stepG c g op) := by
  cases op with
  | wait d => exact inv_wait c d h ok
  | tick => exact inv_tick c h hΔ
  | cancel => exact inv_cancel c h hΔ
  | setValue v =>
    obtain ⟨h1, h2, h3, h4, h5, h6, h7, h8, h9⟩ := h
    exact ⟨h1, h2, h3, h4, h5, h6, h7, h8, h9⟩
  | setPeriod p =>
    obtain ⟨h1, h2, h3, h4, h5, h6, h7, h8, h9⟩ := h
    exact ⟨h1, h2, h3, h4, h5, h6, h7, h8, h9⟩

theorem inv_run {Δ : Int} (c : Cfg) (hΔ : 0 ≤ Δ) (ops : List Op) :
    ∀ g : G, Inv Δ g → Valid c Δ g ops → Inv Δ (runG c g ops) := by
  induction ops with
  | nil => intro g h _; exact h
  | cons op ops ih =>
    intro g h hv
    exact ih _ (inv_step c op h hΔ hv.1) hv.2

/-- the delay of the security timer never changes -/
theorem delay_step (c : Cfg) (g : G) (op : Op) : (stepG c g op).s.sec.delay = g.s.sec.delay := by
  cases op with
  | wait d => rfl
  | tick =>
    simp only [stepG, tick, dailyReset]
    cases hl : g.s.last with
    | none => simp only []; split <;> rfl
    | some l =>
      have := (block_spec g.clock l g.s).2.1
      simp only []; split <;> simpa [Timer.reset] using this
  | cancel => simp only [stepG, cancel, Timer.clear, Timer.update]; split <;> rfl
  | setValue v => rfl
  | setPeriod p => rfl

theorem delay_run (c : Cfg) (ops : List Op) : ∀ g : G, (runG c g ops).s.sec.delay = g.s.sec.delay := by
  induction ops with
  | nil => intro g; rfl
  | cons op ops ih => intro g; exact (ih _).trans (delay_step c g op)

/-- The invariant gives the cap: energised since the last reset ≤ delay + 2Δ. -/
theorem inv_bound {Δ : Int} {g : G} (h : Inv Δ g) : g.energ ≤ g.s.sec.delay + 2 * Δ := by
  obtain ⟨h1, h2, h3, h4, h5, h6, h7, h8, h9⟩ := h
  grind

end Poupool.Pwm
