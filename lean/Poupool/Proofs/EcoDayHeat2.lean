/-
  Whole days WITH a heating interlude (C10 section (f)).

  The invariants `Inv` / `DayInv` of the tick-only proofs demand `gPlain = true` and closed records for every finished
  day, so they break at `heat`.  They are re-used here through a *shadow* of the state: the day-bookkeeping ghosts
  (`full`, `gPlain`, `days`, `gU`) overridden.  Those fields never influence the behaviour, so the shadow of a step is
  the step of the shadow (as long as no reset is seen), and the tick theorems apply to the shadow.
-/
import Poupool.Proofs.EcoDayInv
import Poupool.Proofs.EcoDayHeat

set_option linter.unusedSimpArgs false
set_option linter.unusedVariables false
namespace Poupool.Eco
open Poupool.Generated

/-- shadow of a state: `gPlain := true`, no finished days, `gU` shifted by `X`, `onToday` shifted by `Y`, `full` kept (`k = true`) or cleared -/
def shadow (X Y : Int) (k : Bool) (s : Loop) : Loop :=
  { s with full := s.full && k, gPlain := true, days := [], gU := s.gU + X, onToday := s.onToday + Y }

theorem shadow_advance (X Y : Int) (k : Bool) (s : Loop) (t : Int) : (shadow X Y k s).advance t = shadow X Y k (s.advance t) := by
  simp [shadow, Loop.advance, Int.add_right_comm] <;> rfl

theorem shadow_doUpdate (X Y : Int) (k : Bool) (s : Loop) (eps fnum fden : Int) (h : ¬ s.eco.nextReset ≤ s.now) :
    ((shadow X Y k s).doUpdate eps fnum fden).1 = shadow X Y k (s.doUpdate eps fnum fden).1
    ∧ ((shadow X Y k s).doUpdate eps fnum fden).2 = (s.doUpdate eps fnum fden).2 := by
  by_cases hs : EcoConfig.saveIntervalUs < s.now - s.eco.lastSave <;>
    simp [Loop.doUpdate, EcoMode.update, h, shadow, hs]

theorem shadow_polled (X Y : Int) (k : Bool) (s : Loop) (eps j0 fnum fden : Int) (h : ¬ s.eco.nextReset ≤ max s.now s.due + j0) :
    polled eps (shadow X Y k s) j0 fnum fden = shadow X Y k (polled eps s j0 fnum fden) :=
  by
  have e : polled eps (shadow X Y k s) j0 fnum fden
      = (((shadow X Y k s).advance (max s.now s.due + j0)).doUpdate eps fnum fden).1 := rfl
  rw [e, shadow_advance]
  exact (shadow_doUpdate X Y k (s.advance (max s.now s.due + j0)) eps fnum fden (by simpa using h)).1

local macro "shadow_close" : tactic =>
  `(tactic| (simp [shadow, Loop.enterWaiting, Loop.enterNormal, Loop.enterTank, Loop.advance, Int.add_right_comm] <;> rfl))

/-- a tick that is handled before the reset commutes with the shadow (polled phases and `eco_compute`) -/
theorem shadow_tick (X Y : Int) (k : Bool) (eps : Int) (s : Loop) (j0 j1 j2 : Int)
    (hph : s.phase = .compute ∨ s.phase = .waiting ∨ s.phase = .normal ∨ s.phase = .tank)
    (h : s.phase = .compute ∨ ¬ s.eco.nextReset ≤ max s.now s.due + j0) :
    (ecoStep eps (shadow X Y k s) (.tick j0 j1 j2)).1 = shadow X Y k (ecoStep eps s (.tick j0 j1 j2)).1 := by
  rcases hph with hp | hp | hp | hp
  · cases htn : s.toNormal
    · rw [step_compute_waiting eps s hp htn, step_compute_waiting eps (shadow X Y k s) hp htn]; shadow_close
    · rw [step_compute_normal eps s hp htn, step_compute_normal eps (shadow X Y k s) hp htn]; shadow_close
  · have hr : ¬ s.eco.nextReset ≤ max s.now s.due + j0 := by
      rcases h with h | h
      · rw [hp] at h; cases h
      · exact h
    have hpo := shadow_polled X Y k s eps j0 0 1 hr
    cases he : (polled eps s j0 0 1).eco.elapsedOff
    · rw [step_waiting_stay eps s hp j0 j1 j2 hr he,
        step_waiting_stay eps (shadow X Y k s) hp j0 j1 j2 hr (by rw [hpo]; exact he), hpo]; shadow_close
    · rw [step_waiting_go eps s hp j0 j1 j2 hr he,
        step_waiting_go eps (shadow X Y k s) hp j0 j1 j2 hr (by rw [hpo]; exact he), hpo]; shadow_close
  · have hr : ¬ s.eco.nextReset ≤ max s.now s.due + j0 := by
      rcases h with h | h
      · rw [hp] at h; cases h
      · exact h
    have hpo := shadow_polled X Y k s eps j0 1 1 hr
    cases he : ((polled eps s j0 1 1).eco.elapsedOn && decide (0 < (polled eps s j0 1 1).eco.tankD))
    · rw [step_normal_stay eps s hp j0 j1 j2 hr he,
        step_normal_stay eps (shadow X Y k s) hp j0 j1 j2 hr (by rw [hpo]; exact he), hpo]; shadow_close
    · rw [step_normal_go eps s hp j0 j1 j2 hr he,
        step_normal_go eps (shadow X Y k s) hp j0 j1 j2 hr (by rw [hpo]; exact he), hpo]; shadow_close
  · have hr : ¬ s.eco.nextReset ≤ max s.now s.due + j0 := by
      rcases h with h | h
      · rw [hp] at h; cases h
      · exact h
    have hpo := shadow_polled X Y k s eps j0 1 1 hr
    cases he : (polled eps s j0 1 1).eco.elapsedOn
    · rw [step_tank_stay eps s hp j0 j1 j2 hr he,
        step_tank_stay eps (shadow X Y k s) hp j0 j1 j2 hr (by rw [hpo]; exact he), hpo]; shadow_close
    · rw [step_tank_go eps s hp j0 j1 j2 hr he,
        step_tank_go eps (shadow X Y k s) hp j0 j1 j2 hr (by rw [hpo]; exact he), hpo]; shadow_close

/-! ### the poll that sees the reset: the record of the finished day -/

theorem reload_days (eps : Int) (u : Loop) (j1 j2 : Int) (h : u.now + j1 + j2 < u.eco.nextReset) :
    (u.reloadEco eps j1 j2).1.days = u.days := by
  simp only [Loop.reloadEco]
  generalize hx : Loop.advance _ _ = x
  have hxnow : x.now = u.now + j1 + j2 := by subst hx; simp [Loop.advance]
  have hxnr : x.eco.nextReset = u.eco.nextReset := by subst hx; simp [Loop.advance, EcoMode.clear]
  have hxdays : x.days = u.days := by subst hx; simp [Loop.advance]
  have f := enterCompute_fields eps x (by rw [hxnow, hxnr]; omega)
  rw [f.2.2.2.2.1, hxdays]

/-- the record pushed by a poll at `t` that sees the reset -/
def recAt (eps : Int) (s : Loop) (t fnum fden : Int) : DayRec :=
  { on := s.onToday + (if s.pumpOn then t - s.now else 0), full := s.full, plain := s.gPlain,
    dur := (s.eco.filtration.update t fnum fden).duration, u := s.gU,
    lb := min s.eco.filtration.delay (s.gDc + s.gRc) - slackOf eps s.gJ s.gN,
    ub := s.eco.filtration.delay + EcoConfig.pollDelayUs + eps, cyc := s.gCyc, n := s.gN, j := s.gJ }

/-- factor of the poll of a polled eco phase -/
def pollF : Phase → Int | .waiting => 0 | _ => 1

theorem reset_days (eps : Int) (s : Loop) (j0 j1 j2 : Int)
    (hph : s.phase = .waiting ∨ s.phase = .normal ∨ s.phase = .tank)
    (hr : s.eco.nextReset ≤ max s.now s.due + j0)
    (hn : max s.now s.due + j0 + j1 + j2 < s.eco.nextReset + DAY) :
    (ecoStep eps s (.tick j0 j1 j2)).1.days = recAt eps s (max s.now s.due + j0) (pollF s.phase) 1 :: s.days := by
  have key : ∀ f : Int, ((polled eps s j0 f 1).reloadEco eps j1 j2).1.days = recAt eps s (max s.now s.due + j0) f 1 :: s.days := by
    intro f
    have hsp := doUpdate_reset (s.advance (max s.now s.due + j0)) eps f 1 (by simpa using hr)
    obtain ⟨r1, r2, r3, r4, r5, r6, r7, r8, r9⟩ := hsp
    rw [reload_days eps _ j1 j2 (by simp only [polled]; rw [r2, r6]; simpa using hn)]
    simp only [polled]; rw [r9]; rfl
  rcases hph with hp | hp | hp
  · rw [step_waiting_reset eps s hp j0 j1 j2 hr, hp]; exact key 0
  · rw [step_normal_reset eps s hp j0 j1 j2 hr, hp]; exact key 1
  · rw [step_tank_reset eps s hp j0 j1 j2 hr, hp]; exact key 1

/-! ### what a tick before the reset does to the day bookkeeping of the REAL state -/

theorem polled_keep (eps : Int) (s : Loop) (j0 f : Int) (hr : ¬ s.eco.nextReset ≤ max s.now s.due + j0) :
    (polled eps s j0 f 1).days = s.days ∧ (polled eps s j0 f 1).full = s.full ∧ (polled eps s j0 f 1).gPlain = s.gPlain
    ∧ (polled eps s j0 f 1).gU = s.gU ∧ (polled eps s j0 f 1).gJ = s.gJ
    ∧ (polled eps s j0 f 1).now = max s.now s.due + j0
    ∧ (polled eps s j0 f 1).onToday = s.onToday + (if s.pumpOn then max s.now s.due + j0 - s.now else 0)
    ∧ (polled eps s j0 f 1).pumpOn = s.pumpOn
    ∧ (polled eps s j0 f 1).gDc = s.gDc ∧ (polled eps s j0 f 1).gRc = s.gRc
    ∧ (polled eps s j0 f 1).eco.nextReset = s.eco.nextReset := by
  have hsp := doUpdate_noreset (s.advance (max s.now s.due + j0)) eps f 1 (by simpa using hr)
  obtain ⟨h1, h2, h3, h4, h5, h6, h7, h8, h9, h10, h11, h12, h13, h14, h15, h16, h17, h18, h19, h20, h21, h22, h23⟩ := hsp
  simp only [polled]
  exact ⟨h7, h8, h22, h21, h16, h2, h6, h5, h11, h15, h23.2.2.2.1⟩

/-- the day bookkeeping kept by a tick before the reset -/
structure Keep (s s' : Loop) : Prop where
  hdays : s'.days = s.days
  hfull : s'.full = s.full
  hplain : s'.gPlain = s.gPlain
  hUJ : s'.gU - s'.gJ ≤ s.gU - s.gJ
  hlen : s'.onToday - s'.now ≤ s.onToday - s.now
  hDc : s'.gDc = s.gDc
  hRc : s'.gRc = s.gRc
  hNR : s'.eco.nextReset = s.eco.nextReset

local macro "keep_close" h:ident : tactic =>
  `(tactic| (obtain ⟨k1, k2, k3, k4, k5, k6, k7, k8, k9, k10, k11⟩ := $h
             constructor <;>
               simp only [Loop.enterWaiting, Loop.enterNormal, Loop.enterTank, Loop.advance, EcoMode.clear, EcoMode.setCurrent, k1, k2, k3, k4, k5, k6, k7, k8, k9, k10, k11] <;>
               (try split) <;> omega))

theorem tick_keep (eps : Int) (s : Loop) (j0 j1 j2 : Int) (he : 0 ≤ eps) (hj0 : 0 ≤ j0) (hj1 : 0 ≤ j1)
    (hph : s.phase = .compute ∨ s.phase = .waiting ∨ s.phase = .normal ∨ s.phase = .tank)
    (h : s.phase = .compute ∨ ¬ s.eco.nextReset ≤ max s.now s.due + j0) :
    Keep s (ecoStep eps s (.tick j0 j1 j2)).1 := by
  rcases hph with hp | hp | hp | hp
  · cases htn : s.toNormal
    · rw [step_compute_waiting eps s hp htn]
      constructor <;> simp only [Loop.enterWaiting, Loop.advance, EcoMode.clear, EcoMode.setCurrent] <;> (try split) <;> omega
    · rw [step_compute_normal eps s hp htn]
      constructor <;> simp only [Loop.enterNormal, Loop.advance, EcoMode.clear, EcoMode.setCurrent] <;> (try split) <;> omega
  · have hr : ¬ s.eco.nextReset ≤ max s.now s.due + j0 := by
      rcases h with h | h
      · rw [hp] at h; cases h
      · exact h
    have hk := polled_keep eps s j0 0 hr
    cases hel : (polled eps s j0 0 1).eco.elapsedOff
    · rw [step_waiting_stay eps s hp j0 j1 j2 hr hel]; keep_close hk
    · rw [step_waiting_go eps s hp j0 j1 j2 hr hel]; keep_close hk
  · have hr : ¬ s.eco.nextReset ≤ max s.now s.due + j0 := by
      rcases h with h | h
      · rw [hp] at h; cases h
      · exact h
    have hk := polled_keep eps s j0 1 hr
    cases hel : ((polled eps s j0 1 1).eco.elapsedOn && decide (0 < (polled eps s j0 1 1).eco.tankD))
    · rw [step_normal_stay eps s hp j0 j1 j2 hr hel]; keep_close hk
    · rw [step_normal_go eps s hp j0 j1 j2 hr hel]; keep_close hk
  · have hr : ¬ s.eco.nextReset ≤ max s.now s.due + j0 := by
      rcases h with h | h
      · rw [hp] at h; cases h
      · exact h
    have hk := polled_keep eps s j0 1 hr
    cases hel : (polled eps s j0 1 1).eco.elapsedOn
    · rw [step_tank_stay eps s hp j0 j1 j2 hr hel]; keep_close hk
    · rw [step_tank_go eps s hp j0 j1 j2 hr hel]; keep_close hk

/-! ### after the interlude, until the poll that sees the reset -/

/-- The state between the `eco_compute` that follows a heating interlude and the reset poll.  `X`, `Y`: shifts of the
shadow (`Y = accounted duration - pump-on time` when the interlude's delay expires, `X = - gU` then); `Dc`, `Rc`: the
accounted duration and the time to the reset at that compute; `L`: bound of `onToday - now`. -/
structure PostHeat (eps per delay X Y Dc Rc L NR : Int) (days0 : List DayRec) (s : Loop) : Prop where
  hq : Inv eps (shadow X Y true s)
  hp : Inv eps (shadow X Y false s)
  hd : DayInv eps per delay (shadow X Y false s)
  hfull : s.full = true
  hplain : s.gPlain = false
  hdays : s.days = days0
  hUJ : s.gU + X ≤ s.gJ
  hDc : s.gDc = Dc
  hRc : s.gRc = Rc
  hlen : s.onToday - s.now ≤ L
  hNR : s.eco.nextReset = NR

theorem postHeat_tick (eps per delay X Y Dc Rc L NR : Int) (days0 : List DayRec) (s : Loop) (hst : Static eps per delay)
    (h : PostHeat eps per delay X Y Dc Rc L NR days0 s) (j0 j1 j2 : Int) (hok : TickOK eps (.tick j0 j1 j2))
    (hnr : s.phase = .compute ∨ ¬ s.eco.nextReset ≤ max s.now s.due + j0) :
    PostHeat eps per delay X Y Dc Rc L NR days0 (ecoStep eps s (.tick j0 j1 j2)).1 := by
  obtain ⟨hq, hp, hd, hfull, hplain, hdays, hUJ, hDc, hRc, hlen, hNR⟩ := h
  have hph : s.phase = .compute ∨ s.phase = .waiting ∨ s.phase = .normal ∨ s.phase = .tank :=
    not_heating_of_inv eps (shadow X Y true s) hq
  have hk := tick_keep eps s j0 j1 j2 hst.heps hok.1 hok.2.2.1 hph hnr
  have e1 := shadow_tick X Y true eps s j0 j1 j2 hph hnr
  have e2 := shadow_tick X Y false eps s j0 j1 j2 hph hnr
  refine ⟨?_, ?_, ?_, ?_, ?_, ?_, ?_, ?_, ?_, ?_, ?_⟩
  · rw [← e1]; exact step_inv eps _ hq _ hok
  · rw [← e2]; exact step_inv eps _ hp _ hok
  · rw [← e2]; exact day_step eps per delay _ hp hd hst _ hok
  · rw [hk.hfull]; exact hfull
  · rw [hk.hplain]; exact hplain
  · rw [hk.hdays]; exact hdays
  · have := hk.hUJ; omega
  · rw [hk.hDc]; exact hDc
  · rw [hk.hRc]; exact hRc
  · have := hk.hlen; omega
  · rw [hk.hNR]; exact hNR

theorem due_le_of_inv (eps : Int) (s : Loop) (h : Inv eps s)
    (hph : s.phase = .waiting ∨ s.phase = .normal ∨ s.phase = .tank) : s.due ≤ s.now + EcoConfig.pollDelayUs := by
  have hpoll := cfg_poll
  rcases h.hphase with ⟨hc, _⟩ | ⟨_, _, ht, _⟩ | ⟨_, _, ht, _⟩ | ⟨_, _, ht, _⟩
  · rcases hph with h | h | h <;> rw [hc] at h <;> cases h
  all_goals (rcases ht with ⟨_, _, _, hd⟩ | ⟨_, _, hd⟩ <;> omega)

/-- what the tick theorems say about the record of the heating day (through the shadow that keeps `full`) -/
theorem postHeat_reset (eps per delay X Y Dc Rc L NR : Int) (days0 : List DayRec) (s : Loop) (hst : Static eps per delay)
    (h : PostHeat eps per delay X Y Dc Rc L NR days0 s) (j0 j1 j2 : Int) (hok : TickOK eps (.tick j0 j1 j2))
    (hph : s.phase = .waiting ∨ s.phase = .normal ∨ s.phase = .tank)
    (hr : s.eco.nextReset ≤ max s.now s.due + j0) :
    ∃ r : DayRec, (ecoStep eps s (.tick j0 j1 j2)).1.days = r :: days0 ∧ r.full = true ∧ r.plain = false
      ∧ min delay (Dc + Rc) - slackOf eps s.gJ s.gN ≤ r.dur
      ∧ r.dur ≤ delay + EcoConfig.pollDelayUs + eps
      ∧ r.dur ≤ r.on + Y ∧ r.on + Y ≤ r.dur + s.gJ
      ∧ r.on ≤ L + NR + EcoConfig.computeDelayUs + EcoConfig.pollDelayUs + 2 * eps := by
  obtain ⟨hq, hp, hd, hfull, hplain, hdays, hUJ, hDc, hRc, hlen, hNR⟩ := h
  obtain ⟨a1, a2, a3, a4, a5, a6⟩ := hok
  have hpoll := cfg_poll
  have hcd := cfg_cd
  have hDAY : DAY = 86400000000 := rfl
  have hHOUR : HOUR = 3600000000 := rfl
  have hdue := due_le_of_inv eps _ hq hph
  have hnext := hq.common.hnext
  have heps2 := hst.heps5
  have hdue' : s.due ≤ s.now + EcoConfig.pollDelayUs := hdue
  have hnext' : s.now < s.eco.nextReset + EcoConfig.computeDelayUs + eps := hnext
  have hn : max s.now s.due + j0 + j1 + j2 < s.eco.nextReset + DAY := by omega
  have e1 := reset_days eps s j0 j1 j2 hph hr hn
  have e2 := reset_days eps (shadow X Y true s) j0 j1 j2 hph hr hn
  have hi := step_inv eps _ hq (.tick j0 j1 j2) ⟨a1, a2, a3, a4, a5, a6⟩
  have hok := hi.common.hdays _ (by rw [e2]; exact List.mem_cons_self ..)
  have hdel : s.eco.filtration.delay = delay := hd.hdel
  obtain ⟨o1, o2, o3, o4⟩ := hok (by simp [recAt, shadow, hfull]) (by simp [recAt, shadow])
  refine ⟨_, by rw [e1, hdays], hfull, hplain, ?_, ?_, ?_, ?_, ?_⟩
  · simp only [recAt, shadow] at o1 ⊢; rw [← hDc, ← hRc, ← hdel]; exact o1
  · simp only [recAt, shadow] at o2 ⊢; rw [← hdel]; exact o2
  · cases hpu : s.pumpOn <;> simp [recAt, shadow, hpu] at o3 ⊢ <;> omega
  · cases hpu : s.pumpOn <;> simp [recAt, shadow, hpu] at o4 ⊢ <;> omega
  · simp only [recAt]; rw [← hNR]; split <;> omega

/-- slack of one plan: compute delay, one poll of overshoot per pause, rounding, lateness (`slackLo` without the
reset-poll term `10 s + 3 eps`) -/
def slackPlan (per eps : Int) : Int := 5000000 + per * 10000001 + 7 * (per * eps) + 9 * eps

theorem closed_of_dayInv (eps per delay : Int) (p : Loop) (hst : Static eps per delay) (hi : Inv eps p) (hd : DayInv eps per delay p)
    (hph : p.phase = .waiting ∨ p.phase = .normal ∨ p.phase = .tank) :
    p.gJ ≤ EcoConfig.computeDelayUs + 6 * (per * eps) + 9 * eps ∧ 1 ≤ p.gN ∧ p.gN ≤ per
    ∧ slackOf eps p.gJ p.gN ≤ slackPlan per eps := by
  obtain ⟨heps, heps5, hper1, hper2, hdl⟩ := hst
  obtain ⟨dper, ddel, dpd, dP, didle, dN, dcyc, dJ, dfull, ddays, dseq⟩ := hd
  have hpoll := cfg_poll
  have hcd := cfg_cd
  have hN1 := hi.common.hN
  have hce1 := mul_eps_le p.gCyc (per + 1) eps
  have hce0 := mul_eps_le p.gCyc per eps
  have hsm := succ_mul_eps per eps
  have h1 : p.gN * (EcoConfig.pollDelayUs + eps) ≤ per * (EcoConfig.pollDelayUs + eps) :=
    Int.mul_le_mul_of_nonneg_right dN (by omega)
  have h2 : per * (EcoConfig.pollDelayUs + eps) = per * EcoConfig.pollDelayUs + per * eps := Int.mul_add _ _ _
  have hJ : p.gJ ≤ EcoConfig.computeDelayUs + 6 * (per * eps) + 9 * eps := by
    rcases hph with hk | hk | hk <;> simp only [hk, kJ, inCycle] at dcyc dJ
    · have := hce1 (by omega) heps; omega
    · have := hce0 (by omega) heps; omega
    · have := hce0 (by omega) heps; omega
  refine ⟨hJ, hN1, dN, ?_⟩
  unfold slackOf slackPlan
  rw [hpoll] at h1 h2 ⊢
  omega

/-! ### finished days are never removed -/

theorem doUpdate_days_suffix (eps : Int) (s : Loop) (a b : Int) : s.days <:+ (s.doUpdate eps a b).1.days := by
  simp only [Loop.doUpdate]
  split
  · simp only [Loop.roll]; exact List.suffix_cons _ _
  · exact List.suffix_refl _

theorem enterCompute_days_suffix (eps : Int) (s : Loop) : s.days <:+ (s.enterCompute eps).1.days :=
  doUpdate_days_suffix eps { s with eco := s.eco.clear } EcoConfig.factorComputeNum EcoConfig.factorComputeDen

theorem reloadEco_days_suffix (eps : Int) (s : Loop) (j1 j2 : Int) : s.days <:+ (s.reloadEco eps j1 j2).1.days :=
  enterCompute_days_suffix eps
    (Loop.advance { (s.advance (s.now + j1)) with
                    eco := (s.advance (s.now + j1)).eco.clear
                    gU := (s.advance (s.now + j1)).gU + 2 * eps } ((s.advance (s.now + j1)).now + j2))

theorem step_days_suffix (eps : Int) (s : Loop) (e : Ev) : s.days <:+ (ecoStep eps s e).1.days := by
  cases e with
  | tick j0 j1 j2 =>
    simp only [ecoStep]
    split
    · split <;> exact List.suffix_refl _
    · exact enterCompute_days_suffix eps (s.advance (max s.now s.due + j0))
    · exact doUpdate_days_suffix eps (s.advance (max s.now s.due + j0)) _ _
    · have hs := doUpdate_days_suffix eps (s.advance (max s.now s.due + j0)) EcoConfig.factorWaitingNum EcoConfig.factorWaitingDen
      generalize (s.advance (max s.now s.due + j0)).doUpdate eps EcoConfig.factorWaitingNum EcoConfig.factorWaitingDen = u at *
      simp only [adv_days] at hs
      split
      · exact hs.trans (reloadEco_days_suffix eps u.1 j1 j2)
      · split <;> exact hs
    · have hs := doUpdate_days_suffix eps (s.advance (max s.now s.due + j0)) EcoConfig.factorNormalNum EcoConfig.factorNormalDen
      generalize (s.advance (max s.now s.due + j0)).doUpdate eps EcoConfig.factorNormalNum EcoConfig.factorNormalDen = u at *
      simp only [adv_days] at hs
      split
      · exact hs.trans (reloadEco_days_suffix eps u.1 j1 j2)
      · split <;> exact hs
    · have hs := doUpdate_days_suffix eps (s.advance (max s.now s.due + j0)) EcoConfig.factorTankNum EcoConfig.factorTankDen
      generalize (s.advance (max s.now s.due + j0)).doUpdate eps EcoConfig.factorTankNum EcoConfig.factorTankDen = u at *
      simp only [adv_days] at hs
      split
      · exact hs.trans (reloadEco_days_suffix eps u.1 j1 j2)
      · split <;> exact hs
  | heat dt => simp only [ecoStep]; split <;> exact List.suffix_refl _
  | heatEnd dt => simp only [ecoStep]; split <;> exact List.suffix_refl _

theorem run_days_suffix (eps : Int) (evs : List Ev) : ∀ s : Loop, s.days <:+ (ecoFinal eps s evs).days := by
  induction evs with
  | nil => intro s; exact List.suffix_refl _
  | cons e es ih => intro s; exact (step_days_suffix eps s e).trans (ih _)

/-! ### the record of the heating day -/

/-- claims about the record of a day whose last plan was made after a heating interlude (`Y`, `Dc`, `Rc`, `L`, `NR` as
in `PostHeat`) -/
def HeatRec (eps per delay Y Dc Rc L NR : Int) (r : DayRec) : Prop :=
  r.full = true ∧ r.plain = false
  ∧ min delay (Dc + Rc) - slackPlan per eps ≤ r.dur
  ∧ r.dur ≤ delay + EcoConfig.pollDelayUs + eps
  ∧ r.dur ≤ r.on + Y
  ∧ r.on + Y ≤ r.dur + (EcoConfig.computeDelayUs + 6 * (per * eps) + 9 * eps)
  ∧ r.on ≤ L + NR + EcoConfig.computeDelayUs + EcoConfig.pollDelayUs + 2 * eps

/-- every tick-only continuation of a `PostHeat` state: either the day is still running, or its record (the one right
above the days finished before) satisfies `HeatRec` -/
theorem postHeat_run (eps per delay X Y Dc Rc L NR : Int) (days0 : List DayRec) (hst : Static eps per delay) (evs : List Ev) :
    ∀ s : Loop, PostHeat eps per delay X Y Dc Rc L NR days0 s → (∀ e ∈ evs, TickOK eps e) →
      PostHeat eps per delay X Y Dc Rc L NR days0 (ecoFinal eps s evs)
      ∨ ∃ r, (r :: days0) <:+ (ecoFinal eps s evs).days ∧ HeatRec eps per delay Y Dc Rc L NR r := by
  induction evs with
  | nil => intro s h _; exact Or.inl h
  | cons e es ih =>
    intro s h hall
    have he := hall e (List.mem_cons_self ..)
    have hrest : ∀ x ∈ es, TickOK eps x := fun x hx => hall x (List.mem_cons_of_mem _ hx)
    show PostHeat eps per delay X Y Dc Rc L NR days0 (ecoFinal eps (ecoStep eps s e).1 es) ∨
      ∃ r, (r :: days0) <:+ (ecoFinal eps (ecoStep eps s e).1 es).days ∧ HeatRec eps per delay Y Dc Rc L NR r
    cases e with
    | heat dt => exact he.elim
    | heatEnd dt => exact he.elim
    | tick j0 j1 j2 =>
      by_cases hnr : s.phase = .compute ∨ ¬ s.eco.nextReset ≤ max s.now s.due + j0
      · exact ih _ (postHeat_tick eps per delay X Y Dc Rc L NR days0 s hst h j0 j1 j2 he hnr) hrest
      · have hr : s.eco.nextReset ≤ max s.now s.due + j0 := by
          by_cases hx : s.eco.nextReset ≤ max s.now s.due + j0
          · exact hx
          · exact (hnr (Or.inr hx)).elim
        have hph : s.phase = .waiting ∨ s.phase = .normal ∨ s.phase = .tank := by
          rcases not_heating_of_inv eps (shadow X Y true s) h.hq with hp | hp
          · exact (hnr (Or.inl hp)).elim
          · exact hp
        obtain ⟨r, r0, r1, r2, r3, r4, r5, r6, r7⟩ := postHeat_reset eps per delay X Y Dc Rc L NR days0 s hst h j0 j1 j2 he hph hr
        obtain ⟨c1, c2, c3, c4⟩ := closed_of_dayInv eps per delay (shadow X Y false s) hst h.hp h.hd hph
        refine Or.inr ⟨r, ?_, r1, r2, ?_, r4, r5, ?_, r7⟩
        · rw [← r0]; exact run_days_suffix eps es _
        · have : slackOf eps s.gJ s.gN ≤ slackPlan per eps := c4
          omega
        · have : s.gJ ≤ EcoConfig.computeDelayUs + 6 * (per * eps) + 9 * eps := c1
          omega

/-! ### the interlude: `heat`, polls of `heating_running`, `heating_delay`, expiry of the delay -/

/-- `heating_running` between `heat` (at `th`, accounted duration `dh`, pump-on time `oh`) and `heating_delay`:
the pump-on time grows with the clock; the accounted duration lags by at most the lateness of the first poll. -/
structure HeatRun (eps per delay NR th dh oh gU0 : Int) (fl : Bool) (days0 : List DayRec) (s : Loop) : Prop where
  hphase : s.phase = .heating
  hpump : s.pumpOn = true
  hper : s.eco.period = per
  hdel : s.eco.filtration.delay = delay
  hpd : s.eco.periodDuration = divNearest delay per
  hNR : s.eco.nextReset = NR
  hfull : s.full = fl
  hdays : s.days = days0
  hgU : s.gU = gU0
  hplain : s.gPlain = false
  hth : th ≤ s.now
  hon : s.onToday = oh + (s.now - th)
  hge : dh ≤ s.eco.filtration.duration
  htim : (s.eco.filtration.last = none ∧ s.due = s.now ∧ s.now = th ∧ s.eco.filtration.duration = dh)
    ∨ (s.eco.filtration.last = some s.now ∧ s.due = s.now + EcoConfig.pollDelayUs
        ∧ dh + (s.now - th) - eps ≤ s.eco.filtration.duration ∧ s.eco.filtration.duration ≤ dh + (s.now - th))

/-- `heat` accepted in eco_waiting / eco_normal -/
theorem heat_enter (eps per delay : Int) (s : Loop) (dt : Int) (hdt : 0 ≤ dt)
    (hph : s.phase = .waiting ∨ s.phase = .normal)
    (hper : s.eco.period = per) (hdel : s.eco.filtration.delay = delay) (hpd : s.eco.periodDuration = divNearest delay per) :
    HeatRun eps per delay s.eco.nextReset (s.now + dt) s.eco.filtration.duration
      (s.onToday + (if s.pumpOn then dt else 0)) s.gU s.full s.days (ecoStep eps s (.heat dt)).1 := by
  rcases hph with hp | hp <;>
  · constructor <;> simp [ecoStep, Loop.advance, hp, EcoMode.clear, Timer.clear, Timer.setDelay, hper, hdel, hpd]
    all_goals (try split) <;> omega

/-- a poll of `heating_running` handled at most `eps` late and before the reset -/
theorem heat_poll (eps per delay NR th dh oh gU0 : Int) (fl : Bool) (days0 : List DayRec) (s : Loop) (j0 j1 j2 : Int)
    (h : HeatRun eps per delay NR th dh oh gU0 fl days0 s) (hj : 0 ≤ j0 ∧ j0 ≤ eps)
    (hnr : max s.now s.due + j0 < NR) :
    HeatRun eps per delay NR th dh oh gU0 fl days0 (ecoStep eps s (.tick j0 j1 j2)).1 := by
  obtain ⟨hp, hpump, hper, hdel, hpd, hNR, hfull, hdays, hgU, hplain, hth, hon, hge, htim⟩ := h
  have hpoll := cfg_poll
  have hfh := cfg_fH
  have hnr' : ¬ (s.advance (max s.now s.due + j0)).eco.nextReset ≤ (s.advance (max s.now s.due + j0)).now := by
    simp only [adv_now, adv_eco, hNR]; omega
  have hsp := doUpdate_noreset (s.advance (max s.now s.due + j0)) eps 1 1 hnr'
  have hsm := doUpdate_noreset_more (s.advance (max s.now s.due + j0)) eps 1 1 hnr'
  simp only [adv_now, adv_due, adv_phase, adv_pump, adv_on, adv_days, adv_full, adv_toN, adv_eco, adv_gTc, adv_gDc, adv_gNr,
    adv_gN, adv_gD, adv_gRc, adv_gJ, adv_gWoff, adv_gW, adv_gCredit, adv_gCyc, adv_gU, adv_gPlain, hpump, if_true] at hsp hsm
  have hstep : (ecoStep eps s (.tick j0 j1 j2)).1 =
      { ((s.advance (max s.now s.due + j0)).doUpdate eps 1 1).1 with
        due := ((s.advance (max s.now s.due + j0)).doUpdate eps 1 1).1.now + EcoConfig.pollDelayUs } := by
    simp only [ecoStep, adv_phase, hp, hfh.1, hfh.2]
  rw [hstep]
  generalize (s.advance (max s.now s.due + j0)).doUpdate eps 1 1 = r at *
  obtain ⟨h1, h2, h3, h4, h5, h6, h7, h8, h9, h10, h11, h12, h13, h14, h15, h16, h17, h18, h19, h20, h21, h22, h23, h24, h25, h26, h27, h28⟩ := hsp
  obtain ⟨m1, m2, m3, m4, m5⟩ := hsm
  rcases htim with ⟨t1, t2, t3, t4⟩ | ⟨t1, t2, t3, t4⟩
  · refine ⟨?_, ?_, ?_, ?_, ?_, ?_, ?_, ?_, ?_, ?_, ?_, ?_, ?_, Or.inr ⟨?_, ?_, ?_, ?_⟩⟩
    all_goals (try simp only [h2, h3, h4, h5, h6, h7, h8, h21, h22, h26, h27, m1, m2, m3, hp, Timer.update, t1, scale_one])
    all_goals (first | assumption | rfl | omega | skip)
  · refine ⟨?_, ?_, ?_, ?_, ?_, ?_, ?_, ?_, ?_, ?_, ?_, ?_, ?_, Or.inr ⟨?_, ?_, ?_, ?_⟩⟩
    all_goals (try simp only [h2, h3, h4, h5, h6, h7, h8, h21, h22, h26, h27, m1, m2, m3, hp, Timer.update, t1, scale_one])
    all_goals (first | assumption | rfl | omega | skip)

/-- the polls of `heating_running`: ticks handled at most `eps` late, each before the reset -/
def PollsOK (eps : Int) : Loop → List Ev → Prop
  | _, [] => True
  | s, .tick j0 j1 j2 :: es =>
    (0 ≤ j0 ∧ j0 ≤ eps ∧ max s.now s.due + j0 < s.eco.nextReset) ∧ PollsOK eps (ecoStep eps s (.tick j0 j1 j2)).1 es
  | _, _ :: _ => False

def PollsOK.dec (eps : Int) : (s : Loop) → (evs : List Ev) → Decidable (PollsOK eps s evs)
  | _, [] => isTrue trivial
  | s, .tick j0 j1 j2 :: es =>
    have := PollsOK.dec eps (ecoStep eps s (.tick j0 j1 j2)).1 es
    inferInstanceAs (Decidable ((0 ≤ j0 ∧ j0 ≤ eps ∧ max s.now s.due + j0 < s.eco.nextReset)
      ∧ PollsOK eps (ecoStep eps s (.tick j0 j1 j2)).1 es))
  | _, .heat _ :: _ => isFalse (fun h => h)
  | _, .heatEnd _ :: _ => isFalse (fun h => h)

instance (eps : Int) (s : Loop) (evs : List Ev) : Decidable (PollsOK eps s evs) := PollsOK.dec eps s evs

theorem heat_polls (eps per delay NR th dh oh gU0 : Int) (fl : Bool) (days0 : List DayRec) (evs : List Ev) :
    ∀ s : Loop, HeatRun eps per delay NR th dh oh gU0 fl days0 s → PollsOK eps s evs →
      HeatRun eps per delay NR th dh oh gU0 fl days0 (ecoFinal eps s evs) := by
  induction evs with
  | nil => intro s h _; exact h
  | cons e es ih =>
    intro s h hok
    cases e with
    | tick j0 j1 j2 =>
      obtain ⟨⟨a1, a2, a3⟩, hrest⟩ := hok
      exact ih _ (heat_poll eps per delay NR th dh oh gU0 fl days0 s j0 j1 j2 h ⟨a1, a2⟩ (by rw [← h.hNR]; exact a3)) hrest
    | heat dt => exact hok.elim
    | heatEnd dt => exact hok.elim

theorem cfg_hd : EcoConfig.heatingDelayToEcoUs = 60000000 := by decide

/-- pump-on time of an interlude that is not accounted: the delay before eco, one poll, three handler latenesses -/
def heatLoss (eps : Int) : Int := EcoConfig.heatingDelayToEcoUs + EcoConfig.pollDelayUs + 3 * eps

/-- the state in which `on_enter_eco_compute` runs when the delay after the interlude expires -/
structure HeatDone (eps per delay NR th dh oh gU0 : Int) (fl : Bool) (days0 : List DayRec) (x : Loop) : Prop where
  hpump : x.pumpOn = true
  hper : x.eco.period = per
  hdel : x.eco.filtration.delay = delay
  hpd : x.eco.periodDuration = divNearest delay per
  hNR : x.eco.nextReset = NR
  hfull : x.full = fl
  hdays : x.days = days0
  hgU : x.gU = gU0
  hplain : x.gPlain = false
  hth : th + EcoConfig.heatingDelayToEcoUs ≤ x.now
  hon : x.onToday = oh + (x.now - th)
  hlo : dh + (x.now - th) - heatLoss eps ≤ x.eco.filtration.duration
  hhi : x.eco.filtration.duration ≤ dh + (x.now - th)
  hge : dh ≤ x.eco.filtration.duration

/-- `heating_delay` (before the next poll is handled), then the expiry of the delay, handled at most `eps` late -/
theorem heat_exit (eps per delay NR th dh oh gU0 : Int) (fl : Bool) (days0 : List DayRec) (s : Loop) (dt jd j1 j2 : Int)
    (h : HeatRun eps per delay NR th dh oh gU0 fl days0 s) (he : 0 ≤ eps)
    (hdt : 0 ≤ dt ∧ s.now + dt ≤ max s.now s.due + eps) (hjd : 0 ≤ jd ∧ jd ≤ eps) :
    ∃ x : Loop, (ecoStep eps (ecoStep eps s (.heatEnd dt)).1 (.tick jd j1 j2)).1 = (x.enterCompute eps).1
      ∧ x.now = s.now + dt + EcoConfig.heatingDelayToEcoUs + jd
      ∧ HeatDone eps per delay NR th dh oh gU0 fl days0 x := by
  obtain ⟨hp, hpump, hper, hdel, hpd, hNR, hfull, hdays, hgU, hplain, hth, hon, hge, htim⟩ := h
  have hpoll := cfg_poll
  have hhd := cfg_hd
  refine ⟨((ecoStep eps s (.heatEnd dt)).1).advance
    (max (ecoStep eps s (.heatEnd dt)).1.now (ecoStep eps s (.heatEnd dt)).1.due + jd), ?_, ?_, ?_⟩
  · simp [ecoStep, Loop.advance, hp]
  · simp [ecoStep, Loop.advance, hp]; omega
  · rcases htim with ⟨t1, t2, t3, t4⟩ | ⟨t1, t2, t3, t4⟩ <;>
    · constructor <;> simp [heatLoss, ecoStep, Loop.advance, hp, hpump, EcoMode.clear, Timer.clear, Timer.setDelay, hper, hdel, hpd,
        hNR, hfull, hdays, hgU, hplain, hon] <;> omega

/-! ### the `eco_compute` after the interlude -/

theorem enterCompute_now (eps : Int) (x : Loop) : (x.enterCompute eps).1.now = x.now := by
  simp only [Loop.enterCompute, Loop.doUpdate]
  split <;> rfl

theorem shadow_enterCompute (X Y : Int) (k : Bool) (eps : Int) (x : Loop) (h : x.now < x.eco.nextReset) :
    ((shadow X Y k x).enterCompute eps).1 = shadow X Y k (x.enterCompute eps).1 := by
  have hd := shadow_doUpdate X Y k { x with eco := x.eco.clear } eps EcoConfig.factorComputeNum EcoConfig.factorComputeDen
    (by show ¬ x.eco.nextReset ≤ x.now; omega)
  have e0 : ({ shadow X Y k x with eco := (shadow X Y k x).eco.clear } : Loop) = shadow X Y k { x with eco := x.eco.clear } := rfl
  simp only [Loop.enterCompute]
  rw [e0, hd.1]
  generalize (Loop.doUpdate _ eps EcoConfig.factorComputeNum EcoConfig.factorComputeDen).1 = r
  simp [shadow, Int.add_right_comm] <;> rfl

/-- the closed forms of a plan computed in a state without finished days and not in a whole day (a shadow) -/
theorem enterCompute_dayInv (eps per delay : Int) (x : Loop) (hst : Static eps per delay)
    (hper : x.eco.period = per) (hdel : x.eco.filtration.delay = delay) (hpd : x.eco.periodDuration = divNearest delay per)
    (hnr : x.now < x.eco.nextReset) (h0 : 0 ≤ x.eco.filtration.duration) (hfull : x.full = false) (hdays : x.days = []) :
    DayInv eps per delay (x.enterCompute eps).1 := by
  obtain ⟨heps, heps5, hper1, hper2, hdl⟩ := hst
  have hcd := cfg_cd
  have hU : US = 1000000 := rfl
  obtain ⟨f1, f2, f3, f4, f5, f6, f7, f8, f9, f10, f11, f12, f13, f14, f15, f16, f17, f18, f19, f20⟩ :=
    enterCompute_fields eps x hnr
  have hNle := periods_le_period delay per (max 0 (delay - x.eco.filtration.duration)) hdl hper1 hper2 (by omega)
  refine ⟨?_, ?_, ?_, f20, ?_, ?_, ?_, ?_, ?_, ?_, ?_⟩
  · rw [f17, hper]
  · rw [f19, hdel]
  · rw [f18, hpd]
  · rw [f9, f8, f2, f7]; omega
  · rw [f10, hdel, hpd]; exact hNle
  · rw [f14, f1]; simp only [inCycle]; rw [f10]; omega
  · rw [f13, f14, f1]; simp only [kJ]; omega
  · intro hf; rw [f3, hfull] at hf; cases hf
  · rw [f5, hdays]; intro r hr; cases hr
  · rw [f5, hdays]; exact ⟨Or.inl rfl, fun r hr => by cases hr⟩

/-- The `eco_compute` at the expiry of the delay, before the reset, in a whole day, with the quota not yet exceeded by
more than a poll: the tick invariants hold again for the shadows (`X = - gU`, `Y = duration - onToday` there). -/
theorem postHeat_start (eps per delay NR th dh oh gU0 : Int) (days0 : List DayRec) (x : Loop) (hst : Static eps per delay)
    (h : HeatDone eps per delay NR th dh oh gU0 true days0 x) (hnr : x.now < NR)
    (h0 : 0 ≤ x.eco.filtration.duration)
    (hub : x.eco.filtration.duration ≤ delay + EcoConfig.pollDelayUs + eps) :
    PostHeat eps per delay (- gU0) (x.eco.filtration.duration - x.onToday) x.eco.filtration.duration (NR - x.now)
      (x.onToday - x.now) NR days0 (x.enterCompute eps).1 := by
  obtain ⟨hpump, hper, hdel, hpd, hNR, hfull, hdays, hgU, hplain, hth, hon, hlo, hhi, hge⟩ := h
  have hst' := hst
  obtain ⟨heps, heps5, hper1, hper2, hdl⟩ := hst
  have hU : US = 1000000 := rfl
  have hHOUR : HOUR = 3600000000 := rfl
  have hnr' : x.now < x.eco.nextReset := by rw [hNR]; exact hnr
  have pre : ∀ k : Bool, PreCompute eps (shadow (- gU0) (x.eco.filtration.duration - x.onToday) k x) := by
    intro k
    constructor
    case heps => exact heps
    case heps2 => omega
    case hdelay => show 0 ≤ x.eco.filtration.delay; omega
    case hnr => exact hnr'
    case hplain => rfl
    case hacc1 => intro _; show x.eco.filtration.duration ≤ x.onToday + (x.eco.filtration.duration - x.onToday); omega
    case hacc2 =>
      intro _
      show x.onToday + (x.eco.filtration.duration - x.onToday) ≤ x.eco.filtration.duration + (x.gU + - gU0)
      omega
    case hub => intro _; show x.eco.filtration.duration ≤ x.eco.filtration.delay + EcoConfig.pollDelayUs + eps; omega
    case hdays => intro r hr; cases hr
  have hq := enterCompute_inv eps _ (pre true)
  have hp := enterCompute_inv eps _ (pre false)
  rw [shadow_enterCompute _ _ _ eps x hnr'] at hq hp
  have hd := enterCompute_dayInv eps per delay (shadow (- gU0) (x.eco.filtration.duration - x.onToday) false x) hst'
    hper hdel hpd hnr' h0 (by simp [shadow]) rfl
  rw [shadow_enterCompute _ _ _ eps x hnr'] at hd
  obtain ⟨f1, f2, f3, f4, f5, f6, f7, f8, f9, f10, f11, f12, f13, f14, f15, f16, f17, f18, f19, f20⟩ :=
    enterCompute_fields eps x hnr'
  have hnr2 : (x.enterCompute eps).1.eco.nextReset = (x.enterCompute eps).1.gNr := hq.common.hNr
  refine ⟨hq, hp, hd, ?_, ?_, ?_, ?_, f8, ?_, ?_, ?_⟩
  · rw [f3]; exact hfull
  · rw [f16]; exact hplain
  · rw [f5]; exact hdays
  · rw [f15, f13, hgU]; omega
  · rw [f11, hNR]; omega
  · rw [f4, f2]; omega
  · rw [hnr2, f12]; exact hNR

/-! ### the plan in progress when `heat` arrives -/

/-- `final_arith` at any instant `T` after the compute (not only at the reset): what is accounted plus what is left of
the day covers `min delay (Dc + Rc)` up to the slack of the plan -/
theorem mid_arith (delay Dc Rc D N off P J Woff W cyc credit dur T x pe : Int) (waiting : Bool)
    (hN : 1 ≤ N) (hoff : 0 ≤ off) (hP : 0 ≤ P) (hpe : 0 ≤ pe) (hW0 : 0 ≤ W) (hJ : 0 ≤ J)
    (hNoff : 2 * (N * off) ≤ max 0 (2 * (Rc - D) + N))
    (hNP : Rc ≤ P ∨ 2 * D - N ≤ 2 * (N * P))
    (hD : D = max 0 (delay - Dc))
    (hW : Woff = W * (off + pe)) (hC : credit = cyc * P)
    (hWC : W + (if waiting then 1 else 0) ≤ cyc + 1)
    (hidle : T - (dur - Dc) ≤ J + Woff + x)
    (hx : x ≤ (if waiting then off + pe else 0))
    (hcred : credit ≤ dur - Dc) :
    min delay (Dc + Rc) - (J + N * pe + N) ≤ dur + max 0 (Rc - T) := by
  have hk : 0 ≤ off + pe := by omega
  by_cases hc : N ≤ cyc
  · have h1 : N * P ≤ cyc * P := Int.mul_le_mul_of_nonneg_right hc hP
    have h2 : 1 * P ≤ N * P := Int.mul_le_mul_of_nonneg_right hN hP
    have h3 : 0 ≤ N * pe := Int.mul_nonneg (by omega) hpe
    rcases hNP with h | h <;> omega
  · have hWN : W + (if waiting then 1 else 0) ≤ N := by omega
    have h3 : N * (off + pe) = N * off + N * pe := Int.mul_add _ _ _
    cases waiting with
    | false =>
      simp only [Bool.false_eq_true, if_false] at hWN hx
      have h1 : W * (off + pe) ≤ N * (off + pe) := Int.mul_le_mul_of_nonneg_right (by omega) hk
      omega
    | true =>
      simp only [if_true] at hWN hx
      have h1 : (W + 1) * (off + pe) ≤ N * (off + pe) := Int.mul_le_mul_of_nonneg_right (by omega) hk
      rw [Int.add_mul, Int.one_mul] at h1
      omega

/-- When `heat` arrives (`dt` after the last handler, before the armed poll is handled) in a whole day, the pump-on time
so far plus ALL the time left until the reset covers `min delay (gDc + gRc)` up to the slack of the plan. -/
theorem on_schedule (eps : Int) (s : Loop) (dt : Int) (h : Inv eps s) (hfull : s.full = true)
    (hph : s.phase = .waiting ∨ s.phase = .normal) (hdt : 0 ≤ dt ∧ s.now + dt ≤ max s.now s.due + eps) :
    min s.eco.filtration.delay (s.gDc + s.gRc) - slackOf eps s.gJ s.gN
      ≤ s.onToday + (if s.pumpOn then dt else 0) + max 0 (s.eco.nextReset - (s.now + dt)) := by
  have hpoll := cfg_poll
  obtain ⟨⟨heps, heps2, hdelay, hnext, hTc, hN, hoff, hon, htank, hNoff, hNP, hD, hRc, hNr, hplain, hW, hC, hW0, hJ0,
    hacc1, hub, hdays⟩, hWC, hcur0, hphase⟩ := h
  have hacc := hacc1 hfull
  have hsl := slack_nonneg eps s.gJ s.gN heps hJ0 hN
  rcases hphase with ⟨hc, _⟩ | ⟨hw, hpump, htim, hcd', hacc2, hnr, hb⟩ | ⟨hn, hpump, htim, hcd', hacc2, hnr, hlt, hb⟩ | ⟨hc, _⟩
  · rcases hph with hp | hp <;> rw [hc] at hp <;> cases hp
  · simp only [hw, if_true] at hWC
    simp only [hpump, Bool.false_eq_true, if_false, Int.add_zero]
    rcases hb with hb | ⟨hb1, hb2, hb3⟩
    · simp only [Timer.elapsed, decide_eq_true_eq] at hb; omega
    · simp only [slackOf]
      rcases htim with ⟨hfl, hcl, hcz, hdue⟩ | ⟨hfl, hcl, hdue⟩
      · simp only [idle, res, hfl, if_true] at hb1
        have := mid_arith s.eco.filtration.delay s.gDc s.gRc s.gD s.gN s.eco.offD (s.eco.onD + s.eco.tankD) s.gJ s.gWoff s.gW
          s.gCyc s.gCredit s.eco.filtration.duration (s.now + dt - s.gTc) 0 (EcoConfig.pollDelayUs + eps) true
          hN hoff (by omega) (by omega) hW0 hJ0 hNoff hNP hD hW hC (by simpa using hWC) (by omega) (by simp; omega) hb3
        omega
      · simp only [idle, res, hfl, if_false] at hb1
        rcases hb2 with hb2 | hb2
        · rw [hfl] at hb2; cases hb2
        · have := mid_arith s.eco.filtration.delay s.gDc s.gRc s.gD s.gN s.eco.offD (s.eco.onD + s.eco.tankD) s.gJ s.gWoff s.gW
            s.gCyc s.gCredit s.eco.filtration.duration (s.now + dt - s.gTc) (s.eco.current.duration + dt)
            (EcoConfig.pollDelayUs + eps) true
            hN hoff (by omega) (by omega) hW0 hJ0 hNoff hNP hD hW hC (by simpa using hWC) (by omega) (by simp; omega) hb3
          omega
  · simp only [hn, reduceCtorEq, if_false, Int.add_zero] at hWC
    simp only [hpump, if_true]
    rcases hb with hb | ⟨hb1, hb3⟩
    · simp only [Timer.elapsed, decide_eq_true_eq] at hb; omega
    · simp only [slackOf]
      have hres : 0 ≤ res eps s := by unfold res; split <;> omega
      simp only [idle] at hb1
      have := mid_arith s.eco.filtration.delay s.gDc s.gRc s.gD s.gN s.eco.offD (s.eco.onD + s.eco.tankD) s.gJ s.gWoff s.gW
        s.gCyc s.gCredit (s.eco.filtration.duration + dt) (s.now + dt - s.gTc) 0 (EcoConfig.pollDelayUs + eps) false
        hN hoff (by omega) (by omega) hW0 hJ0 hNoff hNP hD hW hC (by simpa using hWC) (by omega) (by simp) (by omega)
      omega
  · rcases hph with hp | hp <;> rw [hc] at hp <;> cases hp

/-! ### a complete interlude -/

/-- the events of a complete interlude: `heat`, the polls of heating_running, `heating_delay`, the expiry of the delay -/
def interludeEvs (dt : Int) (polls : List Ev) (dt' jd j1 j2 : Int) : List Ev :=
  .heat dt :: (polls ++ [.heatEnd dt', .tick jd j1 j2])

theorem ecoFinal_append (eps : Int) (s : Loop) (a b : List Ev) : ecoFinal eps s (a ++ b) = ecoFinal eps (ecoFinal eps s a) b := by
  unfold ecoFinal; rw [List.foldl_append]

/-- the side conditions of a complete interlude started in state `s`: `heat` arrives before the armed poll is handled,
the polls are on time and before the reset, `heating_delay` arrives before the next poll is handled, the expiry of the
delay is handled at most `eps` late -/
def InterludeOK (eps : Int) (s : Loop) (dt : Int) (polls : List Ev) (dt' jd : Int) : Prop :=
  (0 ≤ dt ∧ s.now + dt ≤ max s.now s.due + eps)
  ∧ PollsOK eps (ecoStep eps s (.heat dt)).1 polls
  ∧ (0 ≤ dt' ∧ (ecoFinal eps s (.heat dt :: polls)).now + dt'
        ≤ max (ecoFinal eps s (.heat dt :: polls)).now (ecoFinal eps s (.heat dt :: polls)).due + eps)
  ∧ (0 ≤ jd ∧ jd ≤ eps)

instance (eps : Int) (s : Loop) (dt : Int) (polls : List Ev) (dt' jd : Int) :
    Decidable (InterludeOK eps s dt polls dt' jd) := by
  unfold InterludeOK; infer_instance

theorem interlude (eps per delay : Int) (s : Loop) (dt : Int) (polls : List Ev) (dt' jd j1 j2 : Int) (he : 0 ≤ eps)
    (hph : s.phase = .waiting ∨ s.phase = .normal)
    (hper : s.eco.period = per) (hdel : s.eco.filtration.delay = delay) (hpd : s.eco.periodDuration = divNearest delay per)
    (hok : InterludeOK eps s dt polls dt' jd) :
    ∃ x : Loop, ecoFinal eps s (interludeEvs dt polls dt' jd j1 j2) = (x.enterCompute eps).1
      ∧ x.now = (ecoFinal eps s (.heat dt :: polls)).now + dt' + EcoConfig.heatingDelayToEcoUs + jd
      ∧ HeatDone eps per delay s.eco.nextReset (s.now + dt) s.eco.filtration.duration
          (s.onToday + (if s.pumpOn then dt else 0)) s.gU s.full s.days x := by
  obtain ⟨hdt, hpolls, hdt', hjd⟩ := hok
  have h1 := heat_enter eps per delay s dt hdt.1 hph hper hdel hpd
  have h2 := heat_polls eps per delay _ _ _ _ _ _ _ polls _ h1 hpolls
  have e2 : ecoFinal eps s (.heat dt :: polls) = ecoFinal eps (ecoStep eps s (.heat dt)).1 polls := rfl
  rw [e2] at hdt' ⊢
  obtain ⟨x, hx1, hx2, hx3⟩ := heat_exit eps per delay _ _ _ _ _ _ _ _ dt' jd j1 j2 h2 he hdt' hjd
  refine ⟨x, ?_, hx2, hx3⟩
  rw [← hx1]
  show ecoFinal eps (ecoStep eps s (.heat dt)).1 (polls ++ [.heatEnd dt', .tick jd j1 j2]) = _
  rw [ecoFinal_append]
  rfl

/-! ### the whole day with one interlude -/

theorem suffix_head_unique {α : Type} (a b : α) (l L : List α) (h1 : (a :: l) <:+ L) (h2 : (b :: l) <:+ L) : a = b := by
  have h := List.suffix_of_suffix_length_le h1 h2 (by simp)
  have := h.eq_of_length (by simp)
  exact (List.cons.inj this).1

theorem not_cons_suffix {α : Type} (a : α) (l : List α) : ¬ (a :: l) <:+ l := by
  intro h
  have := h.length_le
  simp at this
  omega

/-- what `Inv` and `DayInv` say, in a whole tick-only day, about the state in which `heat` arrives -/
theorem full_day_facts (eps per delay : Int) (s : Loop) (hst : Static eps per delay) (hi : Inv eps s) (hd : DayInv eps per delay s)
    (hfull : s.full = true) (hph : s.phase = .waiting ∨ s.phase = .normal) :
    s.gDc = 0 ∧ DAY - EcoConfig.pollDelayUs - 3 * eps ≤ s.gRc ∧ s.gRc ≤ DAY ∧ s.gRc = max 0 (s.eco.nextReset - s.gTc)
    ∧ s.eco.filtration.duration ≤ s.onToday ∧ s.onToday ≤ s.eco.filtration.duration + s.gU
    ∧ s.gU ≤ EcoConfig.computeDelayUs + 4 * (per * eps) + 8 * eps
    ∧ s.onToday ≤ s.now - s.gTc + 2 * eps
    ∧ s.due ≤ s.now + EcoConfig.pollDelayUs
    ∧ slackOf eps s.gJ s.gN ≤ slackPlan per eps := by
  have hph3 : s.phase = .waiting ∨ s.phase = .normal ∨ s.phase = .tank := by
    rcases hph with h | h
    · exact Or.inl h
    · exact Or.inr (Or.inl h)
  obtain ⟨c1, c2, c3, c4⟩ := closed_of_dayInv eps per delay s hst hi hd hph3
  have hdue := due_le_of_inv eps s hi hph3
  obtain ⟨heps, heps5, hper1, hper2, hdl⟩ := hst
  obtain ⟨g1, g2, g3, g4, g5⟩ := hd.hfull hfull
  have dcyc := hd.hcyc
  have hacc1 := hi.common.hacc1 hfull
  have hRc := hi.common.hRc
  have hNr := hi.common.hNr
  have hce0 := mul_eps_le s.gCyc per eps
  have hce1 := mul_eps_le s.gCyc (per + 1) eps
  have hsm := succ_mul_eps per eps
  have hN := hd.hN
  have hacc2 : s.onToday ≤ s.eco.filtration.duration + s.gU := by
    rcases hi.hphase with ⟨hc, _⟩ | ⟨_, _, _, _, h, _⟩ | ⟨_, _, _, _, h, _⟩ | ⟨hc, _⟩
    · rcases hph with hp | hp <;> rw [hc] at hp <;> cases hp
    · exact h hfull
    · have := h hfull; unfold res at this; split at this <;> omega
    · rcases hph with hp | hp <;> rw [hc] at hp <;> cases hp
  have hU : s.gU ≤ EcoConfig.computeDelayUs + 4 * (per * eps) + 8 * eps := by
    rcases hph with hk | hk <;> simp only [hk, kU, inCycle] at dcyc g4
    · have := hce1 (by omega) heps; omega
    · have := hce0 (by omega) heps; omega
  exact ⟨g1, g3, g2, by rw [hRc, hNr], hacc1, hacc2, hU, g5, hdue, c4⟩

/-- slack of the lower bound of a whole day with one interlude: the reset poll of the day start, the slack of the plan
in progress at `heat` and the slack of the plan made after the interlude -/
def slackLoHeat (per eps : Int) : Int := 10000000 + 3 * eps + 2 * slackPlan per eps
/-- slack of the upper bound (interlude over before the quota is exceeded by a poll): one poll of overshoot, the two
compute delays, the poll lost at `heat`, `heatLoss`, lateness -/
def slackHiHeat (per eps : Int) : Int := 100000000 + 10 * (per * eps) + 22 * eps

/-- the bounds claimed for the record of the heating day -/
def HeatDayBounds (eps per delay : Int) (c : Loop) (NR : Int) (r : DayRec) : Prop :=
  r.full = true ∧ r.plain = false
  ∧ min delay DAY - slackLoHeat per eps ≤ r.on
  ∧ (delay ≤ c.onToday + (NR - c.now) → delay - slackPlan per eps ≤ r.on)
  ∧ r.on ≤ min delay DAY + slackHiHeat per eps
  ∧ c.eco.filtration.duration ≤ c.onToday

theorem heat_day_early (eps per delay : Int) (s : Loop) (hst : Static eps per delay) (hi : Inv eps s) (hd : DayInv eps per delay s)
    (hfull : s.full = true) (hph : s.phase = .waiting ∨ s.phase = .normal) (h0 : 0 ≤ s.eco.filtration.duration)
    (dt : Int) (polls : List Ev) (dt' jd j1 j2 : Int) (hok : InterludeOK eps s dt polls dt' jd)
    (hnr : (ecoFinal eps s (interludeEvs dt polls dt' jd j1 j2)).now < s.eco.nextReset)
    (hub : (ecoFinal eps s (interludeEvs dt polls dt' jd j1 j2)).eco.filtration.duration ≤ delay + EcoConfig.pollDelayUs + eps)
    (post : List Ev) (hpost : ∀ e ∈ post, TickOK eps e) (r : DayRec)
    (hr : (r :: s.days) <:+ (ecoFinal eps (ecoFinal eps s (interludeEvs dt polls dt' jd j1 j2)) post).days) :
    HeatDayBounds eps per delay (ecoFinal eps s (interludeEvs dt polls dt' jd j1 j2)) s.eco.nextReset r := by
  obtain ⟨x, hx, hxnow, hdone⟩ := interlude eps per delay s dt polls dt' jd j1 j2 hst.heps hph hd.hper hd.hdel hd.hpd hok
  rw [hx] at hnr hub hr ⊢
  rw [enterCompute_now] at hnr
  have hnr' : x.now < x.eco.nextReset := by rw [hdone.hNR]; exact hnr
  obtain ⟨f1, f2, f3, f4, f5, f6, f7, f8, f9, f10, f11, f12, f13, f14, f15, f16, f17, f18, f19, f20⟩ :=
    enterCompute_fields eps x hnr'
  rw [f9] at hub
  rw [hfull] at hdone
  have hP := postHeat_start eps per delay _ _ _ _ _ _ x hst hdone hnr (by have := hdone.hge; omega) hub
  obtain ⟨q1, q2, q3, q4, q5, q6, q7, q8, q9, q10⟩ := full_day_facts eps per delay s hst hi hd hfull hph
  have hsched := on_schedule eps s dt hi hfull hph hok.1
  obtain ⟨hdt0, hdt1⟩ := hok.1
  obtain ⟨_, _, _, _, _, _, _, _, _, hth, hon, hlo, hhi, hge⟩ := hdone
  have hpoll := cfg_poll
  have hcd := cfg_cd
  have hhd := cfg_hd
  have hDAY : DAY = 86400000000 := rfl
  have hpe : 0 ≤ per * eps := Int.mul_nonneg (by have := hst.hper1; omega) hst.heps
  have heps := hst.heps
  have hdel : s.eco.filtration.delay = delay := hd.hdel
  rcases postHeat_run eps per delay _ _ _ _ _ _ s.days hst post _ hP hpost with hA | ⟨r', hs', hrec⟩
  · have hAd := hA.hdays
    rw [hAd] at hr
    exact ((not_cons_suffix r s.days) hr).elim
  · have hrr : r = r' := suffix_head_unique r r' s.days _ hr hs'
    subst hrr
    obtain ⟨r1, r2, r3, r4, r5, r6, r7⟩ := hrec
    rw [hdel, q1] at hsched
    unfold HeatDayBounds slackLoHeat slackHiHeat
    rw [f4, f2, f9]
    unfold heatLoss at hlo
    unfold slackPlan at *
    have hz : 0 ≤ (if s.pumpOn = true then dt else 0) ∧ (if s.pumpOn = true then dt else 0) ≤ dt := by
      split <;> omega
    generalize (if s.pumpOn = true then dt else 0) = z at *
    refine ⟨r1, r2, ?_, ?_, ?_, ?_⟩ <;> omega

/-- Accounting of a complete interlude that is over before the reset: in the `eco_compute` state `c` reached when the
delay expires the pump-on time has grown by exactly the time since `heat`, the accounted duration by that time minus at
most `heatLoss eps`. -/
theorem interlude_accounting (eps per delay : Int) (s : Loop) (dt : Int) (polls : List Ev) (dt' jd j1 j2 : Int) (he : 0 ≤ eps)
    (hph : s.phase = .waiting ∨ s.phase = .normal)
    (hper : s.eco.period = per) (hdel : s.eco.filtration.delay = delay) (hpd : s.eco.periodDuration = divNearest delay per)
    (hok : InterludeOK eps s dt polls dt' jd)
    (hnr : (ecoFinal eps s (interludeEvs dt polls dt' jd j1 j2)).now < s.eco.nextReset) :
    (ecoFinal eps s (interludeEvs dt polls dt' jd j1 j2)).phase = .compute
    ∧ (ecoFinal eps s (interludeEvs dt polls dt' jd j1 j2)).pumpOn = true
    ∧ (ecoFinal eps s (interludeEvs dt polls dt' jd j1 j2)).full = s.full
    ∧ (ecoFinal eps s (interludeEvs dt polls dt' jd j1 j2)).days = s.days
    ∧ s.now + dt + EcoConfig.heatingDelayToEcoUs ≤ (ecoFinal eps s (interludeEvs dt polls dt' jd j1 j2)).now
    ∧ (ecoFinal eps s (interludeEvs dt polls dt' jd j1 j2)).onToday
        = s.onToday + (if s.pumpOn then dt else 0) + ((ecoFinal eps s (interludeEvs dt polls dt' jd j1 j2)).now - (s.now + dt))
    ∧ s.eco.filtration.duration + ((ecoFinal eps s (interludeEvs dt polls dt' jd j1 j2)).now - (s.now + dt)) - heatLoss eps
        ≤ (ecoFinal eps s (interludeEvs dt polls dt' jd j1 j2)).eco.filtration.duration
    ∧ (ecoFinal eps s (interludeEvs dt polls dt' jd j1 j2)).eco.filtration.duration
        ≤ s.eco.filtration.duration + ((ecoFinal eps s (interludeEvs dt polls dt' jd j1 j2)).now - (s.now + dt))
    ∧ s.eco.filtration.duration ≤ (ecoFinal eps s (interludeEvs dt polls dt' jd j1 j2)).eco.filtration.duration := by
  obtain ⟨x, hx, hxnow, hdone⟩ := interlude eps per delay s dt polls dt' jd j1 j2 he hph hper hdel hpd hok
  rw [hx] at hnr ⊢
  rw [enterCompute_now] at hnr
  have hnr' : x.now < x.eco.nextReset := by rw [hdone.hNR]; exact hnr
  obtain ⟨f1, f2, f3, f4, f5, f6, f7, f8, f9, f10, f11, f12, f13, f14, f15, f16, f17, f18, f19, f20⟩ :=
    enterCompute_fields eps x hnr'
  obtain ⟨hpump, _, _, _, _, hfull, hdays, _, _, hth, hon, hlo, hhi, hge⟩ := hdone
  rw [f1, f2, f3, f4, f5, f6, f9]
  exact ⟨rfl, hpump, hfull, hdays, hth, by omega, hlo, hhi, hge⟩

/-- the same at every instant after the interlude: either the heating day is still running (the pump has run at least
the accounted duration plus what the interlude left unaccounted; the accounted duration is within a poll of the quota),
or its record satisfies the bounds -/
theorem heat_day_early_run (eps per delay : Int) (s : Loop) (hst : Static eps per delay) (hi : Inv eps s) (hd : DayInv eps per delay s)
    (hfull : s.full = true) (hph : s.phase = .waiting ∨ s.phase = .normal) (h0 : 0 ≤ s.eco.filtration.duration)
    (dt : Int) (polls : List Ev) (dt' jd j1 j2 : Int) (hok : InterludeOK eps s dt polls dt' jd)
    (hnr : (ecoFinal eps s (interludeEvs dt polls dt' jd j1 j2)).now < s.eco.nextReset)
    (hub : (ecoFinal eps s (interludeEvs dt polls dt' jd j1 j2)).eco.filtration.duration ≤ delay + EcoConfig.pollDelayUs + eps)
    (post : List Ev) (hpost : ∀ e ∈ post, TickOK eps e) :
    ((ecoFinal eps (ecoFinal eps s (interludeEvs dt polls dt' jd j1 j2)) post).days = s.days
      ∧ (ecoFinal eps (ecoFinal eps s (interludeEvs dt polls dt' jd j1 j2)) post).full = true
      ∧ (ecoFinal eps (ecoFinal eps s (interludeEvs dt polls dt' jd j1 j2)) post).gPlain = false
      ∧ (ecoFinal eps (ecoFinal eps s (interludeEvs dt polls dt' jd j1 j2)) post).eco.filtration.duration
          + ((ecoFinal eps s (interludeEvs dt polls dt' jd j1 j2)).onToday
             - (ecoFinal eps s (interludeEvs dt polls dt' jd j1 j2)).eco.filtration.duration)
          ≤ (ecoFinal eps (ecoFinal eps s (interludeEvs dt polls dt' jd j1 j2)) post).onToday
      ∧ (ecoFinal eps (ecoFinal eps s (interludeEvs dt polls dt' jd j1 j2)) post).eco.filtration.duration
          ≤ delay + EcoConfig.pollDelayUs + eps)
    ∨ ∃ r, (r :: s.days) <:+ (ecoFinal eps (ecoFinal eps s (interludeEvs dt polls dt' jd j1 j2)) post).days
        ∧ HeatDayBounds eps per delay (ecoFinal eps s (interludeEvs dt polls dt' jd j1 j2)) s.eco.nextReset r := by
  have hall := fun r hr => heat_day_early eps per delay s hst hi hd hfull hph h0 dt polls dt' jd j1 j2 hok hnr hub post hpost r hr
  obtain ⟨x, hx, hxnow, hdone⟩ := interlude eps per delay s dt polls dt' jd j1 j2 hst.heps hph hd.hper hd.hdel hd.hpd hok
  rw [hx] at hnr hub hall ⊢
  rw [enterCompute_now] at hnr
  have hnr' : x.now < x.eco.nextReset := by rw [hdone.hNR]; exact hnr
  obtain ⟨f1, f2, f3, f4, f5, f6, f7, f8, f9, f10, f11, f12, f13, f14, f15, f16, f17, f18, f19, f20⟩ :=
    enterCompute_fields eps x hnr'
  rw [f9] at hub
  rw [hfull] at hdone
  have hP := postHeat_start eps per delay _ _ _ _ _ _ x hst hdone hnr (by have := hdone.hge; omega) hub
  rcases postHeat_run eps per delay _ _ _ _ _ _ s.days hst post _ hP hpost with hA | ⟨r', hs', _⟩
  · left
    have h1 := hA.hq.common.hacc1 (by simp [shadow, hA.hfull])
    have h2 := hA.hq.common.hub (by simp [shadow, hA.hfull])
    have hdel : (shadow (- s.gU) (x.eco.filtration.duration - x.onToday) true
        (ecoFinal eps (x.enterCompute eps).1 post)).eco.filtration.delay = delay := hA.hd.hdel
    simp only [shadow] at h1 h2 hdel
    rw [f4, f9]
    exact ⟨hA.hdays, hA.hfull, hA.hplain, by omega, by omega⟩
  · exact Or.inr ⟨r', hs', hall r' hs'⟩

/-! ### the accounted duration is never negative (tick-only runs) -/

theorem polled_dur_ge (eps : Int) (s : Loop) (j0 f : Int) (hf : f = 0 ∨ f = 1)
    (hr : ¬ s.eco.nextReset ≤ max s.now s.due + j0)
    (hl : ∀ l, s.eco.filtration.last = some l → l ≤ max s.now s.due + j0) :
    s.eco.filtration.duration ≤ (polled eps s j0 f 1).eco.filtration.duration := by
  have hsp := doUpdate_noreset (s.advance (max s.now s.due + j0)) eps f 1 (by simpa using hr)
  have h27 := hsp.2.2.2.2.2.2.2.2.2.2.2.2.2.2.2.2.2.2.2.2.2.2.2.2.2.2.1
  simp only [polled]
  rw [h27]
  simp only [adv_eco, adv_now, Timer.update]
  cases hlast : s.eco.filtration.last with
  | none => simp
  | some l =>
    have := hl l hlast
    rcases hf with hf | hf <;> subst hf <;> simp [scale_zero, scale_one] <;> omega

theorem reload_dur (eps : Int) (u : Loop) (j1 j2 : Int) (h : u.now + j1 + j2 < u.eco.nextReset) :
    (u.reloadEco eps j1 j2).1.eco.filtration.duration = u.eco.filtration.duration := by
  simp only [Loop.reloadEco]
  generalize hx : Loop.advance _ _ = x
  have hxnow : x.now = u.now + j1 + j2 := by subst hx; simp [Loop.advance]
  have hxnr : x.eco.nextReset = u.eco.nextReset := by subst hx; simp [Loop.advance, EcoMode.clear]
  have hxd : x.eco.filtration.duration = u.eco.filtration.duration := by
    subst hx; simp [Loop.advance, EcoMode.clear, Timer.clear]
  have f := enterCompute_fields eps x (by rw [hxnow, hxnr]; omega)
  rw [f.2.2.2.2.2.2.2.2.1, hxd]

theorem last_le_of_inv (eps : Int) (s : Loop) (hi : Inv eps s)
    (hph : s.phase = .waiting ∨ s.phase = .normal ∨ s.phase = .tank) :
    ∀ l, s.eco.filtration.last = some l → l ≤ s.now := by
  intro l hlast
  rcases hi.hphase with ⟨hc, _⟩ | ⟨_, _, ht, _⟩ | ⟨_, _, ht, _⟩ | ⟨_, _, ht, _⟩
  · rcases hph with h | h | h <;> rw [hc] at h <;> cases h
  all_goals (rcases ht with ⟨hn, _⟩ | ⟨hs, _⟩
             · rw [hn] at hlast; cases hlast
             · rw [hs] at hlast; cases hlast; omega)

theorem tick_dur_nonneg (eps : Int) (s : Loop) (hi : Inv eps s) (h0 : 0 ≤ s.eco.filtration.duration) (j0 j1 j2 : Int)
    (hok : TickOK eps (.tick j0 j1 j2)) (he5 : eps ≤ 600000) :
    0 ≤ (ecoStep eps s (.tick j0 j1 j2)).1.eco.filtration.duration := by
  obtain ⟨a1, a2, a3, a4, a5, a6⟩ := hok
  have hpoll := cfg_poll
  have hcd := cfg_cd
  have hDAY : DAY = 86400000000 := rfl
  have hnext := hi.common.hnext
  rcases not_heating_of_inv eps s hi with hp | hp | hp | hp
  · cases htn : s.toNormal
    · rw [step_compute_waiting eps s hp htn]
      simp only [Loop.enterWaiting, Loop.advance, EcoMode.clear, EcoMode.setCurrent, Timer.clear]; exact h0
    · rw [step_compute_normal eps s hp htn]
      simp only [Loop.enterNormal, Loop.advance, EcoMode.clear, EcoMode.setCurrent, Timer.clear]; exact h0
  · have hph3 : s.phase = .waiting ∨ s.phase = .normal ∨ s.phase = .tank := by simp [hp]
    have hdue := due_le_of_inv eps s hi hph3
    have hl : ∀ l, s.eco.filtration.last = some l → l ≤ max s.now s.due + j0 := by
      intro l hlast; have := last_le_of_inv eps s hi hph3 l hlast; omega
    by_cases hr : s.eco.nextReset ≤ max s.now s.due + j0
    · have hsp := doUpdate_reset (s.advance (max s.now s.due + j0)) eps 0 1 (by simpa using hr)
      obtain ⟨r1, r2, r3, r4, r5, r6, r7, r8, r9⟩ := hsp
      rw [step_waiting_reset eps s hp j0 j1 j2 hr, reload_dur eps _ j1 j2 (by simp only [polled]; rw [r2, r6]; simp only [adv_now, adv_eco]; omega)]
      simp only [polled]; rw [r7]; omega
    · have hge := polled_dur_ge eps s j0 0 (by simp) hr hl
      cases hel : (polled eps s j0 0 1).eco.elapsedOff
      · rw [step_waiting_stay eps s hp j0 j1 j2 hr hel]; exact Int.le_trans h0 hge
      · rw [step_waiting_go eps s hp j0 j1 j2 hr hel]
        simp only [Loop.enterWaiting, Loop.enterNormal, Loop.enterTank, Loop.advance, EcoMode.clear, EcoMode.setCurrent, Timer.clear]
        exact Int.le_trans h0 hge
  · have hph3 : s.phase = .waiting ∨ s.phase = .normal ∨ s.phase = .tank := by simp [hp]
    have hdue := due_le_of_inv eps s hi hph3
    have hl : ∀ l, s.eco.filtration.last = some l → l ≤ max s.now s.due + j0 := by
      intro l hlast; have := last_le_of_inv eps s hi hph3 l hlast; omega
    by_cases hr : s.eco.nextReset ≤ max s.now s.due + j0
    · have hsp := doUpdate_reset (s.advance (max s.now s.due + j0)) eps 1 1 (by simpa using hr)
      obtain ⟨r1, r2, r3, r4, r5, r6, r7, r8, r9⟩ := hsp
      rw [step_normal_reset eps s hp j0 j1 j2 hr, reload_dur eps _ j1 j2 (by simp only [polled]; rw [r2, r6]; simp only [adv_now, adv_eco]; omega)]
      simp only [polled]; rw [r7]; omega
    · have hge := polled_dur_ge eps s j0 1 (by simp) hr hl
      cases hel : ((polled eps s j0 1 1).eco.elapsedOn && decide (0 < (polled eps s j0 1 1).eco.tankD))
      · rw [step_normal_stay eps s hp j0 j1 j2 hr hel]; exact Int.le_trans h0 hge
      · rw [step_normal_go eps s hp j0 j1 j2 hr hel]
        simp only [Loop.enterWaiting, Loop.enterNormal, Loop.enterTank, Loop.advance, EcoMode.clear, EcoMode.setCurrent, Timer.clear]
        exact Int.le_trans h0 hge
  · have hph3 : s.phase = .waiting ∨ s.phase = .normal ∨ s.phase = .tank := by simp [hp]
    have hdue := due_le_of_inv eps s hi hph3
    have hl : ∀ l, s.eco.filtration.last = some l → l ≤ max s.now s.due + j0 := by
      intro l hlast; have := last_le_of_inv eps s hi hph3 l hlast; omega
    by_cases hr : s.eco.nextReset ≤ max s.now s.due + j0
    · have hsp := doUpdate_reset (s.advance (max s.now s.due + j0)) eps 1 1 (by simpa using hr)
      obtain ⟨r1, r2, r3, r4, r5, r6, r7, r8, r9⟩ := hsp
      rw [step_tank_reset eps s hp j0 j1 j2 hr, reload_dur eps _ j1 j2 (by simp only [polled]; rw [r2, r6]; simp only [adv_now, adv_eco]; omega)]
      simp only [polled]; rw [r7]; omega
    · have hge := polled_dur_ge eps s j0 1 (by simp) hr hl
      cases hel : (polled eps s j0 1 1).eco.elapsedOn
      · rw [step_tank_stay eps s hp j0 j1 j2 hr hel]; exact Int.le_trans h0 hge
      · rw [step_tank_go eps s hp j0 j1 j2 hr hel]
        simp only [Loop.enterWaiting, Loop.enterNormal, Loop.enterTank, Loop.advance, EcoMode.clear, EcoMode.setCurrent, Timer.clear]
        exact Int.le_trans h0 hge

theorem run_dur_nonneg (eps : Int) (he5 : eps ≤ 600000) (evs : List Ev) :
    ∀ s : Loop, Inv eps s → 0 ≤ s.eco.filtration.duration → (∀ e ∈ evs, TickOK eps e) →
      0 ≤ (ecoFinal eps s evs).eco.filtration.duration := by
  induction evs with
  | nil => intro s _ h0 _; exact h0
  | cons e es ih =>
    intro s hi h0 hall
    have he := hall e (List.mem_cons_self ..)
    have hrest : ∀ x ∈ es, TickOK eps x := fun x hx => hall x (List.mem_cons_of_mem _ hx)
    show 0 ≤ (ecoFinal eps (ecoStep eps s e).1 es).eco.filtration.duration
    cases e with
    | heat dt => exact he.elim
    | heatEnd dt => exact he.elim
    | tick j0 j1 j2 =>
      exact ih _ (step_inv eps s hi _ he) (tick_dur_nonneg eps s hi h0 j0 j1 j2 he he5) hrest

theorem start_dur_nonneg (eps : Int) (p : Params) (hel : 0 ≤ p.elapsedS)
    (hs : p.start < nextResetAt p.start p.resetHour) : 0 ≤ (Loop.start eps p).1.eco.filtration.duration := by
  have hk : EcoConfig.keepElapsed = true := by decide
  have hU : US = 1000000 := rfl
  obtain ⟨x, hx, e1, e2, e6⟩ : ∃ x : Loop, (Loop.start eps p).1 = (x.enterCompute eps).1 ∧ x.now = p.start
      ∧ x.eco.nextReset = nextResetAt p.start p.resetHour ∧ x.eco.filtration.duration = p.elapsedS * US := by
    refine ⟨_, rfl, rfl, ?_, ?_⟩ <;>
      simp [Params.ecoMode, EcoMode.restore, EcoMode.fltDuration, hk, EcoMode.setDaily, EcoMode.recompute,
        EcoMode.setResetHour, EcoMode.setTank, EcoMode.setPeriod, Timer.setDuration, Timer.setDelay]
  rw [hx]
  have f := enterCompute_fields eps x (by rw [e1, e2]; exact hs)
  rw [f.2.2.2.2.2.2.2.2.1, e6]
  exact Int.mul_nonneg hel (by omega)

/-! ### the constants -/

theorem slack_heat_values (per eps : Int) (he : 0 ≤ eps) (he2 : eps ≤ 600000) (hp1 : 1 ≤ per) (hp2 : per ≤ 10) :
    heatLoss eps = 70 * US + 3 * eps ∧ heatLoss eps ≤ 71800000
    ∧ slackPlan per eps ≤ 152400010 ∧ slackPlan per eps < 180 * US
    ∧ slackHiHeat per eps ≤ 173200000 ∧ slackHiHeat per eps < 180 * US
    ∧ slackLoHeat per eps ≤ 316600020
    ∧ (per ≤ 5 → slackLoHeat per eps ≤ 174600010 ∧ slackLoHeat per eps < 180 * US) := by
  have hU : US = 1000000 := rfl
  have hpoll := cfg_poll
  have hhd := cfg_hd
  have h1 : per * eps ≤ 10 * eps := mul_eps_le per 10 eps hp2 he
  have h0 : 0 ≤ per * eps := Int.mul_nonneg (by omega) he
  unfold heatLoss slackPlan slackHiHeat slackLoHeat slackPlan
  refine ⟨by omega, by omega, by omega, by omega, by omega, by omega, by omega, ?_⟩
  intro h5
  have h2 : per * eps ≤ 5 * eps := mul_eps_le per 5 eps h5 he
  constructor <;> omega

/-! ### late interlude: the quota is already used up when the delay expires -/

/-- `eco_compute` with nothing left of the quota plans a pause until the reset: the armed trigger is eco_waiting -/
theorem enterCompute_late (eps : Int) (x : Loop) (h : x.now < x.eco.nextReset)
    (hl : x.eco.filtration.delay ≤ x.eco.filtration.duration) :
    (x.enterCompute eps).1.toNormal = false ∧ (x.enterCompute eps).1.due = x.now + EcoConfig.computeDelayUs
    ∧ (x.enterCompute eps).1.eco.nextReset = x.eco.nextReset := by
  have hfc := cfg_fC
  have hcl := cfg_offClamp
  have hsp := doUpdate_noreset { x with eco := x.eco.clear } eps EcoConfig.factorComputeNum EcoConfig.factorComputeDen
    (by show ¬ x.eco.nextReset ≤ x.now; omega)
  simp only [Loop.enterCompute]
  simp only [hfc.1, hfc.2, EcoMode.clear, Timer.clear, Timer.setDelay, Timer.update] at hsp ⊢
  generalize Loop.doUpdate _ eps 0 1 = r at *
  obtain ⟨h1, h2, h3, h4, h5, h6, h7, h8, h9, h10, h11, h12, h13, h14, h15, h16, h17, h18, h19, h20, h21, h22, h23, h24, h25, h26, h27, h28⟩ := hsp
  have hrd : r.1.eco.remainingDuration = 0 := by
    unfold EcoMode.remainingDuration; rw [h27]; simp only []; omega
  have hrp : r.1.eco.remainingPeriods = 1 := by
    unfold EcoMode.remainingPeriods; rw [hrd]; simp only [Int.zero_ediv]; omega
  have hrt : r.1.eco.remainingTime x.now = x.eco.nextReset - x.now := by
    unfold EcoMode.remainingTime; rw [h26]; omega
  have hoff : 0 < (r.1.eco.compute r.1.now).offD := by
    show 0 < r.1.eco.offOf r.1.now
    unfold EcoMode.offOf
    rw [h2]
    simp only [hcl, Bool.true_and, hrd, hrp, hrt, divNearest_one, Int.sub_zero]
    split
    · rename_i hneg; simp at hneg; omega
    · omega
  refine ⟨?_, ?_, ?_⟩
  · simp only [hoff, decide_true, Bool.not_true, Bool.false_and]
  · rw [h2]
  · show r.1.eco.nextReset = _
    rw [h26]

/-- eco_waiting with the quota used up (after a late interlude), pump stopped; `onc` = pump-on time when the delay expired -/
structure Late (eps delay onc NR : Int) (days0 : List DayRec) (s : Loop) : Prop where
  hphase : s.phase = .waiting
  hpump : s.pumpOn = false
  hdel : s.eco.filtration.delay = delay
  hel : delay ≤ s.eco.filtration.duration
  hNR : s.eco.nextReset = NR
  hfull : s.full = true
  hplain : s.gPlain = false
  hdays : s.days = days0
  hon : onc ≤ s.onToday ∧ s.onToday ≤ onc + EcoConfig.computeDelayUs + eps
  hdue : s.due ≤ s.now + EcoConfig.pollDelayUs
  hnow : s.now < NR + EcoConfig.computeDelayUs + 2 * eps

/-- a poll of eco_waiting before the reset with the quota used up: nothing changes, the pump stays off -/
theorem late_tick (eps delay onc NR : Int) (days0 : List DayRec) (s : Loop) (h : Late eps delay onc NR days0 s)
    (j0 j1 j2 : Int) (hok : TickOK eps (.tick j0 j1 j2)) (hr : ¬ s.eco.nextReset ≤ max s.now s.due + j0) :
    Late eps delay onc NR days0 (ecoStep eps s (.tick j0 j1 j2)).1 := by
  obtain ⟨hp, hpump, hdel, hel, hNR, hfull, hplain, hdays, hon, hdue, hnow⟩ := h
  obtain ⟨a1, a2, a3, a4, a5, a6⟩ := hok
  have hpoll := cfg_poll
  have hsp := doUpdate_noreset (s.advance (max s.now s.due + j0)) eps 0 1 (by simpa using hr)
  obtain ⟨k1, k2, k3, k4, k5, k6, k7, k8, k9, k10, k11⟩ := polled_keep eps s j0 0 hr
  have hfil : (polled eps s j0 0 1).eco.filtration = s.eco.filtration.update (max s.now s.due + j0) 0 1 := by
    simp only [polled]; rw [hsp.2.2.2.2.2.2.2.2.2.2.2.2.2.2.2.2.2.2.2.2.2.2.2.2.2.2.1]; rfl
  have hph : (polled eps s j0 0 1).phase = s.phase := by simp only [polled]; rw [hsp.2.2.2.1]; rfl
  have hd1 : (polled eps s j0 0 1).eco.filtration.duration = s.eco.filtration.duration := by
    rw [hfil]; exact C10_timer_factor_zero' _ _
  have hd2 : (polled eps s j0 0 1).eco.filtration.delay = s.eco.filtration.delay := by
    rw [hfil]; exact upd_delay _ _ _ _
  have he : (polled eps s j0 0 1).eco.elapsedOff = false := by
    simp only [EcoMode.elapsedOff, Timer.elapsed, hd1, hd2]
    have : decide (s.eco.filtration.delay ≤ s.eco.filtration.duration) = true := by simp; omega
    rw [this]; simp
  rw [step_waiting_stay eps s hp j0 j1 j2 hr he]
  constructor
  all_goals simp only [k1, k2, k3, k6, k7, k8, k11, hph, hd1, hd2, hpump, Bool.false_eq_true, if_false, Int.add_zero]
  all_goals (first | assumption | omega)

theorem late_reset (eps delay onc NR : Int) (days0 : List DayRec) (s : Loop) (h : Late eps delay onc NR days0 s)
    (j0 j1 j2 : Int) (hok : TickOK eps (.tick j0 j1 j2)) (he5 : eps ≤ 600000) (hr : s.eco.nextReset ≤ max s.now s.due + j0) :
    ∃ r : DayRec, (ecoStep eps s (.tick j0 j1 j2)).1.days = r :: days0 ∧ r.full = true ∧ r.plain = false
      ∧ onc ≤ r.on ∧ r.on ≤ onc + EcoConfig.computeDelayUs + eps := by
  obtain ⟨hp, hpump, hdel, hel, hNR, hfull, hplain, hdays, hon, hdue, hnow⟩ := h
  obtain ⟨a1, a2, a3, a4, a5, a6⟩ := hok
  have hpoll := cfg_poll
  have hcd := cfg_cd
  have hDAY : DAY = 86400000000 := rfl
  have e1 := reset_days eps s j0 j1 j2 (Or.inl hp) hr (by omega)
  refine ⟨_, by rw [e1, hdays], hfull, hplain, ?_, ?_⟩ <;>
    simp only [recAt, hpump, Bool.false_eq_true, if_false, Int.add_zero] <;> omega

theorem late_run (eps delay onc NR : Int) (days0 : List DayRec) (he5 : eps ≤ 600000) (evs : List Ev) :
    ∀ s : Loop, Late eps delay onc NR days0 s → (∀ e ∈ evs, TickOK eps e) →
      Late eps delay onc NR days0 (ecoFinal eps s evs)
      ∨ ∃ r, (r :: days0) <:+ (ecoFinal eps s evs).days ∧ r.full = true ∧ r.plain = false
          ∧ onc ≤ r.on ∧ r.on ≤ onc + EcoConfig.computeDelayUs + eps := by
  induction evs with
  | nil => intro s h _; exact Or.inl h
  | cons e es ih =>
    intro s h hall
    have he := hall e (List.mem_cons_self ..)
    have hrest : ∀ x ∈ es, TickOK eps x := fun x hx => hall x (List.mem_cons_of_mem _ hx)
    show Late eps delay onc NR days0 (ecoFinal eps (ecoStep eps s e).1 es) ∨
      ∃ r, (r :: days0) <:+ (ecoFinal eps (ecoStep eps s e).1 es).days ∧ r.full = true ∧ r.plain = false
          ∧ onc ≤ r.on ∧ r.on ≤ onc + EcoConfig.computeDelayUs + eps
    cases e with
    | heat dt => exact he.elim
    | heatEnd dt => exact he.elim
    | tick j0 j1 j2 =>
      by_cases hr : s.eco.nextReset ≤ max s.now s.due + j0
      · obtain ⟨r, r0, r1, r2, r3, r4⟩ := late_reset eps delay onc NR days0 s h j0 j1 j2 he he5 hr
        exact Or.inr ⟨r, by rw [← r0]; exact run_days_suffix eps es _, r1, r2, r3, r4⟩
      · exact ih _ (late_tick eps delay onc NR days0 s h j0 j1 j2 he hr) hrest

/-- the tick that leaves the `eco_compute` made after a late interlude: eco_waiting, pump stopped -/
theorem late_enter (eps per delay NR th dh oh gU0 : Int) (days0 : List DayRec) (x : Loop)
    (h : HeatDone eps per delay NR th dh oh gU0 true days0 x) (hnr : x.now < NR)
    (hl : delay ≤ x.eco.filtration.duration) (j0 j1 j2 : Int) (hok : TickOK eps (.tick j0 j1 j2)) :
    Late eps delay x.onToday NR days0 (ecoStep eps (x.enterCompute eps).1 (.tick j0 j1 j2)).1 := by
  obtain ⟨hpump, hper, hdel, hpd, hNR, hfull, hdays, hgU, hplain, hth, hon, hlo, hhi, hge⟩ := h
  obtain ⟨a1, a2, a3, a4, a5, a6⟩ := hok
  have hpoll := cfg_poll
  have hcd := cfg_cd
  have hnr' : x.now < x.eco.nextReset := by rw [hNR]; exact hnr
  obtain ⟨f1, f2, f3, f4, f5, f6, f7, f8, f9, f10, f11, f12, f13, f14, f15, f16, f17, f18, f19, f20⟩ :=
    enterCompute_fields eps x hnr'
  obtain ⟨l1, l2, l3⟩ := enterCompute_late eps x hnr' (by rw [hdel]; exact hl)
  rw [step_compute_waiting eps _ f1 l1]
  constructor
  all_goals simp only [Loop.enterWaiting, Loop.advance, EcoMode.clear, EcoMode.setCurrent, Timer.clear, Timer.setDelay,
    f2, f3, f4, f5, f6, f9, f16, f19, l2, l3, hpump, if_true]
  all_goals (first | assumption | rfl | omega)

/-- Whole day with one complete interlude that ends with the quota already used up: after the compute delay the pump
stops until the reset, so the pump-on time of the day is the one reached when the delay expired plus at most
`computeDelay + eps`. -/
theorem heat_day_late (eps per delay : Int) (s : Loop) (hst : Static eps per delay) (hi : Inv eps s) (hd : DayInv eps per delay s)
    (hfull : s.full = true) (hph : s.phase = .waiting ∨ s.phase = .normal)
    (dt : Int) (polls : List Ev) (dt' jd j1 j2 : Int) (hok : InterludeOK eps s dt polls dt' jd)
    (hnr : (ecoFinal eps s (interludeEvs dt polls dt' jd j1 j2)).now < s.eco.nextReset)
    (hl : delay ≤ (ecoFinal eps s (interludeEvs dt polls dt' jd j1 j2)).eco.filtration.duration)
    (post : List Ev) (hpost : ∀ e ∈ post, TickOK eps e) (r : DayRec)
    (hr : (r :: s.days) <:+ (ecoFinal eps (ecoFinal eps s (interludeEvs dt polls dt' jd j1 j2)) post).days) :
    r.full = true ∧ r.plain = false
    ∧ (ecoFinal eps s (interludeEvs dt polls dt' jd j1 j2)).onToday ≤ r.on
    ∧ r.on ≤ (ecoFinal eps s (interludeEvs dt polls dt' jd j1 j2)).onToday + EcoConfig.computeDelayUs + eps
    ∧ (ecoFinal eps s (interludeEvs dt polls dt' jd j1 j2)).eco.filtration.duration
        ≤ (ecoFinal eps s (interludeEvs dt polls dt' jd j1 j2)).onToday := by
  obtain ⟨x, hx, hxnow, hdone⟩ := interlude eps per delay s dt polls dt' jd j1 j2 hst.heps hph hd.hper hd.hdel hd.hpd hok
  rw [hx] at hnr hl hr ⊢
  rw [enterCompute_now] at hnr
  have hnr' : x.now < x.eco.nextReset := by rw [hdone.hNR]; exact hnr
  obtain ⟨f1, f2, f3, f4, f5, f6, f7, f8, f9, f10, f11, f12, f13, f14, f15, f16, f17, f18, f19, f20⟩ :=
    enterCompute_fields eps x hnr'
  rw [f9] at hl
  rw [f4, f9]
  rw [hfull] at hdone
  have hacc := hi.common.hacc1 hfull
  have hdt0 := hok.1.1
  have hacc' : x.eco.filtration.duration ≤ x.onToday := by
    have h1 := hdone.hon
    have h2 := hdone.hhi
    have hz : 0 ≤ (if s.pumpOn = true then dt else 0) := by split <;> omega
    omega
  cases post with
  | nil =>
    have : (r :: s.days) <:+ s.days := by
      have e : (ecoFinal eps (x.enterCompute eps).1 []).days = s.days := by
        show (x.enterCompute eps).1.days = s.days
        rw [f5]; exact hdone.hdays
      rw [e] at hr; exact hr
    exact ((not_cons_suffix r s.days) this).elim
  | cons e es =>
    have he := hpost e (List.mem_cons_self ..)
    have hrest : ∀ y ∈ es, TickOK eps y := fun y hy => hpost y (List.mem_cons_of_mem _ hy)
    cases e with
    | heat _ => exact he.elim
    | heatEnd _ => exact he.elim
    | tick j0 k1 k2 =>
      have hL := late_enter eps per delay _ _ _ _ _ s.days x hdone hnr hl j0 k1 k2 he
      have hr' : (r :: s.days) <:+ (ecoFinal eps (ecoStep eps (x.enterCompute eps).1 (.tick j0 k1 k2)).1 es).days := hr
      rcases late_run eps delay x.onToday _ s.days hst.heps5 es _ hL hrest with hA | ⟨r', hs', r1, r2, r3, r4⟩
      · have hAd := hA.hdays
        rw [hAd] at hr'
        exact ((not_cons_suffix r s.days) hr').elim
      · have hrr : r = r' := suffix_head_unique r r' s.days _ hr' hs'
        subst hrr
        exact ⟨r1, r2, r3, r4, hacc'⟩

/-- Both regimes together, in the form of the monitor of checks/c10.py: the pump-on time of a whole day with one complete
interlude is at least `min delay 24h - slackLoHeat` and at most
`max (min delay 24h) (pump-on time when the interlude's delay expired) + slackHiHeat`. -/
theorem heat_day_monitor (eps per delay : Int) (s : Loop) (hst : Static eps per delay) (hi : Inv eps s) (hd : DayInv eps per delay s)
    (hfull : s.full = true) (hph : s.phase = .waiting ∨ s.phase = .normal) (h0 : 0 ≤ s.eco.filtration.duration)
    (dt : Int) (polls : List Ev) (dt' jd j1 j2 : Int) (hok : InterludeOK eps s dt polls dt' jd)
    (hnr : (ecoFinal eps s (interludeEvs dt polls dt' jd j1 j2)).now < s.eco.nextReset)
    (post : List Ev) (hpost : ∀ e ∈ post, TickOK eps e) (r : DayRec)
    (hr : (r :: s.days) <:+ (ecoFinal eps (ecoFinal eps s (interludeEvs dt polls dt' jd j1 j2)) post).days) :
    r.full = true ∧ r.plain = false
    ∧ min delay DAY - slackLoHeat per eps ≤ r.on
    ∧ r.on ≤ max (min delay DAY) (ecoFinal eps s (interludeEvs dt polls dt' jd j1 j2)).onToday + slackHiHeat per eps
    ∧ (delay ≤ (ecoFinal eps s (interludeEvs dt polls dt' jd j1 j2)).eco.filtration.duration →
        delay ≤ r.on ∧ (ecoFinal eps s (interludeEvs dt polls dt' jd j1 j2)).onToday ≤ r.on
        ∧ r.on ≤ (ecoFinal eps s (interludeEvs dt polls dt' jd j1 j2)).onToday + EcoConfig.computeDelayUs + eps) := by
  have hcd := cfg_cd
  have hpoll := cfg_poll
  have heps := hst.heps
  have hpe : 0 ≤ per * eps := Int.mul_nonneg (by have := hst.hper1; omega) hst.heps
  have hper1 := hst.hper1
  have hlate := fun hl => heat_day_late eps per delay s hst hi hd hfull hph dt polls dt' jd j1 j2 hok hnr hl post hpost r hr
  by_cases hub : (ecoFinal eps s (interludeEvs dt polls dt' jd j1 j2)).eco.filtration.duration ≤ delay + EcoConfig.pollDelayUs + eps
  · obtain ⟨b1, b2, b3, b4, b5, b6⟩ := heat_day_early eps per delay s hst hi hd hfull hph h0 dt polls dt' jd j1 j2 hok hnr hub
      post hpost r hr
    refine ⟨b1, b2, b3, by omega, ?_⟩
    intro hl
    obtain ⟨_, _, l3, l4, l5⟩ := hlate hl
    exact ⟨by omega, l3, l4⟩
  · have hl : delay ≤ (ecoFinal eps s (interludeEvs dt polls dt' jd j1 j2)).eco.filtration.duration := by omega
    obtain ⟨l1, l2, l3, l4, l5⟩ := hlate hl
    refine ⟨l1, l2, ?_, ?_, fun _ => ⟨by omega, l3, l4⟩⟩
    · unfold slackLoHeat slackPlan; omega
    · unfold slackHiHeat; omega

end Poupool.Eco
