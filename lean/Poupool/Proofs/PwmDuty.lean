/-
Helper lemmas for C20: P-controller sign / bounds / monotonicity, the minimum-run-time rounding, and the pulse
bookkeeping of the PWM model (ghost: instant at which the running pulse started).
-/
import Poupool.Proofs.PwmCap

namespace Poupool.Pwm

/-! ### constrain / compute -/

theorem constrain_bounds (x lo hi : Rat) (h : lo ≤ hi) : lo ≤ constrain x lo hi ∧ constrain x lo hi ≤ hi := by
  unfold constrain; grind

theorem constrain_mono (x y lo hi : Rat) (h : x ≤ y) : constrain x lo hi ≤ constrain y lo hi := by
  unfold constrain; grind

theorem constrain_low (x lo hi : Rat) (h : lo ≤ hi) (hx : x ≤ lo) : constrain x lo hi = lo := by
  unfold constrain; grind

theorem constrain_le_max (x hi : Rat) (y : Rat) (hy : 0 ≤ y) (hxy : x ≤ y) : constrain x 0 hi ≤ y := by
  unfold constrain; grind

/-! ### dutyOn -/

theorem dutyOn_zero (P m : Rat) (hm : m ≤ P) : dutyOn 0 P m = 0 := by
  unfold dutyOn; simp only [Rat.zero_mul]; grind

theorem dutyOn_range (v P m : Rat) (hv0 : 0 ≤ v) (hv1 : v ≤ 1) (hm0 : 0 ≤ m) (hm : m ≤ P) :
    0 ≤ dutyOn v P m ∧ dutyOn v P m ≤ P ∧ (dutyOn v P m = 0 ∨ m ≤ dutyOn v P m) := by
  have hP : 0 ≤ P := by grind
  have h0 : 0 ≤ v * P := Rat.mul_nonneg hv0 hP
  have h1 : v * P ≤ 1 * P := by
    have := Rat.mul_le_mul_of_nonneg_left hv1 hP
    grind
  unfold dutyOn; grind

/-! ### time -/

theorem secs_mono {a b : Int} (h : a ≤ b) : secs a ≤ secs b := by
  have := Rat.intCast_le_intCast.mpr h
  unfold secs; grind

/-! ### pulses -/

/-- `__duration` after the `+= diff` and `constrain` of the tick at instant `t` -/
def durAt (t : Int) (l : Rat) (s : PwmState) : Rat := constrain (s.duration + (secs t - l)) 0 s.period
def onOf (s : PwmState) : Rat := dutyOn s.value s.period s.minRuntime


/-- ghost: the cap ghost plus the instant at which the running pulse started and a flag recording whether some pulse
that was ended by a tick (not by a cancel) while the security timer had NOT elapsed was shorter than `min_runtime` or
shorter than the on-time `dutyOn` of the duty in force at that tick. -/
structure H where
  g : G
  onSince : Int
  short : Bool

/-- the security timer as consulted by the on-branch of the tick executed at the current instant -/
def capCut (g : G) : Bool := (g.s.sec.update g.clock 1).elapsed

def stepH (c : Cfg) (h : H) (op : Op) : H :=
  let g' := stepG c h.g op
  match op with
  | .tick =>
    { g := g'
      onSince := if h.g.s.pumpOn = false ∧ g'.s.pumpOn = true then h.g.clock else h.onSince
      short := h.short ||
        (h.g.s.pumpOn && !g'.s.pumpOn && !capCut h.g &&
          (decide (secs h.g.clock - secs h.onSince < h.g.s.minRuntime) ||
           decide (secs h.g.clock - secs h.onSince < onOf h.g.s))) }
  | _ => { h with g := g' }

def runH (c : Cfg) (h : H) (ops : List Op) : H := ops.foldl (stepH c) h

def H.init (c : Cfg) (period minRt : Rat) (secDur : Int) (start : Int) : H :=
  { g := G.init c period minRt secDur start, onSince := start, short := false }

/-- time does not run backwards (the only assumption for the minimum-pulse theorem) -/
def monoOp : Op → Prop
  | .wait d => 0 ≤ d
  | _ => True

def Mono (ops : List Op) : Prop := ∀ op ∈ ops, monoOp op

instance (op : Op) : Decidable (monoOp op) := by cases op <;> unfold monoOp <;> infer_instance
instance (ops : List Op) : Decidable (Mono ops) := by unfold Mono; infer_instance

theorem block_phase (t : Int) (l : Rat) (s : PwmState) :
    (block t l s).minRuntime = s.minRuntime ∧ (block t l s).period = s.period ∧ (block t l s).value = s.value ∧
    (s.state = true →
      ((block t l s).pumpOn = false ∧ (block t l s).state = false ∧ (block t l s).duration = 0 ∧
        ((s.sec.update t 1).elapsed = true ∨
          (durAt t l s ≥ onOf s ∧ durAt t l s ≥ s.minRuntime ∧ onOf s ≠ s.period))) ∨
      ((block t l s).pumpOn = s.pumpOn ∧ (block t l s).state = true ∧ (block t l s).duration = durAt t l s ∧
        ¬ (durAt t l s ≥ onOf s ∧ durAt t l s ≥ s.minRuntime ∧ onOf s ≠ s.period) ∧
        (s.sec.update t 1).elapsed = false)) ∧
    (s.state = false →
      ((block t l s).pumpOn = true ∧ (block t l s).state = true ∧ (block t l s).duration = 0 ∧
        durAt t l s ≥ s.period - onOf s ∧ s.period - onOf s ≠ s.period ∧ (s.sec.update t 0).elapsed = false) ∨
      ((block t l s).pumpOn = s.pumpOn ∧ (block t l s).state = false ∧ (block t l s).duration = durAt t l s ∧
        (¬ (durAt t l s ≥ s.period - onOf s ∧ s.period - onOf s ≠ s.period) ∨
          (s.sec.update t 0).elapsed = true))) := by
  unfold block durAt onOf
  cases hs : s.state
  · simp only [Bool.false_eq_true, if_false]
    split
    · rename_i h; simp_all
    · rename_i h; simp_all; grind
  · simp only [if_true]
    split
    · rename_i h; simp_all; grind
    · rename_i h; simp_all; grind

theorem tick_fields (c : Cfg) (t : Int) (s : PwmState) :
    (tick c t s).last = some (secs t) ∧ (tick c t s).minRuntime = s.minRuntime ∧
    (tick c t s).period = s.period ∧ (tick c t s).value = s.value ∧
    (∀ l, s.last = some l →
      (tick c t s).pumpOn = (block t l s).pumpOn ∧ (tick c t s).state = (block t l s).state ∧
      (tick c t s).duration = (block t l s).duration) ∧
    (s.last = none →
      (tick c t s).pumpOn = s.pumpOn ∧ (tick c t s).state = s.state ∧ (tick c t s).duration = s.duration) := by
  have hb := fun l => block_phase t l s
  unfold tick dailyReset
  cases hl : s.last with
  | none => simp only []; split <;> simp
  | some l => simp only []; split <;> simp [hb l]

/-- invariant: the phase accumulator never exceeds the real age of the running pulse -/
structure PInv (h : H) : Prop where
  hstate : h.g.s.pumpOn = h.g.s.state
  hshort : h.short = false
  hord : h.g.s.pumpOn = true → h.onSince ≤ h.g.lastTick ∧ h.g.lastTick ≤ h.g.clock
  hlast : h.g.s.pumpOn = true → h.g.s.last = some (secs h.g.lastTick)
  hdur : h.g.s.pumpOn = true → h.g.s.duration ≤ secs h.g.lastTick - secs h.onSince

theorem pinv_tick (c : Cfg) (h : H) (hi : PInv h) : PInv (stepH c h .tick) := by
  obtain ⟨i1, i2, i3, i4, i5⟩ := hi
  obtain ⟨f1, f2, f3, f4, f5, f6⟩ := tick_fields c h.g.clock h.g.s
  simp only [stepH, stepG]
  cases hl : h.g.s.last with
  | none =>
    obtain ⟨a1, a2, a3⟩ := f6 hl
    have hp : h.g.s.pumpOn = false := by
      cases hq : h.g.s.pumpOn
      · rfl
      · have := i4 hq; rw [hl] at this; cases this
    refine ⟨?_, ?_, ?_, ?_, ?_⟩ <;> simp_all
  | some l =>
    obtain ⟨a1, a2, a3⟩ := f5 l hl
    obtain ⟨b1, b2, b3, bon, boff⟩ := block_phase h.g.clock l h.g.s
    cases hs : h.g.s.state
    · have hp : h.g.s.pumpOn = false := by rw [i1, hs]
      rcases boff hs with ⟨d1, d2, d3, _⟩ | ⟨d1, d2, d3, _⟩
      · refine ⟨?_, ?_, ?_, ?_, ?_⟩ <;> simp_all <;> grind
      · refine ⟨?_, ?_, ?_, ?_, ?_⟩ <;> simp_all
    · have hp : h.g.s.pumpOn = true := by rw [i1, hs]
      obtain ⟨o1, o2⟩ := i3 hp
      have hl' := i4 hp
      have hd := i5 hp
      have m1 := secs_mono o1
      have m2 := secs_mono o2
      have hll : l = secs h.g.lastTick := by rw [hl] at hl'; exact Option.some.inj hl'
      have hle : durAt h.g.clock l h.g.s ≤ secs h.g.clock - secs h.onSince := by
        unfold durAt
        apply constrain_le_max <;> grind
      rcases bon hs with ⟨d1, d2, d3, d4⟩ | ⟨d1, d2, d3, d4, d5⟩
      · refine ⟨?_, ?_, ?_, ?_, ?_⟩
        · simp_all
        · rcases d4 with e | ⟨e1, e2, e3⟩
          · simp [capCut, e, i2]
          · have : ¬ (secs h.g.clock - secs h.onSince < h.g.s.minRuntime) := by grind
            have : ¬ (secs h.g.clock - secs h.onSince < onOf h.g.s) := by grind
            simp_all
        · simp_all
        · simp_all
        · simp_all
      · refine ⟨?_, ?_, ?_, ?_, ?_⟩
        · simp_all
        · simp_all
        · intro _; simp_all; omega
        · simp_all
        · intro _; simp_all

theorem pinv_step (c : Cfg) (h : H) (op : Op) (hi : PInv h) (hm : monoOp op) : PInv (stepH c h op) := by
  obtain ⟨i1, i2, i3, i4, i5⟩ := hi
  cases op with
  | tick => exact pinv_tick c h ⟨i1, i2, i3, i4, i5⟩
  | wait d =>
    have : 0 ≤ d := hm
    refine ⟨i1, i2, ?_, i4, i5⟩
    intro hp; have := i3 hp; simp only [stepH, stepG]; omega
  | cancel => refine ⟨rfl, i2, ?_, ?_, ?_⟩ <;> simp [stepH, stepG, cancel]
  | setValue v => exact ⟨i1, i2, i3, i4, i5⟩
  | setPeriod p => exact ⟨i1, i2, i3, i4, i5⟩

theorem pinv_run (c : Cfg) (ops : List Op) : ∀ h : H, PInv h → Mono ops → PInv (runH c h ops) := by
  induction ops with
  | nil => intro h hi _; exact hi
  | cons op ops ih =>
    intro h hi hm
    exact ih _ (pinv_step c h op hi (hm op (by simp))) (fun o ho => hm o (by simp [ho]))

theorem pinv_init (c : Cfg) (period minRt : Rat) (secDur start : Int) : PInv (H.init c period minRt secDur start) := by
  refine ⟨rfl, rfl, ?_, ?_, ?_⟩ <;> simp [H.init, G.init, PwmState.init]

/-! ### duty 0 -/

/-- ops that do not write `value` / `period` -/
def constOp : Op → Prop
  | .setValue _ => False
  | .setPeriod _ => False
  | _ => True

def Const (ops : List Op) : Prop := ∀ op ∈ ops, constOp op

instance (op : Op) : Decidable (constOp op) := by cases op <;> unfold constOp <;> infer_instance
instance (ops : List Op) : Decidable (Const ops) := by unfold Const; infer_instance

def ZInv (s : PwmState) : Prop :=
  s.value = 0 ∧ s.minRuntime ≤ s.period ∧ s.pumpOn = false ∧ s.state = false

theorem zinv_tick (c : Cfg) (t : Int) (s : PwmState) (h : ZInv s) : ZInv (tick c t s) := by
  obtain ⟨z1, z2, z3, z4⟩ := h
  obtain ⟨f1, f2, f3, f4, f5, f6⟩ := tick_fields c t s
  cases hl : s.last with
  | none =>
    obtain ⟨a1, a2, a3⟩ := f6 hl
    exact ⟨by rw [f4, z1], by rw [f2, f3]; exact z2, by rw [a1, z3], by rw [a2, z4]⟩
  | some l =>
    obtain ⟨a1, a2, a3⟩ := f5 l hl
    obtain ⟨b1, b2, b3, bon, boff⟩ := block_phase t l s
    have hon : onOf s = 0 := by unfold onOf; rw [z1]; exact dutyOn_zero _ _ z2
    rcases boff z4 with ⟨d1, d2, d3, d4, d5, d6⟩ | ⟨d1, d2, d3, d4⟩
    · rw [hon] at d5; exact absurd (by grind) d5
    · exact ⟨by rw [f4, z1], by rw [f2, f3]; exact z2, by rw [a1, d1, z3], by rw [a2, d2]⟩

theorem zinv_step (c : Cfg) (g : G) (op : Op) (h : ZInv g.s) (hc : constOp op) : ZInv (stepG c g op).s := by
  cases op with
  | wait d => exact h
  | tick => exact zinv_tick c g.clock g.s h
  | cancel => exact ⟨h.1, h.2.1, rfl, rfl⟩
  | setValue v => exact absurd hc (by simp [constOp])
  | setPeriod p => exact absurd hc (by simp [constOp])

theorem zinv_run (c : Cfg) (ops : List Op) : ∀ g : G, ZInv g.s → Const ops → ZInv (runG c g ops).s := by
  induction ops with
  | nil => intro g h _; exact h
  | cons op ops ih =>
    intro g h hc
    exact ih _ (zinv_step c g op h (hc op (by simp))) (fun o ho => hc o (by simp [ho]))

end Poupool.Pwm
