/-
  Invariants of the closed loop `ecoStep` (Model/Eco.lean) along runs made of `tick` events (no heating
  interlude), every handler at most `eps` late.
-/
import Poupool.Proofs.EcoArith

namespace Poupool.Eco
open Poupool.Generated

theorem cfg_poll : EcoConfig.pollDelayUs = 10000000 := by decide
theorem cfg_cd : EcoConfig.computeDelayUs = 5000000 := by decide
theorem cfg_fW : EcoConfig.factorWaitingNum = 0 ∧ EcoConfig.factorWaitingDen = 1 := by decide
theorem cfg_fN : EcoConfig.factorNormalNum = 1 ∧ EcoConfig.factorNormalDen = 1 := by decide
theorem cfg_fT : EcoConfig.factorTankNum = 1 ∧ EcoConfig.factorTankDen = 1 := by decide
theorem cfg_fC : EcoConfig.factorComputeNum = 0 ∧ EcoConfig.factorComputeDen = 1 := by decide
theorem cfg_minOn : EcoConfig.minOnUs = 3600000000 := by decide
theorem cfg_tankMin : EcoConfig.tankMinUs = 60000000 := by decide
theorem cfg_offClamp : EcoConfig.offClamp = true := by decide

/-- what a finished day record claims -/
def DayOK (r : DayRec) : Prop :=
  r.full = true → r.plain = true → (r.lb ≤ r.dur ∧ r.dur ≤ r.ub ∧ r.dur ≤ r.on ∧ r.on ≤ r.dur + r.u)

/-- timers of a polled phase: just entered (`none`, first poll armed now) or polled at `now` -/
def TimersAt (s : Loop) : Prop :=
  (s.eco.filtration.last = none ∧ s.eco.current.last = none ∧ s.eco.current.duration = 0 ∧ s.due = s.now) ∨
  (s.eco.filtration.last = some s.now ∧ s.eco.current.last = some s.now ∧ s.due = s.now + EcoConfig.pollDelayUs)

/-- lateness / uncounted time reserved for the first poll of a freshly entered polled phase -/
def res (eps : Int) (s : Loop) : Int := if s.eco.filtration.last = none then eps else 0

def idle (s : Loop) : Int := s.now - s.gTc - (s.eco.filtration.duration - s.gDc)

/-- the part of the invariant that does not depend on the phase -/
structure Common (eps : Int) (s : Loop) : Prop where
  heps : 0 ≤ eps
  heps2 : eps ≤ HOUR
  hdelay : 0 ≤ s.eco.filtration.delay
  hnext : s.now < s.eco.nextReset + EcoConfig.computeDelayUs + eps
  hTc : s.gTc ≤ s.now
  -- the plan
  hN : 1 ≤ s.gN
  hoff : 0 ≤ s.eco.offD
  hon : 0 < s.eco.onD
  htank : 0 < s.eco.tankD
  hNoff : 2 * (s.gN * s.eco.offD) ≤ max 0 (2 * (s.gRc - s.gD) + s.gN)
  hNP : s.gRc ≤ s.eco.onD + s.eco.tankD ∨ 2 * s.gD - s.gN ≤ 2 * (s.gN * (s.eco.onD + s.eco.tankD))
  hD : s.gD = max 0 (s.eco.filtration.delay - s.gDc)
  hRc : s.gRc = max 0 (s.gNr - s.gTc)
  hNr : s.eco.nextReset = s.gNr
  hplain : s.gPlain = true
  -- counters
  hW : s.gWoff = s.gW * (s.eco.offD + (EcoConfig.pollDelayUs + eps))
  hC : s.gCredit = s.gCyc * (s.eco.onD + s.eco.tankD)
  hW0 : 0 ≤ s.gW
  hJ0 : 0 ≤ s.gJ
  -- accounting of the day
  hacc1 : s.full = true → s.eco.filtration.duration ≤ s.onToday
  hub : s.full = true → s.eco.filtration.duration ≤ s.eco.filtration.delay + EcoConfig.pollDelayUs + eps
  hdays : ∀ r ∈ s.days, DayOK r

def PhaseInv (eps : Int) (s : Loop) : Prop :=
  (s.phase = .compute ∧ s.now = s.gTc ∧ s.due = s.gTc + EcoConfig.computeDelayUs ∧ s.eco.filtration.duration = s.gDc
        ∧ s.gJ = EcoConfig.computeDelayUs + eps ∧ s.gWoff = 0 ∧ s.gW = 0 ∧ s.gCredit = 0 ∧ s.gCyc = 0 ∧ s.now < s.eco.nextReset
        ∧ (s.full = true → s.onToday + (EcoConfig.computeDelayUs + eps) ≤ s.eco.filtration.duration + s.gU))
    ∨ (s.phase = .waiting ∧ s.pumpOn = false ∧ TimersAt s ∧ s.eco.current.delay = s.eco.offD
        ∧ (s.full = true → s.onToday ≤ s.eco.filtration.duration + s.gU)
        ∧ (s.eco.filtration.last = none ∨ s.now < s.eco.nextReset)
        ∧ (s.eco.filtration.elapsed = true ∨
            (idle s + res eps s ≤ s.gJ + s.gWoff + s.eco.current.duration
             ∧ (s.eco.filtration.last = none ∨ s.eco.current.duration < s.eco.offD)
             ∧ s.gCredit ≤ s.eco.filtration.duration - s.gDc)))
    ∨ (s.phase = .normal ∧ s.pumpOn = true ∧ TimersAt s ∧ s.eco.current.delay = s.eco.onD
        ∧ (s.full = true → s.onToday + res eps s ≤ s.eco.filtration.duration + s.gU)
        ∧ (s.eco.filtration.last = none ∨ s.now < s.eco.nextReset)
        ∧ (s.eco.filtration.last = none ∨ s.eco.filtration.duration < s.eco.filtration.delay)
        ∧ (s.eco.filtration.elapsed = true ∨
            (idle s + res eps s ≤ s.gJ + s.gWoff
             ∧ s.gCredit + s.eco.current.duration ≤ s.eco.filtration.duration - s.gDc)))
    ∨ (s.phase = .tank ∧ s.pumpOn = true ∧ TimersAt s ∧ s.eco.current.delay = s.eco.tankD
        ∧ (s.full = true → s.onToday + res eps s ≤ s.eco.filtration.duration + s.gU)
        ∧ (s.eco.filtration.last = none ∨ s.now < s.eco.nextReset)
        ∧ (s.eco.filtration.last = none ∨ s.eco.filtration.duration < s.eco.filtration.delay)
        ∧ (s.eco.filtration.elapsed = true ∨
            (idle s + res eps s ≤ s.gJ + s.gWoff
             ∧ s.gCredit + s.eco.onD + s.eco.current.duration ≤ s.eco.filtration.duration - s.gDc)))

structure Inv (eps : Int) (s : Loop) : Prop where
  common : Common eps s
  hWC : s.gW + (if s.phase = .waiting then 1 else 0) ≤ s.gCyc + 1
  hcur0 : 0 ≤ s.eco.current.duration
  hphase : PhaseInv eps s

/-- the arithmetic of the last plan of a day, at the poll that sees the reset -/
theorem final_arith (delay Dc Rc D N off P J Woff W cyc credit dur T x pe : Int) (waiting : Bool)
    (hN : 1 ≤ N) (hoff : 0 ≤ off) (hP : 0 ≤ P) (hpe : 0 ≤ pe) (hW0 : 0 ≤ W) (hJ : 0 ≤ J)
    (hNoff : 2 * (N * off) ≤ max 0 (2 * (Rc - D) + N))
    (hNP : Rc ≤ P ∨ 2 * D - N ≤ 2 * (N * P))
    (hD : D = max 0 (delay - Dc))
    (hW : Woff = W * (off + pe)) (hC : credit = cyc * P)
    (hWC : W + (if waiting then 1 else 0) ≤ cyc + 1)
    (hT : Rc ≤ T)
    (hidle : T - (dur - Dc) ≤ J + Woff + x)
    (hx : x ≤ (if waiting then off + pe else 0))
    (hcred : credit ≤ dur - Dc) :
    min delay (Dc + Rc) - (J + N * pe + N) ≤ dur := by
  have hk : 0 ≤ off + pe := by omega
  by_cases hc : N ≤ cyc
  · have h1 : N * P ≤ cyc * P := Int.mul_le_mul_of_nonneg_right hc hP
    have h2 : 1 * P ≤ N * P := Int.mul_le_mul_of_nonneg_right hN hP
    have h3 : 0 ≤ N * pe := Int.mul_nonneg (by omega) hpe
    rcases hNP with h | h <;> omega
  · have hWN : W + (if waiting then 1 else 0) ≤ N := by omega
    have h3 : N * (off + pe) = N * off + N * pe := Int.mul_add _ _ _
    cases waiting with
    | false =>
      simp only [Bool.false_eq_true, if_false] at hWN hx
      have h1 : W * (off + pe) ≤ N * (off + pe) := Int.mul_le_mul_of_nonneg_right (by omega) hk
      omega
    | true =>
      simp only [if_true] at hWN hx
      have h1 : (W + 1) * (off + pe) ≤ N * (off + pe) := Int.mul_le_mul_of_nonneg_right (by omega) hk
      rw [Int.add_mul, Int.one_mul] at h1
      omega

end Poupool.Eco
