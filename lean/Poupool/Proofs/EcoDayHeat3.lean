/-
  Heating days that are NOT the first heating day of the run, several interludes within one day (C10 sections (g), (h)).

  * `withDays`, `DRel`, `run_withDays`: the finished days never influence the behaviour;
  * `Good`: the invariants `Inv` / `DayInv` of the tick-only proofs modulo the finished days; `good_run`;
  * `reset_good`: the poll that sees the reset re-establishes them whatever happened during the day;
  * `Tail`: from the `eco_compute` after an interlude to that poll; `tail_run`;
  * `Seg`, `SegsOK`, `heat_days_run`, `heat_days_start`: runs with at most one complete interlude per day;
  * `SegsOK2`, `LastBounds`, `heat_days_run2`, `heat_days_start2`: any number of complete interludes per day.
  The concrete runs of the examples are in EcoDayHeat4.lean.
-/
import Poupool.Proofs.EcoDayHeat2

set_option linter.unusedSimpArgs false
set_option linter.unusedVariables false
namespace Poupool.Eco
open Poupool.Generated

/-- the state with the list of finished days replaced -/
def withDays (D : List DayRec) (s : Loop) : Loop := { s with days := D }

@[simp] theorem withDays_withDays (D D' : List DayRec) (s : Loop) : withDays D (withDays D' s) = withDays D s := rfl
@[simp] theorem withDays_self (s : Loop) : withDays s.days s = s := rfl
@[simp] theorem withDays_days (D : List DayRec) (s : Loop) : (withDays D s).days = D := rfl

theorem doUpdate_withDays (D : List DayRec) (s : Loop) (eps a b : Int) :
    ((withDays D s).doUpdate eps a b).1
      = withDays (((withDays [] s).doUpdate eps a b).1.days ++ D) ((withDays [] s).doUpdate eps a b).1
    ∧ ((withDays D s).doUpdate eps a b).2 = ((withDays [] s).doUpdate eps a b).2 := by
  unfold Loop.doUpdate
  by_cases h : (s.eco.update s.now a b).2.reset = true
  · have h' : ((withDays D s).eco.update (withDays D s).now a b).2.reset = true := h
    have h'' : ((withDays [] s).eco.update (withDays [] s).now a b).2.reset = true := h
    simp only [h', h'', if_true]
    exact ⟨rfl, rfl⟩
  · have h' : ¬ ((withDays D s).eco.update (withDays D s).now a b).2.reset = true := h
    have h'' : ¬ ((withDays [] s).eco.update (withDays [] s).now a b).2.reset = true := h
    simp only [h', h'', if_false]
    exact ⟨rfl, rfl⟩


/-- `x` and `y` differ only in the finished days, `x` has the extra days `D` below those of `y` -/
def DRel (D : List DayRec) (x y : Loop) : Prop := x = withDays (y.days ++ D) y

theorem DRel.start (D : List DayRec) (s : Loop) : DRel D (withDays D s) (withDays [] s) := rfl

theorem DRel.doUpdate {D : List DayRec} {x y : Loop} (h : DRel D x y) (eps a b : Int) :
    DRel D (x.doUpdate eps a b).1 (y.doUpdate eps a b).1 ∧ (x.doUpdate eps a b).2 = (y.doUpdate eps a b).2 := by
  unfold DRel at h ⊢
  subst h
  have h1 := doUpdate_withDays (y.days ++ D) y eps a b
  have h2 := doUpdate_withDays y.days y eps a b
  rw [withDays_self] at h2
  rw [h1.1, h1.2, h2.1, h2.2]
  simp only [withDays_days, withDays_withDays, List.append_assoc, and_self]

theorem DRel.map {D : List DayRec} {x y : Loop} (h : DRel D x y) (f : Loop → Loop)
    (hf : ∀ (E : List DayRec) (z : Loop), f (withDays E z) = withDays E (f z)) (hd : ∀ z : Loop, (f z).days = z.days) :
    DRel D (f x) (f y) := by
  unfold DRel at h ⊢
  subst h
  rw [hf, hd]

theorem DRel.advance {D : List DayRec} {x y : Loop} (h : DRel D x y) (t : Int) : DRel D (x.advance t) (y.advance t) :=
  h.map (fun z => z.advance t) (fun _ _ => rfl) (fun _ => rfl)

theorem DRel.now {D : List DayRec} {x y : Loop} (h : DRel D x y) : x.now = y.now := by unfold DRel at h; subst h; rfl
theorem DRel.due {D : List DayRec} {x y : Loop} (h : DRel D x y) : x.due = y.due := by unfold DRel at h; subst h; rfl
theorem DRel.phase {D : List DayRec} {x y : Loop} (h : DRel D x y) : x.phase = y.phase := by unfold DRel at h; subst h; rfl
theorem DRel.toNormal {D : List DayRec} {x y : Loop} (h : DRel D x y) : x.toNormal = y.toNormal := by unfold DRel at h; subst h; rfl
theorem DRel.eco {D : List DayRec} {x y : Loop} (h : DRel D x y) : x.eco = y.eco := by unfold DRel at h; subst h; rfl

theorem DRel.enterCompute {D : List DayRec} {x y : Loop} (h : DRel D x y) (eps : Int) :
    DRel D (x.enterCompute eps).1 (y.enterCompute eps).1 := by
  have h0 : DRel D { x with eco := x.eco.clear } { y with eco := y.eco.clear } :=
    h.map (fun z => { z with eco := z.eco.clear }) (fun _ _ => rfl) (fun _ => rfl)
  have h1 := h0.doUpdate eps EcoConfig.factorComputeNum EcoConfig.factorComputeDen
  simp only [Loop.enterCompute]
  generalize Loop.doUpdate { x with eco := x.eco.clear } eps _ _ = rx at *
  generalize Loop.doUpdate { y with eco := y.eco.clear } eps _ _ = ry at *
  obtain ⟨h1, h2⟩ := h1
  unfold DRel at h1 ⊢
  rw [h1]
  rfl

theorem DRel.reloadEco {D : List DayRec} {x y : Loop} (h : DRel D x y) (eps j1 j2 : Int) :
    DRel D (x.reloadEco eps j1 j2).1 (y.reloadEco eps j1 j2).1 := by
  simp only [Loop.reloadEco]
  apply DRel.enterCompute
  rw [h.now]
  exact h.map (fun z => Loop.advance { (z.advance (y.now + j1)) with eco := (z.advance (y.now + j1)).eco.clear, gU := (z.advance (y.now + j1)).gU + 2 * eps } ((z.advance (y.now + j1)).now + j2))
    (fun _ _ => rfl) (fun _ => rfl)


@[simp] theorem withDays_eco (D : List DayRec) (s : Loop) : (withDays D s).eco = s.eco := rfl
@[simp] theorem withDays_now (D : List DayRec) (s : Loop) : (withDays D s).now = s.now := rfl
@[simp] theorem withDays_phase (D : List DayRec) (s : Loop) : (withDays D s).phase = s.phase := rfl

theorem DRel.ite {D : List DayRec} (c : Prop) [Decidable c] {a b a' b' : Loop × List Rec}
    (h1 : DRel D a.1 a'.1) (h2 : DRel D b.1 b'.1) : DRel D (if c then a else b).1 (if c then a' else b').1 := by
  split <;> assumption

theorem DRel.step {D : List DayRec} {x y : Loop} (h : DRel D x y) (eps : Int) (e : Ev) :
    DRel D (ecoStep eps x e).1 (ecoStep eps y e).1 := by
  cases e with
  | tick j0 j1 j2 =>
    have ha : DRel D (x.advance (max x.now x.due + j0)) (y.advance (max y.now y.due + j0)) := by
      rw [h.now, h.due]; exact h.advance _
    simp only [ecoStep]
    generalize x.advance (max x.now x.due + j0) = xa at *
    generalize y.advance (max y.now y.due + j0) = ya at *
    rw [ha.phase]
    cases hp : ya.phase <;> simp only []
    · -- compute
      rw [ha.toNormal]
      cases ya.toNormal <;> simp only [Bool.false_eq_true, if_false, if_true]
      · exact ha.map (fun z => (z.enterWaiting eps).1) (fun _ _ => rfl) (fun _ => rfl)
      · exact ha.map (fun z => (z.enterNormal eps).1) (fun _ _ => rfl) (fun _ => rfl)
    · -- waiting
      obtain ⟨u1, u2⟩ := ha.doUpdate eps EcoConfig.factorWaitingNum EcoConfig.factorWaitingDen
      generalize xa.doUpdate eps _ _ = ux at *
      generalize ya.doUpdate eps _ _ = uy at *
      have hre := u1.reloadEco eps j1 j2
      obtain ⟨ux1, ux2⟩ := ux
      obtain ⟨uy1, uy2⟩ := uy
      simp only at u1 u2 hre ⊢
      unfold DRel at u1
      subst u1 u2
      simp only [withDays_eco, withDays_now]
      cases hc : ux2.reset <;> simp only [Bool.false_eq_true, if_false, if_true]
      · apply DRel.ite <;> exact rfl
      · exact hre
    · -- normal
      obtain ⟨u1, u2⟩ := ha.doUpdate eps EcoConfig.factorNormalNum EcoConfig.factorNormalDen
      generalize xa.doUpdate eps _ _ = ux at *
      generalize ya.doUpdate eps _ _ = uy at *
      have hre := u1.reloadEco eps j1 j2
      obtain ⟨ux1, ux2⟩ := ux
      obtain ⟨uy1, uy2⟩ := uy
      simp only at u1 u2 hre ⊢
      unfold DRel at u1
      subst u1 u2
      simp only [withDays_eco, withDays_now]
      cases hc : ux2.reset <;> simp only [Bool.false_eq_true, if_false, if_true]
      · apply DRel.ite <;> exact rfl
      · exact hre
    · -- tank
      obtain ⟨u1, u2⟩ := ha.doUpdate eps EcoConfig.factorTankNum EcoConfig.factorTankDen
      generalize xa.doUpdate eps _ _ = ux at *
      generalize ya.doUpdate eps _ _ = uy at *
      have hre := u1.reloadEco eps j1 j2
      obtain ⟨ux1, ux2⟩ := ux
      obtain ⟨uy1, uy2⟩ := uy
      simp only at u1 u2 hre ⊢
      unfold DRel at u1
      subst u1 u2
      simp only [withDays_eco, withDays_now]
      cases hc : ux2.reset <;> simp only [Bool.false_eq_true, if_false, if_true]
      · apply DRel.ite <;> exact rfl
      · exact hre
    · -- heating
      obtain ⟨u1, u2⟩ := ha.doUpdate eps EcoConfig.factorHeatingNum EcoConfig.factorHeatingDen
      generalize xa.doUpdate eps _ _ = ux at *
      generalize ya.doUpdate eps _ _ = uy at *
      obtain ⟨ux1, ux2⟩ := ux
      obtain ⟨uy1, uy2⟩ := uy
      simp only at u1 u2 ⊢
      unfold DRel at u1
      subst u1 u2
      rfl
    · -- heatDelay
      exact ha.enterCompute eps
  | heat dt =>
    have ha : DRel D (x.advance (x.now + dt)) (y.advance (y.now + dt)) := by
      rw [h.now]; exact h.advance _
    simp only [ecoStep]
    generalize x.advance (x.now + dt) = xa at *
    generalize y.advance (y.now + dt) = ya at *
    rw [ha.phase]
    unfold DRel at ha
    subst ha
    cases hp : ya.phase <;> simp only [] <;> rfl
  | heatEnd dt =>
    have ha : DRel D (x.advance (x.now + dt)) (y.advance (y.now + dt)) := by
      rw [h.now]; exact h.advance _
    simp only [ecoStep]
    generalize x.advance (x.now + dt) = xa at *
    generalize y.advance (y.now + dt) = ya at *
    rw [ha.phase]
    unfold DRel at ha
    subst ha
    cases hp : ya.phase <;> simp only [] <;> rfl

theorem DRel.run {D : List DayRec} (eps : Int) (evs : List Ev) :
    ∀ {x y : Loop}, DRel D x y → DRel D (ecoFinal eps x evs) (ecoFinal eps y evs) := by
  induction evs with
  | nil => intro x y h; exact h
  | cons e es ih => intro x y h; exact ih (h.step eps e)

/-- the finished days never influence the behaviour: a run from `s` is the run from `s` without its finished days, with
the days of `s` put back below the new ones -/
theorem run_withDays (eps : Int) (s : Loop) (evs : List Ev) :
    ecoFinal eps s evs = withDays ((ecoFinal eps (withDays [] s) evs).days ++ s.days) (ecoFinal eps (withDays [] s) evs) :=
  DRel.run eps evs (DRel.start s.days s)


theorem DRel.clr {D : List DayRec} {x y : Loop} (h : DRel D x y) : withDays [] x = withDays [] y := by
  unfold DRel at h; subst h; rfl

theorem DRel.days {D : List DayRec} {x y : Loop} (h : DRel D x y) : x.days = y.days ++ D := by
  unfold DRel at h; subst h; rfl

theorem DRel.of_run (eps : Int) (s : Loop) (evs : List Ev) :
    DRel s.days (ecoFinal eps s evs) (ecoFinal eps (withDays [] s) evs) :=
  DRel.run eps evs (DRel.start s.days s)

/-! ### the tick invariants modulo the finished days -/

theorem inv_clr (eps : Int) (s : Loop) (h : Inv eps s) : Inv eps (withDays [] s) := by
  obtain ⟨⟨a1, a2, a3, a4, a5, a6, a7, a8, a9, a10, a11, a12, a13, a14, a15, a16, a17, a18, a19, a20, a21, a22⟩, b, c, d⟩ := h
  exact ⟨⟨a1, a2, a3, a4, a5, a6, a7, a8, a9, a10, a11, a12, a13, a14, a15, a16, a17, a18, a19, a20, a21,
    fun r hr => by cases hr⟩, b, c, d⟩

theorem dayInv_clr (eps per delay : Int) (s : Loop) (h : DayInv eps per delay s) : DayInv eps per delay (withDays [] s) := by
  obtain ⟨a1, a2, a3, a4, a5, a6, a7, a8, a9, a10, a11⟩ := h
  exact ⟨a1, a2, a3, a4, a5, a6, a7, a8, a9, (fun r hr => by cases hr), ⟨Or.inl rfl, (fun r hr => by cases hr)⟩⟩

/-- the invariants of the tick-only proofs hold for the state without its finished days (the records of earlier
heating days are not `DayClosed`, so `DayInv` cannot hold for the state itself after a heating day) -/
structure Good (eps per delay : Int) (s : Loop) : Prop where
  hi : Inv eps (withDays [] s)
  hd : DayInv eps per delay (withDays [] s)
  h0 : 0 ≤ s.eco.filtration.duration

theorem good_of_inv (eps per delay : Int) (s : Loop) (hi : Inv eps s) (hd : DayInv eps per delay s)
    (h0 : 0 ≤ s.eco.filtration.duration) : Good eps per delay s :=
  ⟨inv_clr eps s hi, dayInv_clr eps per delay s hd, h0⟩

/-- the bounds of a whole tick-only day -/
def TickDayOK (eps per delay : Int) (r : DayRec) : Prop :=
  r.plain = true ∧ (r.full = true →
    min delay DAY - slackLo per eps ≤ r.on ∧ r.on ≤ min delay DAY + slackHi per eps)

/-- a tick-only run from a `Good` state: `Good` again, the new records are those of tick-only days -/
theorem good_run (eps per delay : Int) (hst : Static eps per delay) (s : Loop) (evs : List Ev)
    (h : Good eps per delay s) (hall : ∀ e ∈ evs, TickOK eps e) :
    Good eps per delay (ecoFinal eps s evs)
    ∧ ∃ N, (ecoFinal eps s evs).days = N ++ s.days ∧ ∀ r ∈ N, TickDayOK eps per delay r := by
  obtain ⟨hi, hd, h0⟩ := h
  have hr := DRel.of_run eps s evs
  obtain ⟨hi', hd'⟩ := day_run eps per delay hst evs _ hi hd hall
  have h0' := run_dur_nonneg eps hst.heps5 evs _ hi h0 hall
  refine ⟨⟨?_, ?_, ?_⟩, (ecoFinal eps (withDays [] s) evs).days, hr.days, ?_⟩
  · rw [hr.clr]; exact inv_clr eps _ hi'
  · rw [hr.clr]; exact dayInv_clr eps per delay _ hd'
  · rw [hr.eco]; exact h0'
  · intro r hrm
    have hcl := hd'.hdays r hrm
    exact ⟨hcl.1, fun hf => day_bounds eps per delay r hst (hi'.common.hdays r hrm) hcl hf⟩


/-! ### the poll that sees the reset re-establishes the tick invariants (whatever happened during the day) -/

/-- the poll that sees the reset is handled less than `poll + eps` after the reset instant -/
theorem reset_time_of_inv (eps : Int) (s : Loop) (h : Inv eps s) (he5 : eps ≤ 600000) (j0 : Int) (hj0 : 0 ≤ j0 ∧ j0 ≤ eps)
    (hph : s.phase = .waiting ∨ s.phase = .normal ∨ s.phase = .tank) :
    max s.now s.due + j0 < s.eco.nextReset + EcoConfig.pollDelayUs + eps := by
  have hpoll := cfg_poll
  have hcd := cfg_cd
  have hnext := h.common.hnext
  rcases h.hphase with ⟨hc, _⟩ | ⟨_, _, ht, _, _, hnr, _⟩ | ⟨_, _, ht, _, _, hnr, _⟩ | ⟨_, _, ht, _, _, hnr, _⟩
  · rcases hph with h | h | h <;> rw [hc] at h <;> cases h
  all_goals
    rcases ht with ⟨hfl, _, _, hdue⟩ | ⟨hfl, _, hdue⟩
    · omega
    · rcases hnr with hnr | hnr
      · rw [hfl] at hnr; cases hnr
      · omega

/-- A poll of a polled eco phase that sees the reset (less than `poll + eps` after the reset instant), then `reload`,
`reloaded`, `eco_compute`: the tick invariants hold for the new day, whatever the state of the finished day was. -/
theorem reset_good (eps per delay : Int) (t : Loop) (hst : Static eps per delay) (j0 j1 j2 : Int)
    (hok : TickOK eps (.tick j0 j1 j2))
    (hph : t.phase = .waiting ∨ t.phase = .normal ∨ t.phase = .tank)
    (hper : t.eco.period = per) (hdel : t.eco.filtration.delay = delay) (hpd : t.eco.periodDuration = divNearest delay per)
    (hr : t.eco.nextReset ≤ max t.now t.due + j0)
    (hlt : max t.now t.due + j0 < t.eco.nextReset + EcoConfig.pollDelayUs + eps) :
    Good eps per delay (ecoStep eps t (.tick j0 j1 j2)).1 := by
  obtain ⟨a1, a2, a3, a4, a5, a6⟩ := hok
  obtain ⟨heps, heps5, hper1, hper2, hdl⟩ := hst
  have hpoll := cfg_poll
  have hDAY : DAY = 86400000000 := rfl
  have hHOUR : HOUR = 3600000000 := rfl
  have hU : US = 1000000 := rfl
  have key : ∀ f : Int, Good eps per delay ((polled eps t j0 f 1).reloadEco eps j1 j2).1 := by
    intro f
    have hsp := doUpdate_reset (t.advance (max t.now t.due + j0)) eps f 1 (by simpa using hr)
    have hsm := doUpdate_reset_more (t.advance (max t.now t.due + j0)) eps f 1 (by simpa using hr)
    simp only [adv_now, adv_eco] at hsp hsm
    simp only [polled]
    generalize (t.advance (max t.now t.due + j0)).doUpdate eps f 1 = r at *
    obtain ⟨r1, r2, r3, r4, r5, r6, r7, r8, r9⟩ := hsp
    obtain ⟨m1, m2, m3, m4, m5, m6, m7⟩ := hsm
    have hrel : DRel r.1.days (r.1.reloadEco eps j1 j2).1 ((withDays [] r.1).reloadEco eps j1 j2).1 :=
      (DRel.start r.1.days r.1).reloadEco eps j1 j2
    have hI : Inv eps ((withDays [] r.1).reloadEco eps j1 j2).1 := by
      apply reload_inv eps _ _ j1 j2 ⟨a3, a4⟩ ⟨a5, a6⟩
      refine ⟨heps, by omega, ?_, ?_, r5, r3, r4, r7, fun x hx => by cases hx⟩
      · show 0 ≤ r.1.eco.filtration.delay
        rw [r8, hdel]; omega
      · show r.1.now + 2 * eps < r.1.eco.nextReset
        rw [r2, r6]; omega
    have hD : DayInv eps per delay ((withDays [] r.1).reloadEco eps j1 j2).1 := by
      apply reload_day eps per delay _ j1 j2 ⟨heps, heps5, hper1, hper2, hdl⟩ ⟨a3, a4⟩ ⟨a5, a6⟩
      · show r.1.eco.period = per
        rw [m1, hper]
      · show r.1.eco.filtration.delay = delay
        rw [r8, hdel]
      · show r.1.eco.periodDuration = divNearest delay per
        rw [m2, hpd]
      · exact r7
      · exact r3
      · exact r4
      · exact m5
      · show r.1.eco.nextReset - DAY ≤ r.1.now
        rw [r6, r2]; omega
      · show r.1.now < r.1.eco.nextReset - DAY + EcoConfig.pollDelayUs + eps
        rw [r6, r2]; omega
      · intro x hx; cases hx
      · intro x hx; cases hx
    refine ⟨?_, ?_, ?_⟩
    · rw [hrel.clr]; exact inv_clr eps _ hI
    · rw [hrel.clr]; exact dayInv_clr eps per delay _ hD
    · rw [reload_dur eps r.1 j1 j2 (by rw [r2, r6]; omega), r7]; omega
  rcases hph with hp | hp | hp
  · rw [step_waiting_reset eps t hp j0 j1 j2 hr]; exact key 0
  · rw [step_normal_reset eps t hp j0 j1 j2 hr]; exact key 1
  · rw [step_tank_reset eps t hp j0 j1 j2 hr]; exact key 1


/-! ### from the end of an interlude to the reset poll -/

/-- Between the `eco_compute` that follows a heating interlude and the poll that sees the reset — in a whole day or
not, with the quota exceeded or not: the tick invariants hold for the shadow that is NOT a whole day (they say nothing
about the accounting of the day then, but all about timers and plans).  `days0`, `fl`: finished days and `full` at `heat`. -/
structure Tail (eps per delay : Int) (days0 : List DayRec) (fl : Bool) (s : Loop) : Prop where
  hp : Inv eps (shadow 0 0 false s)
  hd : DayInv eps per delay (shadow 0 0 false s)
  hdays : s.days = days0
  hplain : s.gPlain = false
  hfull : s.full = fl
  h0 : 0 ≤ s.eco.filtration.duration

theorem tail_tick (eps per delay : Int) (days0 : List DayRec) (fl : Bool) (s : Loop) (hst : Static eps per delay)
    (h : Tail eps per delay days0 fl s) (j0 j1 j2 : Int) (hok : TickOK eps (.tick j0 j1 j2))
    (hnr : s.phase = .compute ∨ ¬ s.eco.nextReset ≤ max s.now s.due + j0) :
    Tail eps per delay days0 fl (ecoStep eps s (.tick j0 j1 j2)).1 := by
  obtain ⟨hp, hd, hdays, hplain, hfull, h0⟩ := h
  have hph : s.phase = .compute ∨ s.phase = .waiting ∨ s.phase = .normal ∨ s.phase = .tank :=
    not_heating_of_inv eps (shadow 0 0 false s) hp
  have hk := tick_keep eps s j0 j1 j2 hst.heps hok.1 hok.2.2.1 hph hnr
  have e2 := shadow_tick 0 0 false eps s j0 j1 j2 hph hnr
  have h0' := tick_dur_nonneg eps (shadow 0 0 false s) hp h0 j0 j1 j2 hok hst.heps5
  rw [e2] at h0'
  refine ⟨?_, ?_, ?_, ?_, ?_, h0'⟩
  · rw [← e2]; exact step_inv eps _ hp _ hok
  · rw [← e2]; exact day_step eps per delay _ hp hd hst _ hok
  · rw [hk.hdays]; exact hdays
  · rw [hk.hplain]; exact hplain
  · rw [hk.hfull]; exact hfull

/-- the `eco_compute` at the expiry of the delay after an interlude, before the reset -/
theorem tail_start (eps per delay NR th dh oh gU0 : Int) (fl : Bool) (days0 : List DayRec) (x : Loop) (hst : Static eps per delay)
    (h : HeatDone eps per delay NR th dh oh gU0 fl days0 x) (hnr : x.now < NR) (h0 : 0 ≤ x.eco.filtration.duration) :
    Tail eps per delay days0 fl (x.enterCompute eps).1 := by
  obtain ⟨hpump, hper, hdel, hpd, hNR, hfull, hdays, hgU, hplain, hth, hon, hlo, hhi, hge⟩ := h
  have hst' := hst
  obtain ⟨heps, heps5, hper1, hper2, hdl⟩ := hst
  have hU : US = 1000000 := rfl
  have hHOUR : HOUR = 3600000000 := rfl
  have hnr' : x.now < x.eco.nextReset := by rw [hNR]; exact hnr
  have pre : PreCompute eps (shadow 0 0 false x) := by
    constructor
    case heps => exact heps
    case heps2 => omega
    case hdelay => show 0 ≤ x.eco.filtration.delay; omega
    case hnr => exact hnr'
    case hplain => rfl
    case hacc1 => intro hf; simp [shadow] at hf
    case hacc2 => intro hf; simp [shadow] at hf
    case hub => intro hf; simp [shadow] at hf
    case hdays => intro r hr; cases hr
  have hp := enterCompute_inv eps _ pre
  rw [shadow_enterCompute _ _ _ eps x hnr'] at hp
  have hd := enterCompute_dayInv eps per delay (shadow 0 0 false x) hst' hper hdel hpd hnr' h0 (by simp [shadow]) rfl
  rw [shadow_enterCompute _ _ _ eps x hnr'] at hd
  obtain ⟨f1, f2, f3, f4, f5, f6, f7, f8, f9, f10, f11, f12, f13, f14, f15, f16, f17, f18, f19, f20⟩ :=
    enterCompute_fields eps x hnr'
  refine ⟨hp, hd, ?_, ?_, ?_, ?_⟩
  · rw [f5]; exact hdays
  · rw [f16]; exact hplain
  · rw [f3]; exact hfull
  · rw [f9]; exact h0

/-- the poll that sees the reset after an interlude: the invariants of the next day, the record of the heating day -/
theorem tail_reset (eps per delay : Int) (days0 : List DayRec) (fl : Bool) (s : Loop) (hst : Static eps per delay)
    (h : Tail eps per delay days0 fl s) (j0 j1 j2 : Int) (hok : TickOK eps (.tick j0 j1 j2))
    (hph : s.phase = .waiting ∨ s.phase = .normal ∨ s.phase = .tank)
    (hr : s.eco.nextReset ≤ max s.now s.due + j0) :
    Good eps per delay (ecoStep eps s (.tick j0 j1 j2)).1
    ∧ ∃ r : DayRec, (ecoStep eps s (.tick j0 j1 j2)).1.days = r :: days0 ∧ r.plain = false ∧ r.full = fl := by
  obtain ⟨hp, hd, hdays, hplain, hfull, h0⟩ := h
  have hpoll := cfg_poll
  have hDAY : DAY = 86400000000 := rfl
  have hlt : max s.now s.due + j0 < s.eco.nextReset + EcoConfig.pollDelayUs + eps :=
    reset_time_of_inv eps (shadow 0 0 false s) hp hst.heps5 j0 ⟨hok.1, hok.2.1⟩ hph
  have heps5 := hst.heps5
  obtain ⟨a1, a2, a3, a4, a5, a6⟩ := hok
  refine ⟨reset_good eps per delay s hst j0 j1 j2 ⟨a1, a2, a3, a4, a5, a6⟩ hph hd.hper hd.hdel hd.hpd hr hlt,
    recAt eps s (max s.now s.due + j0) (pollF s.phase) 1, ?_, ?_, ?_⟩
  · rw [reset_days eps s j0 j1 j2 hph hr (by omega), hdays]
  · exact hplain
  · exact hfull

/-- a tick-only continuation of a `Tail` state: either the day of the interlude is still running, or the continuation
splits at the poll that sees the reset, after which the state is `Good` and the record of the day has been pushed -/
theorem tail_run (eps per delay : Int) (days0 : List DayRec) (fl : Bool) (hst : Static eps per delay) (evs : List Ev) :
    ∀ s : Loop, Tail eps per delay days0 fl s → (∀ e ∈ evs, TickOK eps e) →
      Tail eps per delay days0 fl (ecoFinal eps s evs)
      ∨ ∃ a b r, evs = a ++ b ∧ Good eps per delay (ecoFinal eps s a)
          ∧ (ecoFinal eps s a).days = r :: days0 ∧ r.plain = false ∧ r.full = fl := by
  induction evs with
  | nil => intro s h _; exact Or.inl h
  | cons e es ih =>
    intro s h hall
    have he := hall e (List.mem_cons_self ..)
    have hrest : ∀ x ∈ es, TickOK eps x := fun x hx => hall x (List.mem_cons_of_mem _ hx)
    cases e with
    | heat dt => exact he.elim
    | heatEnd dt => exact he.elim
    | tick j0 j1 j2 =>
      by_cases hnr : s.phase = .compute ∨ ¬ s.eco.nextReset ≤ max s.now s.due + j0
      · rcases ih _ (tail_tick eps per delay days0 fl s hst h j0 j1 j2 he hnr) hrest with hT | ⟨a, b, r, h1, h2, h3, h4, h5⟩
        · exact Or.inl hT
        · exact Or.inr ⟨.tick j0 j1 j2 :: a, b, r, by rw [h1]; rfl, h2, h3, h4, h5⟩
      · have hr : s.eco.nextReset ≤ max s.now s.due + j0 := by
          by_cases hx : s.eco.nextReset ≤ max s.now s.due + j0
          · exact hx
          · exact (hnr (Or.inr hx)).elim
        have hph : s.phase = .waiting ∨ s.phase = .normal ∨ s.phase = .tank := by
          rcases not_heating_of_inv eps (shadow 0 0 false s) h.hp with hp | hp
          · exact (hnr (Or.inl hp)).elim
          · exact hp
        obtain ⟨hg, r, r1, r2, r3⟩ := tail_reset eps per delay days0 fl s hst h j0 j1 j2 he hph hr
        exact Or.inr ⟨[.tick j0 j1 j2], es, r, rfl, hg, r1, r2, r3⟩


/-! ### a complete interlude started in a `Good` state -/

theorem DRel.onToday {D : List DayRec} {x y : Loop} (h : DRel D x y) : x.onToday = y.onToday := by unfold DRel at h; subst h; rfl
theorem DRel.full {D : List DayRec} {x y : Loop} (h : DRel D x y) : x.full = y.full := by unfold DRel at h; subst h; rfl
theorem DRel.gPlain {D : List DayRec} {x y : Loop} (h : DRel D x y) : x.gPlain = y.gPlain := by unfold DRel at h; subst h; rfl

theorem DRel.pollsOK {D : List DayRec} (eps : Int) (evs : List Ev) :
    ∀ {x y : Loop}, DRel D x y → PollsOK eps x evs → PollsOK eps y evs := by
  induction evs with
  | nil => intro x y _ _; trivial
  | cons e es ih =>
    intro x y h hp
    cases e with
    | tick j0 j1 j2 =>
      obtain ⟨⟨a1, a2, a3⟩, hrest⟩ := hp
      exact ⟨⟨a1, a2, by rw [← h.now, ← h.due, ← h.eco]; exact a3⟩, ih (h.step eps _) hrest⟩
    | heat dt => exact hp.elim
    | heatEnd dt => exact hp.elim

theorem DRel.interludeOK {D : List DayRec} {x y : Loop} (h : DRel D x y) (eps dt : Int) (polls : List Ev) (dt' jd : Int)
    (hok : InterludeOK eps x dt polls dt' jd) : InterludeOK eps y dt polls dt' jd := by
  obtain ⟨h1, h2, h3, h4⟩ := hok
  have hr := DRel.run eps (.heat dt :: polls) h
  refine ⟨?_, DRel.pollsOK eps polls (h.step eps _) h2, ?_, h4⟩
  · rw [← h.now, ← h.due]; exact h1
  · rw [← hr.now, ← hr.due]; exact h3

theorem suffix_cancel {α : Type} (r : α) (D L : List α) (h : (r :: D) <:+ (L ++ D)) : [r] <:+ L := by
  obtain ⟨t, ht⟩ := h
  refine ⟨t, ?_⟩
  have : (t ++ [r]) ++ D = L ++ D := by rw [List.append_assoc]; exact ht
  exact List.append_cancel_right this

/-- the state reached at the end of a complete interlude started in a `Good` state is a `Tail` state -/
theorem good_interlude_tail (eps per delay : Int) (s : Loop) (hst : Static eps per delay) (hg : Good eps per delay s)
    (hph : s.phase = .waiting ∨ s.phase = .normal)
    (dt : Int) (polls : List Ev) (dt' jd j1 j2 : Int) (hok : InterludeOK eps s dt polls dt' jd)
    (hnr : (ecoFinal eps s (interludeEvs dt polls dt' jd j1 j2)).now < s.eco.nextReset) :
    Tail eps per delay s.days s.full (ecoFinal eps s (interludeEvs dt polls dt' jd j1 j2)) := by
  obtain ⟨x, hx, hxnow, hdone⟩ := interlude eps per delay s dt polls dt' jd j1 j2 hst.heps hph hg.hd.hper hg.hd.hdel hg.hd.hpd hok
  rw [hx] at hnr ⊢
  rw [enterCompute_now] at hnr
  have h0 := hg.h0
  have hge := hdone.hge
  exact tail_start eps per delay _ _ _ _ _ _ _ x hst hdone hnr (by omega)

/-- `heat_day_monitor` for an interlude started in a `Good` state (any earlier days, with or without interludes) -/
theorem good_heat_day (eps per delay : Int) (s : Loop) (hst : Static eps per delay) (hg : Good eps per delay s)
    (hfull : s.full = true) (hph : s.phase = .waiting ∨ s.phase = .normal)
    (dt : Int) (polls : List Ev) (dt' jd j1 j2 : Int) (hok : InterludeOK eps s dt polls dt' jd)
    (hnr : (ecoFinal eps s (interludeEvs dt polls dt' jd j1 j2)).now < s.eco.nextReset)
    (post : List Ev) (hpost : ∀ e ∈ post, TickOK eps e) (r : DayRec)
    (hr : (r :: s.days) <:+ (ecoFinal eps (ecoFinal eps s (interludeEvs dt polls dt' jd j1 j2)) post).days) :
    r.full = true ∧ r.plain = false
    ∧ min delay DAY - slackLoHeat per eps ≤ r.on
    ∧ r.on ≤ max (min delay DAY) (ecoFinal eps s (interludeEvs dt polls dt' jd j1 j2)).onToday + slackHiHeat per eps
    ∧ (delay ≤ (ecoFinal eps s (interludeEvs dt polls dt' jd j1 j2)).eco.filtration.duration →
        delay ≤ r.on ∧ (ecoFinal eps s (interludeEvs dt polls dt' jd j1 j2)).onToday ≤ r.on
        ∧ r.on ≤ (ecoFinal eps s (interludeEvs dt polls dt' jd j1 j2)).onToday + EcoConfig.computeDelayUs + eps) := by
  have h1 : DRel s.days s (withDays [] s) := DRel.start s.days s
  have h2 := DRel.run eps (interludeEvs dt polls dt' jd j1 j2) h1
  have h3 := DRel.run eps post h2
  rw [h3.days] at hr
  have hr0 : (r :: (withDays [] s).days)
      <:+ (ecoFinal eps (ecoFinal eps (withDays [] s) (interludeEvs dt polls dt' jd j1 j2)) post).days :=
    suffix_cancel r s.days _ hr
  rw [h2.onToday, h2.eco]
  exact heat_day_monitor eps per delay (withDays [] s) hst hg.hi hg.hd hfull hph hg.h0 dt polls dt' jd j1 j2
    (h1.interludeOK eps dt polls dt' jd hok) (by rw [← h2.now]; exact hnr) post hpost r hr0


/-! ### runs with any number of heating days -/

/-- a stretch of timer expiries followed by one complete heating interlude -/
structure Seg where
  pre : List Ev
  dt : Int
  polls : List Ev
  dt' : Int
  jd : Int
  j1 : Int
  j2 : Int
  deriving Repr, Inhabited

/-- the events of the interlude of a segment -/
def Seg.inter (g : Seg) : List Ev := interludeEvs g.dt g.polls g.dt' g.jd g.j1 g.j2
/-- all the events of a segment -/
def Seg.evs (g : Seg) : List Ev := g.pre ++ g.inter

def segsEvs : List Seg → List Ev
  | [] => []
  | g :: gs => g.evs ++ segsEvs gs

theorem segsEvs_append (a b : List Seg) : segsEvs (a ++ b) = segsEvs a ++ segsEvs b := by
  induction a with
  | nil => rfl
  | cons g gs ih => simp only [List.cons_append, segsEvs, ih, List.append_assoc]

theorem segsEvs_single (g : Seg) : segsEvs [g] = g.evs := by simp [segsEvs]

instance (eps : Int) (e : Ev) : Decidable (TickOK eps e) := by
  cases e <;> unfold TickOK <;> infer_instance

/-- side conditions of a segment started in state `s`: the ticks are handled at most `eps` late; when `heat` arrives no
interlude has taken place yet that day (`gPlain`: this day is later than the day of the previous interlude), the pool is in
eco_waiting / eco_normal, the interlude is well-formed and over before the reset -/
def SegOK (eps : Int) (s : Loop) (g : Seg) : Prop :=
  (∀ e ∈ g.pre, TickOK eps e)
  ∧ (ecoFinal eps s g.pre).gPlain = true
  ∧ ((ecoFinal eps s g.pre).phase = .waiting ∨ (ecoFinal eps s g.pre).phase = .normal)
  ∧ InterludeOK eps (ecoFinal eps s g.pre) g.dt g.polls g.dt' g.jd
  ∧ (ecoFinal eps s g.evs).now < (ecoFinal eps s g.pre).eco.nextReset

instance (eps : Int) (s : Loop) (g : Seg) : Decidable (SegOK eps s g) := by unfold SegOK; infer_instance

def SegsOK (eps : Int) : Loop → List Seg → Prop
  | _, [] => True
  | s, g :: gs => SegOK eps s g ∧ SegsOK eps (ecoFinal eps s g.evs) gs

def SegsOK.dec (eps : Int) : (s : Loop) → (gs : List Seg) → Decidable (SegsOK eps s gs)
  | _, [] => isTrue trivial
  | s, g :: gs =>
    have := SegsOK.dec eps (ecoFinal eps s g.evs) gs
    inferInstanceAs (Decidable (SegOK eps s g ∧ SegsOK eps (ecoFinal eps s g.evs) gs))

instance (eps : Int) (s : Loop) (gs : List Seg) : Decidable (SegsOK eps s gs) := SegsOK.dec eps s gs

theorem segsOK_append (eps : Int) (gs : List Seg) (g : Seg) :
    ∀ s : Loop, SegsOK eps s (gs ++ [g]) → SegsOK eps s gs ∧ SegOK eps (ecoFinal eps s (segsEvs gs)) g := by
  induction gs with
  | nil => intro s h; exact ⟨trivial, h.1⟩
  | cons g0 gs ih =>
    intro s h
    obtain ⟨h1, h2⟩ := h
    obtain ⟨h3, h4⟩ := ih _ h2
    refine ⟨⟨h1, h3⟩, ?_⟩
    show SegOK eps (ecoFinal eps s (g0.evs ++ segsEvs gs)) g
    rw [ecoFinal_append]; exact h4

/-- the bounds claimed for the record of a day with one interlude; `c` = the `eco_compute` state in which the interlude ends -/
def HeatDayOK (eps per delay : Int) (c : Loop) (r : DayRec) : Prop :=
  r.plain = false ∧ (r.full = true →
    min delay DAY - slackLoHeat per eps ≤ r.on
    ∧ r.on ≤ max (min delay DAY) c.onToday + slackHiHeat per eps
    ∧ (delay ≤ c.eco.filtration.duration →
        delay ≤ r.on ∧ c.onToday ≤ r.on ∧ r.on ≤ c.onToday + EcoConfig.computeDelayUs + eps))

/-- what is claimed for every finished day of a run `segsEvs gs ++ …` from `S` whose final list of days is `days` -/
def RecSpec (eps per delay : Int) (S : Loop) (gs : List Seg) (days : List DayRec) (r : DayRec) : Prop :=
  TickDayOK eps per delay r
  ∨ ∃ gs1 g gs2, gs = gs1 ++ g :: gs2
      ∧ (r :: (ecoFinal eps S (segsEvs gs1 ++ g.pre)).days) <:+ days
      ∧ HeatDayOK eps per delay (ecoFinal eps S (segsEvs gs1 ++ g.evs)) r

theorem recSpec_mono (eps per delay : Int) (S : Loop) (gs : List Seg) (g' : Seg) (days days' : List DayRec) (r : DayRec)
    (hd : days <:+ days') (h : RecSpec eps per delay S gs days r) : RecSpec eps per delay S (gs ++ [g']) days' r := by
  rcases h with h | ⟨gs1, g, gs2, h1, h2, h3⟩
  · exact Or.inl h
  · exact Or.inr ⟨gs1, g, gs2 ++ [g'], by rw [h1]; simp, h2.trans hd, h3⟩

theorem heat_days_run (eps per delay : Int) (hst : Static eps per delay) (S : Loop) (hS : Good eps per delay S)
    (hS0 : ∀ r ∈ S.days, TickDayOK eps per delay r) (n : Nat) :
    ∀ (gs : List Seg), gs.length = n → ∀ (post : List Ev), (∀ e ∈ post, TickOK eps e) → SegsOK eps S gs →
      (∀ r ∈ (ecoFinal eps S (segsEvs gs ++ post)).days,
          RecSpec eps per delay S gs (ecoFinal eps S (segsEvs gs ++ post)).days r)
      ∧ (Good eps per delay (ecoFinal eps S (segsEvs gs ++ post)) ∨ (ecoFinal eps S (segsEvs gs ++ post)).gPlain = false) := by
  induction n with
  | zero =>
    intro gs hlen post hpost _
    have : gs = [] := List.eq_nil_of_length_eq_zero hlen
    subst this
    show (∀ r ∈ (ecoFinal eps S post).days, RecSpec eps per delay S [] (ecoFinal eps S post).days r)
      ∧ (Good eps per delay (ecoFinal eps S post) ∨ (ecoFinal eps S post).gPlain = false)
    obtain ⟨hg, N, hN, hNok⟩ := good_run eps per delay hst S post hS hpost
    refine ⟨?_, Or.inl hg⟩
    intro r hr
    rw [hN] at hr
    rcases List.mem_append.mp hr with h | h
    · exact Or.inl (hNok r h)
    · exact Or.inl (hS0 r h)
  | succ n ih =>
    intro gs hlen post hpost hok
    rcases List.eq_nil_or_concat gs with h | ⟨gs', g, h⟩
    · subst h; simp at hlen
    · rw [List.concat_eq_append] at h
      subst h
      have hlen' : gs'.length = n := by simp at hlen; omega
      obtain ⟨hok', hg⟩ := segsOK_append eps gs' g S hok
      obtain ⟨g1, g2, g3, g4, g5⟩ := hg
      -- the state in which `heat` arrives
      have e1 : ecoFinal eps (ecoFinal eps S (segsEvs gs')) g.pre = ecoFinal eps S (segsEvs gs' ++ g.pre) :=
        (ecoFinal_append eps S _ _).symm
      have e2 : ecoFinal eps (ecoFinal eps S (segsEvs gs')) g.evs
          = ecoFinal eps (ecoFinal eps S (segsEvs gs' ++ g.pre)) g.inter := by
        unfold Seg.evs; rw [ecoFinal_append, e1]
      rw [e1] at g2 g3 g4 g5
      rw [e2] at g5
      obtain ⟨hA, hB⟩ := ih gs' hlen' g.pre g1 hok'
      have hG : Good eps per delay (ecoFinal eps S (segsEvs gs' ++ g.pre)) := by
        rcases hB with hB | hB
        · exact hB
        · rw [hB] at g2; cases g2
      have e3 : ecoFinal eps S (segsEvs (gs' ++ [g]) ++ post)
          = ecoFinal eps (ecoFinal eps (ecoFinal eps S (segsEvs gs' ++ g.pre)) g.inter) post := by
        rw [segsEvs_append, segsEvs_single]
        unfold Seg.evs
        rw [ecoFinal_append, ecoFinal_append, ecoFinal_append, ecoFinal_append]
      have e4 : ecoFinal eps S (segsEvs gs' ++ g.evs)
          = ecoFinal eps (ecoFinal eps S (segsEvs gs' ++ g.pre)) g.inter := by
        unfold Seg.evs
        rw [ecoFinal_append, ecoFinal_append, ecoFinal_append]
      rw [e3]
      generalize hs1 : ecoFinal eps S (segsEvs gs' ++ g.pre) = s1 at *
      have hT := good_interlude_tail eps per delay s1 hst hG g3 g.dt g.polls g.dt' g.jd g.j1 g.j2 g4 g5
      have hc : ecoFinal eps s1 g.inter = ecoFinal eps s1 (interludeEvs g.dt g.polls g.dt' g.jd g.j1 g.j2) := rfl
      rcases tail_run eps per delay s1.days s1.full hst post _ hT hpost with hT' | ⟨a, b, r, hab, hga, hda, hrp, hrf⟩
      · -- the day of the last interlude is still running
        rw [← hc] at hT'
        refine ⟨?_, Or.inr hT'.hplain⟩
        intro r hr
        rw [hT'.hdays] at hr ⊢
        exact recSpec_mono eps per delay S gs' g _ _ r (List.suffix_refl _) (hA r hr)
      · -- the reset was seen: `Good` again, the record of the heating day, then tick-only days
        rw [← hc] at hga hda
        have hpa : ∀ e ∈ a, TickOK eps e := fun e he => hpost e (by rw [hab]; exact List.mem_append_left _ he)
        have hpb : ∀ e ∈ b, TickOK eps e := fun e he => hpost e (by rw [hab]; exact List.mem_append_right _ he)
        obtain ⟨hgb, N, hN, hNok⟩ := good_run eps per delay hst _ b hga hpb
        have e5 : ecoFinal eps (ecoFinal eps s1 g.inter) post = ecoFinal eps (ecoFinal eps (ecoFinal eps s1 g.inter) a) b := by
          rw [hab, ecoFinal_append]
        rw [e5]
        refine ⟨?_, Or.inl hgb⟩
        intro r' hr'
        rw [hN, hda] at hr' ⊢
        rcases List.mem_append.mp hr' with h | h
        · exact Or.inl (hNok r' h)
        · rcases List.mem_cons.mp h with h | h
          · subst h
            refine Or.inr ⟨gs', g, [], rfl, ?_, hrp, ?_⟩
            · rw [hs1]; exact List.suffix_append _ _
            · intro hf
              rw [e4]
              have hfull : s1.full = true := by rw [← hrf]; exact hf
              obtain ⟨_, _, b3, b4, b5⟩ := good_heat_day eps per delay s1 hst hG hfull g3 g.dt g.polls g.dt' g.jd g.j1 g.j2 g4 g5
                a hpa r' (by rw [← hc, hda]; exact List.suffix_refl _)
              exact ⟨b3, b4, b5⟩
          · have : s1.days <:+ N ++ r :: s1.days := by
              have h1 : s1.days <:+ r :: s1.days := List.suffix_cons _ _
              exact h1.trans (List.suffix_append _ _)
            exact recSpec_mono eps per delay S gs' g _ _ r' this (hA r' h)


/-! ### every finished day but the first one of the run started at a reset (any events) -/

def SeqOK (s : Loop) : Prop := (s.days = [] ∨ s.full = true) ∧ ∀ r ∈ s.days.dropLast, r.full = true

theorem SeqOK.congr {s t : Loop} (h : SeqOK s) (h1 : t.days = s.days) (h2 : t.full = s.full) : SeqOK t := by
  unfold SeqOK at *; rw [h1, h2]; exact h

theorem seq_doUpdate (eps : Int) (s : Loop) (a b : Int) (h : SeqOK s) : SeqOK (s.doUpdate eps a b).1 := by
  simp only [Loop.doUpdate]
  split
  · simp only [Loop.roll]
    refine ⟨Or.inr rfl, ?_⟩
    intro r hr
    rcases dropLast_cons_mem _ _ _ hr with ⟨hne, hr⟩ | hr
    · subst hr
      rcases h.1 with hh | hh
      · exact absurd hh hne
      · exact hh
    · exact h.2 r hr
  · exact h.congr rfl rfl

theorem seq_enterCompute (eps : Int) (s : Loop) (h : SeqOK s) : SeqOK (s.enterCompute eps).1 := by
  have h1 : SeqOK { s with eco := s.eco.clear } := h.congr rfl rfl
  have h2 := seq_doUpdate eps _ EcoConfig.factorComputeNum EcoConfig.factorComputeDen h1
  simp only [Loop.enterCompute]
  exact h2.congr rfl rfl

theorem seq_reloadEco (eps : Int) (s : Loop) (j1 j2 : Int) (h : SeqOK s) : SeqOK (s.reloadEco eps j1 j2).1 := by
  simp only [Loop.reloadEco]
  apply seq_enterCompute
  exact h.congr rfl rfl

theorem seq_step (eps : Int) (s : Loop) (e : Ev) (h : SeqOK s) : SeqOK (ecoStep eps s e).1 := by
  cases e with
  | tick j0 j1 j2 =>
    have ha : SeqOK (s.advance (max s.now s.due + j0)) := h.congr rfl rfl
    simp only [ecoStep]
    generalize s.advance (max s.now s.due + j0) = sa at *
    split
    · split <;> exact ha.congr rfl rfl
    · exact seq_enterCompute eps sa ha
    · exact (seq_doUpdate eps sa _ _ ha).congr rfl rfl
    · have hs := seq_doUpdate eps sa EcoConfig.factorWaitingNum EcoConfig.factorWaitingDen ha
      generalize sa.doUpdate eps EcoConfig.factorWaitingNum EcoConfig.factorWaitingDen = u at *
      split
      · exact seq_reloadEco eps u.1 j1 j2 hs
      · split <;> exact hs.congr rfl rfl
    · have hs := seq_doUpdate eps sa EcoConfig.factorNormalNum EcoConfig.factorNormalDen ha
      generalize sa.doUpdate eps EcoConfig.factorNormalNum EcoConfig.factorNormalDen = u at *
      split
      · exact seq_reloadEco eps u.1 j1 j2 hs
      · split <;> exact hs.congr rfl rfl
    · have hs := seq_doUpdate eps sa EcoConfig.factorTankNum EcoConfig.factorTankDen ha
      generalize sa.doUpdate eps EcoConfig.factorTankNum EcoConfig.factorTankDen = u at *
      split
      · exact seq_reloadEco eps u.1 j1 j2 hs
      · split <;> exact hs.congr rfl rfl
  | heat dt =>
    have ha : SeqOK (s.advance (s.now + dt)) := h.congr rfl rfl
    simp only [ecoStep]
    split <;> exact ha.congr rfl rfl
  | heatEnd dt =>
    have ha : SeqOK (s.advance (s.now + dt)) := h.congr rfl rfl
    simp only [ecoStep]
    split <;> exact ha.congr rfl rfl

theorem seq_run (eps : Int) (evs : List Ev) : ∀ s : Loop, SeqOK s → SeqOK (ecoFinal eps s evs) := by
  induction evs with
  | nil => intro s h; exact h
  | cons e es ih => intro s h; exact ih _ (seq_step eps s e h)


/-! ### from the instant the pool enters eco -/

theorem slackLo_le_heat (per eps : Int) (he : 0 ≤ eps) (hp1 : 1 ≤ per) : slackLo per eps ≤ slackLoHeat per eps := by
  have h0 : 0 ≤ per * eps := Int.mul_nonneg (by omega) he
  unfold slackLo slackLoHeat slackPlan
  omega

/-- runs from `Loop.start` made of segments (ticks, then one complete interlude in a day that had none yet) and a
tick-only tail: every finished day but the first started at a reset, and every finished day is either a tick-only day
within the tick bounds or the day of one of the interludes within the monitor bounds -/
theorem heat_days_start (eps : Int) (p : Params) (gs : List Seg) (post : List Ev) (he : 0 ≤ eps) (he2 : eps ≤ 600000)
    (hd : 1 ≤ p.dailyS) (hp1 : 1 ≤ p.period) (hp2 : p.period ≤ 10) (hel : 0 ≤ p.elapsedS)
    (hs : p.start < nextResetAt p.start p.resetHour)
    (hok : SegsOK eps (Loop.start eps p).1 gs) (hpost : ∀ e ∈ post, TickOK eps e) :
    (∀ r ∈ (ecoFinal eps (Loop.start eps p).1 (segsEvs gs ++ post)).days.dropLast, r.full = true)
    ∧ ∀ r ∈ (ecoFinal eps (Loop.start eps p).1 (segsEvs gs ++ post)).days,
        RecSpec eps p.period (p.dailyS * US) (Loop.start eps p).1 gs (ecoFinal eps (Loop.start eps p).1 (segsEvs gs ++ post)).days r := by
  have hU : US = 1000000 := rfl
  have hH : HOUR = 3600000000 := rfl
  have hst : Static eps p.period (p.dailyS * US) := ⟨he, he2, hp1, hp2, by rw [hU]; omega⟩
  have hi0 := start_inv eps p he (by omega) (by omega) hs
  have hd0 := day_start eps p hst hel hs
  have h00 := start_dur_nonneg eps p hel hs
  have hG := good_of_inv eps p.period (p.dailyS * US) _ hi0 hd0 h00
  have hdays0 : ∀ r ∈ (Loop.start eps p).1.days, TickDayOK eps p.period (p.dailyS * US) r := by
    intro r hr
    have hcl := hd0.hdays r hr
    exact ⟨hcl.1, fun hf => day_bounds eps p.period (p.dailyS * US) r hst (hi0.common.hdays r hr) hcl hf⟩
  have hseq0 : SeqOK (Loop.start eps p).1 := hd0.hseq
  refine ⟨(seq_run eps _ _ hseq0).2, ?_⟩
  exact (heat_days_run eps p.period (p.dailyS * US) hst _ hG hdays0 gs.length gs rfl post hpost hok).1


/-! ### several interludes within one day -/

/-- what a complete interlude needs of the state in which `heat` arrives (both `Good` and `Tail` states have it) -/
structure HeatReady (eps per delay : Int) (s : Loop) : Prop where
  hper : s.eco.period = per
  hdel : s.eco.filtration.delay = delay
  hpd : s.eco.periodDuration = divNearest delay per
  h0 : 0 ≤ s.eco.filtration.duration

theorem Good.ready {eps per delay : Int} {s : Loop} (h : Good eps per delay s) : HeatReady eps per delay s :=
  ⟨h.hd.hper, h.hd.hdel, h.hd.hpd, h.h0⟩

theorem Tail.ready {eps per delay : Int} {D : List DayRec} {fl : Bool} {s : Loop} (h : Tail eps per delay D fl s) :
    HeatReady eps per delay s :=
  ⟨h.hd.hper, h.hd.hdel, h.hd.hpd, h.h0⟩

/-- the state reached at the end of a complete interlude (first of the day or not) is a `Tail` state -/
theorem interlude_tail (eps per delay : Int) (s : Loop) (hst : Static eps per delay) (hg : HeatReady eps per delay s)
    (hph : s.phase = .waiting ∨ s.phase = .normal)
    (dt : Int) (polls : List Ev) (dt' jd j1 j2 : Int) (hok : InterludeOK eps s dt polls dt' jd)
    (hnr : (ecoFinal eps s (interludeEvs dt polls dt' jd j1 j2)).now < s.eco.nextReset) :
    Tail eps per delay s.days s.full (ecoFinal eps s (interludeEvs dt polls dt' jd j1 j2)) := by
  obtain ⟨x, hx, hxnow, hdone⟩ := interlude eps per delay s dt polls dt' jd j1 j2 hst.heps hph hg.hper hg.hdel hg.hpd hok
  rw [hx] at hnr ⊢
  rw [enterCompute_now] at hnr
  have h0 := hg.h0
  have hge := hdone.hge
  exact tail_start eps per delay _ _ _ _ _ _ _ x hst hdone hnr (by omega)

/-- What the `eco_compute` state `c` in which the LAST interlude of a whole day ends (`NR` = the reset instant) determines
about the pump-on time of the day, whatever happened earlier that day.  `U = c.onToday - c` accounted duration is the pump-on
time not accounted so far.  Quota not exceeded by more than a poll at `c`: the plan made at `c` is carried out,
`min daily (c accounted + time left) - slackPlan + U ≤ on ≤ daily + U + 15 s + (6 period + 10) eps`, and never more than
`c.onToday` + the time left + 15 s + 2 eps.  Quota used up at `c`: the pump stops after the compute delay. -/
def LastBounds (eps per delay : Int) (c : Loop) (NR : Int) (r : DayRec) : Prop :=
  (c.eco.filtration.duration ≤ delay + EcoConfig.pollDelayUs + eps →
      min delay (c.eco.filtration.duration + (NR - c.now)) - slackPlan per eps + (c.onToday - c.eco.filtration.duration) ≤ r.on
      ∧ r.on ≤ delay + (c.onToday - c.eco.filtration.duration)
          + (EcoConfig.pollDelayUs + EcoConfig.computeDelayUs + 6 * (per * eps) + 10 * eps)
      ∧ r.on ≤ c.onToday + (NR - c.now) + EcoConfig.computeDelayUs + EcoConfig.pollDelayUs + 2 * eps)
  ∧ (delay ≤ c.eco.filtration.duration → c.onToday ≤ r.on ∧ r.on ≤ c.onToday + EcoConfig.computeDelayUs + eps)

theorem last_heat_day (eps per delay : Int) (s : Loop) (hst : Static eps per delay) (hg : HeatReady eps per delay s)
    (hfull : s.full = true) (hph : s.phase = .waiting ∨ s.phase = .normal)
    (dt : Int) (polls : List Ev) (dt' jd j1 j2 : Int) (hok : InterludeOK eps s dt polls dt' jd)
    (hnr : (ecoFinal eps s (interludeEvs dt polls dt' jd j1 j2)).now < s.eco.nextReset)
    (post : List Ev) (hpost : ∀ e ∈ post, TickOK eps e) (r : DayRec)
    (hr : (r :: s.days) <:+ (ecoFinal eps (ecoFinal eps s (interludeEvs dt polls dt' jd j1 j2)) post).days) :
    LastBounds eps per delay (ecoFinal eps s (interludeEvs dt polls dt' jd j1 j2)) s.eco.nextReset r := by
  obtain ⟨x, hx, hxnow, hdone⟩ := interlude eps per delay s dt polls dt' jd j1 j2 hst.heps hph hg.hper hg.hdel hg.hpd hok
  rw [hx] at hnr hr ⊢
  rw [enterCompute_now] at hnr
  have hnr' : x.now < x.eco.nextReset := by rw [hdone.hNR]; exact hnr
  obtain ⟨f1, f2, f3, f4, f5, f6, f7, f8, f9, f10, f11, f12, f13, f14, f15, f16, f17, f18, f19, f20⟩ :=
    enterCompute_fields eps x hnr'
  rw [hfull] at hdone
  have h0 := hg.h0
  have hge := hdone.hge
  have hpoll := cfg_poll
  have hcd := cfg_cd
  unfold LastBounds
  rw [f2, f4, f9]
  constructor
  · intro hub
    have hP := postHeat_start eps per delay _ _ _ _ _ _ x hst hdone hnr (by omega) hub
    rcases postHeat_run eps per delay _ _ _ _ _ _ s.days hst post _ hP hpost with hA | ⟨r', hs', hrec⟩
    · have hAd := hA.hdays
      rw [hAd] at hr
      exact ((not_cons_suffix r s.days) hr).elim
    · have hrr : r = r' := suffix_head_unique r r' s.days _ hr hs'
      subst hrr
      obtain ⟨r1, r2, r3, r4, r5, r6, r7⟩ := hrec
      refine ⟨?_, ?_, ?_⟩ <;> omega
  · intro hl
    cases post with
    | nil =>
      have : (r :: s.days) <:+ s.days := by
        have e : (ecoFinal eps (x.enterCompute eps).1 []).days = s.days := by
          show (x.enterCompute eps).1.days = s.days
          rw [f5]; exact hdone.hdays
        rw [e] at hr; exact hr
      exact ((not_cons_suffix r s.days) this).elim
    | cons e es =>
      have he := hpost e (List.mem_cons_self ..)
      have hrest : ∀ y ∈ es, TickOK eps y := fun y hy => hpost y (List.mem_cons_of_mem _ hy)
      cases e with
      | heat _ => exact he.elim
      | heatEnd _ => exact he.elim
      | tick j0 k1 k2 =>
        have hL := late_enter eps per delay _ _ _ _ _ s.days x hdone hnr hl j0 k1 k2 he
        have hr' : (r :: s.days) <:+ (ecoFinal eps (ecoStep eps (x.enterCompute eps).1 (.tick j0 k1 k2)).1 es).days := hr
        rcases late_run eps delay x.onToday _ s.days hst.heps5 es _ hL hrest with hA | ⟨r', hs', r1, r2, r3, r4⟩
        · have hAd := hA.hdays
          rw [hAd] at hr'
          exact ((not_cons_suffix r s.days) hr').elim
        · have hrr : r = r' := suffix_head_unique r r' s.days _ hr' hs'
          subst hrr
          exact ⟨r3, r4⟩


/-- side conditions of a segment when several interludes per day are allowed (`SegOK` without `gPlain`) -/
def SegOK2 (eps : Int) (s : Loop) (g : Seg) : Prop :=
  (∀ e ∈ g.pre, TickOK eps e)
  ∧ ((ecoFinal eps s g.pre).phase = .waiting ∨ (ecoFinal eps s g.pre).phase = .normal)
  ∧ InterludeOK eps (ecoFinal eps s g.pre) g.dt g.polls g.dt' g.jd
  ∧ (ecoFinal eps s g.evs).now < (ecoFinal eps s g.pre).eco.nextReset

instance (eps : Int) (s : Loop) (g : Seg) : Decidable (SegOK2 eps s g) := by unfold SegOK2; infer_instance

def SegsOK2 (eps : Int) : Loop → List Seg → Prop
  | _, [] => True
  | s, g :: gs => SegOK2 eps s g ∧ SegsOK2 eps (ecoFinal eps s g.evs) gs

def SegsOK2.dec (eps : Int) : (s : Loop) → (gs : List Seg) → Decidable (SegsOK2 eps s gs)
  | _, [] => isTrue trivial
  | s, g :: gs =>
    have := SegsOK2.dec eps (ecoFinal eps s g.evs) gs
    inferInstanceAs (Decidable (SegOK2 eps s g ∧ SegsOK2 eps (ecoFinal eps s g.evs) gs))

instance (eps : Int) (s : Loop) (gs : List Seg) : Decidable (SegsOK2 eps s gs) := SegsOK2.dec eps s gs

theorem segsOK2_append (eps : Int) (gs : List Seg) (g : Seg) :
    ∀ s : Loop, SegsOK2 eps s (gs ++ [g]) → SegsOK2 eps s gs ∧ SegOK2 eps (ecoFinal eps s (segsEvs gs)) g := by
  induction gs with
  | nil => intro s h; exact ⟨trivial, h.1⟩
  | cons g0 gs ih =>
    intro s h
    obtain ⟨h1, h2⟩ := h
    obtain ⟨h3, h4⟩ := ih _ h2
    refine ⟨⟨h1, h3⟩, ?_⟩
    show SegOK2 eps (ecoFinal eps s (g0.evs ++ segsEvs gs)) g
    rw [ecoFinal_append]; exact h4

/-- a run in which each day has at most one interlude is a run with any number of interludes per day -/
theorem segsOK2_of_segsOK (eps : Int) (gs : List Seg) : ∀ s : Loop, SegsOK eps s gs → SegsOK2 eps s gs := by
  induction gs with
  | nil => intro s _; trivial
  | cons g gs ih =>
    intro s h
    obtain ⟨⟨h1, h2, h3, h4, h5⟩, h6⟩ := h
    exact ⟨⟨h1, h3, h4, h5⟩, ih _ h6⟩

/-- what is claimed for every finished day when several interludes per day are allowed: a tick-only day, or the day whose LAST
interlude is that of the segment `g` (`LastBounds`; and the monitor bounds `HeatDayOK` if it was also the first of its day) -/
def RecSpec2 (eps per delay : Int) (S : Loop) (gs : List Seg) (days : List DayRec) (r : DayRec) : Prop :=
  TickDayOK eps per delay r
  ∨ ∃ gs1 g gs2, gs = gs1 ++ g :: gs2
      ∧ (r :: (ecoFinal eps S (segsEvs gs1 ++ g.pre)).days) <:+ days
      ∧ r.plain = false
      ∧ (r.full = true →
          LastBounds eps per delay (ecoFinal eps S (segsEvs gs1 ++ g.evs)) (ecoFinal eps S (segsEvs gs1 ++ g.pre)).eco.nextReset r
          ∧ ((ecoFinal eps S (segsEvs gs1 ++ g.pre)).gPlain = true →
              HeatDayOK eps per delay (ecoFinal eps S (segsEvs gs1 ++ g.evs)) r))

theorem recSpec2_mono (eps per delay : Int) (S : Loop) (gs : List Seg) (g' : Seg) (days days' : List DayRec) (r : DayRec)
    (hd : days <:+ days') (h : RecSpec2 eps per delay S gs days r) : RecSpec2 eps per delay S (gs ++ [g']) days' r := by
  rcases h with h | ⟨gs1, g, gs2, h1, h2, h3, h4⟩
  · exact Or.inl h
  · exact Or.inr ⟨gs1, g, gs2 ++ [g'], by rw [h1]; simp, h2.trans hd, h3, h4⟩

theorem heat_days_run2 (eps per delay : Int) (hst : Static eps per delay) (S : Loop) (hS : Good eps per delay S)
    (hS0 : ∀ r ∈ S.days, TickDayOK eps per delay r) (n : Nat) :
    ∀ (gs : List Seg), gs.length = n → ∀ (post : List Ev), (∀ e ∈ post, TickOK eps e) → SegsOK2 eps S gs →
      (∀ r ∈ (ecoFinal eps S (segsEvs gs ++ post)).days,
          RecSpec2 eps per delay S gs (ecoFinal eps S (segsEvs gs ++ post)).days r)
      ∧ (Good eps per delay (ecoFinal eps S (segsEvs gs ++ post))
          ∨ ∃ D fl, Tail eps per delay D fl (ecoFinal eps S (segsEvs gs ++ post))) := by
  induction n with
  | zero =>
    intro gs hlen post hpost _
    have : gs = [] := List.eq_nil_of_length_eq_zero hlen
    subst this
    show (∀ r ∈ (ecoFinal eps S post).days, RecSpec2 eps per delay S [] (ecoFinal eps S post).days r)
      ∧ (Good eps per delay (ecoFinal eps S post) ∨ ∃ D fl, Tail eps per delay D fl (ecoFinal eps S post))
    obtain ⟨hg, N, hN, hNok⟩ := good_run eps per delay hst S post hS hpost
    refine ⟨?_, Or.inl hg⟩
    intro r hr
    rw [hN] at hr
    rcases List.mem_append.mp hr with h | h
    · exact Or.inl (hNok r h)
    · exact Or.inl (hS0 r h)
  | succ n ih =>
    intro gs hlen post hpost hok
    rcases List.eq_nil_or_concat gs with h | ⟨gs', g, h⟩
    · subst h; simp at hlen
    · rw [List.concat_eq_append] at h
      subst h
      have hlen' : gs'.length = n := by simp at hlen; omega
      obtain ⟨hok', hg⟩ := segsOK2_append eps gs' g S hok
      obtain ⟨g1, g3, g4, g5⟩ := hg
      have e1 : ecoFinal eps (ecoFinal eps S (segsEvs gs')) g.pre = ecoFinal eps S (segsEvs gs' ++ g.pre) :=
        (ecoFinal_append eps S _ _).symm
      have e2 : ecoFinal eps (ecoFinal eps S (segsEvs gs')) g.evs
          = ecoFinal eps (ecoFinal eps S (segsEvs gs' ++ g.pre)) g.inter := by
        unfold Seg.evs; rw [ecoFinal_append, e1]
      rw [e1] at g3 g4 g5
      rw [e2] at g5
      obtain ⟨hA, hB⟩ := ih gs' hlen' g.pre g1 hok'
      have hR : HeatReady eps per delay (ecoFinal eps S (segsEvs gs' ++ g.pre)) := by
        rcases hB with hB | ⟨D, fl, hB⟩
        · exact hB.ready
        · exact hB.ready
      have hGood : (ecoFinal eps S (segsEvs gs' ++ g.pre)).gPlain = true → Good eps per delay (ecoFinal eps S (segsEvs gs' ++ g.pre)) := by
        intro hpl
        rcases hB with hB | ⟨D, fl, hB⟩
        · exact hB
        · rw [hB.hplain] at hpl; cases hpl
      have e3 : ecoFinal eps S (segsEvs (gs' ++ [g]) ++ post)
          = ecoFinal eps (ecoFinal eps (ecoFinal eps S (segsEvs gs' ++ g.pre)) g.inter) post := by
        rw [segsEvs_append, segsEvs_single]
        unfold Seg.evs
        rw [ecoFinal_append, ecoFinal_append, ecoFinal_append, ecoFinal_append]
      have e4 : ecoFinal eps S (segsEvs gs' ++ g.evs)
          = ecoFinal eps (ecoFinal eps S (segsEvs gs' ++ g.pre)) g.inter := by
        unfold Seg.evs
        rw [ecoFinal_append, ecoFinal_append, ecoFinal_append]
      rw [e3]
      generalize hs1 : ecoFinal eps S (segsEvs gs' ++ g.pre) = s1 at *
      have hT := interlude_tail eps per delay s1 hst hR g3 g.dt g.polls g.dt' g.jd g.j1 g.j2 g4 g5
      have hc : ecoFinal eps s1 g.inter = ecoFinal eps s1 (interludeEvs g.dt g.polls g.dt' g.jd g.j1 g.j2) := rfl
      rcases tail_run eps per delay s1.days s1.full hst post _ hT hpost with hT' | ⟨a, b, r, hab, hga, hda, hrp, hrf⟩
      · rw [← hc] at hT'
        refine ⟨?_, Or.inr ⟨_, _, hT'⟩⟩
        intro r hr
        rw [hT'.hdays] at hr ⊢
        exact recSpec2_mono eps per delay S gs' g _ _ r (List.suffix_refl _) (hA r hr)
      · rw [← hc] at hga hda
        have hpa : ∀ e ∈ a, TickOK eps e := fun e he => hpost e (by rw [hab]; exact List.mem_append_left _ he)
        have hpb : ∀ e ∈ b, TickOK eps e := fun e he => hpost e (by rw [hab]; exact List.mem_append_right _ he)
        obtain ⟨hgb, N, hN, hNok⟩ := good_run eps per delay hst _ b hga hpb
        have e5 : ecoFinal eps (ecoFinal eps s1 g.inter) post = ecoFinal eps (ecoFinal eps (ecoFinal eps s1 g.inter) a) b := by
          rw [hab, ecoFinal_append]
        rw [e5]
        refine ⟨?_, Or.inl hgb⟩
        intro r' hr'
        rw [hN, hda] at hr' ⊢
        rcases List.mem_append.mp hr' with h | h
        · exact Or.inl (hNok r' h)
        · rcases List.mem_cons.mp h with h | h
          · subst h
            refine Or.inr ⟨gs', g, [], rfl, ?_, hrp, ?_⟩
            · rw [hs1]; exact List.suffix_append _ _
            · intro hf
              rw [e4, hs1]
              have hfull : s1.full = true := by rw [← hrf]; exact hf
              have hsuf : (r' :: s1.days) <:+ (ecoFinal eps (ecoFinal eps s1 (interludeEvs g.dt g.polls g.dt' g.jd g.j1 g.j2)) a).days := by
                rw [← hc, hda]; exact List.suffix_refl _
              refine ⟨last_heat_day eps per delay s1 hst hR hfull g3 g.dt g.polls g.dt' g.jd g.j1 g.j2 g4 g5 a hpa r' hsuf, ?_⟩
              intro hpl
              obtain ⟨_, _, b3, b4, b5⟩ := good_heat_day eps per delay s1 hst (hGood hpl) hfull g3 g.dt g.polls g.dt' g.jd g.j1 g.j2 g4 g5
                a hpa r' hsuf
              exact ⟨hrp, fun _ => ⟨b3, b4, b5⟩⟩
          · have : s1.days <:+ N ++ r :: s1.days := by
              have h1 : s1.days <:+ r :: s1.days := List.suffix_cons _ _
              exact h1.trans (List.suffix_append _ _)
            exact recSpec2_mono eps per delay S gs' g _ _ r' this (hA r' h)

theorem heat_days_start2 (eps : Int) (p : Params) (gs : List Seg) (post : List Ev) (he : 0 ≤ eps) (he2 : eps ≤ 600000)
    (hd : 1 ≤ p.dailyS) (hp1 : 1 ≤ p.period) (hp2 : p.period ≤ 10) (hel : 0 ≤ p.elapsedS)
    (hs : p.start < nextResetAt p.start p.resetHour)
    (hok : SegsOK2 eps (Loop.start eps p).1 gs) (hpost : ∀ e ∈ post, TickOK eps e) :
    (∀ r ∈ (ecoFinal eps (Loop.start eps p).1 (segsEvs gs ++ post)).days.dropLast, r.full = true)
    ∧ ∀ r ∈ (ecoFinal eps (Loop.start eps p).1 (segsEvs gs ++ post)).days,
        RecSpec2 eps p.period (p.dailyS * US) (Loop.start eps p).1 gs (ecoFinal eps (Loop.start eps p).1 (segsEvs gs ++ post)).days r := by
  have hU : US = 1000000 := rfl
  have hH : HOUR = 3600000000 := rfl
  have hst : Static eps p.period (p.dailyS * US) := ⟨he, he2, hp1, hp2, by rw [hU]; omega⟩
  have hi0 := start_inv eps p he (by omega) (by omega) hs
  have hd0 := day_start eps p hst hel hs
  have h00 := start_dur_nonneg eps p hel hs
  have hG := good_of_inv eps p.period (p.dailyS * US) _ hi0 hd0 h00
  have hdays0 : ∀ r ∈ (Loop.start eps p).1.days, TickDayOK eps p.period (p.dailyS * US) r := by
    intro r hr
    have hcl := hd0.hdays r hr
    exact ⟨hcl.1, fun hf => day_bounds eps p.period (p.dailyS * US) r hst (hi0.common.hdays r hr) hcl hf⟩
  have hseq0 : SeqOK (Loop.start eps p).1 := hd0.hseq
  refine ⟨(seq_run eps _ _ hseq0).2, ?_⟩
  exact (heat_days_run2 eps p.period (p.dailyS * US) hst _ hG hdays0 gs.length gs rfl post hpost hok).1


end Poupool.Eco
