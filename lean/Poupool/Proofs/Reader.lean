/-
Helper lemmas for the sensor reader model (Model/Reader.lean): a bounded window is "the last `maxlen` of everything
pushed"; one `doRead` acts on window `i` as a function of reading `i` only; hence the window of sensor `i` after any run
is the last `maxlen` valid readings of sensor `i`.
-/
import Poupool.Model.Reader

namespace Poupool.Reader

/-! ### lastN / push -/

theorem lastN_nil (m : Nat) : lastN m [] = [] := by
  simp [lastN]

theorem lastN_length (m : Nat) (l : List Int) : (lastN m l).length = min m l.length := by
  simp only [lastN, List.length_drop]; omega

theorem lastN_length_le (m : Nat) (l : List Int) : (lastN m l).length ≤ m := by
  rw [lastN_length]; omega

theorem push_eq_lastN (m : Nat) (l : List Int) (v : Int) : push m l v = lastN m (l ++ [v]) := rfl

/-- trimming before appending is the same as trimming once afterwards -/
theorem lastN_lastN_append (m : Nat) (l : List Int) (v : Int) : lastN m (lastN m l ++ [v]) = lastN m (l ++ [v]) := by
  unfold lastN
  by_cases hm : m = 0
  · subst hm
    simp
  · have h1 : (List.drop (l.length - m) l ++ [v]).length - m ≤ (List.drop (l.length - m) l).length := by
      simp only [List.length_append, List.length_drop, List.length_cons, List.length_nil]; omega
    have h2 : (l ++ [v]).length - m ≤ l.length := by
      simp only [List.length_append, List.length_cons, List.length_nil]; omega
    rw [List.drop_append_of_le_length h1, List.drop_append_of_le_length h2, List.drop_drop]
    congr 2
    simp only [List.length_append, List.length_drop, List.length_cons, List.length_nil]; omega

/-- pushing a list of values one after the other onto a trimmed window = trimming the concatenation -/
theorem foldl_push_lastN (m : Nat) (vs : List Int) (l : List Int) :
    vs.foldl (push m) (lastN m l) = lastN m (l ++ vs) := by
  induction vs generalizing l with
  | nil => simp
  | cons v vs ih =>
      simp only [List.foldl_cons, push_eq_lastN, lastN_lastN_append]
      rw [ih (l ++ [v])]
      simp

theorem lastN_append_singleton_getLast? (m : Nat) (hm : 0 < m) (l : List Int) (x : Int) :
    (lastN m (l ++ [x])).getLast? = some x := by
  unfold lastN
  have h2 : (l ++ [x]).length - m ≤ l.length := by
    simp only [List.length_append, List.length_cons, List.length_nil]; omega
  rw [List.drop_append_of_le_length h2]
  simp

theorem lastN_eq_nil_iff (m : Nat) (hm : 0 < m) (l : List Int) : lastN m l = [] ↔ l = [] := by
  unfold lastN
  rw [List.drop_eq_nil_iff]
  constructor
  · intro h
    have : l.length = 0 := by omega
    exact List.length_eq_zero_iff.mp this
  · intro h; subst h; simp

/-! ### one read -/

theorem doRead_length (m : Nat) (ws : List (List Int)) (r : List (Option Int)) : (doRead m ws r).length = ws.length := by
  induction ws generalizing r with
  | nil => simp [doRead]
  | cons w ws ih =>
      cases r with
      | nil => simp [doRead]
      | cons v vs => simp [doRead, ih]

/-- the effect of one read on window `i` depends on reading `i` only -/
theorem doRead_getD (m : Nat) (ws : List (List Int)) (r : List (Option Int)) (i : Nat) (hi : i < ws.length) :
    (doRead m ws r).getD i [] = (match r.getD i none with | some x => push m (ws.getD i []) x | none => ws.getD i []) := by
  induction ws generalizing r i with
  | nil => simp at hi
  | cons w ws ih =>
      cases r with
      | nil => simp [doRead]
      | cons v vs =>
          cases i with
          | zero => cases v <;> simp [doRead]
          | succ i =>
              simp only [doRead, List.getD_cons_succ]
              exact ih vs i (by simpa using hi)

/-! ### a whole run -/

theorem valid_nil (i : Nat) : valid i [] = [] := rfl

theorem valid_cons (i : Nat) (r : List (Option Int)) (rs : List (List (Option Int))) :
    valid i (r :: rs) = (match r.getD i none with | some x => x :: valid i rs | none => valid i rs) := by
  unfold valid
  rw [List.filterMap_cons]
  cases r.getD i none <;> rfl

theorem foldl_doRead_length (m : Nat) (reads : List (List (Option Int))) (ws : List (List Int)) :
    (reads.foldl (doRead m) ws).length = ws.length := by
  induction reads generalizing ws with
  | nil => rfl
  | cons r rs ih => simp only [List.foldl_cons, ih, doRead_length]

theorem foldl_doRead_getD (m : Nat) (reads : List (List (Option Int))) (ws : List (List Int)) (i : Nat) (hi : i < ws.length) :
    (reads.foldl (doRead m) ws).getD i [] = (valid i reads).foldl (push m) (ws.getD i []) := by
  induction reads generalizing ws with
  | nil => simp [valid]
  | cons r rs ih =>
      simp only [List.foldl_cons]
      rw [ih (doRead m ws r) (by rw [doRead_length]; exact hi), doRead_getD m ws r i hi]
      rw [valid_cons]
      cases r.getD i none with
      | none => rfl
      | some x => rfl

theorem run_length (m n : Nat) (reads : List (List (Option Int))) : (run m n reads).length = n := by
  simp [run, foldl_doRead_length, init]

theorem run_getD (m n : Nat) (reads : List (List (Option Int))) (i : Nat) (hi : i < n) :
    (run m n reads).getD i [] = lastN m (valid i reads) := by
  unfold run
  rw [foldl_doRead_getD m reads (init n) i (by simpa [init] using hi)]
  have h0 : (init n).getD i [] = lastN m [] := by
    simp [init, lastN_nil, List.getD_eq_getElem?_getD, hi]
  rw [h0, foldl_push_lastN]
  simp

/-! ### the specification `valid` -/

theorem valid_append (i : Nat) (a b : List (List (Option Int))) : valid i (a ++ b) = valid i a ++ valid i b := by
  simp [valid, List.filterMap_append]

theorem valid_singleton_some (i : Nat) (r : List (Option Int)) (x : Int) (h : r.getD i none = some x) : valid i [r] = [x] := by
  rw [valid_cons, h]; rfl

theorem getD_set_ne (r : List (Option Int)) (i j : Nat) (v : Option Int) (h : j ≠ i) : (r.set j v).getD i none = r.getD i none := by
  simp [List.getD_eq_getElem?_getD, List.getElem?_set_ne h]

theorem valid_setReading (i j k : Nat) (v : Option Int) (reads : List (List (Option Int))) (h : j ≠ i) :
    valid i (setReading k j v reads) = valid i reads := by
  induction reads generalizing k with
  | nil => simp [setReading]
  | cons r rs ih =>
      cases k with
      | zero =>
          simp only [setReading]
          rw [valid_cons, valid_cons, getD_set_ne r i j v h]
      | succ k =>
          simp only [setReading]
          rw [valid_cons, valid_cons, ih k]

/-- read sequences that agree on column `i` give the same valid readings: the general form of locality -/
theorem valid_congr (i : Nat) (a b : List (List (Option Int))) (hl : a.length = b.length)
    (h : ∀ k, (a.getD k []).getD i none = (b.getD k []).getD i none) : valid i a = valid i b := by
  induction a generalizing b with
  | nil =>
      cases b with
      | nil => rfl
      | cons _ _ => simp at hl
  | cons r rs ih =>
      cases b with
      | nil => simp at hl
      | cons r' rs' =>
          have h0 := h 0
          simp only [List.getD_cons_zero] at h0
          have ht := ih rs' (by simpa using hl) (fun k => by simpa using h (k + 1))
          rw [valid_cons, valid_cons, h0, ht]

/-! ### mean -/

theorem sum_ge_of_forall_ge (w : List Int) (lo : Int) (h : ∀ v ∈ w, lo ≤ v) : lo * (w.length : Int) ≤ w.sum := by
  induction w with
  | nil => simp
  | cons a w ih =>
      have ha : lo ≤ a := h a (by simp)
      have ih' := ih (fun v hv => h v (by simp [hv]))
      simp only [List.length_cons, List.sum_cons, Int.natCast_succ, Int.mul_add, Int.mul_one]
      omega

theorem sum_le_of_forall_le (w : List Int) (hi : Int) (h : ∀ v ∈ w, v ≤ hi) : w.sum ≤ hi * (w.length : Int) := by
  induction w with
  | nil => simp
  | cons a w ih =>
      have ha : a ≤ hi := h a (by simp)
      have ih' := ih (fun v hv => h v (by simp [hv]))
      simp only [List.length_cons, List.sum_cons, Int.natCast_succ, Int.mul_add, Int.mul_one]
      omega

theorem mean_eq_none_iff (w : List Int) : mean w = none ↔ w = [] := by
  cases w <;> simp [mean]

theorem mean_eq_some (w : List Int) (s : Int) (k : Nat) (h : mean w = some (s, k)) : s = w.sum ∧ k = w.length ∧ 0 < k := by
  cases w with
  | nil => simp [mean] at h
  | cons a w =>
      simp only [mean, List.isEmpty_cons, Bool.false_eq_true, if_false, Option.some.injEq, Prod.mk.injEq] at h
      obtain ⟨h1, h2⟩ := h
      subst h1; subst h2
      simp

end Poupool.Reader
