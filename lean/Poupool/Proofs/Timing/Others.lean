import Poupool.Proofs.Timing.Base
namespace Poupool.Timing
open Poupool Poupool.Gen Poupool.Timed

theorem heating_checks (lag : Nat) :
    ((heatingConst.all fun (ph, n) => timedOK (heating lag) heatingTimerReach ph && durLe (heating lag) ph n && minOK (heating lag) heatingTimerReach ph n) &&
     (heatingPolls.all fun (ph, n) => pollOK (heating lag) heatingTimerReach ph n)) = true :=
  (by decide +kernel :
    ((heatingConst.all fun (ph, n) => timedOK (heating 0) heatingTimerReach ph && durLe (heating 0) ph n && minOK (heating 0) heatingTimerReach ph n) &&
     (heatingPolls.all fun (ph, n) => pollOK (heating 0) heatingTimerReach ph n)) = true)

theorem disinfection_checks (lag : Nat) :
    (disinfectionConst.all fun (ph, n) => timedOK (disinfection lag) disinfectionTimerReach ph && durLe (disinfection lag) ph n) = true :=
  (by decide +kernel : (disinfectionConst.all fun (ph, n) => timedOK (disinfection 0) disinfectionTimerReach ph && durLe (disinfection 0) ph n) = true)

theorem swim_checks (lag : Nat) :
    ((swimConst.all fun (ph, n) => timedOK (swim lag) swimTimerReach ph && durLe (swim lag) ph n && minOK (swim lag) swimTimerReach ph n) &&
     (swimPolls.all fun (ph, n) => pollOK (swim lag) swimTimerReach ph n)) = true :=
  (by decide +kernel :
    ((swimConst.all fun (ph, n) => timedOK (swim 0) swimTimerReach ph && durLe (swim 0) ph n && minOK (swim 0) swimTimerReach ph n) &&
     (swimPolls.all fun (ph, n) => pollOK (swim 0) swimTimerReach ph n)) = true)

theorem tank_checks (lag : Nat) : (tankPolls.all fun (ph, n) => pollOK (tank lag) tankTimerReach ph n) = true :=
  (by decide +kernel : (tankPolls.all fun (ph, n) => pollOK (tank 0) tankTimerReach ph n) = true)


/-- inside the polling phases with a time limit nothing but the poll itself touches the delayed call -/
theorem limit_phase_checks (lag : Nat) :
    ((tankPolls.take 2).all fun (ph, _) => noRearm (tank lag) tankTimerReach ph) = true ∧
    noRearm (swim lag) swimTimerReach swimPolls[2].1 = true ∧
    noRearm (swim lag) swimTimerReach swimPolls[0].1 = true :=
  (by decide +kernel :
    ((tankPolls.take 2).all fun (ph, _) => noRearm (tank 0) tankTimerReach ph) = true ∧
    noRearm (swim 0) swimTimerReach swimPolls[2].1 = true ∧
    noRearm (swim 0) swimTimerReach swimPolls[0].1 = true)

end Poupool.Timing
