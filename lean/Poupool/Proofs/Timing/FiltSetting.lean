import Poupool.Proofs.Timing.Base
namespace Poupool.Timing
open Poupool Poupool.Gen Poupool.Timed

theorem filtration_setting_checks (lag : Nat) :
    (filtrationSetting.all fun (ph, x) => timedOK (filtration lag) filtrationTimerReach ph && durIs (filtration lag) ph x) = true :=
  (by decide +kernel : (filtrationSetting.all fun (ph, x) => timedOK (filtration 0) filtrationTimerReach ph && durIs (filtration 0) ph x) = true)

end Poupool.Timing
