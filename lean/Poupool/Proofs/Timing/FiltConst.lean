import Poupool.Proofs.Timing.Base
namespace Poupool.Timing
open Poupool Poupool.Gen Poupool.Timed

theorem filtration_const_checks (lag : Nat) :
    (filtrationConst.all fun (ph, n) => timedOK (filtration lag) filtrationTimerReach ph && durLe (filtration lag) ph n) = true :=
  (by decide +kernel : (filtrationConst.all fun (ph, n) => timedOK (filtration 0) filtrationTimerReach ph && durLe (filtration 0) ph n) = true)

end Poupool.Timing
