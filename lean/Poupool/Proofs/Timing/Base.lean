import Poupool.Proofs.Timed
/-! Timed configurations, certificates and phase lists shared by `Properties/Timing.lean` (split so that the kernel
    evaluations run in parallel). -/
namespace Poupool.Timing
open Poupool Poupool.Gen Poupool.Timed

def filtration (lag : Nat) : TCfg := { D := filtrationTimerDesc, X := filtrationTimerDesc.nMsgs, durAt := filtrationDurAt, lag := lag }
def heating (lag : Nat) : TCfg := { D := heatingTimerDesc, X := heatingTimerDesc.nMsgs, durAt := heatingDurAt, lag := lag }
def disinfection (lag : Nat) : TCfg := { D := disinfectionTimerDesc, X := disinfectionTimerDesc.nMsgs, durAt := disinfectionDurAt, lag := lag }
def swim (lag : Nat) : TCfg := { D := swimTimerDesc, X := swimTimerDesc.nMsgs, durAt := swimDurAt, lag := lag }
def tank (lag : Nat) : TCfg := { D := tankTimerDesc, X := tankTimerDesc.nMsgs, durAt := tankDurAt, lag := lag }

theorem filtration_cert (lag : Nat) : Cert (filtration lag) filtrationTimerReach :=
  ⟨(by decide +kernel : fresh filtrationTimerDesc filtrationTimerDesc.nMsgs = true), Cert.filtrationTimer_closed,
   (by decide +kernel : armedOK filtrationTimerDesc filtrationTimerReach = true)⟩
theorem heating_cert (lag : Nat) : Cert (heating lag) heatingTimerReach :=
  ⟨(by decide +kernel : fresh heatingTimerDesc heatingTimerDesc.nMsgs = true), Cert.heatingTimer_closed,
   (by decide +kernel : armedOK heatingTimerDesc heatingTimerReach = true)⟩
theorem disinfection_cert (lag : Nat) : Cert (disinfection lag) disinfectionTimerReach :=
  ⟨(by decide +kernel : fresh disinfectionTimerDesc disinfectionTimerDesc.nMsgs = true), Cert.disinfectionTimer_closed,
   (by decide +kernel : armedOK disinfectionTimerDesc disinfectionTimerReach = true)⟩
theorem swim_cert (lag : Nat) : Cert (swim lag) swimTimerReach :=
  ⟨(by decide +kernel : fresh swimTimerDesc swimTimerDesc.nMsgs = true), Cert.swimTimer_closed,
   (by decide +kernel : armedOK swimTimerDesc swimTimerReach = true)⟩
theorem tank_cert (lag : Nat) : Cert (tank lag) tankTimerReach :=
  ⟨(by decide +kernel : fresh tankTimerDesc tankTimerDesc.nMsgs = true), Cert.tankTimer_closed,
   (by decide +kernel : armedOK tankTimerDesc tankTimerReach = true)⟩

/-! ## Filtration -/
section
open Filtration

/-- time-limited phases with a configured (config.ini) duration -/
def filtrationConst : List (Phase × Nat) := [
  ({ P := [leaf_heating_delay_none], t := [m_heating_delayed], restart := [m_heating_delay], escape := [m_halt] }, Cfg.heating_delay_to_eco),
  ({ P := [leaf_heating_delay_standby], t := [m_heating_delayed], restart := [], escape := [m_halt, m_heating_delay] }, Cfg.heating_delay_to_open),
  ({ P := [leaf_heating_delay_overflow], t := [m_heating_delayed], restart := [], escape := [m_halt, m_heating_delay] }, Cfg.heating_delay_to_open),
  ({ P := [leaf_wintering_stir], t := [m_wintering_waiting], restart := [], escape := [m_halt] }, Cfg.wintering_duration),
  ({ P := [leaf_eco_compute], t := [m_eco_normal, m_eco_waiting], restart := [], escape := [] }, 10)]

/-- time-limited phases whose duration is a setting -/
def filtrationSetting : List (Phase × String) := [
  ({ P := [leaf_standby_boost], t := [m_standby], restart := [], escape := [] }, "boost_duration"),
  ({ P := [leaf_overflow_boost], t := [m_overflow], restart := [], escape := [] }, "boost_duration"),
  ({ P := [leaf_wash_backwash], t := [m_rinse], restart := [], escape := [] }, "backwash_backwash_duration"),
  ({ P := [leaf_wash_rinse], t := [m_eco], restart := [], escape := [] }, "backwash_rinse_duration")]

/-- polling phases with their period (cover travel: the poll or the 2 s settling timeout) -/
def filtrationPolls : List (Phase × Nat) := [
  ({ P := [leaf_eco_normal], t := [m_do_repeat_eco_normal], restart := [], escape := [] }, 20),
  ({ P := [leaf_eco_tank], t := [m_do_repeat_eco_tank], restart := [], escape := [] }, 20),
  ({ P := [leaf_eco_waiting], t := [m_do_repeat_eco_waiting], restart := [], escape := [] }, 20),
  ({ P := [leaf_heating_running], t := [m_do_repeat_heating_running], restart := [], escape := [] }, 20),
  ({ P := [leaf_standby_normal], t := [m_do_repeat_standby_normal], restart := [], escape := [] }, 20),
  ({ P := [leaf_overflow_normal], t := [m_do_repeat_overflow_normal], restart := [], escape := [] }, 20),
  ({ P := [leaf_comfort], t := [m_do_repeat_comfort], restart := [], escape := [] }, 20),
  ({ P := [leaf_wintering_waiting], t := [m_do_repeat_wintering_waiting], restart := [], escape := [] }, 240),
  ({ P := [leaf_opening_standby, leaf_opening_overflow], t := [m_do_repeat_opening, m_opened], restart := [], escape := [] }, 10),
  ({ P := [leaf_closing], t := [m_do_repeat_closing, m_closed], restart := [], escape := [] }, 10)]

end

/-! ## Heating, Disinfection, Swim, Tank -/
def heatingConst : List (Phase × Nat) := [
  ({ P := [Heating.leaf_recovering], t := [Heating.m_recover_done], restart := [], escape := [Heating.m_halt] }, Cfg.heating_recover_period)]
def heatingPolls : List (Phase × Nat) := [
  ({ P := [Heating.leaf_waiting], t := [Heating.m_do_repeat_waiting], restart := [], escape := [] }, 20),
  ({ P := [Heating.leaf_heating], t := [Heating.m_do_repeat_heating], restart := [], escape := [] }, 20)]
def disinfectionConst : List (Phase × Nat) := [
  ({ P := [Disinfection.leaf_waiting], t := [Disinfection.m_run], restart := [], escape := [] }, Cfg.disinfection_start_delay),
  ({ P := [Disinfection.leaf_running_treating], t := [Disinfection.m_adjust], restart := [], escape := [] }, Cfg.disinfection_waiting_delay)]
def swimConst : List (Phase × Nat) := [
  ({ P := [Swim.leaf_wintering_stir], t := [Swim.m_wintering_waiting], restart := [], escape := [Swim.m_halt] }, Cfg.wintering_swim_duration)]
def swimPolls : List (Phase × Nat) := [
  ({ P := [Swim.leaf_timed], t := [Swim.m_do_repeat_timed], restart := [], escape := [] }, 2),
  ({ P := [Swim.leaf_continuous], t := [Swim.m_do_repeat_continuous], restart := [], escape := [] }, 2),
  ({ P := [Swim.leaf_wintering_waiting], t := [Swim.m_do_repeat_wintering_waiting], restart := [], escape := [] }, 240)]
def tankPolls : List (Phase × Nat) := [
  ({ P := [Tank.leaf_fill], t := [Tank.m_do_repeat_fill], restart := [], escape := [] }, 10),
  ({ P := [Tank.leaf_low], t := [Tank.m_do_repeat_low], restart := [], escape := [] }, 10),
  ({ P := [Tank.leaf_normal], t := [Tank.m_do_repeat_normal], restart := [], escape := [] }, 20),
  ({ P := [Tank.leaf_high], t := [Tank.m_do_repeat_high], restart := [], escape := [] }, 20)]

end Poupool.Timing
