import Poupool.Proofs.Timing.Base
namespace Poupool.Timing
open Poupool Poupool.Gen Poupool.Timed

theorem filtration_min_checks (lag : Nat) :
    ((filtrationConst.take 4).all fun (ph, n) => minOK (filtration lag) filtrationTimerReach ph n) = true :=
  (by decide +kernel : ((filtrationConst.take 4).all fun (ph, n) => minOK (filtration 0) filtrationTimerReach ph n) = true)

end Poupool.Timing
