import Poupool.Proofs.Timing.Base
namespace Poupool.Timing
open Poupool Poupool.Gen Poupool.Timed

theorem filtration_poll_checks (lag : Nat) :
    (filtrationPolls.all fun (ph, n) => pollOK (filtration lag) filtrationTimerReach ph n) = true :=
  (by decide +kernel : (filtrationPolls.all fun (ph, n) => pollOK (filtration 0) filtrationTimerReach ph n) = true)


theorem filtration_wintering_waiting_norearm (lag : Nat) :
    noRearm (filtration lag) filtrationTimerReach filtrationPolls[7].1 = true :=
  (by decide +kernel : noRearm (filtration 0) filtrationTimerReach filtrationPolls[7].1 = true)

end Poupool.Timing
