import Poupool.Proofs.Timing.Base
namespace Poupool.Timing
open Poupool Poupool.Gen Poupool.Timed

theorem filtration_poll_checks (lag : Nat) :
    (filtrationPolls.all fun (ph, n) => pollOK (filtration lag) filtrationTimerReach ph n) = true :=
  (by decide +kernel : (filtrationPolls.all fun (ph, n) => pollOK (filtration 0) filtrationTimerReach ph n) = true)

end Poupool.Timing
