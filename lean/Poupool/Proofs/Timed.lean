import Poupool.Model.Timed
import Poupool.Proofs.ActorLib
/-!
  Soundness of the sentinel observation and the generic timing theorems.
-/
namespace Poupool.Timed
open Poupool

section unsent
variable (X : MsgId) (a : Option MsgId)

@[simp] theorem unsent_vars (s : St) : (unsent X a s).vars = s.vars := by unfold unsent; split <;> rfl
@[simp] theorem unsent_leaf (s : St) : (unsent X a s).leaf = s.leaf := by unfold unsent; split <;> rfl
@[simp] theorem unsent_pend (s : St) : (unsent X a s).pend = s.pend := by unfold unsent; split <;> rfl
@[simp] theorem unsent_bad (s : St) : (unsent X a s).bad = s.bad := by unfold unsent; split <;> rfl

theorem unsent_setVars (s : St) (v : List Int) : unsent X a { s with vars := v } = { unsent X a s with vars := v } := by
  unfold unsent; split <;> rfl
theorem unsent_setBad (s : St) (b : Bool) : unsent X a { s with bad := b } = { unsent X a s with bad := b } := by
  unfold unsent; split <;> rfl
theorem unsent_setPend (s : St) (p : List MsgId) : unsent X a { s with pend := p } = { unsent X a s with pend := p } := by
  unfold unsent; split <;> rfl
theorem unsent_setLeafPend (s : St) (l : LeafId) (p : List MsgId) :
    unsent X a { s with leaf := l, pend := p } = { unsent X a s with leaf := l, pend := p } := by
  unfold unsent; split <;> rfl
theorem unsent_arm (s : St) (m : MsgId) (h : m ≠ X) :
    unsent X a { s with armed := some m } = { unsent X a s with armed := some m } := by
  by_cases hs : s.armed = some X <;> simp [unsent, hs, h]
theorem unsent_disarm (s : St) : unsent X a { s with armed := none } = { unsent X a s with armed := none } := by
  by_cases hs : s.armed = some X <;> simp [unsent, hs]

end unsent

theorem mem_dedupFS {x : Flow × St} {l : List (Flow × St)} : x ∈ dedupFS l ↔ x ∈ l := by
  induction l with
  | nil => simp [dedupFS]
  | cons y ys ih =>
      unfold dedupFS
      by_cases h : ys.contains y = true
      · simp only [h, if_true, ih, List.mem_cons]
        constructor
        · exact Or.inr
        · rintro (rfl | h')
          · simpa using h
          · exact h'
      · simp only [h, Bool.false_eq_true, if_false, List.mem_cons, ih]

theorem mem_dedupS {x : St} {l : List St} : x ∈ dedupS l ↔ x ∈ l := by
  induction l with
  | nil => simp [dedupS]
  | cons y ys ih =>
      unfold dedupS
      by_cases h : ys.contains y = true
      · simp only [h, if_true, ih, List.mem_cons]
        constructor
        · exact Or.inr
        · rintro (rfl | h')
          · simpa using h
          · exact h'
      · simp only [h, Bool.false_eq_true, if_false, List.mem_cons, ih]

/-- conditions never look at the slot -/
theorem evalCond_unsent (X : MsgId) (a : Option MsgId) (l : List Int) (c : Cond) :
    ∀ (s : St) (b : Bool) (s' : St), (b, s') ∈ evalCond l c s → (b, unsent X a s') ∈ evalCond l c (unsent X a s) := by
  induction c with
  | nondet => intro s b s' h; simp only [evalCond, List.mem_cons, Prod.mk.injEq, List.mem_nil_iff, or_false] at h ⊢; rcases h with ⟨rfl, rfl⟩ | ⟨rfl, rfl⟩ <;> simp
  | tt => intro s b s' h; simp only [evalCond, List.mem_cons, Prod.mk.injEq, List.mem_nil_iff, or_false] at h ⊢; rcases h with ⟨rfl, rfl⟩; simp
  | ff => intro s b s' h; simp only [evalCond, List.mem_cons, Prod.mk.injEq, List.mem_nil_iff, or_false] at h ⊢; rcases h with ⟨rfl, rfl⟩; simp
  | leafIn ls => intro s b s' h; simp only [evalCond, List.mem_cons, Prod.mk.injEq, List.mem_nil_iff, or_false] at h ⊢; rcases h with ⟨rfl, rfl⟩; simp
  | cmp op e1 e2 =>
      intro s b s' h
      simp only [evalCond, unsent_vars] at h ⊢
      split at h
      · simp only [List.mem_cons, Prod.mk.injEq, List.mem_nil_iff, or_false] at h ⊢
        rcases h with ⟨rfl, rfl⟩; simp
      · simp only [List.mem_cons, Prod.mk.injEq, List.mem_nil_iff, or_false] at h ⊢
        rcases h with ⟨rfl, rfl⟩ | ⟨rfl, rfl⟩ <;> simp
  | ask t f =>
      intro s b s' h
      simp only [evalCond, List.mem_cons, Prod.mk.injEq, List.mem_nil_iff, or_false, unsent_vars] at h ⊢
      rcases h with ⟨rfl, rfl⟩ | ⟨rfl, rfl⟩
      · left; exact ⟨rfl, unsent_setVars X a s _⟩
      · right; exact ⟨rfl, unsent_setVars X a s _⟩
  | not c ih =>
      intro s b s' h
      simp only [evalCond, List.mem_map, Prod.exists, Prod.mk.injEq] at h ⊢
      obtain ⟨b0, s0, hm, rfl, rfl⟩ := h
      exact ⟨b0, _, ih s b0 s0 hm, rfl, rfl⟩
  | and c1 c2 ih1 ih2 =>
      intro s b s' h
      simp only [evalCond, List.mem_flatMap, Prod.exists] at h ⊢
      obtain ⟨b0, s0, hm, h2⟩ := h
      refine ⟨b0, _, ih1 s b0 s0 hm, ?_⟩
      cases b0
      · simp only [Bool.false_eq_true, if_false, List.mem_cons, Prod.mk.injEq, List.mem_nil_iff, or_false] at h2 ⊢
        obtain ⟨rfl, rfl⟩ := h2; exact ⟨rfl, rfl⟩
      · simp only [if_true] at h2 ⊢; exact ih2 s0 b s' h2
  | or c1 c2 ih1 ih2 =>
      intro s b s' h
      simp only [evalCond, List.mem_flatMap, Prod.exists] at h ⊢
      obtain ⟨b0, s0, hm, h2⟩ := h
      refine ⟨b0, _, ih1 s b0 s0 hm, ?_⟩
      cases b0
      · simp only [Bool.false_eq_true, if_false] at h2 ⊢; exact ih2 s0 b s' h2
      · simp only [if_true, List.mem_cons, Prod.mk.injEq, List.mem_nil_iff, or_false] at h2 ⊢
        obtain ⟨rfl, rfl⟩ := h2; exact ⟨rfl, rfl⟩


/-- programs never read the slot: running from the caller's slot instead of the sentinel gives the same outcomes with the
    sentinel replaced -/
theorem exec_unsent (X : MsgId) (a : Option MsgId) (p : Stmt) :
    usesMsg X p = false → ∀ (l : List Int) (s : St) (f : Flow) (s' : St),
      (f, s') ∈ exec p l s → (f, unsent X a s') ∈ exec p l (unsent X a s) := by
  induction p with
  | skip => intro _ l s f s' h; simp only [exec, List.mem_cons, Prod.mk.injEq, List.mem_nil_iff, or_false] at h ⊢; obtain ⟨rfl, rfl⟩ := h; exact ⟨rfl, rfl⟩
  | seq p1 p2 ih1 ih2 =>
      intro hu l s f s' h
      simp only [usesMsg, Bool.or_eq_false_iff] at hu
      simp only [exec, List.mem_flatMap, Prod.exists, mem_dedupFS] at h ⊢
      obtain ⟨f1, s1, hm, h2⟩ := h
      refine ⟨f1, _, ih1 hu.1 l s f1 s1 hm, ?_⟩
      cases f1
      · exact ih2 hu.2 l s1 f s' h2
      · simp only [List.mem_cons, Prod.mk.injEq, List.mem_nil_iff, or_false] at h2 ⊢; obtain ⟨rfl, rfl⟩ := h2; exact ⟨rfl, rfl⟩
      · simp only [List.mem_cons, Prod.mk.injEq, List.mem_nil_iff, or_false] at h2 ⊢; obtain ⟨rfl, rfl⟩ := h2; exact ⟨rfl, rfl⟩
  | set v e =>
      intro _ l s f s' h
      simp only [exec, unsent_vars] at h ⊢
      split at h
      · simp only [List.mem_cons, Prod.mk.injEq, List.mem_nil_iff, or_false] at h ⊢
        obtain ⟨rfl, rfl⟩ := h; exact ⟨rfl, unsent_setVars X a s _⟩
      · simp only [List.mem_cons, Prod.mk.injEq, List.mem_nil_iff, or_false] at h ⊢
        obtain ⟨rfl, rfl⟩ := h; exact ⟨rfl, by rw [unsent_setBad]; simp⟩
  | ite c t e iht ihe =>
      intro hu l s f s' h
      simp only [usesMsg, Bool.or_eq_false_iff] at hu
      simp only [exec, List.mem_flatMap, Prod.exists] at h ⊢
      obtain ⟨b, s1, hm, h2⟩ := h
      refine ⟨b, _, evalCond_unsent X a l c s b s1 hm, ?_⟩
      cases b
      · simp only [Bool.false_eq_true, if_false] at h2 ⊢; exact ihe hu.2 l s1 f s' h2
      · simp only [if_true] at h2 ⊢; exact iht hu.1 l s1 f s' h2
  | choose p1 p2 ih1 ih2 =>
      intro hu l s f s' h
      simp only [usesMsg, Bool.or_eq_false_iff] at hu
      simp only [exec, List.mem_append] at h ⊢
      rcases h with h | h
      · exact Or.inl (ih1 hu.1 l s f s' h)
      · exact Or.inr (ih2 hu.2 l s f s' h)
  | forSetting loc vals body ih =>
      intro hu l s f s' h
      simp only [usesMsg] at hu
      simp only [exec, List.mem_flatMap] at h ⊢
      obtain ⟨v, hv, h2⟩ := h
      exact ⟨v, hv, ih hu (l ++ [v]) s f s' h2⟩
  | delay m =>
      intro hu l s f s' h
      simp only [usesMsg, beq_eq_false_iff_ne, ne_eq] at hu
      simp only [exec, List.mem_cons, Prod.mk.injEq, List.mem_nil_iff, or_false] at h ⊢
      obtain ⟨rfl, rfl⟩ := h; exact ⟨rfl, unsent_arm X a s m hu⟩
  | cancel =>
      intro _ l s f s' h
      simp only [exec, List.mem_cons, Prod.mk.injEq, List.mem_nil_iff, or_false] at h ⊢
      obtain ⟨rfl, rfl⟩ := h; exact ⟨rfl, unsent_disarm X a s⟩
  | selfTell m =>
      intro _ l s f s' h
      simp only [exec, List.mem_cons, Prod.mk.injEq, List.mem_nil_iff, or_false, unsent_pend] at h ⊢
      obtain ⟨rfl, rfl⟩ := h; exact ⟨rfl, unsent_setPend X a s _⟩
  | ret => intro _ l s f s' h; simp only [exec, List.mem_cons, Prod.mk.injEq, List.mem_nil_iff, or_false] at h ⊢; obtain ⟨rfl, rfl⟩ := h; exact ⟨rfl, rfl⟩
  | stopRepeat => intro _ l s f s' h; simp only [exec, List.mem_cons, Prod.mk.injEq, List.mem_nil_iff, or_false] at h ⊢; obtain ⟨rfl, rfl⟩ := h; exact ⟨rfl, rfl⟩
  | doRepeat body poll ih =>
      intro hu l s f s' h
      simp only [usesMsg, Bool.or_eq_false_iff, beq_eq_false_iff_ne, ne_eq] at hu
      simp only [exec, List.mem_map, Prod.exists] at h ⊢
      obtain ⟨f1, s1, hm, h2⟩ := h
      refine ⟨f1, _, ih hu.1 l s f1 s1 hm, ?_⟩
      cases f1 <;> simp only [Prod.mk.injEq] at h2 ⊢ <;> obtain ⟨rfl, rfl⟩ := h2
      · exact ⟨rfl, (unsent_arm X a s1 poll hu.2).symm⟩
      · exact ⟨rfl, (unsent_arm X a s1 poll hu.2).symm⟩
      · exact ⟨rfl, rfl⟩
  | emit t => intro _ l s f s' h; simp only [exec, List.mem_cons, Prod.mk.injEq, List.mem_nil_iff, or_false] at h ⊢; obtain ⟨rfl, rfl⟩ := h; exact ⟨rfl, rfl⟩
  | scope body ih =>
      intro hu l s f s' h
      simp only [usesMsg] at hu
      simp only [exec, List.mem_map, Prod.exists] at h ⊢
      obtain ⟨f1, s1, hm, h2⟩ := h
      refine ⟨f1, _, ih hu l s f1 s1 hm, ?_⟩
      cases f1 <;> simp only [Prod.mk.injEq] at h2 ⊢ <;> obtain ⟨rfl, rfl⟩ := h2 <;> exact ⟨rfl, rfl⟩
  | «opaque» t =>
      intro _ l s f s' h
      simp only [exec, List.mem_cons, Prod.mk.injEq, List.mem_nil_iff, or_false] at h ⊢
      obtain ⟨rfl, rfl⟩ := h; exact ⟨rfl, by rw [unsent_setBad]⟩


theorem getD_fresh {X : MsgId} {cbs : List Stmt} (h : ∀ p ∈ cbs, usesMsg X p = false) (i : Nat) :
    usesMsg X (cbs.getD i (.opaque 999)) = false := by
  by_cases hi : i < cbs.length
  · have : cbs.getD i (.opaque 999) = cbs[i] := by simp [List.getD, hi]
    rw [this]; exact h _ (List.getElem_mem hi)
  · have : cbs.getD i (.opaque 999) = .opaque 999 := by simp [List.getD, List.getElem?_eq_none (Nat.le_of_not_lt hi)]
    rw [this]; rfl

theorem runSeq_unsent (X : MsgId) (a : Option MsgId) (cbs : List Stmt) (hc : ∀ p ∈ cbs, usesMsg X p = false)
    (ids : List Nat) (s s' : St) (h : s' ∈ runSeq cbs ids s) : unsent X a s' ∈ runSeq cbs ids (unsent X a s) := by
  unfold runSeq at h ⊢
  have gen : ∀ (ids : List Nat) (acc acc' : List St), (∀ x ∈ acc, unsent X a x ∈ acc') →
      ∀ y ∈ ids.foldl (fun acc i => dedupS (acc.flatMap fun st => (exec (cbs.getD i (.opaque 999)) [] st).map (·.2))) acc,
        unsent X a y ∈ ids.foldl (fun acc i => dedupS (acc.flatMap fun st => (exec (cbs.getD i (.opaque 999)) [] st).map (·.2))) acc' := by
    intro ids
    induction ids with
    | nil => intro acc acc' hacc y hy; exact hacc y hy
    | cons i rest ih =>
        intro acc acc' hacc y hy
        simp only [List.foldl_cons] at hy ⊢
        refine ih _ _ ?_ y hy
        intro x hx
        simp only [mem_dedupS, List.mem_flatMap, List.mem_map, Prod.exists, exists_eq_right] at hx ⊢
        obtain ⟨st, hst, f, hf⟩ := hx
        exact ⟨_, hacc st hst, f, exec_unsent X a _ (getD_fresh hc i) [] st f x hf⟩
  exact gen ids [s] [unsent X a s] (by intro x hx; simp only [List.mem_singleton] at hx ⊢; rw [hx]) s' h

theorem fresh_callbacks {D : ActorDesc} {X : MsgId} (h : fresh D X = true) : ∀ p ∈ D.callbacks, usesMsg X p = false := by
  intro p hp
  simp only [fresh, Bool.and_eq_true, List.all_eq_true, Bool.not_eq_true'] at h
  exact h.1.1 p hp

theorem fresh_methods {D : ActorDesc} {X : MsgId} (h : fresh D X = true) : ∀ mp ∈ D.methods, usesMsg X mp.2 = false := by
  intro mp hp
  simp only [fresh, Bool.and_eq_true, List.all_eq_true, Bool.not_eq_true'] at h
  exact h.1.2 mp hp

theorem fire_unsent (D : ActorDesc) (X : MsgId) (a : Option MsgId) (hf : fresh D X = true) (t : MsgId) (s s' : St)
    (h : s' ∈ fire D t s) : unsent X a s' ∈ fire D t (unsent X a s) := by
  simp only [fire, unsent_leaf, List.mem_append, List.mem_flatMap] at h ⊢
  rcases h with h | ⟨r, hr, s1, hs1, h2⟩
  · left
    split at h
    · simp at h
    · rename_i hnt
      simp only [List.mem_singleton] at h
      rw [h]; simp only [hnt, Bool.false_eq_true, if_false, List.mem_singleton]
  · right
    refine ⟨r, hr, _, runSeq_unsent X a _ (fresh_callbacks hf) _ _ _ hs1, ?_⟩
    have := runSeq_unsent X a _ (fresh_callbacks hf) r.post _ _ h2
    by_cases hi : r.internal = true
    · simp only [hi, if_true] at this ⊢; exact this
    · simp only [hi, Bool.false_eq_true, if_false] at this ⊢
      rw [unsent_setLeafPend] at this; exact this

theorem call_unsent (D : ActorDesc) (X : MsgId) (a : Option MsgId) (hf : fresh D X = true) (m : MsgId) (s s' : St)
    (h : s' ∈ call D m s) : unsent X a s' ∈ call D m (unsent X a s) := by
  unfold call at h ⊢
  by_cases ht : D.triggers.contains m = true
  · simp only [ht, if_true] at h ⊢; exact fire_unsent D X a hf m s s' h
  · simp only [ht, Bool.false_eq_true, if_false] at h ⊢
    cases hfind : D.methods.find? (·.1 == m) with
    | none => simp only [hfind, List.mem_singleton] at h ⊢; rw [h]
    | some mp =>
        obtain ⟨m', p⟩ := mp
        simp only [hfind, List.mem_map, Prod.exists, exists_eq_right] at h ⊢
        obtain ⟨f, hfm⟩ := h
        exact ⟨f, exec_unsent X a p (fresh_methods hf _ (List.mem_of_find?_eq_some hfind)) [] s f s' hfm⟩

theorem applyHavoc_unsent (D : ActorDesc) (X : MsgId) (a : Option MsgId) (s : St) :
    unsent X a (applyHavoc D s) = applyHavoc D (unsent X a s) := by
  simp only [applyHavoc, unsent_leaf, unsent_vars]
  rw [unsent_setVars]; simp

/-- what the sentinel run shows is what the real run does -/
theorem step_plain_unsent (D : ActorDesc) (X : MsgId) (hf : fresh D X = true) (m : MsgId) (s s0 : St)
    (h : s0 ∈ step D { s with armed := some X } (.plain m)) : unsent X s.armed s0 ∈ step D s (.plain m) := by
  simp only [step, List.mem_map] at h ⊢
  obtain ⟨s1, hs1, rfl⟩ := h
  refine ⟨unsent X s.armed s1, ?_, (applyHavoc_unsent D X s.armed s1).symm⟩
  have := call_unsent D X s.armed hf m _ _ hs1
  have e : unsent X s.armed { leaf := s.leaf, vars := s.vars, armed := some X, pend := removeMsg m s.pend, bad := s.bad } =
      { s with pend := removeMsg m s.pend } := by simp [unsent]
  rw [e] at this; exact this


/-! ## The timed runs project onto the untimed model -/

/-- every delayed call the certificate knows is in the alphabet -/
def armedOK (D : ActorDesc) (B : Buckets) : Bool :=
  (statesOf B).all fun s => match s.armed with | none => true | some m => D.delayedMsgs.contains m

theorem tplain_proj {C : TCfg} (hf : fresh C.D C.X = true) {ts ts' : TSt} {m : MsgId} {τ d : Nat}
    (h : ts' ∈ tplain C ts m τ d) : ts'.s ∈ step C.D ts.s (.plain m) := by
  simp only [tplain, List.mem_map] at h
  obtain ⟨s0, hs0, rfl⟩ := h
  have := step_plain_unsent C.D C.X hf m ts.s s0 hs0
  unfold unsent at this
  split <;> rename_i hx <;> simp only [hx, if_true, if_false] at this ⊢ <;> exact this

theorem tfire_proj {C : TCfg} {ts ts' : TSt} {τ d : Nat} (h : ts' ∈ tfire C ts τ d) :
    ∃ m, ts.s.armed = some m ∧ ts'.s ∈ step C.D ts.s (.delayed m) := by
  unfold tfire at h
  split at h
  · simp at h
  · rename_i m hm
    simp only [List.mem_map] at h
    obtain ⟨s', hs', rfl⟩ := h
    exact ⟨m, hm, hs'⟩

theorem treach_reach {C : TCfg} {B : Buckets} (hf : fresh C.D C.X = true) (hc : closed C.D B = true)
    (ha : armedOK C.D B = true) {ts : TSt} (h : TReach C ts) : Reach C.D ts.s := by
  induction h with
  | init => exact Reach.init
  | @step ts ts' e _ hstep ih =>
      cases hstep with
      | plain m τ d σ any hm _ _ hmem _ =>
          refine Reach.step (.plain m) ih ?_ (tplain_proj hf hmem)
          simp only [allMsgs, List.mem_append, List.mem_map]
          exact Or.inl ⟨m, hm, rfl⟩
      | fire τ d σ any _ _ _ hmem _ =>
          obtain ⟨m, harm, hs'⟩ := tfire_proj hmem
          refine Reach.step (.delayed m) ih ?_ hs'
          have hin := reach_in_cert hc ih
          simp only [armedOK, List.all_eq_true] at ha
          have := ha _ hin
          simp only [harm, List.contains_eq_mem, decide_eq_true_eq] at this
          simp only [allMsgs, List.mem_append, List.mem_map]
          exact Or.inr ⟨m, this, rfl⟩

/-! ## The scheduling assumption as an invariant: nothing happens after deadline + lag -/
theorem deadline {C : TCfg} {ts : TSt} (h : TReach C ts) :
    ts.armedAt ≤ ts.now ∧ (ts.s.armed.isSome = true → ts.now ≤ ts.armedAt + ts.armedDur + C.lag) := by
  induction h with
  | init => simp [tinit]
  | @step ts ts' e _ hstep ih =>
      cases hstep with
      | plain m τ d σ any _ hnow hdl hmem _ =>
          simp only [tplain, List.mem_map] at hmem
          obtain ⟨s0, _, rfl⟩ := hmem
          split
          · exact ⟨Nat.le_trans ih.1 hnow, fun ha => hdl ha⟩
          · exact ⟨Nat.le_refl _, fun _ => Nat.le_trans (Nat.le_add_right _ _) (Nat.le_add_right _ _)⟩
      | fire τ d σ any _ _ _ hmem _ =>
          unfold tfire at hmem
          split at hmem
          · simp at hmem
          · simp only [List.mem_map] at hmem
            obtain ⟨s', _, rfl⟩ := hmem
            exact ⟨Nat.le_refl _, fun _ => Nat.le_trans (Nat.le_add_right _ _) (Nat.le_add_right _ _)⟩

/-! ## Phases -/
structure Phase where
  P : List LeafId        -- the leaves of the phase
  t : List MsgId         -- its timeout(s) / poll
  restart : List MsgId   -- plain messages that may restart the phase (re-arm its timeout)
  escape : List MsgId    -- plain messages that may end the phase before the timeout

def inP (ph : Phase) (s : St) : Bool := ph.P.contains s.leaf

/-- in every state of the phase the delayed call carrying the current token is the timeout -/
def armedIn (B : Buckets) (ph : Phase) : Bool :=
  (statesOf B).all fun s => !inP ph s || ph.t.any fun t => s.armed == some t

/-- while the phase lasts, only the restart messages touch the delayed call -/
def noRearm (C : TCfg) (B : Buckets) (ph : Phase) : Bool :=
  (statesOf B).all fun s => !inP ph s || C.D.plainMsgs.all fun m => ph.restart.contains m ||
    (step C.D { s with armed := some C.X } (.plain m)).all fun s0 => !inP ph s0 || s0.armed == some C.X

/-- the timeout ends the phase -/
def timeoutLeaves (C : TCfg) (B : Buckets) (ph : Phase) : Bool :=
  (statesOf B).all fun s => !inP ph s || ph.t.all fun t => s.armed != some t || (step C.D s (.delayed t)).all fun s' => !inP ph s'

/-- every plain message that enters the phase arms (entries by a delayed call are fresh by definition) -/
def entryArms (C : TCfg) (B : Buckets) (ph : Phase) : Bool :=
  (statesOf B).all fun s => inP ph s || C.D.plainMsgs.all fun m =>
    (step C.D { s with armed := some C.X } (.plain m)).all fun s0 => !inP ph s0 || s0.armed != some C.X

/-- only the escape messages end the phase early -/
def onlyEscapes (C : TCfg) (B : Buckets) (ph : Phase) : Bool :=
  (statesOf B).all fun s => !inP ph s || C.D.plainMsgs.all fun m => ph.escape.contains m ||
    (step C.D s (.plain m)).all fun s' => inP ph s'

theorem armed_in {B : Buckets} {ph : Phase} (ha : armedIn B ph = true) {s : St} (hs : s ∈ statesOf B)
    (hin : inP ph s = true) : ∃ t ∈ ph.t, s.armed = some t := by
  simp only [armedIn, List.all_eq_true, Bool.or_eq_true, Bool.not_eq_true', List.any_eq_true, beq_iff_eq] at ha
  rcases ha _ hs with h1 | h1
  · simp [hin] at h1
  · exact h1

/-- the hypotheses shared by the theorems below -/
structure Cert (C : TCfg) (B : Buckets) : Prop where
  fresh : fresh C.D C.X = true
  closed : closed C.D B = true
  armedOK : armedOK C.D B = true

/-- the phase goes on: steps that stay in the phase and are not restarts -/
inductive Stay (C : TCfg) (ph : Phase) : TSt → TSt → Prop
  | refl (ts : TSt) : Stay C ph ts ts
  | step {ts0 ts ts' : TSt} {e : TEv} : Stay C ph ts0 ts → TStep C ts e ts' →
      (∀ m σ, e = .plain m σ → m ∉ ph.restart) → inP ph ts'.s = true → Stay C ph ts0 ts'

theorem tplain_sentinel {C : TCfg} {ts ts' : TSt} {m : MsgId} {τ d : Nat} (h : ts' ∈ tplain C ts m τ d) :
    ∃ s0 ∈ step C.D { ts.s with armed := some C.X } (.plain m), s0.leaf = ts'.s.leaf ∧
      (s0.armed = some C.X → ts'.touched = false ∧ ts'.armedAt = ts.armedAt ∧ ts'.armedDur = ts.armedDur ∧ ts'.s.armed = ts.s.armed) ∧
      (s0.armed ≠ some C.X → ts'.touched = true ∧ ts'.armedAt = τ ∧ ts'.armedDur = d) ∧ ts'.now = τ := by
  simp only [tplain, List.mem_map] at h
  obtain ⟨s0, hs0, rfl⟩ := h
  refine ⟨s0, hs0, ?_⟩
  by_cases hx : s0.armed = some C.X <;> simp [hx]

/-- **A time-limited phase keeps its deadline**: as long as the phase goes on, the delayed call armed when it began is
    still the one carrying the current token, so (scheduling assumption) the phase cannot last beyond
    `armedAt + armedDur + lag`. -/
theorem stay_keeps {C : TCfg} {B : Buckets} {ph : Phase} (hC : Cert C B)
    (hb : noRearm C B ph = true) (hl : timeoutLeaves C B ph = true) (ha : armedIn B ph = true)
    {ts0 ts : TSt} (h0 : TReach C ts0) (hin0 : inP ph ts0.s = true) (h : Stay C ph ts0 ts) :
    TReach C ts ∧ inP ph ts.s = true ∧ ts.armedAt = ts0.armedAt ∧ ts.armedDur = ts0.armedDur := by
  induction h with
  | refl => exact ⟨h0, hin0, rfl, rfl⟩
  | @step ts ts' e _ hstep hnr hin' ih =>
      obtain ⟨hr, hin, h1, h2⟩ := ih
      have hreach := treach_reach hC.fresh hC.closed hC.armedOK hr
      have hcert := reach_in_cert hC.closed hreach
      refine ⟨TReach.step e hr hstep, hin', ?_⟩
      cases hstep with
      | plain m τ d σ any hm _ _ hmem _ =>
          obtain ⟨s0, hs0, hleaf, hun, _, _⟩ := tplain_sentinel hmem
          simp only [noRearm, List.all_eq_true, Bool.or_eq_true, Bool.not_eq_true', beq_iff_eq] at hb
          have hb1 := hb _ hcert
          rcases hb1 with hb1 | hb1
          · simp [hin] at hb1
          · rcases hb1 m hm with hb2 | hb2
            · exact absurd (by simpa using hb2) (hnr m σ rfl)
            · rcases hb2 s0 hs0 with hb3 | hb3
              · simp only [inP] at hin' hb3; rw [hleaf, hin'] at hb3; cases hb3
              · obtain ⟨_, e1, e2, _⟩ := hun hb3
                exact ⟨e1.trans h1, e2.trans h2⟩
      | fire τ d σ any _ _ _ hmem _ =>
          obtain ⟨m, harm, hs'⟩ := tfire_proj hmem
          obtain ⟨t, ht, ha1⟩ := armed_in ha hcert hin
          rw [ha1] at harm
          have htm : t = m := by simpa using harm
          subst htm
          simp only [timeoutLeaves, List.all_eq_true, Bool.or_eq_true, Bool.not_eq_true', bne_iff_ne, ne_eq] at hl
          rcases hl _ hcert with hl1 | hl1
          · simp [hin] at hl1
          · rcases hl1 t ht with hl2 | hl2
            · exact absurd ha1 hl2
            · have := hl2 _ hs'; simp [hin'] at this

theorem ends_on_time {C : TCfg} {B : Buckets} {ph : Phase} (hC : Cert C B)
    (hb : noRearm C B ph = true) (hl : timeoutLeaves C B ph = true) (ha : armedIn B ph = true)
    {ts0 ts : TSt} (h0 : TReach C ts0) (hin0 : inP ph ts0.s = true) (h : Stay C ph ts0 ts) :
    ts.now ≤ ts0.armedAt + ts0.armedDur + C.lag := by
  obtain ⟨hr, hin, e1, e2⟩ := stay_keeps hC hb hl ha h0 hin0 h
  have hcert := reach_in_cert hC.closed (treach_reach hC.fresh hC.closed hC.armedOK hr)
  obtain ⟨t, _, harm⟩ := armed_in ha hcert hin
  have := (deadline hr).2 (by simp [harm])
  rw [e1, e2] at this; exact this

/-- **Entering the phase arms its timeout now**, with one of the configured delays. -/
theorem entry_arms {C : TCfg} {B : Buckets} {ph : Phase} (hC : Cert C B) (he : entryArms C B ph = true)
    {ts ts' : TSt} {e : TEv} (hr : TReach C ts) (hout : inP ph ts.s = false) (hstep : TStep C ts e ts')
    (hin : inP ph ts'.s = true) :
    ts'.armedAt = ts'.now ∧ ∃ any, allowed C e.settings any ts'.s ts'.armedDur := by
  have hcert := reach_in_cert hC.closed (treach_reach hC.fresh hC.closed hC.armedOK hr)
  cases hstep with
  | plain m τ d σ any hm _ _ hmem hall =>
      obtain ⟨s0, hs0, hleaf, _, htouch, hnow⟩ := tplain_sentinel hmem
      simp only [entryArms, List.all_eq_true, Bool.or_eq_true, Bool.not_eq_true', bne_iff_ne, ne_eq] at he
      rcases he _ hcert with h1 | h1
      · simp [hout] at h1
      · rcases h1 m hm s0 hs0 with h2 | h2
        · simp only [inP] at hin h2; rw [hleaf, hin] at h2; cases h2
        · obtain ⟨t1, t2, t3⟩ := htouch h2
          exact ⟨t2.trans hnow.symm, any, by rw [t3]; exact hall t1⟩
  | fire τ d σ any _ _ _ hmem hall =>
      unfold tfire at hmem
      split at hmem
      · simp at hmem
      · simp only [List.mem_map] at hmem
        obtain ⟨s', _, rfl⟩ := hmem
        exact ⟨rfl, any, hall⟩

/-- the phase goes on, restarts included -/
inductive Within (C : TCfg) (ph : Phase) : TSt → TSt → Prop
  | refl (ts : TSt) : Within C ph ts ts
  | step {ts0 ts ts' : TSt} {e : TEv} : Within C ph ts0 ts → TStep C ts e ts' → inP ph ts'.s = true → Within C ph ts0 ts'

/-- all delays with which the timeout can be armed in the phase are at least `n` / at most `n` -/
def durGe (C : TCfg) (ph : Phase) (n : Nat) : Bool :=
  ph.P.all fun l => ph.t.all fun t => match candidates C l t with
    | some ds => ds.all fun d => match d with | .halfSeconds k => n ≤ k | _ => false
    | none => false
def durLe (C : TCfg) (ph : Phase) (n : Nat) : Bool :=
  ph.P.all fun l => ph.t.all fun t => match candidates C l t with
    | some ds => ds.all fun d => match d with | .halfSeconds k => k ≤ n | _ => false
    | none => false

theorem allowed_ge {C : TCfg} {ph : Phase} {n : Nat} (hd : durGe C ph n = true) {σ : String → Nat} {any : Nat} {s : St}
    {d : Nat} (hin : inP ph s = true) {t : MsgId} (ht : t ∈ ph.t) (harm : s.armed = some t) (h : allowed C σ any s d) : n ≤ d := by
  simp only [durGe, List.all_eq_true] at hd
  have := hd s.leaf (by simpa [inP] using hin) t ht
  simp only [allowed, harm] at h
  split at this
  · rename_i ds hds
    simp only [hds, List.mem_map] at h
    obtain ⟨x, hx, rfl⟩ := h
    have := (List.all_eq_true.mp this) x hx
    split at this
    · simpa [resolve] using this
    · simp at this
  · simp at this

theorem allowed_le {C : TCfg} {ph : Phase} {n : Nat} (hd : durLe C ph n = true) {σ : String → Nat} {any : Nat} {s : St}
    {d : Nat} (hin : inP ph s = true) {t : MsgId} (ht : t ∈ ph.t) (harm : s.armed = some t) (h : allowed C σ any s d) : d ≤ n := by
  simp only [durLe, List.all_eq_true] at hd
  have := hd s.leaf (by simpa [inP] using hin) t ht
  simp only [allowed, harm] at h
  split at this
  · rename_i ds hds
    simp only [hds, List.mem_map] at h
    obtain ⟨x, hx, rfl⟩ := h
    have := (List.all_eq_true.mp this) x hx
    split at this
    · simpa [resolve] using this
    · simp at this
  · simp at this


theorem tstep_cert {C : TCfg} {B : Buckets} (hC : Cert C B) {ts ts' : TSt} {e : TEv} (hr : TReach C ts)
    (hstep : TStep C ts e ts') : ts'.s ∈ statesOf B :=
  reach_in_cert hC.closed (treach_reach hC.fresh hC.closed hC.armedOK (TReach.step e hr hstep))

/-- **Minimum duration**: from the entry of the phase on (restarts included), the delayed call carrying the current token
    was armed no earlier than the entry and with a delay of at least `n`. -/
theorem within_keeps {C : TCfg} {B : Buckets} {ph : Phase} {n : Nat} (hC : Cert C B) (ha : armedIn B ph = true)
    (hd : durGe C ph n = true) {ts0 ts : TSt} (h0 : TReach C ts0) (hat : ts0.now ≤ ts0.armedAt) (hdur : n ≤ ts0.armedDur)
    (h : Within C ph ts0 ts) : TReach C ts ∧ ts0.now ≤ ts.armedAt ∧ n ≤ ts.armedDur := by
  induction h with
  | refl => exact ⟨h0, hat, hdur⟩
  | @step ts ts' e _ hstep hin' ih =>
      obtain ⟨hr, h1, h2⟩ := ih
      have hcert' := tstep_cert hC hr hstep
      obtain ⟨t', ht', harm'⟩ := armed_in ha hcert' hin'
      refine ⟨TReach.step e hr hstep, ?_⟩
      have hmono := (deadline hr).1
      cases hstep with
      | plain m τ d σ any hm hnow _ hmem hall =>
          obtain ⟨s0, hs0, hleaf, hun, htouch, _⟩ := tplain_sentinel hmem
          by_cases hx : s0.armed = some C.X
          · obtain ⟨_, e1, e2, _⟩ := hun hx
            rw [e1, e2]; exact ⟨h1, h2⟩
          · obtain ⟨t1, t2, t3⟩ := htouch hx
            rw [t2, t3]
            exact ⟨by omega, allowed_ge hd hin' ht' harm' (hall t1)⟩
      | fire τ d σ any hnow _ _ hmem hall =>
          have hd' := allowed_ge hd hin' ht' harm' hall
          unfold tfire at hmem
          split at hmem
          · simp at hmem
          · simp only [List.mem_map] at hmem
            obtain ⟨s', _, rfl⟩ := hmem
            exact ⟨by simp only []; omega, hd'⟩

/-- … hence, when the timeout finally ends the phase, at least `n` has elapsed since the entry. -/
theorem min_stay {C : TCfg} {B : Buckets} {ph : Phase} {n : Nat} (hC : Cert C B) (ha : armedIn B ph = true)
    (hd : durGe C ph n = true) {ts0 ts ts' : TSt} (h0 : TReach C ts0) (hat : ts0.now ≤ ts0.armedAt) (hdur : n ≤ ts0.armedDur)
    (h : Within C ph ts0 ts) {σf : String → Nat} (hfire : TStep C ts (.fire σf) ts') : ts0.now + n ≤ ts'.now := by
  obtain ⟨_, h1, h2⟩ := within_keeps hC ha hd h0 hat hdur h
  cases hfire with
  | fire τ d σ any _ hdue _ hmem _ =>
      unfold tfire at hmem
      split at hmem
      · simp at hmem
      · simp only [List.mem_map] at hmem
        obtain ⟨s', _, rfl⟩ := hmem
        simp only []; omega

/-- the phase is left early only by its escape messages -/
theorem exit_by_timeout_or_escape {C : TCfg} {B : Buckets} {ph : Phase} (hC : Cert C B) (he : onlyEscapes C B ph = true)
    {ts ts' : TSt} {e : TEv} (hr : TReach C ts) (hin : inP ph ts.s = true) (hstep : TStep C ts e ts')
    (hout : inP ph ts'.s = false) : (∃ σ, e = .fire σ) ∨ ∃ m ∈ ph.escape, ∃ σ, e = .plain m σ := by
  have hcert := reach_in_cert hC.closed (treach_reach hC.fresh hC.closed hC.armedOK hr)
  cases hstep with
  | fire τ d σ any => exact Or.inl ⟨σ, rfl⟩
  | plain m τ d σ any hm _ _ hmem _ =>
      right
      simp only [onlyEscapes, List.all_eq_true, Bool.or_eq_true, Bool.not_eq_true'] at he
      rcases he _ hcert with h1 | h1
      · simp [hin] at h1
      · rcases h1 m hm with h2 | h2
        · exact ⟨m, by simpa using h2, σ, rfl⟩
        · have := h2 _ (tplain_proj hC.fresh hmem)
          rw [hout] at this; cases this

/-- **Polling**: whenever, in a polling phase, the delayed call carrying the current token is the poll, it was armed with
    at most the period: the next poll is delivered no later than `armedAt + n + lag`.  (That the poll IS armed, or a
    self-message that ends the phase is pending, is the untimed invariant `C08.timerOK`.) -/
theorem poll_period {C : TCfg} {B : Buckets} {ph : Phase} {n : Nat} (hC : Cert C B)
    (he : entryArms C B ph = true) (hd : durLe C ph n = true) (hinit : inP ph (initSt C.D) = false)
    {ts : TSt} (h : TReach C ts) (hin : inP ph ts.s = true) {t : MsgId} (ht : t ∈ ph.t) (harm : ts.s.armed = some t) :
    ts.armedDur ≤ n ∧ ts.now ≤ ts.armedAt + n + C.lag := by
  have key : ts.armedDur ≤ n := by
    induction h with
    | init => simp [tinit, hinit] at hin
    | @step ts ts' e hr hstep ih =>
        have hcert := reach_in_cert hC.closed (treach_reach hC.fresh hC.closed hC.armedOK hr)
        cases hstep with
        | plain m τ d σ any hm _ _ hmem hall =>
            obtain ⟨s0, hs0, hleaf, hun, htouch, _⟩ := tplain_sentinel hmem
            by_cases hx : s0.armed = some C.X
            · obtain ⟨_, _, e2, e3⟩ := hun hx
              rw [e2]
              by_cases hsrc : inP ph ts.s = true
              · exact ih hsrc (e3 ▸ harm)
              · simp only [entryArms, List.all_eq_true, Bool.or_eq_true, Bool.not_eq_true', bne_iff_ne, ne_eq] at he
                rcases he _ hcert with h1 | h1
                · exact absurd h1 hsrc
                · rcases h1 m hm s0 hs0 with h2 | h2
                  · simp only [inP] at hin h2; rw [hleaf, hin] at h2; cases h2
                  · exact absurd hx h2
            · obtain ⟨t1, _, t3⟩ := htouch hx
              rw [t3]; exact allowed_le hd hin ht harm (hall t1)
        | fire τ d σ any _ _ _ hmem hall =>
            have hd' := allowed_le hd hin ht harm hall
            unfold tfire at hmem
            split at hmem
            · simp at hmem
            · simp only [List.mem_map] at hmem
              obtain ⟨s', _, rfl⟩ := hmem
              exact hd'
  have := (deadline h).2 (by simp [harm])
  exact ⟨key, by omega⟩

/-! ## Entry + stay: the statements the properties use -/

/-- all delays with which the timeout can be armed in the phase are the duration setting `x` -/
def durIs (C : TCfg) (ph : Phase) (x : String) : Bool :=
  ph.P.all fun l => ph.t.all fun t => candidates C l t == some [.setting x]

theorem allowed_is {C : TCfg} {ph : Phase} {x : String} (hd : durIs C ph x = true) {σ : String → Nat} {any : Nat} {s : St}
    {d : Nat} (hin : inP ph s = true) {t : MsgId} (ht : t ∈ ph.t) (harm : s.armed = some t) (h : allowed C σ any s d) :
    d = σ x := by
  simp only [durIs, List.all_eq_true, beq_iff_eq] at hd
  have := hd s.leaf (by simpa [inP] using hin) t ht
  simp only [allowed, harm, this, List.map_cons, List.map_nil, List.mem_singleton, resolve] at h
  exact h

/-- **A time-limited phase ends on time** (constant duration): entered at `ts0.now`, and for as long as it goes on without
    being restarted, the clock is at most `ts0.now + n + lag`. -/
theorem phase_ends_on_time {C : TCfg} {B : Buckets} {ph : Phase} {n : Nat} (hC : Cert C B)
    (hb : noRearm C B ph = true) (hl : timeoutLeaves C B ph = true) (ha : armedIn B ph = true)
    (he : entryArms C B ph = true) (hd : durLe C ph n = true)
    {ts ts0 ts1 : TSt} {e : TEv} (hr : TReach C ts) (hout : inP ph ts.s = false) (hstep : TStep C ts e ts0)
    (hin : inP ph ts0.s = true) (hstay : Stay C ph ts0 ts1) : ts1.now ≤ ts0.now + n + C.lag := by
  obtain ⟨hat, any, hall⟩ := entry_arms hC he hr hout hstep hin
  have hr0 := TReach.step e hr hstep
  obtain ⟨t, ht, harm⟩ := armed_in ha (tstep_cert hC hr hstep) hin
  have hle := allowed_le hd hin ht harm hall
  have := ends_on_time hC hb hl ha hr0 hin hstay
  rw [hat] at this; omega

/-- … with a duration setting: the bound is the value of the setting read by the handler that entered the phase -/
theorem phase_ends_on_time_setting {C : TCfg} {B : Buckets} {ph : Phase} {x : String} (hC : Cert C B)
    (hb : noRearm C B ph = true) (hl : timeoutLeaves C B ph = true) (ha : armedIn B ph = true)
    (he : entryArms C B ph = true) (hd : durIs C ph x = true)
    {ts ts0 ts1 : TSt} {e : TEv} (hr : TReach C ts) (hout : inP ph ts.s = false) (hstep : TStep C ts e ts0)
    (hin : inP ph ts0.s = true) (hstay : Stay C ph ts0 ts1) : ts1.now ≤ ts0.now + e.settings x + C.lag := by
  obtain ⟨hat, any, hall⟩ := entry_arms hC he hr hout hstep hin
  have hr0 := TReach.step e hr hstep
  obtain ⟨t, ht, harm⟩ := armed_in ha (tstep_cert hC hr hstep) hin
  have hle := allowed_is hd hin ht harm hall
  have := ends_on_time hC hb hl ha hr0 hin hstay
  rw [hat, hle] at this; exact this

/-- **A minimum phase lasts at least its delay**: entered at `ts0.now`; when its timeout ends it (after any number of
    events inside the phase, restarts included), at least `n` has elapsed; and nothing but the timeout or an escape
    message ends it (`exit_by_timeout_or_escape`). -/
theorem phase_lasts {C : TCfg} {B : Buckets} {ph : Phase} {n : Nat} (hC : Cert C B) (ha : armedIn B ph = true)
    (he : entryArms C B ph = true) (hd : durGe C ph n = true)
    {ts ts0 ts1 ts2 : TSt} {e : TEv} {σf : String → Nat} (hr : TReach C ts) (hout : inP ph ts.s = false)
    (hstep : TStep C ts e ts0) (hin : inP ph ts0.s = true) (hw : Within C ph ts0 ts1)
    (hfire : TStep C ts1 (.fire σf) ts2) : ts0.now + n ≤ ts2.now := by
  obtain ⟨hat, any, hall⟩ := entry_arms hC he hr hout hstep hin
  have hr0 := TReach.step e hr hstep
  obtain ⟨t, ht, harm⟩ := armed_in ha (tstep_cert hC hr hstep) hin
  have hge := allowed_ge hd hin ht harm hall
  exact min_stay hC ha hd hr0 (by omega) hge hw hfire


/-! ## A polling phase whose poll decides to leave after a limit

`StayPoll L`: the phase goes on (any events, polls included) and every poll delivered during the stay fired no later than `L`
after the entry – which is what the decision theorems about the poll give: a poll that finds the time in the phase beyond
its limit does not re-arm, it requests the exit (Tank: `C05.limits`; wintering: `Winter` policy).  Then the stay is bounded by
`L + period + lag`: the call carrying the current token was armed at the entry or by one of those polls. -/
inductive StayPoll (C : TCfg) (ph : Phase) (L : Nat) : TSt → TSt → Prop
  | refl (ts : TSt) : StayPoll C ph L ts ts
  | step {ts0 ts ts' : TSt} {e : TEv} : StayPoll C ph L ts0 ts → TStep C ts e ts' → inP ph ts'.s = true →
      ((∃ σ, e = .fire σ) → ts'.now ≤ ts0.now + L) → StayPoll C ph L ts0 ts'

theorem staypoll_bounded {C : TCfg} {B : Buckets} {ph : Phase} {n L : Nat} (hC : Cert C B)
    (hb : noRearm C B ph = true) (hd : durLe C ph n = true) (hnr : ph.restart = [])
    {ts0 ts : TSt} (h0 : TReach C ts0) (hin0 : inP ph ts0.s = true) (hat : ts0.armedAt ≤ ts0.now + L)
    (hdur0 : ∀ t ∈ ph.t, ts0.s.armed = some t → ts0.armedDur ≤ n)
    (h : StayPoll C ph L ts0 ts) :
    TReach C ts ∧ inP ph ts.s = true ∧ ts.armedAt ≤ ts0.now + L ∧ (∀ t ∈ ph.t, ts.s.armed = some t → ts.armedDur ≤ n) := by
  induction h with
  | refl => exact ⟨h0, hin0, hat, hdur0⟩
  | @step ts ts' e _ hstep hin' hfire ih =>
      obtain ⟨hr, hin, h1, h2⟩ := ih
      have hcert := reach_in_cert hC.closed (treach_reach hC.fresh hC.closed hC.armedOK hr)
      refine ⟨TReach.step e hr hstep, hin', ?_⟩
      cases hstep with
      | plain m τ d σ any hm _ _ hmem hall =>
          obtain ⟨s0, hs0, hleaf, hun, htouch, _⟩ := tplain_sentinel hmem
          simp only [noRearm, List.all_eq_true, Bool.or_eq_true, Bool.not_eq_true', beq_iff_eq] at hb
          rcases hb _ hcert with hb1 | hb1
          · simp [hin] at hb1
          · rcases hb1 m hm with hb2 | hb2
            · rw [hnr] at hb2; simp at hb2
            · rcases hb2 s0 hs0 with hb3 | hb3
              · simp only [inP] at hin' hb3; rw [hleaf, hin'] at hb3; cases hb3
              · obtain ⟨_, e1, e2, e3⟩ := hun hb3
                refine ⟨by rw [e1]; exact h1, ?_⟩
                intro t ht harm
                rw [e2]; exact h2 t ht (e3 ▸ harm)
      | fire τ d σ any _ _ _ hmem hall =>
          have hτ := hfire ⟨σ, rfl⟩
          unfold tfire at hmem
          split at hmem
          · simp at hmem
          · simp only [List.mem_map] at hmem
            obtain ⟨s', _, rfl⟩ := hmem
            refine ⟨hτ, ?_⟩
            intro t ht harm
            exact allowed_le hd hin' ht harm hall

/-- … hence, while the poll is the armed call, the clock is at most entry + L + period + lag -/
theorem staypoll_time {C : TCfg} {B : Buckets} {ph : Phase} {n L : Nat} (hC : Cert C B)
    (hb : noRearm C B ph = true) (he : entryArms C B ph = true) (hd : durLe C ph n = true) (hnr : ph.restart = [])
    {ts tsE ts1 : TSt} {e : TEv} (hr : TReach C ts) (hout : inP ph ts.s = false) (hstep : TStep C ts e tsE)
    (hin : inP ph tsE.s = true) (hstay : StayPoll C ph L tsE ts1) {t : MsgId} (ht : t ∈ ph.t) (harm : ts1.s.armed = some t) :
    ts1.now ≤ tsE.now + L + n + C.lag := by
  obtain ⟨hat, any, hall⟩ := entry_arms hC he hr hout hstep hin
  have hrE := TReach.step e hr hstep
  have hdur0 : ∀ t ∈ ph.t, tsE.s.armed = some t → tsE.armedDur ≤ n := fun t ht harm => allowed_le hd hin ht harm hall
  obtain ⟨hr1, _, h1, h2⟩ := staypoll_bounded hC hb hd hnr hrE hin (by omega) hdur0 hstay
  have := (deadline hr1).2 (by simp [harm])
  have := h2 t ht harm
  omega

/-! ## Bundled checks (one kernel evaluation per phase) -/
def timedOK (C : TCfg) (B : Buckets) (ph : Phase) : Bool :=
  noRearm C B ph && timeoutLeaves C B ph && armedIn B ph && entryArms C B ph

def minOK (C : TCfg) (B : Buckets) (ph : Phase) (n : Nat) : Bool :=
  armedIn B ph && entryArms C B ph && onlyEscapes C B ph && durGe C ph n

def pollOK (C : TCfg) (B : Buckets) (ph : Phase) (n : Nat) : Bool :=
  entryArms C B ph && durLe C ph n && !inP ph (initSt C.D)

theorem timed_const {C : TCfg} {B : Buckets} {ph : Phase} {n : Nat} (hC : Cert C B)
    (h : (timedOK C B ph && durLe C ph n) = true)
    {ts ts0 ts1 : TSt} {e : TEv} (hr : TReach C ts) (hout : inP ph ts.s = false) (hstep : TStep C ts e ts0)
    (hin : inP ph ts0.s = true) (hstay : Stay C ph ts0 ts1) : ts1.now ≤ ts0.now + n + C.lag := by
  simp only [timedOK, Bool.and_eq_true] at h
  exact phase_ends_on_time hC h.1.1.1.1 h.1.1.1.2 h.1.1.2 h.1.2 h.2 hr hout hstep hin hstay

theorem timed_setting {C : TCfg} {B : Buckets} {ph : Phase} {x : String} (hC : Cert C B)
    (h : (timedOK C B ph && durIs C ph x) = true)
    {ts ts0 ts1 : TSt} {e : TEv} (hr : TReach C ts) (hout : inP ph ts.s = false) (hstep : TStep C ts e ts0)
    (hin : inP ph ts0.s = true) (hstay : Stay C ph ts0 ts1) : ts1.now ≤ ts0.now + e.settings x + C.lag := by
  simp only [timedOK, Bool.and_eq_true] at h
  exact phase_ends_on_time_setting hC h.1.1.1.1 h.1.1.1.2 h.1.1.2 h.1.2 h.2 hr hout hstep hin hstay

theorem min_const {C : TCfg} {B : Buckets} {ph : Phase} {n : Nat} (hC : Cert C B) (h : minOK C B ph n = true)
    {ts ts0 ts1 ts2 : TSt} {e : TEv} {σf : String → Nat} (hr : TReach C ts) (hout : inP ph ts.s = false)
    (hstep : TStep C ts e ts0) (hin : inP ph ts0.s = true) (hw : Within C ph ts0 ts1)
    (hfire : TStep C ts1 (.fire σf) ts2) : ts0.now + n ≤ ts2.now := by
  simp only [minOK, Bool.and_eq_true] at h
  exact phase_lasts hC h.1.1.1 h.1.1.2 h.2 hr hout hstep hin hw hfire

theorem min_exits {C : TCfg} {B : Buckets} {ph : Phase} {n : Nat} (hC : Cert C B) (h : minOK C B ph n = true)
    {ts ts' : TSt} {e : TEv} (hr : TReach C ts) (hin : inP ph ts.s = true) (hstep : TStep C ts e ts')
    (hout : inP ph ts'.s = false) : (∃ σ, e = .fire σ) ∨ ∃ m ∈ ph.escape, ∃ σ, e = .plain m σ := by
  simp only [minOK, Bool.and_eq_true] at h
  exact exit_by_timeout_or_escape hC h.1.2 hr hin hstep hout

theorem poll_const {C : TCfg} {B : Buckets} {ph : Phase} {n : Nat} (hC : Cert C B) (h : pollOK C B ph n = true)
    {ts : TSt} (hr : TReach C ts) (hin : inP ph ts.s = true) {t : MsgId} (ht : t ∈ ph.t) (harm : ts.s.armed = some t) :
    ts.armedDur ≤ n ∧ ts.now ≤ ts.armedAt + n + C.lag := by
  simp only [pollOK, Bool.and_eq_true, Bool.not_eq_true'] at h
  exact poll_period hC h.1.1 h.1.2 h.2 hr hin ht harm

end Poupool.Timed
