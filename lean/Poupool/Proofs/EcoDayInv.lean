/-
  Day-level invariant of the closed loop along `tick`-only runs: closed forms for the ghost allowances recorded by
  the model (`gN ≤ period`, `gCyc ≤ gN + 1`, `gJ`, `gU` as functions of the number of completed cycles) and for the
  plan of a day that starts at a reset (`gDc = 0`, `DAY - poll - 3 eps ≤ gRc ≤ DAY`).  Layered on top of `Inv`
  (Proofs/EcoLoop.lean): `Inv eps s → DayInv … s → DayInv … (ecoStep eps s tick).1`.
-/
import Poupool.Proofs.EcoDaySteps

set_option linter.unusedSimpArgs false
set_option linter.unusedVariables false
namespace Poupool.Eco
open Poupool.Generated

/-! ### arithmetic -/

/-- the period count of a plan never exceeds the configured period count (dispatcher ranges) -/
theorem periods_le_period (delay per D : Int) (hd : 1 * US ≤ delay) (hp1 : 1 ≤ per) (hp2 : per ≤ 10) (hD : D ≤ delay) :
    max 1 (D / divNearest delay per) ≤ per := by
  have hU : US = 1000000 := rfl
  have hb := (divNearest_bounds delay per (by omega)).2
  have hb1 := (divNearest_bounds delay per (by omega)).1
  have hlt : D < (per + 1) * divNearest delay per := by
    have : per = 1 ∨ per = 2 ∨ per = 3 ∨ per = 4 ∨ per = 5 ∨ per = 6 ∨ per = 7 ∨ per = 8 ∨ per = 9 ∨ per = 10 := by omega
    rcases this with h | h | h | h | h | h | h | h | h | h <;> subst h <;> omega
  have hpos : 0 < divNearest delay per := by
    have : per = 1 ∨ per = 2 ∨ per = 3 ∨ per = 4 ∨ per = 5 ∨ per = 6 ∨ per = 7 ∨ per = 8 ∨ per = 9 ∨ per = 10 := by omega
    rcases this with h | h | h | h | h | h | h | h | h | h <;> subst h <;> omega
  have := Int.ediv_lt_of_lt_mul hpos hlt
  omega

/-- while the quota is not reached the number of completed cycles is at most the period count of the plan -/
theorem cyc_le_N (N P cyc credit X D Rc : Int) (hN : 1 ≤ N) (hP : N < 2 * P)
    (hNP : Rc ≤ P ∨ 2 * D - N ≤ 2 * (N * P)) (hC : credit = cyc * P) (hX : credit ≤ X) (hXD : X < D) (hXR : X < Rc) :
    cyc ≤ N := by
  by_cases hc : cyc ≤ N
  · exact hc
  · exfalso
    have hP0 : 0 ≤ P := by omega
    have h1 : (N + 1) * P ≤ cyc * P := Int.mul_le_mul_of_nonneg_right (by omega) hP0
    have h2 : (N + 1) * P = N * P + P := by rw [Int.add_mul, Int.one_mul]
    have h3 : 0 ≤ N * P := Int.mul_nonneg (by omega) hP0
    rcases hNP with h | h <;> omega

theorem dropLast_cons_mem {α : Type} (a : α) (l : List α) (r : α) (h : r ∈ (a :: l).dropLast) :
    (l ≠ [] ∧ r = a) ∨ r ∈ l.dropLast := by
  cases l with
  | nil => simp [List.dropLast] at h
  | cons b l' =>
    rw [List.dropLast_cons_cons] at h
    rcases List.mem_cons.mp h with h | h
    · exact Or.inl ⟨by simp, h⟩
    · exact Or.inr h

theorem mul_eps_le (a b eps : Int) (h : a ≤ b) (he : 0 ≤ eps) : a * eps ≤ b * eps :=
  Int.mul_le_mul_of_nonneg_right h he

theorem succ_mul_eps (a eps : Int) : (a + 1) * eps = a * eps + eps := by rw [Int.add_mul, Int.one_mul]

theorem C10_timer_factor_zero' (t : Timer) (now : Int) : (t.update now 0 1).duration = t.duration := by
  unfold Timer.update
  cases h : t.last with
  | none => simp
  | some l => simp [scale_zero]

theorem upd_delay (t : Timer) (now fnum fden : Int) : (t.update now fnum fden).delay = t.delay := by
  unfold Timer.update; cases t.last <;> rfl

/-! ### the invariant -/

/-- phase entries since the compute, beyond three per completed cycle -/
def kJ : Phase → Int | .waiting => 1 | .normal => 2 | .tank => 3 | _ => 0
/-- `eps`-units of the uncounted-time allowance `gU`, beyond four per completed cycle -/
def kU : Phase → Int | .waiting => 1 | .normal => 2 | .tank => 4 | _ => 0
def inCycle : Phase → Int | .normal => 1 | .tank => 1 | _ => 0

/-- closed-form claims about a finished day (the ghost values of `DayRec` bounded by functions of the configured
period count `per`, the daily duration `delay` and the lateness bound `eps`) -/
def DayClosed (eps per delay : Int) (r : DayRec) : Prop :=
  r.plain = true ∧ (r.full = true →
    (1 ≤ r.n ∧ r.n ≤ per
     ∧ r.j ≤ EcoConfig.computeDelayUs + 6 * (per * eps) + 9 * eps
     ∧ r.u ≤ EcoConfig.computeDelayUs + 4 * (per * eps) + 8 * eps
     ∧ min delay (DAY - EcoConfig.pollDelayUs - 3 * eps) - slackOf eps r.j r.n ≤ r.lb
     ∧ r.ub = delay + EcoConfig.pollDelayUs + eps
     ∧ r.on ≤ DAY + EcoConfig.pollDelayUs + 3 * eps))

structure DayInv (eps per delay : Int) (s : Loop) : Prop where
  hper : s.eco.period = per
  hdel : s.eco.filtration.delay = delay
  hpd : s.eco.periodDuration = divNearest delay per
  hP : EcoConfig.minOnUs ≤ s.eco.onD + s.eco.tankD
  hidle : s.eco.filtration.duration - s.gDc ≤ s.now - s.gTc
  hN : s.gN ≤ per
  hcyc : s.gCyc + inCycle s.phase ≤ s.gN + 1
  hJ : s.gJ ≤ EcoConfig.computeDelayUs + eps + 6 * (s.gCyc * eps) + 2 * kJ s.phase * eps
  hfull : s.full = true → (s.gDc = 0 ∧ s.gRc ≤ DAY ∧ DAY - EcoConfig.pollDelayUs - 3 * eps ≤ s.gRc
      ∧ s.gU ≤ EcoConfig.computeDelayUs + 3 * eps + 4 * (s.gCyc * eps) + kU s.phase * eps
      ∧ s.onToday ≤ s.now - s.gTc + 2 * eps)
  hdays : ∀ r ∈ s.days, DayClosed eps per delay r
  hseq : (s.days = [] ∨ s.full = true) ∧ ∀ r ∈ s.days.dropLast, r.full = true

/-- the settings of the run, as far as the closed forms need them -/
structure Static (eps per delay : Int) : Prop where
  heps : 0 ≤ eps
  heps5 : eps ≤ 600000
  hper1 : 1 ≤ per
  hper2 : per ≤ 10
  hdel : 1 * US ≤ delay

/-- `reload` / `reloaded` / `eco_compute` after a poll that saw the reset -/
theorem reload_day (eps per delay : Int) (u : Loop) (j1 j2 : Int) (hst : Static eps per delay)
    (hj1 : 0 ≤ j1 ∧ j1 ≤ eps) (hj2 : 0 ≤ j2 ∧ j2 ≤ eps)
    (hper : u.eco.period = per) (hdel : u.eco.filtration.delay = delay) (hpd : u.eco.periodDuration = divNearest delay per)
    (hdur : u.eco.filtration.duration = 0) (hon : u.onToday = 0) (hu : u.gU = 0) (hfull : u.full = true)
    (hnr2 : u.eco.nextReset - DAY ≤ u.now) (hnr3 : u.now < u.eco.nextReset - DAY + EcoConfig.pollDelayUs + eps)
    (hdays : ∀ r ∈ u.days, DayClosed eps per delay r) (hseq : ∀ r ∈ u.days.dropLast, r.full = true) :
    DayInv eps per delay (u.reloadEco eps j1 j2).1 := by
  obtain ⟨heps, heps5, hper1, hper2, hdl⟩ := hst
  have hpoll := cfg_poll
  have hcd := cfg_cd
  have hDAY : DAY = 86400000000 := rfl
  have hU : US = 1000000 := rfl
  simp only [Loop.reloadEco]
  generalize hx : Loop.advance _ _ = x
  have hxnow : x.now = u.now + j1 + j2 := by subst hx; simp [Loop.advance]
  have hxnr : x.eco.nextReset = u.eco.nextReset := by subst hx; simp [Loop.advance, EcoMode.clear]
  have hxdur : x.eco.filtration.duration = 0 := by subst hx; simp [Loop.advance, EcoMode.clear, Timer.clear, hdur]
  have hxdel : x.eco.filtration.delay = delay := by subst hx; simp [Loop.advance, EcoMode.clear, Timer.clear, hdel]
  have hxper : x.eco.period = per := by subst hx; simp [Loop.advance, EcoMode.clear, hper]
  have hxpd : x.eco.periodDuration = divNearest delay per := by subst hx; simp [Loop.advance, EcoMode.clear, hpd]
  have hxfull : x.full = true := by subst hx; simp [Loop.advance, hfull]
  have hxdays : x.days = u.days := by subst hx; simp [Loop.advance]
  have hxu : x.gU = 2 * eps := by subst hx; simp [Loop.advance, hu]
  have hxon : x.onToday ≤ j1 + j2 := by
    subst hx; simp only [Loop.advance, hon]; split <;> omega
  obtain ⟨f1, f2, f3, f4, f5, f6, f7, f8, f9, f10, f11, f12, f13, f14, f15, f16, f17, f18, f19, f20⟩ :=
    enterCompute_fields eps x (by rw [hxnow, hxnr]; omega)
  have hNle := periods_le_period delay per (max 0 (delay - 0)) hdl hper1 hper2 (by omega)
  refine ⟨?_, ?_, ?_, f20, ?_, ?_, ?_, ?_, ?_, ?_, ?_⟩
  · rw [f17, hxper]
  · rw [f19, hxdel]
  · rw [f18, hxpd]
  · rw [f9, f8, f2, f7]; omega
  · rw [f10, hxdel, hxdur, hxpd]; exact hNle
  · rw [f14, f1]; simp only [inCycle]; rw [f10]; omega
  · rw [f13, f14, f1]; simp only [kJ]; omega
  · intro _
    rw [f8, f11, f15, f14, f1, f4, f2, f7, hxdur, hxnr, hxu, hxnow]
    simp only [kU]
    refine ⟨?_, ?_, ?_, ?_, ?_⟩ <;> first | trivial | omega
  · rw [f5, hxdays]; exact hdays
  · rw [f5, hxdays, f3, hxfull]; exact ⟨Or.inr rfl, hseq⟩

/-- the closed-form claims for the day finished by a reset poll at `t` in a polled phase -/
theorem closed_rec (eps per delay : Int) (s : Loop) (t : Int) (dur : Int) (hst : Static eps per delay) (hd : DayInv eps per delay s)
    (hpl : s.gPlain = true) (hN1 : 1 ≤ s.gN) (hRc : s.gRc = max 0 (s.gNr - s.gTc)) (hNr : s.eco.nextReset = s.gNr)
    (hk : s.phase = .waiting ∨ s.phase = .normal ∨ s.phase = .tank)
    (ht0 : s.now ≤ t) (ht : t < s.eco.nextReset + EcoConfig.pollDelayUs + eps) :
    DayClosed eps per delay
      { on := s.onToday + (if s.pumpOn then t - s.now else 0), full := s.full, plain := s.gPlain, dur := dur, u := s.gU,
        lb := min s.eco.filtration.delay (s.gDc + s.gRc) - slackOf eps s.gJ s.gN,
        ub := s.eco.filtration.delay + EcoConfig.pollDelayUs + eps, cyc := s.gCyc, n := s.gN, j := s.gJ } := by
  obtain ⟨heps, heps5, hper1, hper2, hdl⟩ := hst
  obtain ⟨dper, ddel, dpd, dP, didle, dN, dcyc, dJ, dfull, ddays, dseq⟩ := hd
  have hpoll := cfg_poll
  have hcd := cfg_cd
  refine ⟨hpl, fun hfull => ?_⟩
  simp only at hfull ⊢
  obtain ⟨g1, g2, g3, g4, g5⟩ := dfull hfull
  have hce1 := mul_eps_le s.gCyc (per + 1) eps
  have hce0 := mul_eps_le s.gCyc per eps
  have hsm := succ_mul_eps per eps
  rw [ddel, g1]
  generalize slackOf eps s.gJ s.gN = sl
  rcases hk with hk | hk | hk <;> simp only [hk, kJ, kU, inCycle] at dcyc dJ g4
  · have := hce1 (by omega) heps
    refine ⟨hN1, dN, ?_, ?_, ?_, rfl, ?_⟩
    · omega
    · omega
    · omega
    · split <;> omega
  · have := hce0 (by omega) heps
    refine ⟨hN1, dN, ?_, ?_, ?_, rfl, ?_⟩
    · omega
    · omega
    · omega
    · split <;> omega
  · have := hce0 (by omega) heps
    refine ⟨hN1, dN, ?_, ?_, ?_, rfl, ?_⟩
    · omega
    · omega
    · omega
    · split <;> omega

theorem day_tick_waiting (eps per delay : Int) (s : Loop) (h : Inv eps s) (hd : DayInv eps per delay s) (hst : Static eps per delay)
    (hp : s.phase = .waiting) (j0 j1 j2 : Int)
    (hj0 : 0 ≤ j0 ∧ j0 ≤ eps) (hj1 : 0 ≤ j1 ∧ j1 ≤ eps) (hj2 : 0 ≤ j2 ∧ j2 ≤ eps) :
    DayInv eps per delay (ecoStep eps s (.tick j0 j1 j2)).1 := by
  have hpoll := cfg_poll
  have hcd := cfg_cd
  have hmin := cfg_minOn
  have hst' := hst
  obtain ⟨seps, seps5, sper1, sper2, sdl⟩ := hst'
  have hd' := hd
  obtain ⟨⟨heps, heps2, hdelay, hnext, hTc, hN, hoff, hon, htank, hNoff, hNP, hD, hRc, hNr, hplain, hW, hC, hW0, hJ0,
    hacc1, hub, hdays⟩, hWC, hcur0, hphase⟩ := h
  obtain ⟨dper, ddel, dpd, dP, didle, dN, dcyc, dJ, dfull, ddays, dseq⟩ := hd'
  simp only [hp, kJ, kU, inCycle] at dcyc dJ dfull
  rcases hphase with ⟨hc, _⟩ | ⟨_, hpump, htim, hcd', hacc2, hnr, hb⟩ | ⟨hc, _⟩ | ⟨hc, _⟩
  · rw [hp] at hc; cases hc
  · have ht0 : s.now ≤ max s.now s.due + j0 := by omega
    by_cases hr : s.eco.nextReset ≤ max s.now s.due + j0
    · rw [step_waiting_reset eps s hp j0 j1 j2 hr]
      have hsp := doUpdate_reset (s.advance (max s.now s.due + j0)) eps 0 1 (by simpa using hr)
      have hsm := doUpdate_reset_more (s.advance (max s.now s.due + j0)) eps 0 1 (by simpa using hr)
      simp only [adv_now, adv_due, adv_phase, adv_pump, adv_on, adv_days, adv_full, adv_toN, adv_eco, adv_gTc, adv_gDc, adv_gNr,
        adv_gN, adv_gD, adv_gRc, adv_gJ, adv_gWoff, adv_gW, adv_gCredit, adv_gCyc, adv_gU, adv_gPlain] at hsp hsm
      simp only [polled]
      generalize (s.advance (max s.now s.due + j0)).doUpdate eps 0 1 = r at *
      obtain ⟨r1, r2, r3, r4, r5, r6, r7, r8, r9⟩ := hsp
      obtain ⟨m1, m2, m3, m4, m5, m6, m7⟩ := hsm
      have hDAY : DAY = 86400000000 := rfl
      have htlt : max s.now s.due + j0 < s.eco.nextReset + EcoConfig.pollDelayUs + eps := by
        rcases htim with ⟨hfl, hcl, hcz, hdue⟩ | ⟨hfl, hcl, hdue⟩
        · omega
        · rcases hnr with hnr | hnr
          · rw [hfl] at hnr; cases hnr
          · omega
      apply reload_day eps per delay r.1 j1 j2 hst hj1 hj2
      · rw [m1, dper]
      · rw [r8, ddel]
      · rw [m2, dpd]
      · exact r7
      · exact r3
      · exact r4
      · exact m5
      · rw [r6, r2]; omega
      · rw [r6, r2]; omega
      · intro d hdm
        rw [r9] at hdm
        rcases List.mem_cons.mp hdm with hdm | hdm
        · subst hdm
          exact closed_rec eps per delay s (max s.now s.due + j0) _ hst hd hplain hN hRc hNr (Or.inl hp) ht0 htlt
        · exact ddays d hdm
      · intro d hdm
        rw [r9] at hdm
        rcases dropLast_cons_mem _ _ _ hdm with ⟨hne, hdm⟩ | hdm
        · subst hdm
          rcases dseq.1 with hh | hh
          · exact absurd hh hne
          · exact hh
        · exact dseq.2 d hdm
    · have hsp := doUpdate_noreset (s.advance (max s.now s.due + j0)) eps 0 1 (by simpa using hr)
      have hsm := doUpdate_noreset_more (s.advance (max s.now s.due + j0)) eps 0 1 (by simpa using hr)
      simp only [adv_now, adv_due, adv_phase, adv_pump, adv_on, adv_days, adv_full, adv_toN, adv_eco, adv_gTc, adv_gDc, adv_gNr,
        adv_gN, adv_gD, adv_gRc, adv_gJ, adv_gWoff, adv_gW, adv_gCredit, adv_gCyc, adv_gU, adv_gPlain, hpump,
        Bool.false_eq_true, if_false, Int.add_zero] at hsp hsm
      cases he : (polled eps s j0 0 1).eco.elapsedOff
      · rw [step_waiting_stay eps s hp j0 j1 j2 hr he]
        simp only [polled] at he ⊢
        generalize (s.advance (max s.now s.due + j0)).doUpdate eps 0 1 = r at *
        obtain ⟨h1, h2, h3, h4, h5, h6, h7, h8, h9, h10, h11, h12, h13, h14, h15, h16, h17, h18, h19, h20, h21, h22, h23, h24, h25, h26, h27, h28⟩ := hsp
        obtain ⟨m1, m2, m3, m4, m5⟩ := hsm
        have hdur : (s.eco.filtration.update (max s.now s.due + j0) 0 1).duration = s.eco.filtration.duration :=
          C10_timer_factor_zero' _ _
        refine ⟨?_, ?_, ?_, ?_, ?_, ?_, ?_, ?_, ?_, ?_, ?_⟩
        all_goals (try simp only [h2, h3, h4, h5, h6, h7, h8, h9, h10, h11, h12, h13, h14, h15, h16, h17, h18, h19, h20, h21, h22, h23, h24, h25, h26, h27, h28, m1, m2, m3, hdur, upd_delay, hp, kJ, kU, inCycle])
        all_goals (first | assumption | omega | skip)
        · intro hf; have := dfull hf; omega
      · rw [step_waiting_go eps s hp j0 j1 j2 hr he]
        simp only [polled] at he ⊢
        simp only [EcoMode.elapsedOff, Timer.elapsed, Bool.and_eq_true, decide_eq_true_eq, Bool.not_eq_true', decide_eq_false_iff_not] at he
        generalize (s.advance (max s.now s.due + j0)).doUpdate eps 0 1 = r at *
        obtain ⟨h1, h2, h3, h4, h5, h6, h7, h8, h9, h10, h11, h12, h13, h14, h15, h16, h17, h18, h19, h20, h21, h22, h23, h24, h25, h26, h27, h28⟩ := hsp
        obtain ⟨m1, m2, m3, m4, m5⟩ := hsm
        have hdur : (s.eco.filtration.update (max s.now s.due + j0) 0 1).duration = s.eco.filtration.duration :=
          C10_timer_factor_zero' _ _
        simp only [h27, h28, upd_delay, hdur] at he
        -- the quota is not reached: at most `gN` cycles are completed
        have hcn : s.gCyc ≤ s.gN := by
          rcases hb with hb | ⟨hb1, hb2, hb3⟩
          · simp only [Timer.elapsed, decide_eq_true_eq] at hb; omega
          · exact cyc_le_N s.gN (s.eco.onD + s.eco.tankD) s.gCyc s.gCredit (s.eco.filtration.duration - s.gDc) s.gD s.gRc
              hN (by omega) hNP hC hb3 (by omega) (by omega)
        simp only [Loop.enterNormal, Loop.advance, EcoMode.clear, EcoMode.setCurrent, Timer.clear, Timer.setDelay]
        refine ⟨?_, ?_, ?_, ?_, ?_, ?_, ?_, ?_, ?_, ?_, ?_⟩
        all_goals (try simp only [h2, h3, h4, h5, h6, h7, h8, h9, h10, h11, h12, h13, h14, h15, h16, h17, h18, h19, h20, h21, h22, h23, h24, h25, h26, h27, h28, m1, m2, m3, hdur, upd_delay, hp, kJ, kU, inCycle, Bool.false_eq_true, if_false])
        all_goals (first | assumption | omega | skip)
        · intro hf; have := dfull hf; omega
  · rw [hp] at hc; cases hc
  · rw [hp] at hc; cases hc

theorem day_tick_normal (eps per delay : Int) (s : Loop) (h : Inv eps s) (hd : DayInv eps per delay s) (hst : Static eps per delay)
    (hp : s.phase = .normal) (j0 j1 j2 : Int)
    (hj0 : 0 ≤ j0 ∧ j0 ≤ eps) (hj1 : 0 ≤ j1 ∧ j1 ≤ eps) (hj2 : 0 ≤ j2 ∧ j2 ≤ eps) :
    DayInv eps per delay (ecoStep eps s (.tick j0 j1 j2)).1 := by
  have hpoll := cfg_poll
  have hcd := cfg_cd
  have hmin := cfg_minOn
  have hst' := hst
  obtain ⟨seps, seps5, sper1, sper2, sdl⟩ := hst'
  have hd' := hd
  obtain ⟨⟨heps, heps2, hdelay, hnext, hTc, hN, hoff, hon, htank, hNoff, hNP, hD, hRc, hNr, hplain, hW, hC, hW0, hJ0,
    hacc1, hub, hdays⟩, hWC, hcur0, hphase⟩ := h
  obtain ⟨dper, ddel, dpd, dP, didle, dN, dcyc, dJ, dfull, ddays, dseq⟩ := hd'
  simp only [hp, kJ, kU, inCycle] at dcyc dJ dfull
  have hsucc := succ_mul_eps s.gCyc eps
  rcases hphase with ⟨hc, _⟩ | ⟨hc, _⟩ | ⟨_, hpump, htim, hcd', hacc2, hnr, hlt, hb⟩ | ⟨hc, _⟩
  all_goals (try (rw [hp] at hc; cases hc))
  have ht0 : s.now ≤ max s.now s.due + j0 := by omega
  by_cases hr : s.eco.nextReset ≤ max s.now s.due + j0
  · rw [step_normal_reset eps s hp j0 j1 j2 hr]
    have hsp := doUpdate_reset (s.advance (max s.now s.due + j0)) eps 1 1 (by simpa using hr)
    have hsm := doUpdate_reset_more (s.advance (max s.now s.due + j0)) eps 1 1 (by simpa using hr)
    simp only [adv_now, adv_due, adv_phase, adv_pump, adv_on, adv_days, adv_full, adv_toN, adv_eco, adv_gTc, adv_gDc, adv_gNr,
      adv_gN, adv_gD, adv_gRc, adv_gJ, adv_gWoff, adv_gW, adv_gCredit, adv_gCyc, adv_gU, adv_gPlain] at hsp hsm
    simp only [polled]
    generalize (s.advance (max s.now s.due + j0)).doUpdate eps 1 1 = r at *
    obtain ⟨r1, r2, r3, r4, r5, r6, r7, r8, r9⟩ := hsp
    obtain ⟨m1, m2, m3, m4, m5, m6, m7⟩ := hsm
    have hDAY : DAY = 86400000000 := rfl
    have htlt : max s.now s.due + j0 < s.eco.nextReset + EcoConfig.pollDelayUs + eps := by
      rcases htim with ⟨hfl, hcl, hcz, hdue⟩ | ⟨hfl, hcl, hdue⟩
      · omega
      · rcases hnr with hnr | hnr
        · rw [hfl] at hnr; cases hnr
        · omega
    apply reload_day eps per delay r.1 j1 j2 hst hj1 hj2
    · rw [m1, dper]
    · rw [r8, ddel]
    · rw [m2, dpd]
    · exact r7
    · exact r3
    · exact r4
    · exact m5
    · rw [r6, r2]; omega
    · rw [r6, r2]; omega
    · intro d hdm
      rw [r9] at hdm
      rcases List.mem_cons.mp hdm with hdm | hdm
      · subst hdm
        exact closed_rec eps per delay s (max s.now s.due + j0) _ hst hd hplain hN hRc hNr (Or.inr (Or.inl hp)) ht0 htlt
      · exact ddays d hdm
    · intro d hdm
      rw [r9] at hdm
      rcases dropLast_cons_mem _ _ _ hdm with ⟨hne, hdm⟩ | hdm
      · subst hdm
        rcases dseq.1 with hh | hh
        · exact absurd hh hne
        · exact hh
      · exact dseq.2 d hdm
  · have hsp := doUpdate_noreset (s.advance (max s.now s.due + j0)) eps 1 1 (by simpa using hr)
    have hsm := doUpdate_noreset_more (s.advance (max s.now s.due + j0)) eps 1 1 (by simpa using hr)
    simp only [adv_now, adv_due, adv_phase, adv_pump, adv_on, adv_days, adv_full, adv_toN, adv_eco, adv_gTc, adv_gDc, adv_gNr,
      adv_gN, adv_gD, adv_gRc, adv_gJ, adv_gWoff, adv_gW, adv_gCredit, adv_gCyc, adv_gU, adv_gPlain, hpump,
      if_true] at hsp hsm
    have hdur : (s.eco.filtration.update (max s.now s.due + j0) 1 1).duration ≤ s.eco.filtration.duration + (max s.now s.due + j0 - s.now) := by
      rcases htim with ⟨hfl, hcl, hcz, hdue⟩ | ⟨hfl, hcl, hdue⟩ <;> simp only [Timer.update, hfl, scale_one] <;> omega
    generalize hdv : (s.eco.filtration.update (max s.now s.due + j0) 1 1).duration = dv at hdur
    cases he : ((polled eps s j0 1 1).eco.elapsedOn && decide (0 < (polled eps s j0 1 1).eco.tankD))
    · rw [step_normal_stay eps s hp j0 j1 j2 hr he]
      clear he
      simp only [polled]
      generalize (s.advance (max s.now s.due + j0)).doUpdate eps 1 1 = r at *
      obtain ⟨h1, h2, h3, h4, h5, h6, h7, h8, h9, h10, h11, h12, h13, h14, h15, h16, h17, h18, h19, h20, h21, h22, h23, h24, h25, h26, h27, h28⟩ := hsp
      obtain ⟨m1, m2, m3, m4, m5⟩ := hsm
      refine ⟨?_, ?_, ?_, ?_, ?_, ?_, ?_, ?_, ?_, ?_, ?_⟩
      all_goals (try simp only [h2, h3, h4, h5, h6, h7, h8, h9, h10, h11, h12, h13, h14, h15, h16, h17, h18, h19, h20, h21, h22, h23, h24, h25, h26, h27, h28, m1, m2, m3, hdv, upd_delay, hp, kJ, kU, inCycle])
      all_goals (first | assumption | omega | skip)
      · intro hf; have := dfull hf; omega
    · rw [step_normal_go eps s hp j0 j1 j2 hr he]
      clear he
      simp only [polled]
      generalize (s.advance (max s.now s.due + j0)).doUpdate eps 1 1 = r at *
      obtain ⟨h1, h2, h3, h4, h5, h6, h7, h8, h9, h10, h11, h12, h13, h14, h15, h16, h17, h18, h19, h20, h21, h22, h23, h24, h25, h26, h27, h28⟩ := hsp
      obtain ⟨m1, m2, m3, m4, m5⟩ := hsm
      simp only [Loop.enterTank, Loop.advance, EcoMode.clear, EcoMode.setCurrent, Timer.clear, Timer.setDelay]
      refine ⟨?_, ?_, ?_, ?_, ?_, ?_, ?_, ?_, ?_, ?_, ?_⟩
      all_goals (try simp only [h2, h3, h4, h5, h6, h7, h8, h9, h10, h11, h12, h13, h14, h15, h16, h17, h18, h19, h20, h21, h22, h23, h24, h25, h26, h27, h28, m1, m2, m3, hdv, upd_delay, hp, kJ, kU, inCycle, if_true])
      all_goals (first | assumption | omega | skip)
      · intro hf; have := dfull hf; omega

theorem day_tick_tank (eps per delay : Int) (s : Loop) (h : Inv eps s) (hd : DayInv eps per delay s) (hst : Static eps per delay)
    (hp : s.phase = .tank) (j0 j1 j2 : Int)
    (hj0 : 0 ≤ j0 ∧ j0 ≤ eps) (hj1 : 0 ≤ j1 ∧ j1 ≤ eps) (hj2 : 0 ≤ j2 ∧ j2 ≤ eps) :
    DayInv eps per delay (ecoStep eps s (.tick j0 j1 j2)).1 := by
  have hpoll := cfg_poll
  have hcd := cfg_cd
  have hmin := cfg_minOn
  have hst' := hst
  obtain ⟨seps, seps5, sper1, sper2, sdl⟩ := hst'
  have hd' := hd
  obtain ⟨⟨heps, heps2, hdelay, hnext, hTc, hN, hoff, hon, htank, hNoff, hNP, hD, hRc, hNr, hplain, hW, hC, hW0, hJ0,
    hacc1, hub, hdays⟩, hWC, hcur0, hphase⟩ := h
  obtain ⟨dper, ddel, dpd, dP, didle, dN, dcyc, dJ, dfull, ddays, dseq⟩ := hd'
  simp only [hp, kJ, kU, inCycle] at dcyc dJ dfull
  have hsucc := succ_mul_eps s.gCyc eps
  rcases hphase with ⟨hc, _⟩ | ⟨hc, _⟩ | ⟨hc, _⟩ | ⟨_, hpump, htim, hcd', hacc2, hnr, hlt, hb⟩
  all_goals (try (rw [hp] at hc; cases hc))
  have ht0 : s.now ≤ max s.now s.due + j0 := by omega
  by_cases hr : s.eco.nextReset ≤ max s.now s.due + j0
  · rw [step_tank_reset eps s hp j0 j1 j2 hr]
    have hsp := doUpdate_reset (s.advance (max s.now s.due + j0)) eps 1 1 (by simpa using hr)
    have hsm := doUpdate_reset_more (s.advance (max s.now s.due + j0)) eps 1 1 (by simpa using hr)
    simp only [adv_now, adv_due, adv_phase, adv_pump, adv_on, adv_days, adv_full, adv_toN, adv_eco, adv_gTc, adv_gDc, adv_gNr,
      adv_gN, adv_gD, adv_gRc, adv_gJ, adv_gWoff, adv_gW, adv_gCredit, adv_gCyc, adv_gU, adv_gPlain] at hsp hsm
    simp only [polled]
    generalize (s.advance (max s.now s.due + j0)).doUpdate eps 1 1 = r at *
    obtain ⟨r1, r2, r3, r4, r5, r6, r7, r8, r9⟩ := hsp
    obtain ⟨m1, m2, m3, m4, m5, m6, m7⟩ := hsm
    have hDAY : DAY = 86400000000 := rfl
    have htlt : max s.now s.due + j0 < s.eco.nextReset + EcoConfig.pollDelayUs + eps := by
      rcases htim with ⟨hfl, hcl, hcz, hdue⟩ | ⟨hfl, hcl, hdue⟩
      · omega
      · rcases hnr with hnr | hnr
        · rw [hfl] at hnr; cases hnr
        · omega
    apply reload_day eps per delay r.1 j1 j2 hst hj1 hj2
    · rw [m1, dper]
    · rw [r8, ddel]
    · rw [m2, dpd]
    · exact r7
    · exact r3
    · exact r4
    · exact m5
    · rw [r6, r2]; omega
    · rw [r6, r2]; omega
    · intro d hdm
      rw [r9] at hdm
      rcases List.mem_cons.mp hdm with hdm | hdm
      · subst hdm
        exact closed_rec eps per delay s (max s.now s.due + j0) _ hst hd hplain hN hRc hNr (Or.inr (Or.inr hp)) ht0 htlt
      · exact ddays d hdm
    · intro d hdm
      rw [r9] at hdm
      rcases dropLast_cons_mem _ _ _ hdm with ⟨hne, hdm⟩ | hdm
      · subst hdm
        rcases dseq.1 with hh | hh
        · exact absurd hh hne
        · exact hh
      · exact dseq.2 d hdm
  · have hsp := doUpdate_noreset (s.advance (max s.now s.due + j0)) eps 1 1 (by simpa using hr)
    have hsm := doUpdate_noreset_more (s.advance (max s.now s.due + j0)) eps 1 1 (by simpa using hr)
    simp only [adv_now, adv_due, adv_phase, adv_pump, adv_on, adv_days, adv_full, adv_toN, adv_eco, adv_gTc, adv_gDc, adv_gNr,
      adv_gN, adv_gD, adv_gRc, adv_gJ, adv_gWoff, adv_gW, adv_gCredit, adv_gCyc, adv_gU, adv_gPlain, hpump,
      if_true] at hsp hsm
    have hdur : (s.eco.filtration.update (max s.now s.due + j0) 1 1).duration ≤ s.eco.filtration.duration + (max s.now s.due + j0 - s.now) := by
      rcases htim with ⟨hfl, hcl, hcz, hdue⟩ | ⟨hfl, hcl, hdue⟩ <;> simp only [Timer.update, hfl, scale_one] <;> omega
    generalize hdv : (s.eco.filtration.update (max s.now s.due + j0) 1 1).duration = dv at hdur
    cases he : (polled eps s j0 1 1).eco.elapsedOn
    · rw [step_tank_stay eps s hp j0 j1 j2 hr he]
      clear he
      simp only [polled]
      generalize (s.advance (max s.now s.due + j0)).doUpdate eps 1 1 = r at *
      obtain ⟨h1, h2, h3, h4, h5, h6, h7, h8, h9, h10, h11, h12, h13, h14, h15, h16, h17, h18, h19, h20, h21, h22, h23, h24, h25, h26, h27, h28⟩ := hsp
      obtain ⟨m1, m2, m3, m4, m5⟩ := hsm
      refine ⟨?_, ?_, ?_, ?_, ?_, ?_, ?_, ?_, ?_, ?_, ?_⟩
      all_goals (try simp only [h2, h3, h4, h5, h6, h7, h8, h9, h10, h11, h12, h13, h14, h15, h16, h17, h18, h19, h20, h21, h22, h23, h24, h25, h26, h27, h28, m1, m2, m3, hdv, upd_delay, hp, kJ, kU, inCycle])
      all_goals (first | assumption | omega | skip)
      · intro hf; have := dfull hf; omega
    · rw [step_tank_go eps s hp j0 j1 j2 hr he]
      clear he
      simp only [polled]
      generalize (s.advance (max s.now s.due + j0)).doUpdate eps 1 1 = r at *
      obtain ⟨h1, h2, h3, h4, h5, h6, h7, h8, h9, h10, h11, h12, h13, h14, h15, h16, h17, h18, h19, h20, h21, h22, h23, h24, h25, h26, h27, h28⟩ := hsp
      obtain ⟨m1, m2, m3, m4, m5⟩ := hsm
      simp only [Loop.enterWaiting, Loop.advance, EcoMode.clear, EcoMode.setCurrent, Timer.clear, Timer.setDelay]
      refine ⟨?_, ?_, ?_, ?_, ?_, ?_, ?_, ?_, ?_, ?_, ?_⟩
      all_goals (try simp only [h2, h3, h4, h5, h6, h7, h8, h9, h10, h11, h12, h13, h14, h15, h16, h17, h18, h19, h20, h21, h22, h23, h24, h25, h26, h27, h28, m1, m2, m3, hdv, upd_delay, hp, kJ, kU, inCycle, if_true])
      all_goals (first | assumption | omega | skip)
      · intro hf; have := dfull hf; omega

theorem day_tick_compute (eps per delay : Int) (s : Loop) (h : Inv eps s) (hd : DayInv eps per delay s) (hst : Static eps per delay)
    (hp : s.phase = .compute) (j0 j1 j2 : Int) (hj0 : 0 ≤ j0 ∧ j0 ≤ eps) :
    DayInv eps per delay (ecoStep eps s (.tick j0 j1 j2)).1 := by
  have hpoll := cfg_poll
  have hcd := cfg_cd
  obtain ⟨seps, seps5, sper1, sper2, sdl⟩ := hst
  obtain ⟨⟨heps, heps2, hdelay, hnext, hTc, hN, hoff, hon, htank, hNoff, hNP, hD, hRc, hNr, hplain, hW, hC, hW0, hJ0,
    hacc1, hub, hdays⟩, hWC, hcur0, hphase⟩ := h
  obtain ⟨dper, ddel, dpd, dP, didle, dN, dcyc, dJ, dfull, ddays, dseq⟩ := hd
  simp only [hp, kJ, kU, inCycle] at dcyc dJ dfull
  rcases hphase with ⟨_, c1, c2, c3, c4, c5, c6, c7, c8, c9, c10⟩ | ⟨hc, _⟩ | ⟨hc, _⟩ | ⟨hc, _⟩
  all_goals (try (rw [hp] at hc; cases hc))
  cases htn : s.toNormal
  · rw [step_compute_waiting eps s hp htn]
    simp only [Loop.enterWaiting, Loop.advance, EcoMode.clear, EcoMode.setCurrent, Timer.clear, Timer.setDelay]
    refine ⟨?_, ?_, ?_, ?_, ?_, ?_, ?_, ?_, ?_, ?_, ?_⟩
    all_goals (try simp only [kJ, kU, inCycle])
    all_goals (first | assumption | omega | skip)
    · intro hf; have := dfull hf; refine ⟨?_, ?_, ?_, ?_, ?_⟩ <;> first | omega | (split <;> omega)
  · rw [step_compute_normal eps s hp htn]
    simp only [Loop.enterNormal, Loop.advance, EcoMode.clear, EcoMode.setCurrent, Timer.clear, Timer.setDelay]
    refine ⟨?_, ?_, ?_, ?_, ?_, ?_, ?_, ?_, ?_, ?_, ?_⟩
    all_goals (try simp only [kJ, kU, inCycle])
    all_goals (first | assumption | omega | skip)
    · intro hf; have := dfull hf; refine ⟨?_, ?_, ?_, ?_, ?_⟩ <;> first | omega | (split <;> omega)

theorem day_step (eps per delay : Int) (s : Loop) (h : Inv eps s) (hd : DayInv eps per delay s) (hst : Static eps per delay)
    (e : Ev) (he : TickOK eps e) : DayInv eps per delay (ecoStep eps s e).1 := by
  cases e with
  | tick j0 j1 j2 =>
    obtain ⟨a1, a2, a3, a4, a5, a6⟩ := he
    rcases not_heating_of_inv eps s h with hp | hp | hp | hp
    · exact day_tick_compute eps per delay s h hd hst hp j0 j1 j2 ⟨a1, a2⟩
    · exact day_tick_waiting eps per delay s h hd hst hp j0 j1 j2 ⟨a1, a2⟩ ⟨a3, a4⟩ ⟨a5, a6⟩
    · exact day_tick_normal eps per delay s h hd hst hp j0 j1 j2 ⟨a1, a2⟩ ⟨a3, a4⟩ ⟨a5, a6⟩
    · exact day_tick_tank eps per delay s h hd hst hp j0 j1 j2 ⟨a1, a2⟩ ⟨a3, a4⟩ ⟨a5, a6⟩
  | heat dt => exact he.elim
  | heatEnd dt => exact he.elim

theorem day_run (eps per delay : Int) (hst : Static eps per delay) (evs : List Ev) :
    ∀ (s : Loop), Inv eps s → DayInv eps per delay s → (∀ e ∈ evs, TickOK eps e) →
      Inv eps (ecoFinal eps s evs) ∧ DayInv eps per delay (ecoFinal eps s evs) := by
  induction evs with
  | nil => intro s h hd _; exact ⟨h, hd⟩
  | cons e es ih =>
    intro s h hd hall
    show Inv eps (ecoFinal eps (ecoStep eps s e).1 es) ∧ DayInv eps per delay (ecoFinal eps (ecoStep eps s e).1 es)
    have he := hall e (List.mem_cons_self ..)
    exact ih _ (step_inv eps s h e he) (day_step eps per delay s h hd hst e he) (fun x hx => hall x (List.mem_cons_of_mem _ hx))

/-- the state in which the pool enters eco (before the first reset: the current day is not a whole day) -/
theorem day_start (eps : Int) (p : Params) (hst : Static eps p.period (p.dailyS * US)) (hel : 0 ≤ p.elapsedS)
    (hs : p.start < nextResetAt p.start p.resetHour) : DayInv eps p.period (p.dailyS * US) (Loop.start eps p).1 := by
  have hk : EcoConfig.keepElapsed = true := by decide
  have hU : US = 1000000 := rfl
  have hcd := cfg_cd
  obtain ⟨seps, seps5, sper1, sper2, sdl⟩ := hst
  obtain ⟨x, hx, e1, e7, e8, e2, e3, e4, e5, e6⟩ : ∃ x : Loop, (Loop.start eps p).1 = (x.enterCompute eps).1 ∧ x.now = p.start
      ∧ x.full = false ∧ x.days = [] ∧ x.eco.nextReset = nextResetAt p.start p.resetHour ∧ x.eco.period = p.period
      ∧ x.eco.filtration.delay = p.dailyS * US ∧ x.eco.periodDuration = divNearest (p.dailyS * US) p.period
      ∧ x.eco.filtration.duration = p.elapsedS * US := by
    refine ⟨_, rfl, rfl, rfl, rfl, ?_, ?_, ?_, ?_, ?_⟩ <;>
      simp [Params.ecoMode, EcoMode.restore, EcoMode.fltDuration, hk, EcoMode.setDaily, EcoMode.recompute,
        EcoMode.setResetHour, EcoMode.setTank, EcoMode.setPeriod, Timer.setDuration, Timer.setDelay]
  rw [hx]
  obtain ⟨f1, f2, f3, f4, f5, f6, f7, f8, f9, f10, f11, f12, f13, f14, f15, f16, f17, f18, f19, f20⟩ :=
    enterCompute_fields eps x (by rw [e1, e2]; exact hs)
  have hel' : 0 ≤ p.elapsedS * US := Int.mul_nonneg hel (by omega)
  have hNle := periods_le_period (p.dailyS * US) p.period (max 0 (p.dailyS * US - p.elapsedS * US)) sdl sper1 sper2 (by omega)
  refine ⟨?_, ?_, ?_, f20, ?_, ?_, ?_, ?_, ?_, ?_, ?_⟩
  · rw [f17, e3]
  · rw [f19, e4]
  · rw [f18, e5]
  · rw [f9, f8, f2, f7]; omega
  · rw [f10, e4, e6, e5]; exact hNle
  · rw [f14, f1]; simp only [inCycle]; rw [f10]; omega
  · rw [f13, f14, f1]; simp only [kJ]; omega
  · intro hf; rw [f3, e7] at hf; cases hf
  · rw [f5, e8]; intro r hr; cases hr
  · rw [f5, e8]; exact ⟨Or.inl rfl, fun r hr => by cases hr⟩

/-! ### the closed-form slack -/

/-- slack of the lower bound of a whole tick-only day: compute delay + the reset poll (15 s), one poll of overshoot per
pause (`per * 10 s`), the rounding of the plan (`per` µs), handler lateness (`(7 * per + 12) * eps`) -/
def slackLo (per eps : Int) : Int := 15000000 + per * 10000001 + 7 * (per * eps) + 12 * eps
/-- slack of the upper bound: one poll of overshoot of the quota, the compute delay, `(4 * per + 9) * eps` -/
def slackHi (per eps : Int) : Int := 15000000 + 4 * (per * eps) + 9 * eps

theorem slack_le_180 (per eps : Int) (he : 0 ≤ eps) (he2 : eps ≤ 600000) (hp1 : 1 ≤ per) (hp2 : per ≤ 10) :
    slackHi per eps ≤ slackLo per eps ∧ slackLo per eps ≤ 164200010 ∧ slackLo per eps < 180 * US
    ∧ (eps ≤ 500000 → slackLo per eps ≤ 156000010) := by
  have hU : US = 1000000 := rfl
  have h1 : per * eps ≤ 10 * eps := mul_eps_le per 10 eps hp2 he
  have h0 : 0 ≤ per * eps := Int.mul_nonneg (by omega) he
  unfold slackLo slackHi
  refine ⟨?_, ?_, ?_, ?_⟩ <;> omega

/-- what `DayOK` (Proofs/EcoLoop.lean) and `DayClosed` give together for a whole day -/
theorem day_bounds (eps per delay : Int) (r : DayRec) (hst : Static eps per delay) (hok : DayOK r) (hcl : DayClosed eps per delay r)
    (hfull : r.full = true) :
    min delay DAY - slackLo per eps ≤ r.on ∧ r.on ≤ min delay DAY + slackHi per eps := by
  obtain ⟨heps, heps5, hper1, hper2, hdl⟩ := hst
  obtain ⟨hpl, hcl⟩ := hcl
  obtain ⟨o1, o2, o3, o4⟩ := hok hfull hpl
  obtain ⟨c1, c2, c3, c4, c5, c6, c7⟩ := hcl hfull
  have hpoll := cfg_poll
  have hcd := cfg_cd
  have hU : US = 1000000 := rfl
  have hDAY : DAY = 86400000000 := rfl
  have h1 : r.n * (EcoConfig.pollDelayUs + eps) ≤ per * (EcoConfig.pollDelayUs + eps) :=
    Int.mul_le_mul_of_nonneg_right c2 (by omega)
  have h2 : per * (EcoConfig.pollDelayUs + eps) = per * EcoConfig.pollDelayUs + per * eps := Int.mul_add _ _ _
  have h0 : 0 ≤ per * eps := Int.mul_nonneg (by omega) heps
  unfold slackOf at c5
  unfold slackLo slackHi
  rw [hpoll] at h1 h2 c5 c6 c7
  constructor <;> omega

end Poupool.Eco
