/-
Helper lemmas for property C19, protocol part: what a dispatch prints, the serial step at a newline.
-/
import Poupool.Proofs.FirmwareMotor

namespace Poupool.Firmware
open Poupool.FirmwareConst

/-- bytes of an ASCII string literal -/
def ascii (s : String) : List Nat := s.toList.map Char.toNat

/-! ### the serial step at the newline of a stored short line -/

theorem serialStep_newline_line (s : St) (line : List Nat) (hidx : s.idx = line.length)
    (hbuf : s.buf = line ++ List.replicate (32 - line.length) 0) (hlen : line.length ≤ 30) :
    serialStep s 10 = dispatchCore (bufStore s 0) ∧
    cstr (bufStore s 0) = line.takeWhile (fun x => x != 0) ∧
    bufStore s 0 = { s with idx := s.idx + 1 } := by
  have hset : (line ++ List.replicate (32 - line.length) 0).set line.length 0
      = line ++ List.replicate (32 - line.length) 0 := by
    have : 32 - line.length = (31 - line.length) + 1 := by omega
    rw [this, set_append_replicate]; simp [List.replicate_succ]
  have hst : bufStore s 0 = { s with idx := s.idx + 1 } := by
    unfold bufStore bufWrite
    rw [if_pos (by simp only [bufSize]; omega)]
    rw [hidx, hbuf, hset]
  have hz : (bufStore s 0).buf.any (fun x => x == 0) = true := by
    rw [hst]
    show s.buf.any (fun x => x == 0) = true
    rw [hbuf, List.any_eq_true]
    exact ⟨0, by
      have : 32 - line.length = (31 - line.length) + 1 := by omega
      rw [this]; simp [List.replicate_succ], by simp⟩
  refine ⟨?_, ?_, hst⟩
  · have h1 : ¬ s.idx = bufFullAt := by simp only [bufFullAt]; omega
    have h2 : ¬ s.idx ≥ bufIgnoreAt := by simp only [bufIgnoreAt]; omega
    unfold serialStep bufAdd
    simp only [h1, h2, if_false, if_true, show ¬ ((10 : Nat) = 13) by decide]
    unfold dispatch
    rw [if_pos hz]
  · rw [hst]
    show s.buf.takeWhile (fun x => x != 0) = _
    rw [hbuf]
    have : 32 - line.length = (31 - line.length) + 1 := by omega
    rw [this, takeWhile_append_zeros]

/-- after any events whose serial bytes are a short line (no newline yet) the buffer holds exactly that line -/
theorem run_line_buffer (s : St) (line : List Nat) (evs : List Ev) (hs : Empty (rbOf s)) (hlen : line.length ≤ 30)
    (hc : ∀ c ∈ line, c ≠ 10 ∧ c ≠ 13) (hev : bytesOf evs = line) :
    (run s evs).idx = line.length ∧ (run s evs).buf = line ++ List.replicate (32 - line.length) 0 := by
  obtain ⟨h1, _⟩ := rbFeed_line_le31 (rbOf s) line 10 hs (by omega) hc (by decide) (Or.inr rfl)
  have e := rbOf_run evs s
  rw [hev, h1] at e
  exact ⟨congrArg RB.idx e, congrArg RB.buf e⟩

/-! ### the reply table: what a dispatch prints and does, per command -/

theorem pct_emit (s : St) (b : List Nat) : pct (emit s b) = pct s := rfl

theorem setDirection_out (s : St) (d : Dir) : (setDirection s d).out = s.out := by
  cases d <;> simp only [setDirection] <;> (try split) <;> rfl

theorem setDirection_dir_emitLn (s : St) (b : List Nat) (d : Dir) :
    (setDirection (emitLn s b) d).dir = (setDirection s d).dir := by
  cases d
  · simp only [setDirection, emitLn]
    by_cases h : s.lim ≠ Lim.none ∨ s.pos < s.opn <;> simp only [h, if_true, if_false]
  · simp only [setDirection, emitLn]
    by_cases h : s.lim ≠ Lim.none ∨ s.pos > s.close <;> simp only [h, if_true, if_false]
  · rfl

theorem debugPrint_out (s : St) :
    (debugPrint s).out = s.out ++ ([112, 111, 115, 105, 116, 105, 111, 110, 61] ++ decInt s.pos ++ crlf ++
      ([111, 112, 101, 110, 61] ++ decInt s.opn ++ crlf) ++ ([99, 108, 111, 115, 101, 61] ++ decInt s.close ++ crlf)) := by
  simp [debugPrint, debugFields, emit, emitLn, fieldVal, List.append_assoc]

theorem dispatchCore_table (s : St) :
    (cstr s = ascii "open" →
      (dispatchCore s).out = s.out ++ ascii "open\r\n***\r\n" ∧ (dispatchCore s).dir = (setDirection s .opn).dir) ∧
    (cstr s = ascii "close" →
      (dispatchCore s).out = s.out ++ ascii "close\r\n***\r\n" ∧ (dispatchCore s).dir = (setDirection s .cls).dir) ∧
    (cstr s = ascii "stop" →
      (dispatchCore s).out = s.out ++ ascii "stop\r\n***\r\n" ∧ (dispatchCore s).dir = .stop) ∧
    (cstr s = ascii "position" →
      (dispatchCore s).out = s.out ++ (ascii "position " ++ decNat (pct s) ++ ascii "\r\n***\r\n") ∧
      (dispatchCore s).dir = s.dir) ∧
    (cstr s = ascii "water" →
      (dispatchCore s).out = s.out ++ (ascii "water " ++ decNat s.water ++ ascii "\r\n***\r\n") ∧
      (dispatchCore s).dir = s.dir) ∧
    (cstr s = ascii "reset" →
      (dispatchCore s).out = s.out ++ ascii "reset\r\n***\r\n" ∧ (dispatchCore s).pos = 0) ∧
    (cstr s = ascii "debug" →
      (dispatchCore s).out = s.out ++ (ascii "debug\r\nposition=" ++ decInt s.pos ++ ascii "\r\nopen=" ++ decInt s.opn
        ++ ascii "\r\nclose=" ++ decInt s.close ++ ascii "\r\n***\r\n")) ∧
    (cstr s ∉ [ascii "open", ascii "close", ascii "stop", ascii "position", ascii "water", ascii "debug", ascii "reset"] →
      (dispatchCore s).out = s.out ++ (ascii "error command " ++ cstr s ++ ascii "\r\n***\r\n") ∧
      (dispatchCore s).dir = s.dir) := by
  have a1 : ascii "open" = [111, 112, 101, 110] := by decide
  have a2 : ascii "close" = [99, 108, 111, 115, 101] := by decide
  have a3 : ascii "stop" = [115, 116, 111, 112] := by decide
  have a4 : ascii "position" = [112, 111, 115, 105, 116, 105, 111, 110] := by decide
  have a5 : ascii "water" = [119, 97, 116, 101, 114] := by decide
  have a6 : ascii "debug" = [100, 101, 98, 117, 103] := by decide
  have a7 : ascii "reset" = [114, 101, 115, 101, 116] := by decide
  have b1 : ascii "open\r\n***\r\n" = [111, 112, 101, 110] ++ crlf ++ (terminator ++ crlf) := by decide
  have b2 : ascii "close\r\n***\r\n" = [99, 108, 111, 115, 101] ++ crlf ++ (terminator ++ crlf) := by decide
  have b3 : ascii "stop\r\n***\r\n" = [115, 116, 111, 112] ++ crlf ++ (terminator ++ crlf) := by decide
  have b4 : ascii "position " = [112, 111, 115, 105, 116, 105, 111, 110, 32] := by decide
  have b5 : ascii "water " = [119, 97, 116, 101, 114, 32] := by decide
  have b6 : ascii "\r\n***\r\n" = crlf ++ (terminator ++ crlf) := by decide
  have b7 : ascii "reset\r\n***\r\n" = [114, 101, 115, 101, 116] ++ crlf ++ (terminator ++ crlf) := by decide
  have b8 : ascii "error command " = [101, 114, 114, 111, 114, 32, 99, 111, 109, 109, 97, 110, 100, 32] := by decide
  have b9 : ascii "debug\r\nposition=" = [100, 101, 98, 117, 103] ++ crlf ++ [112, 111, 115, 105, 116, 105, 111, 110, 61] := by decide
  have b10 : ascii "\r\nopen=" = crlf ++ [111, 112, 101, 110, 61] := by decide
  have b11 : ascii "\r\nclose=" = crlf ++ [99, 108, 111, 115, 101, 61] := by decide
  refine ⟨?_, ?_, ?_, ?_, ?_, ?_, ?_, ?_⟩
  · intro h
    rw [a1] at h; rw [b1]
    unfold dispatchCore
    simp only [h, findCmd, commands, if_true, List.foldl_cons, List.foldl_nil, runOp, bufClear]
    refine ⟨?_, setDirection_dir_emitLn _ _ _⟩
    show (emitLn (setDirection (emitLn s _) .opn) terminator).out = _
    simp [emitLn, setDirection_out, List.append_assoc]
  · intro h
    rw [a2] at h; rw [b2]
    unfold dispatchCore
    simp only [h, findCmd, commands, bufClear]
    simp only [show ¬ ([99, 108, 111, 115, 101] : List Nat) = [111, 112, 101, 110] by decide, if_false, if_true,
      List.foldl_cons, List.foldl_nil, runOp]
    refine ⟨?_, setDirection_dir_emitLn _ _ _⟩
    show (emitLn (setDirection (emitLn s _) .cls) terminator).out = _
    simp [emitLn, setDirection_out, List.append_assoc]
  · intro h
    rw [a3] at h; rw [b3]
    have hf : findCmd [115, 116, 111, 112] commands = [.println [115, 116, 111, 112], .setStop] := by decide
    unfold dispatchCore
    rw [h, hf]
    refine ⟨?_, rfl⟩
    simp [runOp, emitLn, bufClear, setDirection, List.append_assoc]
  · intro h
    rw [a4] at h; rw [b4, b6]
    have hf : findCmd [112, 111, 115, 105, 116, 105, 111, 110] commands
        = [.print [112, 111, 115, 105, 116, 105, 111, 110, 32], .printlnPct] := by decide
    unfold dispatchCore
    rw [h, hf]
    refine ⟨?_, rfl⟩
    simp [runOp, emitLn, emit, bufClear, pct, pctLong, List.append_assoc]
  · intro h
    rw [a5] at h; rw [b5, b6]
    have hf : findCmd [119, 97, 116, 101, 114] commands = [.print [119, 97, 116, 101, 114, 32], .printlnWater] := by decide
    unfold dispatchCore
    rw [h, hf]
    refine ⟨?_, rfl⟩
    simp [runOp, emitLn, emit, bufClear, List.append_assoc]
  · intro h
    rw [a7] at h; rw [b7]
    have hf : findCmd [114, 101, 115, 101, 116] commands = [.println [114, 101, 115, 101, 116], .reset] := by decide
    unfold dispatchCore
    rw [h, hf]
    refine ⟨?_, rfl⟩
    simp [runOp, emitLn, bufClear, List.append_assoc]
  · intro h
    rw [a6] at h; rw [b9, b10, b11, b6]
    have hf : findCmd [100, 101, 98, 117, 103] commands = [.println [100, 101, 98, 117, 103], .debug] := by decide
    unfold dispatchCore
    rw [h, hf]
    simp only [List.foldl_cons, List.foldl_nil, runOp, bufClear]
    show (emitLn (debugPrint (emitLn s _)) terminator).out = _
    rw [show (emitLn (debugPrint (emitLn s [100, 101, 98, 117, 103])) terminator).out
        = (debugPrint (emitLn s [100, 101, 98, 117, 103])).out ++ (terminator ++ crlf) from rfl, debugPrint_out]
    simp [emitLn, List.append_assoc]
  · intro h
    rw [a1, a2, a3, a4, a5, a6, a7] at h
    simp only [List.mem_cons, List.not_mem_nil, or_false, not_or] at h
    obtain ⟨h1, h2, h3, h4, h5, h6, h7⟩ := h
    rw [b8, b6]
    have hf : findCmd (cstr s) commands = errorOps := by
      simp only [findCmd, commands, h1, h2, h3, h4, h5, h6, h7, if_false]
    unfold dispatchCore
    rw [hf]
    refine ⟨?_, rfl⟩
    simp [errorOps, runOp, emitLn, emit, bufClear, cstr, List.append_assoc]

/-! ### decimal printing (`Print::print(unsigned long)`) and Python's `int()` -/

theorem decAux_acc (fuel : Nat) : ∀ (n : Nat) (acc : List Nat), decAux fuel n acc = decAux fuel n [] ++ acc := by
  induction fuel with
  | zero => intro n acc; simp [decAux]
  | succ f ih =>
    intro n acc
    unfold decAux
    by_cases h : n < 10
    · simp [h]
    · simp only [h, if_false]
      rw [ih (n / 10) ((48 + n % 10) :: acc), ih (n / 10) [48 + n % 10]]
      simp [List.append_assoc]

theorem decAux_fuel (f1 : Nat) : ∀ (f2 n : Nat) (acc : List Nat), n < f1 → n < f2 → decAux f1 n acc = decAux f2 n acc := by
  induction f1 with
  | zero => intro f2 n acc h; omega
  | succ f ih =>
    intro f2 n acc h1 h2
    cases f2 with
    | zero => omega
    | succ g =>
      unfold decAux
      by_cases h : n < 10
      · simp [h]
      · simp only [h, if_false]
        exact ih g (n / 10) _ (by omega) (by omega)

theorem decNat_small (n : Nat) (h : n < 10) : decNat n = [48 + n] := by
  unfold decNat decAux; simp [h]

theorem decNat_big (n : Nat) (h : ¬ n < 10) : decNat n = decNat (n / 10) ++ [48 + n % 10] := by
  unfold decNat
  conv => lhs; unfold decAux
  simp only [h, if_false]
  rw [decAux_acc, decAux_fuel n (n / 10 + 1) (n / 10) [] (by omega) (by omega)]

theorem decNat_digits (n : Nat) : decNat n ≠ [] ∧ ∀ d ∈ decNat n, 48 ≤ d ∧ d ≤ 57 := by
  induction n using Nat.strongRecOn with
  | _ n ih =>
    by_cases h : n < 10
    · rw [decNat_small n h]
      refine ⟨by simp, ?_⟩
      intro d hd
      simp only [List.mem_cons, List.not_mem_nil, or_false] at hd
      omega
    · rw [decNat_big n h]
      obtain ⟨_, i2⟩ := ih (n / 10) (by omega)
      refine ⟨by simp, ?_⟩
      intro d hd
      simp only [List.mem_append, List.mem_cons, List.not_mem_nil, or_false] at hd
      rcases hd with hd | hd
      · exact i2 d hd
      · omega

theorem pyDigits_append (l r : List Nat) : ∀ acc : Option Nat, (∀ d ∈ l, 48 ≤ d ∧ d ≤ 57) →
    pyDigits (l ++ r) acc = pyDigits r (if l = [] then acc else pyDigits l acc) := by
  induction l with
  | nil => intro acc _; simp
  | cons c cs ih =>
    intro acc h
    have hc := h c (List.mem_cons_self ..)
    simp only [List.cons_append, pyDigits, hc, and_self, if_true, reduceCtorEq, if_false]
    rw [ih _ (fun d hd => h d (List.mem_cons_of_mem _ hd))]
    by_cases he : cs = []
    · simp [he, pyDigits]
    · simp [he]

/-- `int()` of what `print()` printed -/
theorem pyDigits_decNat (n : Nat) : pyDigits (decNat n) none = some n := by
  induction n using Nat.strongRecOn with
  | _ n ih =>
    by_cases h : n < 10
    · rw [decNat_small n h]
      have : 48 ≤ 48 + n ∧ 48 + n ≤ 57 := by omega
      simp [pyDigits, this]
    · rw [decNat_big n h, pyDigits_append _ _ _ (decNat_digits (n / 10)).2]
      simp only [(decNat_digits (n / 10)).1, if_false, ih (n / 10) (by omega)]
      have : 48 ≤ 48 + n % 10 ∧ 48 + n % 10 ≤ 57 := by omega
      simp only [pyDigits, this, and_self, if_true, Option.getD_some]
      congr 1
      omega

theorem digit_not_space (d : Nat) (h : 48 ≤ d ∧ d ≤ 57) : pyIsSpace d = false := by
  unfold pyIsSpace
  simp only [Bool.or_eq_false_iff, Bool.and_eq_false_iff, decide_eq_false_iff_not]
  omega

/-! ### the Python text layer on a firmware reply -/

theorem pyNewlines_no_cr (l r : List Nat) (h : 13 ∉ l) : pyNewlines (l ++ r) = l ++ pyNewlines r := by
  induction l with
  | nil => rfl
  | cons c cs ih =>
    have hc : c ≠ 13 := fun e => h (e ▸ List.mem_cons_self ..)
    have hcs : 13 ∉ cs := fun e => h (List.mem_cons_of_mem _ e)
    simp only [List.cons_append]
    rw [pyNewlines.eq_def]
    split
    · rename_i heq; simp at heq
    · rename_i heq; simp only [List.cons.injEq] at heq; exact absurd heq.1.symm (by omega)
    · rename_i heq; simp only [List.cons.injEq] at heq; exact absurd heq.1.symm (by omega)
    · rename_i c' r' _ _ heq
      simp only [List.cons.injEq] at heq
      rw [← heq.1, ← heq.2, ih hcs]

theorem pyReadline_line (l r : List Nat) (h : 10 ∉ l) : pyReadline (l ++ 10 :: r) = (l ++ [10], r) := by
  induction l with
  | nil => simp [pyReadline]
  | cons c cs ih =>
    have hc : c ≠ 10 := fun e => h (e ▸ List.mem_cons_self ..)
    have hcs : 10 ∉ cs := fun e => h (List.mem_cons_of_mem _ e)
    simp only [List.cons_append, pyReadline, hc, if_false, ih hcs]

/-- `strip()` of a line that starts and ends with non-blank characters removes just the newline -/
theorem pyStrip_line (c0 z : Nat) (rest zs : List Nat) (L : List Nat) (hL : L = c0 :: rest) (hR : L.reverse = z :: zs)
    (h0 : pyIsSpace c0 = false) (hz : pyIsSpace z = false) : pyStrip (L ++ [10]) = L ∧ pyStrip L = L := by
  have h10 : pyIsSpace 10 = true := by decide
  constructor
  · unfold pyStrip
    rw [hL, List.cons_append, List.dropWhile_cons, h0]
    simp only [Bool.false_eq_true, if_false]
    rw [← List.cons_append, ← hL, List.reverse_append, hR]
    simp only [List.reverse_cons, List.reverse_nil, List.nil_append, List.singleton_append, List.dropWhile_cons, h10,
      if_true, hz, Bool.false_eq_true, if_false]
    rw [← List.reverse_cons, ← hR, List.reverse_reverse]
  · unfold pyStrip
    rw [hL, List.dropWhile_cons, h0]
    simp only [Bool.false_eq_true, if_false]
    rw [← hL, hR, List.dropWhile_cons, hz]
    simp only [Bool.false_eq_true, if_false]
    rw [← hR, List.reverse_reverse]

/-- The parser on a numeric reply `P ++ digits`, `P = "<cmd> "`. -/
theorem pyParse_numeric (cmd P D ps : List Nat) (c0 : Nat) (hP : P = c0 :: ps)
    (hc0 : pyIsSpace c0 = false) (hc42 : c0 ≠ 42) (hP10 : 10 ∉ P) (hcmd : cmd <+: P)
    (hD : ∀ d ∈ D, 48 ≤ d ∧ d ≤ 57) (hDne : D ≠ []) :
    pyParse cmd (P ++ D ++ [10, 42, 42, 42, 10]) = (some (P ++ D), []) := by
  have h10 : 10 ∉ P ++ D := by
    intro h
    rcases List.mem_append.mp h with h | h
    · exact hP10 h
    · have := hD 10 h; omega
  have hrl : pyReadline (P ++ D ++ [10, 42, 42, 42, 10]) = (P ++ D ++ [10], [42, 42, 42, 10]) :=
    pyReadline_line (P ++ D) [42, 42, 42, 10] h10
  obtain ⟨z, zs, hR⟩ : ∃ z zs, (P ++ D).reverse = z :: zs ∧ pyIsSpace z = false := by
    cases hDr : D.reverse with
    | nil => exact absurd (List.reverse_eq_nil_iff.mp hDr) hDne
    | cons z zs =>
      refine ⟨z, zs ++ P.reverse, by rw [List.reverse_append, hDr]; rfl, ?_⟩
      have : z ∈ D := by rw [← List.mem_reverse, hDr]; exact List.mem_cons_self ..
      exact digit_not_space z (hD z this)
  obtain ⟨hR, hz⟩ := hR
  obtain ⟨hs1, _⟩ := pyStrip_line c0 z (ps ++ D) zs (P ++ D) (by rw [hP]; rfl) hR hc0 hz
  have hnp : ([42, 42, 42] : List Nat).isPrefixOf (P ++ D ++ [10]) = false := by
    rw [hP]; simp [List.isPrefixOf]; intro h; exact absurd h.symm hc42
  have hrl2 : pyReadline [42, 42, 42, 10] = ([42, 42, 42, 10], []) := by decide
  have hp2 : ([42, 42, 42] : List Nat).isPrefixOf [42, 42, 42, 10] = true := by decide
  have hs2 : pyStrip [42, 42, 42, 10] = [42, 42, 42] := by decide
  have hpre : cmd.isPrefixOf (P ++ D) = true := by
    rw [List.isPrefixOf_iff_prefix]; exact hcmd.trans (List.prefix_append P D)
  unfold pyParse
  simp only [hrl]
  rw [show (20 : Nat) = 19 + 1 from rfl, pyReceive, if_neg (by rw [hnp]; exact Bool.false_ne_true), hrl2, hs1,
    show (19 : Nat) = 18 + 1 from rfl, pyReceive, if_pos hp2]
  simp only [hs2, hpre, and_self, if_true]

theorem pyRemoveAll_absent (c0 : Nat) (ps : List Nat) (l : List Nat) : ∀ fuel : Nat, (∀ c ∈ l, c ≠ c0) →
    pyRemoveAll (c0 :: ps) fuel l = l := by
  induction l with
  | nil => intro fuel _; cases fuel <;> simp [pyRemoveAll]
  | cons c cs ih =>
    intro fuel h
    cases fuel with
    | zero => simp [pyRemoveAll]
    | succ f =>
      have hc : c ≠ c0 := h c (List.mem_cons_self ..)
      have : (c0 :: ps).isPrefixOf (c :: cs) = false := by
        simp [List.isPrefixOf]; intro e; exact absurd e.symm hc
      simp only [pyRemoveAll, this, Bool.false_eq_true, and_false, if_false]
      rw [ih f (fun x hx => h x (List.mem_cons_of_mem _ hx))]

/-- `int(reply.replace("<cmd> ", ""))` of a numeric reply is the number the firmware printed -/
theorem pyValue_numeric (cmd : List Nat) (c0 : Nat) (ps : List Nat) (n : Nat) (hcmd : cmd ++ [32] = c0 :: ps)
    (hc0 : c0 < 48 ∨ 57 < c0) :
    pyValue cmd (some (cmd ++ [32] ++ decNat n)) = some (n : Int) := by
  obtain ⟨hne, hdig⟩ := decNat_digits n
  have hlen : (c0 :: ps).length = (cmd ++ [32]).length := by rw [hcmd]
  unfold pyValue
  rw [hcmd]
  simp only [List.cons_append]
  have hpre : (c0 :: ps).isPrefixOf (c0 :: (ps ++ decNat n)) = true := by
    rw [List.isPrefixOf_iff_prefix]; exact List.prefix_append (c0 :: ps) (decNat n)
  rw [show (c0 :: (ps ++ decNat n)).length + 1 = ((ps ++ decNat n).length + 1) + 1 from rfl, pyRemoveAll]
  simp only [ne_eq, reduceCtorEq, not_false_eq_true, hpre, and_self, if_true]
  have hdrop : (c0 :: (ps ++ decNat n)).drop (c0 :: ps).length = decNat n := by
    rw [← List.cons_append, List.drop_left]
  rw [hdrop, pyRemoveAll_absent c0 ps (decNat n) _ (fun c hc => by have := hdig c hc; omega)]
  -- int(digits)
  cases hD : decNat n with
  | nil => exact absurd hD hne
  | cons d ds =>
    have hd := hdig d (by rw [hD]; exact List.mem_cons_self ..)
    obtain ⟨z, zs, hR, hz⟩ : ∃ z zs, (d :: ds).reverse = z :: zs ∧ pyIsSpace z = false := by
      cases hr : (d :: ds).reverse with
      | nil => simp at hr
      | cons z zs =>
        refine ⟨z, zs, rfl, ?_⟩
        have : z ∈ d :: ds := by rw [← List.mem_reverse, hr]; exact List.mem_cons_self ..
        exact digit_not_space z (hdig z (hD ▸ this))
    obtain ⟨_, hs⟩ := pyStrip_line d z ds zs (d :: ds) rfl hR (digit_not_space d hd) hz
    unfold pyInt
    rw [hs]
    simp only [show ¬ d = 45 by omega, show ¬ d = 43 by omega, if_false]
    rw [← hD, pyDigits_decNat]
    rfl

/-! ### small helpers of Properties/C19 -/

theorem clamp_range (q : Int) :
    0 ≤ (if q < 0 then 0 else if q > 100 then 100 else q) ∧ (if q < 0 then 0 else if q > 100 then 100 else q) ≤ 100 := by
  constructor <;> split <;> (try split) <;> omega

theorem newlines_numeric (P D : List Nat) (hP : 13 ∉ P) (hD : ∀ d ∈ D, 48 ≤ d ∧ d ≤ 57) :
    pyNewlines (P ++ D ++ ascii "\r\n***\r\n") = P ++ D ++ [10, 42, 42, 42, 10] := by
  have h13 : 13 ∉ P ++ D := by
    intro h
    rcases List.mem_append.mp h with h | h
    · exact hP h
    · have := hD 13 h; omega
  rw [pyNewlines_no_cr _ _ h13]
  congr 1

/-- the witness: EEPROM (97, 0, 100); `open`; 4 encoder pulses inside the relay delay (the motor has just been
energised, 50 pulses/s nominal = 5 pulses in 100 ms); two loop iterations with a pulse; `stop`; 600 ms without pulses;
one more pulse; 4 s. -/
def raceWitness : List Ev :=
  [.byte 111, .byte 112, .byte 101, .byte 110, .delayPulses 4, .byte 10, .tick 20, .pulse, .tick 20,
   .byte 115, .byte 116, .byte 111, .byte 112, .byte 10, .tick 600, .adv 20, .pulse, .tick 4000]

end Poupool.Firmware
